"""C10 — async pipe: lossless ordered contiguous appends; cleanup flushes and returns (tbox::util::AsyncPipe)."""
import vlib
ID = 'C10'
LEAN_MODULES = ['TboxModel.C10.Props', 'TboxModel.C10.Replay']
EXE = 'c10'
MODE = 'trace'
THEOREMS = ['Tbox.C10.C10_stream', 'Tbox.C10.C10_per_thread_order', 'Tbox.C10.C10_callbacks_serial',
            'Tbox.C10.C10_blocks_wellformed', 'Tbox.C10.C10_buffers_bounded', 'Tbox.C10.C10_cleanup_flushes',
            'Tbox.C10.C10_cleanup_terminates', 'Tbox.C10.C10_lock_discipline', 'Tbox.C10.C10_footprint',
            'Tbox.C10.C10_stop_unlocked_counterexample', 'Tbox.C10.C10_cleanup_flushes_needs_quiescence', 'Tbox.C10.C10_blocks_shaped', 'Tbox.C10.C10_observable_accepted',
            'Tbox.C10.C10_reconstruction_certified', 'Tbox.C10.C10_complete', 'Tbox.C10.blockRule_pack', 'Tbox.C10.realize', 'Tbox.C10.C10_sink_may_append',
            'Tbox.C10.C10_nested_backpressure_self_deadlock', 'Tbox.C10.C10_reinit_fresh', 'Tbox.C10.stuck_after_exit',
            'Tbox.C10.C10_late_append_can_block_forever', 'Tbox.C10.Spec.parse_sound', 'Tbox.C10.exec_inv',
            # round 5: fault schedules (allocation failure), the API around a lifecycle, contract violations
            'Tbox.C10.C10_alloc_failure_safe', 'Tbox.C10.C10_alloc_failure_drops_exactly_the_rest', 'Tbox.C10.C10_alloc_failure_no_deadlock',
            'Tbox.C10.C10_alloc_failure_count_leak_counterexample', 'Tbox.C10.xexec_xinv', 'Tbox.C10.dead_forever',
            'Tbox.C10.C10_api_init_validates', 'Tbox.C10.C10_api_init_twice_refused', 'Tbox.C10.C10_api_init_twice_counterexample',
            'Tbox.C10.C10_api_fresh_lifecycle', 'Tbox.C10.C10_api_cleanup_idempotent', 'Tbox.C10.C10_api_init_threw_strands_buffers_counterexample',
            'Tbox.C10.C10_quiescent_after_cleanup', 'Tbox.C10.C10_sink_cannot_join_itself', 'Tbox.C10.C10_lockless_without_lock_counterexample',
            # round 6: per-thread order under allocation failure, step-level replay of recorded interleavings, exact-fill boundaries
            'Tbox.C10.C10_alloc_failure_per_thread_order', 'Tbox.C10.xexec_xprog', 'Tbox.C10.C10_alloc_failure_order_exact', 'Tbox.C10.xexec_xord', 'Tbox.C10.C10_replay_certified', 'Tbox.C10.C10_replay_sound',
            'Tbox.C10.C10_exact_fill_boundary']
SOURCES = ['modules/util/async_pipe.cpp']
# tsan: the property includes data-race freedom; ThreadSanitizer (halt_on_error) turns a race in a case into CRASH tsan:data race.
# (asan also builds and runs this harness — set C10_FLAVOUR=asan — but then only the stream/termination part is observed.)
import os
FLAVOUR = os.environ.get('C10_FLAVOUR', 'tsan')
LIBS = ['-ldl']
BATCH = 12
BATCH_TIMEOUT = 120
CASE_TIMEOUT = 60
SHRINK_TESTS = 6
MAX_REPORT = 2
TRUSTED = ['model lean/TboxModel/C10/Model.lean hand-written from modules/util/async_pipe.cpp (atomic regions = steps); the tie is the trace '
           'acceptor: the delivered stream of the real pipe must be accepted by the abstract spec, and its block sequence must be '
           'reproduced by an interleaving of enabled model steps',
           'std::mutex gives atomic critical sections; try_lock succeeds iff the mutex is free (pthread semantics, no spurious failure); '
           'condition_variable wait = any number of predicate evaluations; one back-end std::thread',
           'ThreadSanitizer (gcc 12 libtsan) under PRNG-seeded delay injection at the interposed pthread_mutex_lock/unlock/cond_*wait '
           'is the instrument for data races: it observes the schedules that were run, it proves nothing',
           'fault schedules: the harness replaces operator new[] (buffer storage) and interposes pthread_create; the op file chooses which '
           'allocation / thread creation fails; the allocator\'s and kernel\'s answers are oracle inputs of the model (XStep.allocFail, InitFault)',
           '`compact` lifecycles (buffer / append sizes around 2^24, 2^31): the harness itself compares every delivered block with the expected '
           'records on the fly and reports match/total/block lengths; the driver checks those numbers (blockRuleN is driver glue, unproved)',
           'acquisition order: a global sequence number stamped at the first pthread_mutex_lock obtained inside each append (M-class)',
           'step-level replay (round 6): the harness interposes pthread_mutex_lock/trylock/unlock, pthread_cond_wait/clockwait/timedwait/'
           'broadcast/signal and records every such event of the pipe\'s threads with one relaxed counter, stamped inside the critical '
           'sections (after acquire / before release / before and after a wait); mutex roles are learnt from the log (first mutex of an '
           'append = producer mutex, first mutex of the back end = full_buffers_mutex_, ...); Replay.lean maps events to model steps, each '
           'checked with xvalid (C10_replay_certified); the mapping itself (which event is which step, the windows of a failed try_lock) is '
           'glue: a wrong mapping can only make the replay fail (M-break), never accept a run that is not a model execution',
           'signals: SIGUSR1 with a handler installed without SA_RESTART is sent with pthread_kill to the back-end thread and to producer '
           'threads; glibc\'s condition variables absorb EINTR, the model allows a wake-up with a false predicate anyway (bWake false / a '
           'second wait)']
ASSUMPTIONS = ['configuration accepted by initialize(): buff_size >= 1, 1 <= buff_min_num <= buff_max_num, interval >= 1',
               'no append is in flight when cleanup() begins and none starts afterwards (C10_cleanup_flushes / _terminates hypothesis `late = false`); '
               'an append concurrent with cleanup may lose its data or block for ever — outside the statement, noted in the report',
               'liveness needs a fair scheduler for the back-end thread and a timed wait that eventually times out',
               're-entrant use: the sink callback may append to the same pipe, but at most what fits without waiting for a buffer — a nested '
               'append that hits back-pressure waits for its own thread (C10_nested_backpressure_self_deadlock: by design, not a defect); '
               'nested appends made after cleanup began are late appends',
               'setCallback is called before the first append of a lifecycle and not concurrently with appends (cb_ is an unsynchronised member); '
               'the sink callback does not throw and does not call cleanup() on its own pipe (both end in std::terminate: documented experiments '
               'exp cbthrow / exp cbcleanup, C10_sink_cannot_join_itself); appendLockless is only called between appendLock/appendUnlock '
               '(C10_lockless_without_lock_counterexample, exp lockless: TSan report)',
               'an allocation failure is reported to the appending caller as std::bad_alloc; that append has then written a prefix (whole buffers) '
               'and its rest is dropped (C10_alloc_failure_drops_exactly_the_rest); an AsyncPipe whose initialize() threw keeps its buffers until '
               'cleanup/destruction (C10_api_init_threw_strands_buffers_counterexample)',
               'flush interval < 2^63/10^6 ms (beyond, libstdc++ chrono overflows converting to nanoseconds); exercised up to 2^32+1 ms']
RULE = ('cases = pipe lifecycles: config (buffer size 1..4096, (min,max) in {(1,1),(1,2),(2,2),(2,10),(3,5),(1,64)}, interval 1..50 ms) x 1..8 '
        'real producer threads appending tagged length-prefixed records (smaller than / equal to / many times a buffer, zero-size, '
        'lock+lockless groups) x PRNG-seeded delay schedule at the interposed lock/wait points x slow sink; cleanup at quiescent points; several initialize..cleanup lifecycles on one object; re-entrant sinks (`echo`: the callback appends acks to the same pipe on every n-th / every timed-flush block); `fillhold` probes (live buffer count with the sink held); '
        'round 5: initialize() on a running pipe, destructor instead of cleanup, no callback installed, allocation-failure schedules while the pool grows (`allocfail k,..`), failing thread creation / allocation in initialize (`initfail`), width families (buffer and append sizes on both sides of 2^16 byte-exact, of 2^24 — 2^31 in thorough — in compact lifecycles, intervals around 2^31/2^32 ms), acquisition order recorded at the producer mutex, documented contract-violation experiments; '
        'round 6: every lifecycle (except compact ones) carries its event log and is replayed step by step as a model execution; state-derived sizes (an append equal to the space left in the current buffer -1/0/+1, one append = buff_size x buff_max_num -1/0/+1, cleanup with the buffer just handed over / emptied by a timed flush, the same configuration twice on one object), appends that fill a buffer paced at the flush interval, `echo same` (the sink appends exactly the block it was given, bytes taken from the pipe\'s own buffer), real signals to the back end and to blocked producers (`sig`, `sigrun`); '
        'non-trivial = at least 2 producers really interleaved, or a timed flush of a partial buffer, or real back-pressure '
        '(a producer waited for a buffer), or an append spanning several buffers; distinct = distinct op text')


def cfg_choices(rng):
    size = rng.choice([1, 2, 3, 5, 7, 8, 16, 31, 64, 100, 256, 1000, 1024, 4096, rng.randrange(1, 4097)])
    mn, mx = rng.choice([(1, 1), (1, 2), (2, 2), (2, 10), (3, 5), (1, 64), (2, 3)])
    iv = rng.choice([1, 1, 2, 3, 5, 10, 20, 50])
    return size, mn, mx, iv


def gen_multi(rng):
    """2-3 initialize..cleanup lifecycles on ONE AsyncPipe object, different configurations, with `fillhold` probes"""
    ops = []
    for _ in range(rng.choice([2, 2, 3])):
        one = gen_case(rng, budget_bytes=6000, budget_blocks=600)
        if rng.random() < 0.5:
            size = int(one[0].split()[1]); mx = int(one[0].split()[3])
            k = one.index('run') + 1
            one.insert(k, 'fillhold %d %d' % (rng.randrange(8), min(20000, rng.choice([0, size, (mx + 2) * size, (mx + 3) * size + 7]))))
        ops += one
    return ops


def gen_echo(rng):
    """re-entrant use: the sink callback appends an ack record (pseudo-producer 8) to the same pipe on every n-th block or on
    every timed-flush block; ample buffers (max 64) and little data so that the nested append never has to wait for a buffer"""
    size = rng.choice([32, 64, 100, 256])
    mn, iv = rng.choice([1, 2]), rng.choice([1, 2, 3, 5])
    ops = ['init %d %d 64 %d' % (size, mn, iv),
           'perturb %d %d 0' % (rng.randrange(1, 10 ** 9), rng.choice([0, 0, 50, 200]))]
    mode = rng.choice(['every', 'every', 'partial', 'partial', 'never'])
    ops.append('echo %s %d %d' % (mode, rng.choice([1, 1, 2, 3, 5]), rng.choice([0, 1, 4, 20, size - 6, size - 5])))
    for ph in range(rng.choice([1, 2, 3])):
        for tid in rng.sample(range(7), rng.choice([1, 1, 2, 3])):
            toks = [str(rng.choice([0, 3, size - 6, size - 5, size - 4, size, 2 * size + 1])) for _ in range(rng.choice([1, 2, 4]))]
            ops.append('prod %d %d %s' % (tid, rng.choice([0, 0, 200]), ','.join(toks)))
        ops.append('run')
        ops.append('sleep %d' % rng.choice([0, iv + 2, 3 * iv + 2, 20]))
    ops.append('cleanup')
    return ops


def gen_case(rng, budget_bytes=20000, budget_blocks=2500):
    size, mn, mx, iv = cfg_choices(rng)
    nprod = rng.choice([1, 2, 2, 3, 4, 4, 8])
    ops = ['init %d %d %d %d' % (size, mn, mx, iv)]
    maxus = rng.choice([0, 50, 200, 500, 2000])
    sinkus = rng.choice([0, 0, 100, 500, 2000]) if mx <= 3 else rng.choice([0, 0, 200])
    ops.append('perturb %d %d %d' % (rng.randrange(1, 10 ** 9), maxus, sinkus))
    phases = rng.choice([1, 1, 2, 3])
    # total output bounded both in bytes and in blocks (a block of a 1-byte buffer is one callback)
    if sinkus: budget_blocks = min(budget_blocks, 300000 // sinkus)
    if maxus >= 500: budget_blocks = min(budget_blocks, 800)
    total_budget = min(budget_bytes, budget_blocks * size)
    per_phase = max(40, total_budget // phases)
    for ph in range(phases):
        tids = rng.sample(range(8), nprod)
        per_thread = max(12, per_phase // nprod)
        for tid in tids:
            toks, used = [], 0
            nrec = rng.choice([1, 3, 10, 30, 60])
            style = rng.choice(['small', 'exact', 'big', 'mix', 'mix'])
            for _ in range(nrec):
                r = rng.random()
                if r < 0.05:
                    toks.append('z'); continue
                if style == 'small': n = rng.randrange(0, max(1, size - 5)) if size > 6 else 0
                elif style == 'exact': n = max(0, size - 5) if size >= 5 else rng.choice([0, 1])
                elif style == 'big': n = rng.choice([size, 2 * size, 3 * size + 1, 10 * size])
                else: n = rng.choice([0, 1, 2, max(0, size - 6), max(0, size - 5), max(0, size - 4), size, 2 * size + 3, rng.randrange(0, 300)])
                n = min(n, 20000)
                if used + n + 5 > per_thread:
                    n = max(0, per_thread - used - 5)
                    if used + n + 5 > per_thread: break
                used += n + 5
                toks.append(('g%d' if rng.random() < 0.15 else '%d') % n)
            if not toks: toks = ['0']
            pace = rng.choice([0, 0, 0, 50, 300, 1500])
            if pace and len(toks) > 30: pace = min(pace, 100)
            ops.append('prod %d %d %s' % (tid, pace, ','.join(toks)))
        ops.append('run')
        if rng.random() < 0.6:
            ops.append('sleep %d' % rng.choice([0, iv, iv + 1, 2 * iv + 1, 3]))
    ops.append('cleanup')
    if rng.random() < 0.15:
        ops[-1] = 'destroy'             # the destructor instead of cleanup()
    if rng.random() < 0.15:
        ops.append('cleanup')           # second cleanup: no-op
    return ops


def gen_allocfail(rng):
    """fault schedule: some of the buffer allocations made while the pool grows from min to max throw std::bad_alloc; the append
    reports it to its caller, the pipe must stay usable (later appends complete, cleanup returns) and nothing else may be lost"""
    size = rng.choice([1, 2, 3, 4, 8, 16])
    mn, mx = rng.choice([(1, 2), (1, 2), (1, 3), (2, 3), (2, 4), (1, 8)])
    ops = ['init %d %d %d %d' % (size, mn, mx, rng.choice([1, 2, 5])),
           'perturb %d %d %d' % (rng.randrange(1, 10 ** 9), rng.choice([0, 50, 200]), rng.choice([0, 100, 500]))]
    ks = sorted(rng.sample(range(1, 7), rng.choice([1, 2, 2])))
    ops.append('allocfail ' + ','.join(map(str, ks)))
    for ph in range(rng.choice([2, 3, 4])):
        for tid in rng.sample(range(8), rng.choice([1, 1, 2])):
            toks = [str(rng.choice([0, 1, size, 2 * size, 3 * size + 1, 20, 40])) for _ in range(rng.choice([1, 2, 3]))]
            ops.append('prod %d 0 %s' % (tid, ','.join(toks)))
        ops.append('run')
        ops.append('sleep %d' % rng.choice([0, 3, 20]))
    ops.append(rng.choice(['cleanup', 'cleanup', 'destroy']))
    return ops


def gen_exact(rng):
    """lesson (g), state-derived sizes: an append exactly as large as the space left in curr_buffer_ (and one byte less / more), by the
    same and by another thread; an append of exactly buff_size x buff_max_num bytes (and +-1) against a slow sink; cleanup with the
    current buffer exactly full (= just handed over) / partial / taken by a timed flush.  Long interval: no timed flush interferes."""
    size = rng.choice([12, 16, 31, 64, 100])
    mn, mx = rng.choice([(1, 1), (1, 2), (2, 3)])
    a = rng.randrange(5, size - 6)                       # total length of the first record (5-byte header included)
    for d in (-1, 0, 1):
        second = size - a + d
        if second < 5: continue
        for other in (0, 1):
            yield ['init %d %d %d 1000' % (size, mn, mx), 'perturb %d %d 0' % (rng.randrange(1, 10 ** 9), rng.choice([0, 100])),
                   'prod 0 0 %d' % (a - 5), 'run', 'prod %d 0 %d' % (other, second - 5), 'run', rng.choice(['cleanup', 'cleanup', 'destroy'])]
    # one append = the whole pool, +-1 (slow sink: real back-pressure inside the append)
    for d in (-1, 0, 1):
        yield ['init %d %d %d 1000' % (size, mn, mx), 'perturb %d 0 %d' % (rng.randrange(1, 10 ** 9), rng.choice([0, 1500])),
               'prod 2 0 %d' % (size * mx + d - 5), 'run', 'prod 3 0 %d' % (size - 5), 'run', 'cleanup']
    # cleanup right after an exact fill, after a timed flush emptied the current buffer, and with nothing appended since
    yield ['init %d 1 2 1000' % size, 'prod 0 0 %d' % (size - 5), 'run', 'cleanup',
           'init %d 1 2 2' % size, 'prod 0 0 3', 'run', 'sleep 12', 'cleanup',
           'init %d 1 2 2' % size, 'prod 0 0 3', 'run', 'sleep 12', 'prod 1 0 %d' % (size - 5), 'run', 'cleanup',
           # the same configuration again on the same object (a cached 'unchanged? then skip' must not exist)
           'init %d 1 2 2' % size, 'prod 0 0 3', 'run', 'sleep 12', 'prod 1 0 %d' % (size - 5), 'run', 'destroy']


def gen_flush_race(rng):
    """the timed flush fires while / at the moment the buffer becomes full: interval 1 ms, appends that fill exactly one buffer (or
    exactly half of one) paced at the interval"""
    size = rng.choice([8, 16, 64])
    ops = ['init %d 1 %d 1' % (size, rng.choice([2, 3])), 'perturb %d %d 0' % (rng.randrange(1, 10 ** 9), rng.choice([0, 100, 300]))]
    half = max(0, size // 2 - 5)
    ops.append('prod 0 %d %s' % (rng.choice([900, 1000, 1100]), ','.join([str(size - 5)] * 25)))
    if rng.random() < 0.5 and size >= 16:
        ops.append('prod 1 %d %s' % (rng.choice([450, 500, 550]), ','.join([str(half)] * 30)))
    return ops + ['run', 'cleanup']


def gen_echo_same(rng):
    """re-entrant + state-derived: the sink appends exactly the block it was given (same size, bytes taken from the pipe's own buffer)"""
    size = rng.choice([16, 32, 64])
    ops = ['init %d %d 64 %d' % (size, rng.choice([1, 2]), rng.choice([1, 2, 5])),
           'perturb %d %d 0' % (rng.randrange(1, 10 ** 9), rng.choice([0, 0, 100])),
           'echo same %d 0' % rng.choice([1, 2, 3, 5])]
    for ph in range(rng.choice([1, 2])):
        for tid in rng.sample(range(7), rng.choice([1, 2])):
            toks = [str(rng.choice([0, 3, size - 6, size - 5, size - 4, 2 * size - 5])) for _ in range(rng.choice([1, 2, 3]))]
            ops.append('prod %d %d %s' % (tid, rng.choice([0, 300]), ','.join(toks)))
        ops.append('run')
        ops.append('sleep %d' % rng.choice([0, 8, 20]))
    ops.append('cleanup')
    return ops


def gen_signals(rng):
    """goal 4: REAL handled signals (SIGUSR1, no SA_RESTART) to the back-end thread in its timed wait and to producers inside
    free_buffers_cv_.wait (slow sink, tiny pool): nothing may change — same stream, same block rule, the recorded interleaving
    still replays (a wake-up with the predicate false is a stutter step)"""
    size, mx = rng.choice([(4, 1), (8, 2), (16, 2), (64, 3)])
    iv = rng.choice([1, 5, 50])
    ops = ['init %d 1 %d %d' % (size, mx, iv), 'perturb %d %d %d' % (rng.randrange(1, 10 ** 9), rng.choice([0, 100]), rng.choice([300, 1500])),
           'sig %d %d' % (rng.choice([1, 5, 20]), rng.choice([0, 100, 1000])), 'sleep %d' % (iv + 1), 'sig 3 0',
           'sigrun %d %d' % (rng.choice([20, 60, 150]), rng.choice([50, 200, 500]))]
    for tid in rng.sample(range(8), rng.choice([1, 2, 4])):
        ops.append('prod %d 0 %s' % (tid, ','.join(str(rng.choice([0, 3, size, 3 * size])) for _ in range(rng.choice([2, 5])))))
    ops += ['run', 'sig 10 100', 'sleep %d' % rng.choice([0, iv, 2 * iv + 1]), 'sig 2 0', rng.choice(['cleanup', 'destroy'])]
    return ops


def gen_width(rng, tier):
    """width boundaries (lesson a): buffer sizes and append sizes on both sides of 2^16 with the full byte-level acceptor, of 2^24 in `compact` lifecycles (2^31 and 2^32:
    gen_huge, ASan pass of the thorough tier) (one append at a time; the harness compares the stream on the fly), and
    flush intervals on both sides of 2^31 / 2^32 ms"""
    for size in (65535, 65536, 65537):
        yield ['init %d 1 2 5' % size, 'perturb %d 0 0' % rng.randrange(1, 10 ** 9),
               'prod 0 0 %d,%d,%d,z,%d' % (size - 6, size - 5, size - 4, 2 * size), 'prod 1 0 %d' % (size - 5), 'run', 'cleanup']
    yield ['init 256 1 2 2', 'prod 0 0 65530,65531,65532', 'prod 5 0 131067,g70000', 'run', 'cleanup']
    for size in ((16777216,) if tier == 'quick' else (16777215, 16777216, 16777217)):
        yield ['init %d 1 2 5' % size, 'compact', 'big 0 %d' % (size - 6), 'big 0 %d' % (size - 5), 'big 1 %d' % (size - 4), 'big 0 3', 'cleanup']
    yield ['init 4096 1 3 1', 'compact', 'big 3 16777211', 'big 3 0', 'big 2 16777212', 'cleanup']
    yield ['init 65536 2 2 3', 'compact', 'big 7 65531', 'big 7 65532', 'big 1 16777216', 'destroy']
    for iv in (2147483647, 2147483648, 4294967295, 4294967296, 4294967297):
        yield ['init 64 1 2 %d' % iv, 'prod 0 0 10,59,200', 'run', 'sleep 3', 'prod 1 0 7', 'run', 'cleanup']


def gen_huge():
    """appends of 2^31-1, 2^31 and 2^32 bytes through 1 MiB buffers (compact lifecycle).  Only in the ASan+UBSan pass of the thorough tier
    (under TSan a 2 GiB source buffer costs > 30 GiB of shadow memory: measured) and only when the machine has the memory free."""
    if os.environ.get('C10_HUGE', '1') == '0':
        return
    try:
        avail = int([l for l in open('/proc/meminfo') if l.startswith('MemAvailable')][0].split()[1]) // 1024
    except Exception:
        avail = 0
    if avail > 16000:       # MiB; measured peak of the case below: about 9 GiB
        yield ['init 1048576 1 2 5', 'compact', 'big 0 2147483642', 'big 0 2147483643', 'big 1 4294967291', 'big 1 5', 'cleanup']
    elif avail > 8000:
        yield ['init 1048576 1 2 5', 'compact', 'big 0 2147483642', 'big 0 2147483643', 'big 1 5', 'cleanup']


def gen(rng, tier):
    n = 60 if tier == 'quick' else 600
    # malformed stream: both sides must say bad-op, and a rejected configuration must be refused
    yield ['prod 0 0 1,2', 'run', 'init 0 1 1 1', 'init 8 0 1 1', 'init 8 2 1 1', 'init 8 1 1 0', 'init 8 1', 'init x 1 1 1',
           'cleanup', 'init 8 1 2 5', 'init 8 1 2 5', 'prod 9 0 1', 'prod 0 0 1,,2', 'prod 0 0 1,', 'prod 0 0 g', 'prod 0 0 99999',
           'prod 0 0 3,z,g4', 'prod 0 0 1', 'perturb 1 2', 'perturb 5 99999 0', 'sleep 9999', 'frob', 'fillhold 0 5', 'fillhold 8 1', 'fillhold 1',
           'late 4 2 3', 'run', 'cleanup', 'cleanup', 'fillhold 1 1', 'late 0 1 1', 'late 4 2', 'late 5000 1 1',
           'reinit 8 1 2 5', 'unsetcb', 'setcb', 'compact', 'big 0 5', 'allocfail 1', 'exp lockless 0 1 1', 'exp frob 4 1 1', 'exp cbthrow 4 1',
           'initfail thread 8 1 2', 'initfail alloc 3 8 2 3 5', 'initfail alloc 0 8 2 3 5', 'initfail disk 8 1 2 5', 'initfail thread 0 1 1 1',
           'init 8 1 2 5', 'allocfail 0', 'allocfail 1,,2', 'allocfail x', 'big 0 5', 'compact', 'big 8 1', 'prod 0 0 1', 'run', 'compact', 'unsetcb',
           'initfail thread 8 1 2 5', 'cleanup', 'sig 1 1', 'sigrun 1 1', 'init 8 1 2 5', 'sig 201 0', 'sig 1', 'sigrun 1 5001', 'echo same 0 0', 'cleanup', 'init 8 1 2 99999999999', 'init 99999999999 1 2 1', 'init 8 1 2 4294967298', 'destroy', 'destroy']
    # directed: initialize() on a RUNNING pipe must be refused and must leave the running lifecycle alone (as found: std::terminate)
    yield ['init 8 1 2 5', 'prod 0 0 3', 'run', 'reinit 8 1 2 5', 'reinit 0 0 0 0', 'reinit 64 2 2 1', 'prod 1 0 20', 'run', 'cleanup',
           'init 16 2 3 1', 'reinit 16 2 3 1', 'prod 1 0 2', 'run', 'destroy']
    # directed: the destructor of a running pipe is a cleanup; destroying twice / a pipe never initialised is a no-op
    yield ['destroy', 'init 16 1 2 5', 'prod 0 0 3,40', 'prod 5 0 g11', 'run', 'destroy', 'destroy', 'init 4 1 1 1', 'prod 2 0 9', 'run', 'destroy', 'cleanup']
    # directed: no callback installed (blocks are recycled, nothing crashes, cleanup returns); setCallback again before the first append
    yield ['init 8 1 2 2', 'unsetcb', 'prod 0 0 30,0', 'run', 'sleep 5', 'cleanup', 'init 8 1 2 2', 'unsetcb', 'setcb', 'prod 0 0 30', 'run', 'cleanup']
    # directed fault schedules: growing the pool fails twice (as found: buff_num_ counted the buffer that was never allocated; the
    # back end then deleted the last real one and the next producer waited for ever)
    yield ['init 4 1 2 5', 'allocfail 1,2', 'prod 0 0 20', 'run', 'sleep 30', 'prod 0 0 20', 'run', 'sleep 30', 'prod 0 0 3', 'run', 'cleanup']
    yield ['init 2 1 2 1', 'perturb 5 0 2000', 'allocfail 1', 'prod 0 0 3', 'run', 'prod 1 0 3', 'run', 'sleep 20', 'prod 2 0 0', 'run', 'cleanup']
    # directed fault schedules for initialize(): thread creation fails / a buffer allocation fails: the caller gets the exception, the
    # object can be initialised again or destroyed
    yield ['initfail thread 8 1 2 5', 'init 8 1 2 5', 'prod 0 0 3,30', 'run', 'cleanup', 'initfail alloc 2 8 2 3 5', 'destroy',
           'initfail alloc 1 8 0 3 5', 'initfail thread 0 1 1 1', 'initfail alloc 1 16 2 3 5', 'init 8 2 3 5', 'prod 3 0 50', 'run', 'cleanup']
    for _ in range(10 if tier == 'quick' else 120):
        yield gen_allocfail(rng)
    for c in gen_width(rng, tier):
        yield c
    # round 6: state-derived sizes (exact fill +-1, whole pool +-1, cleanup at exact-full / emptied buffers), the timed flush racing
    # with the fill, the sink appending exactly the block it was given, real signals
    for _ in range(1 if tier == 'quick' else 10):
        for c in gen_exact(rng):
            yield c
    for _ in range(4 if tier == 'quick' else 40):
        yield gen_flush_race(rng)
    yield ['init 16 1 8 5', 'echo same 1 0', 'prod 0 0 11', 'run', 'sleep 20', 'cleanup']
    for _ in range(5 if tier == 'quick' else 50):
        yield gen_echo_same(rng)
    for _ in range(5 if tier == 'quick' else 50):
        yield gen_signals(rng)
    # documented only (M-class): contract violations — lockless appends without the lock, a throwing sink, a sink that cleans up its own pipe
    yield ['exp lockless 8 2 20', 'exp cbthrow 8 2 1', 'exp cbcleanup 8 2 1']
    # directed: one byte buffers, single buffer (min=max=1): every byte is a block, permanent back-pressure
    yield ['init 1 1 1 1', 'perturb 7 100 200', 'prod 0 0 0,3,z,1', 'prod 1 0 2,2', 'run', 'cleanup']
    # directed: append exactly a buffer, then smaller, then many buffers; timed flush in between
    yield ['init 16 1 2 2', 'perturb 3 0 0', 'prod 3 0 11', 'run', 'sleep 8', 'prod 3 0 0,1', 'run', 'sleep 8', 'prod 3 0 200,g75', 'run', 'cleanup']
    # directed: slow sink, 8 producers, tiny pool: real back-pressure
    yield ['init 8 1 2 1', 'perturb 11 300 1500'] + ['prod %d 0 %s' % (t, ','.join(['20'] * 6)) for t in range(8)] + ['run', 'cleanup']
    # directed: empty lifecycle and zero-size appends only
    yield ['init 4096 2 10 50', 'cleanup', 'init 5 2 10 1', 'prod 0 0 z,z', 'run', 'cleanup']
    # directed: cleanup right after the producers finish while the back end sits in / enters its timed wait
    for k in range(4 if tier == 'quick' else 40):
        yield ['init 64 2 10 %d' % rng.choice([1, 5, 50]), 'perturb %d %d 0' % (rng.randrange(1, 10 ** 9), rng.choice([200, 1000, 2000])),
               'prod 0 0 10,10,10', 'prod 1 0 70,3', 'run', 'cleanup']
    # directed: buffer count at a quiescent point (sink held): exactly buff_max_num buffers alive when the producer blocks
    yield ['init 4 1 2 5', 'fillhold 0 40', 'cleanup', 'init 16 2 3 5', 'prod 1 0 3,3', 'run', 'fillhold 1 200', 'fillhold 2 0', 'cleanup',
           'init 1 1 1 1', 'fillhold 7 3', 'cleanup', 'init 64 3 5 50', 'fillhold 3 700', 'cleanup']
    # documented only (M-class): an append racing with cleanup() — outcome recorded as a tag, never judged
    yield ['late 4 2 30', 'init 8 1 2 5', 'prod 0 0 3', 'run', 'cleanup', 'late 64 1 3']
    if tier != 'quick':
        for _ in range(6):
            yield ['late %d %d %d' % (rng.choice([1, 4, 64, 1000]), rng.choice([1, 2, 10]), rng.choice([2, 30, 150]))]
    # directed: re-entrant sink — ack on a buffer-full block, then on a timed-flush block (smaller than a buffer), then cleanup
    yield ['init 64 2 16 5', 'echo every 1 0', 'prod 0 0 59', 'run', 'sleep 25', 'prod 0 0 0', 'run', 'sleep 25', 'cleanup']
    yield ['init 32 1 64 2', 'echo partial 1 4', 'prod 3 0 3', 'run', 'sleep 10', 'prod 7 0 1', 'run', 'echo every 1 1', 'cleanup',
           'init 8 1 64 1', 'echo never 1 1', 'echo every 0 1', 'echo sometimes 1 1', 'echo every 1', 'prod 7 0 1', 'echo every 2 3', 'run', 'cleanup']
    for _ in range(8 if tier == 'quick' else 100):
        yield gen_echo(rng)
    for _ in range(n):
        yield gen_case(rng)
    for _ in range(n // 4):
        yield gen_multi(rng)


def nontrivial(ops, model_lines):
    tags = ' '.join(l for l in model_lines if l.startswith('B '))
    return 1 if any(t in tags for t in ('interleaved', 'timed-flush', 'real-backpressure', 'append>buffer', 'nested-append')) else None


def fingerprint(ops, d):
    import hashlib, re
    what = (d[1] if d else '') or ''
    mc = re.search(r'CRASH [^\]]*|P (run|cleanup|destroy|big|fillhold) timeout', what)
    if mc:
        key = mc.group(0)               # e.g. 'CRASH tsan:data race' / 'P cleanup timeout' (watchdog)
    else:
        m = re.search(r'(LOST|DUPLICATE|NOT CONTIGUOUS|OVERLAPPED|EMPTY block|not the start|not a run of the model|reconstruction|M-class: peak|M-class: \\d+ buffers alive|M-class: producer blocked|acquisition order|did not return|running pipe must be refused|reported bad_alloc|compact comparison|initialize)', what)
        key = m.group(1) if m else what[:40]
    return 'C10-' + hashlib.sha1(key.encode()).hexdigest()[:10]


LEVEL_TEXT = ('Lean 4 theorems over an interleaving model of AsyncPipe (producers, the back-end thread, cleanup; one step per atomic region): '
              'inductive invariants proved for every configuration and EVERY interleaving give the stream equation (lossless, no duplication, '
              'contiguous appends, acquisition order, per-thread order), serial callbacks, buffer bounds, sound back-pressure with a variant '
              'function (no deadlock), cleanup flushes everything and the back end exits (variant function); the acceptor\'s block rule is exactly the set '
              'of observables of complete model runs (soundness C10_observable_accepted + completeness C10_complete); lockset discipline of every shared '
              'field. Tied to async_pipe.cpp on every run by a trace acceptor over real multi-threaded runs (TSan build, seeded delay injection) '
              'and, since round 6, by a step-level replay: the recorded mutex / condition-variable events of every run are mapped to model steps, each '
              'checked enabled, the model deciding every branch (C10_replay_certified, C10_replay_sound).')
LEVEL_NOTE = ('partial for "free of data races": C++ data-race freedom cannot be exhibited by the Lean model — the model proves the lock discipline '
              '(any two steps of different threads touching a shared field hold a common mutex; footprints honest) and ThreadSanitizer under '
              'schedule perturbation is the supporting instrument, not a proof. "cleanup always terminates" is proved as: after the stop signal '
              'the back end alone reaches exit within nu(s) steps (needs a fair scheduler and the timed wait timing out). Trusted: Lean kernel, '
              'hand-written model + trace-acceptor tie (coverage bounded by the generator and by the schedules the OS produced, measured), '
              'libstdc++/pthread mutex and condition-variable semantics. Appends concurrent with cleanup are outside the statement.')
TECHNIQUE = 'Lean 4 invariant + variant proofs over all interleavings of an atomic-step model; trace-acceptor correspondence with real threaded runs under TSan'
DESIGN_REF = 'DESIGN.md §6 C10, §7 row 14'


_second = {}


def extra_coverage():
    return {'second_pass_asan': _second} if _second else {}


def check(tier, seed, replay):
    """main pass = TSan build.  thorough: an ASan+UBSan build of the same harness runs first as a second instrument
    (memory errors under the same perturbation); its verdict is OR-ed into the exit code and recorded in the evidence."""
    import types
    g = globals()
    me = types.SimpleNamespace(**{k: v for k, v in g.items() if not k.startswith('__') and k != 'check'})
    rc2 = 0
    if tier == 'thorough' and not replay and FLAVOUR != 'asan':
        proxy = types.SimpleNamespace(**vars(me))
        proxy.FLAVOUR = 'asan'
        proxy.extra_coverage = lambda: {}
        import itertools
        proxy.gen = lambda rng, t: itertools.chain(gen_huge(), gen(rng, t))
        rc2 = vlib.standard_check(proxy, 'quick', seed + 1000, None)
        try:
            import json
            ev = json.load(open(os.path.join(vlib.VERIF, 'evidence', 'C10.json')))
            _second.update({'flavour': 'asan', 'exit': rc2, 'evaluations': ev['coverage'].get('evaluations'),
                            'validated': ev['coverage'].get('traces_validated_against_impl'), 'violations': ev.get('violations')})
        except Exception as ex:
            _second.update({'flavour': 'asan', 'exit': rc2, 'note': repr(ex)})
    rc = vlib.standard_check(me, tier, seed, replay)
    return 1 if (rc or rc2) else 0
