// C11 harness: builds trees of probe modules from op lines, drives the real
// tbox::main::Module lifecycle on the roots and prints, per op, the return value, the user
// hooks that ran (global trace) and state() of every live module — same format as
// lean/Driver/C11.lean.
#include "vh.h"
#include <map>
#include <memory>
#include <set>
#include <tbox/base/json.hpp>
#include <tbox/main/module.h>
#include <tbox/util/variables.h>
#include <type_traits>
#include <unistd.h>

using tbox::Json;
using tbox::main::Module;

namespace {

struct DummyCtx : public tbox::main::Context {
    tbox::event::Loop* loop() const override { return nullptr; }
    tbox::eventx::ThreadPool* thread_pool() const override { return nullptr; }
    tbox::eventx::TimerPool* timer_pool() const override { return nullptr; }
    tbox::eventx::Async* async() const override { return nullptr; }
    tbox::terminal::TerminalNodes* terminal() const override { return nullptr; }
    tbox::coroutine::Scheduler* coroutine() const override { return nullptr; }
    std::chrono::milliseconds running_time() const override { return std::chrono::milliseconds(0); }
    std::chrono::system_clock::time_point start_time_point() const override { return {}; }
};

DummyCtx g_ctx;
std::vector<std::string> g_tr;

struct Probe;
std::map<uint64_t, Probe*> g_mods;   // every live module (destructor not begun), by id
std::vector<uint64_t> g_init_roots;  // modules on which the harness has an initialize() call under way (innermost last)
bool cfg_is_mine(const Probe *p, const Json &js);

// one step of a hook script: `c<api>:<target>` | `a:<parent>:<child>:<req>` | `x`
struct Act { char kind; char api; uint64_t a, b; bool req; };
void run_script(std::vector<Act> sc);

struct Probe : public Module {
    uint64_t id; bool named, cfg, init_ok, start_ok;
    int64_t parent = -1;               // our own shadow of the tree (Module has no accessor)
    std::vector<uint64_t> kids;
    std::vector<Act> s_init, s_start, s_stop, s_cleanup;   // one-shot hook scripts

    Probe(uint64_t id_, bool named_, bool cfg_, bool i, bool s)
        : Module(named_ ? "m" + std::to_string(id_) : std::string(), g_ctx),
          id(id_), named(named_), cfg(cfg_), init_ok(i), start_ok(s) { g_mods[id] = this; }
    ~Probe() override { g_mods.erase(id); }

  protected:
    // the event is recorded when the hook returns (after its script); a throwing hook is recorded as failed / run
    // every config object carries the id of the module it belongs to in "#" (1000 = the object handed to the root call):
    // a hook that is handed another module's object is reported in its event (`!cfg`; the model never prints that)
    void onFillDefaultConfig(Json &js_this) override { if (named) js_this["#"] = id; }
    bool onInit(const Json &js) override {
        bool ok = init_ok;
        std::string mine = cfg_is_mine(this, js) ? "" : "!cfg";
        try { run_script(std::move(s_init)); } catch (...) { g_tr.push_back("i" + std::to_string(id) + "-" + mine); throw; }
        g_tr.push_back("i" + std::to_string(id) + (ok ? "+" : "-") + mine); return ok;
    }
    bool onStart() override {
        bool ok = start_ok;
        try { run_script(std::move(s_start)); } catch (...) { g_tr.push_back("s" + std::to_string(id) + "-"); throw; }
        g_tr.push_back("s" + std::to_string(id) + (ok ? "+" : "-")); return ok;
    }
    void onStop() override {
        try { run_script(std::move(s_stop)); } catch (...) { g_tr.push_back("t" + std::to_string(id)); throw; }
        g_tr.push_back("t" + std::to_string(id));
    }
    void onCleanup() override {
        try { run_script(std::move(s_cleanup)); } catch (...) { g_tr.push_back("c" + std::to_string(id)); throw; }
        g_tr.push_back("c" + std::to_string(id));
    }
};

// stand-alone util::Variables objects (v<k>); m<id> addresses the vars() of a live module
std::map<uint64_t, std::unique_ptr<tbox::util::Variables>> g_vars;

// setParent() returns void before patches/C11-03 and bool after it
template <class T> auto set_parent(T &v, T *p, int) -> typename std::enable_if<std::is_same<decltype(v.setParent(p)), bool>::value, bool>::type { return v.setParent(p); }
template <class T> bool set_parent(T &v, T *p, long) { v.setParent(p); return true; }

void reset_all() {
    g_vars.clear();
    // delete the roots; children go with them (their destructors erase themselves from g_mods)
    for (;;) {
        Probe *root = nullptr;
        for (auto &kv : g_mods) if (kv.second->parent < 0) { root = kv.second; break; }
        if (!root) break;
        delete root;
    }
    g_mods.clear();
    g_tr.clear();
}

Probe *find(uint64_t id) { auto it = g_mods.find(id); return it == g_mods.end() ? nullptr : it->second; }

uint64_t root_of(Probe *p) {
    for (int guard = 0; guard < 1000 && p->parent >= 0; ++guard) {
        auto it = g_mods.find((uint64_t)p->parent);
        if (it == g_mods.end()) break;               // parent's destructor has begun
        p = it->second;
    }
    return p->id;
}

// the configuration object: a named module with cfg=1 gets its key (an object holding its
// children's keys); an unnamed module passes its parent's object through
// during a `fillinit` op: the modules that were in the root's tree when the op began. fillDefaultConfig() created their keys,
// and initialize() calls that hook scripts make during that op see them too (as in the model: `fillAll` holds for the whole op)
std::set<uint64_t> g_filled;

bool cfg_is_mine(const Probe *p, const Json &js) {
    uint64_t want = 1000;
    for (const Probe *cur = p;;) {
        if (cur->named) { want = cur->id; break; }
        if (g_init_roots.empty() || cur->id == g_init_roots.back() || cur->parent < 0) break;
        auto it = g_mods.find((uint64_t)cur->parent);
        if (it == g_mods.end()) break;
        cur = it->second;
    }
    return js.is_object() && js.contains("#") && js["#"].is_number_unsigned() && js["#"].get<uint64_t>() == want;
}

void fill_cfg(Probe *p, Json &js_parent) {
    if (p->named) {
        if (!p->cfg && !g_filled.count(p->id)) return;
        Json &js_this = js_parent["m" + std::to_string(p->id)];
        js_this = Json::object();
        js_this["#"] = p->id;
        for (auto k : p->kids) fill_cfg(g_mods.at(k), js_this);
    } else {
        for (auto k : p->kids) fill_cfg(g_mods.at(k), js_parent);
    }
}

void fill_cfg(Probe *p, Json &js_parent);

// parent->add(child): false = not a well-formed request (nothing called); ret = what add() returned
bool do_add(uint64_t a, uint64_t b, bool req, bool &ret) {
    Probe *p = find(a), *c = find(b);
    if (!p || !c) return false;   // unknown/dying module
    // also p == c and c == root of p's tree: add() must refuse (patches/C11-08).  If it does not, the answer is printed (and differs
    // from the model's) but our shadow stays a forest, so that the harness's own walks terminate
    bool cycle = (p == c) || (c->parent < 0 && root_of(p) == c->id);
    ret = p->add(c, req);
    if (ret && !cycle) { c->parent = (int64_t)p->id; p->kids.push_back(c->id); }
    return true;
}

bool do_call(Probe *p, char api) {
    switch (api) {
        case 'i': {
            Json js = Json::object(); js["#"] = (uint64_t)1000; fill_cfg(p, js);
            g_init_roots.push_back(p->id);
            struct Pop { ~Pop() { g_init_roots.pop_back(); } } pop_at_end;
            return p->initialize(js);
        }
        case 's': return p->start();
        case 't': p->stop(); return true;
        case 'c': p->cleanup(); return true;
    }
    return false;
}

void run_script(std::vector<Act> sc) {
    for (auto &a : sc) {
        if (a.kind == 'x') throw std::runtime_error("hook script");
        if (a.kind == 'c') { if (Probe *t = find(a.a)) do_call(t, a.api); }
        if (a.kind == 'a') { bool r; do_add(a.a, a.b, a.req, r); }
    }
}

bool parse_act(const std::string &w, Act &out) {
    if (w == "x") { out = Act{'x', 0, 0, 0, false}; return true; }
    std::vector<std::string> f; size_t pos = 0;
    for (;;) { size_t q = w.find(':', pos); f.push_back(w.substr(pos, q == std::string::npos ? q : q - pos)); if (q == std::string::npos) break; pos = q + 1; }
    uint64_t a = 0, b = 0;
    auto idok = [](const std::string &x, uint64_t &v) { return x.size() <= 4 && vh::to_u64(x, v) && v < 1000; };
    if (f.size() == 2 && f[0].size() == 2 && f[0][0] == 'c' && std::string("istc").find(f[0][1]) != std::string::npos && idok(f[1], a)) {
        out = Act{'c', f[0][1], a, 0, false}; return true;
    }
    if (f.size() == 4 && f[0] == "a" && idok(f[1], a) && idok(f[2], b) && (f[3] == "0" || f[3] == "1")) {
        out = Act{'a', 0, a, b, f[3] == "1"}; return true;
    }
    return false;
}

std::string states() {
    std::string s;
    for (auto &kv : g_mods) {
        if (!s.empty()) s += ",";
        auto st = kv.second->state();
        s += std::to_string(kv.first) + ":" + (st == Module::State::kNone ? "N" : st == Module::State::kInited ? "I" : "R");
    }
    return s.empty() ? "-" : s;
}

std::string trace() {
    std::string s;
    for (auto &e : g_tr) { if (!s.empty()) s += ","; s += e; }
    return s.empty() ? "-" : s;
}

// canonical rendering of what toJson() wrote, walked along our shadow of the tree (registration order); anything that is
// missing, superfluous or ill-typed shows up as a `!…` marker
std::string canon(Probe *p, const Json &js, size_t extra) {
    std::string s = std::to_string(p->id);
    size_t keys = extra;
    if (js.is_object() && js.contains("vars")) { ++keys; s += "v" + std::to_string(js["vars"].size()); }
    s += "[";
    if (!p->kids.empty()) {
        if (!js.is_object() || !js.contains("children") || !js["children"].is_object()) return s + "!nochildren]";
        ++keys;
        const Json &jc = js["children"];
        if (jc.size() != p->kids.size()) s += "!count";
        bool first = true;
        for (auto k : p->kids) {
            Probe *c = g_mods.at(k);
            if (!first) s += ",";
            first = false;
            const std::string nm = c->name();
            if (!jc.contains(nm)) { s += "!missing"; continue; }
            const Json &j = jc[nm];
            if (!j.is_object() || !j.contains("required") || !j["required"].is_boolean()) { s += "!req"; continue; }
            s += j["required"].get<bool>() ? "1:" : "0:";
            s += canon(c, j, 1);
        }
    } else if (js.is_object() && js.contains("children")) s += "!children";
    if (js.size() != keys) s += "!keys";
    return s + "]";
}


// ---- names world (`k…` ops): modules with arbitrary names, addAs(), the configuration object itself (lean/TboxModel/C11/Names.lean)
struct KProbe;
std::map<uint64_t, KProbe*> g_kmods;
std::vector<std::string> g_ktr;
Json g_kcfg;                                   // null until something is written
const char *const kNameTokens[] = {"-", "#", "a", "b", "c", "children", "required", "vars"};

bool kname(const std::string &w, std::string &out) {
    for (auto t : kNameTokens) if (w == t) { out = (w == "-") ? std::string() : w; return true; }
    return false;
}
std::string kmarker(const Json &js) {
    if (js.is_object() && js.contains("#") && js["#"].is_number_unsigned()) return std::to_string(js["#"].get<uint64_t>());
    return "?";
}

struct KProbe : public Module {
    uint64_t id; int64_t parent = -1; std::vector<uint64_t> kids; std::vector<std::string> writes;
    KProbe(uint64_t id_, const std::string &nm) : Module(nm, g_ctx), id(id_) { g_kmods[id] = this; }
    ~KProbe() override { g_kmods.erase(id); }
  protected:
    void onFillDefaultConfig(Json &js_this) override {
        if (!name().empty()) js_this["#"] = id;
        for (auto &k : writes) js_this[k] = (uint64_t)7;
    }
    bool onInit(const Json &js) override { g_ktr.push_back("i" + std::to_string(id) + "+" + kmarker(js)); return true; }
    void onCleanup() override { g_ktr.push_back("c" + std::to_string(id)); }
};

KProbe *kfind(uint64_t id) { auto it = g_kmods.find(id); return it == g_kmods.end() ? nullptr : it->second; }

void kreset() {
    for (;;) {
        KProbe *root = nullptr;
        for (auto &kv : g_kmods) if (kv.second->parent < 0) { root = kv.second; break; }
        if (!root) break;
        delete root;
    }
    g_kmods.clear(); g_ktr.clear(); g_kcfg = Json();
}

std::string kline(const std::string &ret) {
    std::string tr, st, nm;
    for (auto &e : g_ktr) { if (!tr.empty()) tr += ","; tr += e; }
    for (auto &kv : g_kmods) {
        if (!st.empty()) { st += ","; nm += ","; }
        st += std::to_string(kv.first) + ":" + (kv.second->state() == Module::State::kNone ? "N" : "I");
        std::string n = kv.second->name();
        nm += std::to_string(kv.first) + ":" + (n.empty() ? "-" : n);
    }
    return "P ret=" + ret + " tr=" + (tr.empty() ? "-" : tr) + " st=" + (st.empty() ? "-" : st) + " nm=" + (nm.empty() ? "-" : nm);
}

// toJson() walked along the shadow tree: `id[req:child,…]`, anything unexpected as a `!…` marker
std::string kcanon(KProbe *p, const Json &js, size_t extra) {
    std::string s = std::to_string(p->id) + "[";
    size_t keys = extra;
    if (!p->kids.empty()) {
        if (!js.is_object() || !js.contains("children") || !js["children"].is_object()) return s + "!nochildren]";
        ++keys;
        const Json &jc = js["children"];
        if (jc.size() != p->kids.size()) s += "!count";
        bool first = true;
        for (auto k : p->kids) {
            KProbe *c = g_kmods.at(k);
            if (!first) s += ",";
            first = false;
            if (!jc.contains(c->name())) { s += "!missing"; continue; }
            const Json &j = jc[c->name()];
            if (!j.is_object() || !j.contains("required") || !j["required"].is_boolean()) { s += "!req"; continue; }
            s += j["required"].get<bool>() ? "1:" : "0:";
            s += kcanon(c, j, 1);
        }
    } else if (js.is_object() && js.contains("children")) s += "!children";
    if (js.size() != keys) s += "!keys";
    return s + "]";
}

bool kpath(const std::string &w, std::vector<std::string> &out) {
    size_t pos = 0;
    for (;;) {
        size_t q = w.find('/', pos);
        std::string nm;
        if (!kname(w.substr(pos, q == std::string::npos ? q : q - pos), nm) || nm.empty()) return false;
        out.push_back(nm);
        if (q == std::string::npos) return true;
        pos = q + 1;
    }
}

// returns false for an ill-formed line
bool names_op(const std::vector<std::string> &w) {
    const std::string &op = w[0];
    uint64_t a = 0, b = 0; bool req = false; std::string nm;
    auto idok = [](const std::string &x, uint64_t &v) { return x.size() <= 4 && vh::to_u64(x, v) && v < 1000; };
    auto flag = [](const std::string &x, bool &f) { if (x == "0") { f = false; return true; } if (x == "1") { f = true; return true; } return false; };
    g_ktr.clear();
    if (op == "knew" && w.size() == 3 && idok(w[1], a) && kname(w[2], nm) && !kfind(a)) {
        new KProbe(a, nm);
        std::cout << kline("1") << "\n"; return true;
    }
    if (op == "kwr" && w.size() >= 2 && idok(w[1], a) && kfind(a)) {
        std::vector<std::string> ks;
        for (size_t i = 2; i < w.size(); ++i) { if (!kname(w[i], nm) || nm.empty()) return false; ks.push_back(nm); }
        kfind(a)->writes = ks;
        std::cout << kline("1") << "\n"; return true;
    }
    if ((op == "kadd" && w.size() == 4 && idok(w[1], a) && idok(w[2], b) && flag(w[3], req)) ||
        (op == "kaddas" && w.size() == 5 && idok(w[1], a) && idok(w[2], b) && kname(w[3], nm) && flag(w[4], req))) {
        KProbe *p = kfind(a), *c = kfind(b);
        if (!p || !c) return false;
        bool ret = (op == "kadd") ? p->add(c, req) : p->addAs(c, nm, req);
        if (ret) { c->parent = (int64_t)p->id; p->kids.push_back(c->id); }
        std::cout << kline(ret ? "1" : "0") << "\n"; return true;
    }
    if (op == "knull" && w.size() == 4 && idok(w[1], a) && kname(w[2], nm) && flag(w[3], req) && kfind(a)) {
        bool ret = kfind(a)->addAs(nullptr, nm, req);
        std::cout << kline(ret ? "1" : "0") << "\n"; return true;
    }
    if (op == "kcfg" && w.size() == 1) { g_kcfg = Json(); std::cout << "P cfg\n"; return true; }
    if (op == "kput" && w.size() == 3 && (w[2] == "n" || w[2] == "o" || w[2] == "z")) {
        std::vector<std::string> path; if (!kpath(w[1], path)) return false;
        try {
            Json *j = &g_kcfg;
            for (size_t i = 0; i + 1 < path.size(); ++i) j = &(*j)[path[i]];
            (*j)[path.back()] = (w[2] == "n") ? Json((uint64_t)7) : (w[2] == "o") ? Json::object() : Json();
            std::cout << "P ret=1\n";
        } catch (const Json::exception &) { g_kcfg = Json(); std::cout << "P ret=X\n"; }
        return true;
    }
    if (op == "kdel" && w.size() == 2) {
        std::vector<std::string> path; if (!kpath(w[1], path)) return false;
        Json *j = &g_kcfg;
        for (size_t i = 0; i + 1 < path.size() && j; ++i) j = (j->is_object() && j->contains(path[i])) ? &(*j)[path[i]] : nullptr;
        if (j && j->is_object()) j->erase(path.back());
        std::cout << "P ret=1\n"; return true;
    }
    if (w.size() == 2 && idok(w[1], a)) {
        KProbe *p = kfind(a);
        if (!p || p->parent >= 0) return false;
        if (op == "kfill") {
            try { p->fillDefaultConfig(g_kcfg); std::cout << "P ret=1\n"; }
            catch (const Json::exception &) { g_kcfg = Json(); std::cout << "P ret=X\n"; }
            return true;
        }
        if (op == "kinit") { bool r = p->initialize(g_kcfg); std::cout << kline(r ? "1" : "0") << "\n"; return true; }
        if (op == "kcleanup") { p->cleanup(); std::cout << kline("1") << "\n"; return true; }
        if (op == "kdestroy") { delete p; std::cout << kline("1") << "\n"; return true; }
        if (op == "kjson") { Json js; p->toJson(js); std::cout << "P json=" << kcanon(p, js, 0) << "\n"; return true; }
    }
    return false;
}

bool g_quiet = false;

bool to_bool(const std::string &w, bool &b) { if (w == "0") { b = false; return true; } if (w == "1") { b = true; return true; } return false; }
bool to_id(const std::string &w, uint64_t &v) { return w.size() <= 4 && vh::to_u64(w, v) && v < 1000; }

}  // namespace

tbox::util::Variables *vtarget(const std::string &w, bool &standalone) {
    uint64_t k;
    if (w.size() < 2 || !vh::to_u64(w.substr(1), k)) return nullptr;
    if (w[0] == 'v' && k < 16) { standalone = true; auto it = g_vars.find(k); return it == g_vars.end() ? nullptr : it->second.get(); }
    if (w[0] == 'm' && w.size() <= 5 && k < 1000) { standalone = false; auto it = g_mods.find(k); return it == g_mods.end() ? nullptr : &it->second->vars(); }
    return nullptr;
}
bool vname(const std::string &w) { if (w.empty() || w.size() > 3) return false; for (char c : w) if (c < 'a' || c > 'z') return false; return true; }

// returns false for an ill-formed line
bool vars_op(const std::vector<std::string> &w) {
    using tbox::util::Variables;
    const std::string &op = w[0];
    bool ret = true, sa = false, sb = false, f = false; std::string val = "-"; int64_t iv = 0; uint64_t k = 0;
    if (op == "vnew" && w.size() == 2 && vh::to_u64(w[1], k) && k < 16 && !g_vars.count(k)) {
        g_vars[k].reset(new Variables);
    } else if (op == "vpar" && w.size() == 3) {
        Variables *a = vtarget(w[1], sa); if (!a || !sa) return false;
        if (w[2] == "-") set_parent(*a, (Variables*)nullptr, 0);
        else { Variables *b = vtarget(w[2], sb); if (!b || !sb) return false; ret = set_parent(*a, b, 0); }
    } else if (op == "vdef" && w.size() == 4 && vname(w[2]) && vh::to_i64(w[3], iv)) {
        Variables *a = vtarget(w[1], sa); if (!a) return false;
        ret = a->define(w[2], Json(iv));
    } else if (op == "vundef" && w.size() == 3 && vname(w[2])) {
        Variables *a = vtarget(w[1], sa); if (!a) return false;
        ret = a->undefine(w[2]);
    } else if (op == "vhas" && w.size() == 4 && vname(w[2]) && to_bool(w[3], f)) {
        Variables *a = vtarget(w[1], sa); if (!a) return false;
        ret = a->has(w[2], f);
    } else if (op == "vget" && w.size() == 4 && vname(w[2]) && to_bool(w[3], f)) {
        Variables *a = vtarget(w[1], sa); if (!a) return false;
        Json js; ret = a->get(w[2], js, f);
        if (ret) val = js.is_number_integer() ? std::to_string(js.get<int64_t>()) : "?";
    } else if (op == "vset" && w.size() == 5 && vname(w[2]) && vh::to_i64(w[3], iv) && to_bool(w[4], f)) {
        Variables *a = vtarget(w[1], sa); if (!a) return false;
        ret = a->set(w[2], Json(iv), f);
    } else if ((op == "vcopy" || op == "vswap") && w.size() == 3) {
        Variables *a = vtarget(w[1], sa), *b = vtarget(w[2], sb); if (!a || !b || !sa || !sb) return false;
        if (op == "vcopy") *a = *b; else a->swap(*b);
    } else return false;
    std::cout << "P ret=" << (ret ? 1 : 0) << " val=" << val << "\n";
    return true;
}

int main() {
    std::string line;
    while (std::getline(std::cin, line)) {
        auto w = vh::words(line);
        if (w.empty()) continue;
        alarm(10);   // watchdog per op line: a lifecycle/add() call that never returns ends the process (SIGALRM -> CRASH for this case)
        if (w[0] == "case") { reset_all(); kreset(); g_quiet = false; std::cout << line << "\n"; continue; }
        if (w[0][0] == 'k') { if (!names_op(w)) std::cout << "bad-op\n"; continue; }
        if (w[0] == "json") {
            uint64_t k = 0; Probe *p = nullptr;
            if (w.size() == 2 && to_id(w[1], k) && !g_quiet && (p = find(k)) && p->parent < 0) {
                Json js; p->toJson(js);
                std::cout << "P json=" << canon(p, js, 0) << "\n";
            } else std::cout << "bad-op\n";
            continue;
        }
        if (w[0][0] == 'v') { if (!vars_op(w)) std::cout << "bad-op\n"; continue; }
        if (w.size() == 1 && w[0] == "quiet") { g_quiet = true; std::cout << "P quiet\n"; continue; }   // (the model drops its B lines)
        g_tr.clear();
        bool ok = false, ret = true, thrown = false;
        uint64_t a = 0, b = 0; bool f1, f2, f3, f4;
        const std::string &op = w[0];
        if (op == "new" && w.size() == 6 && to_id(w[1], a) && to_bool(w[2], f1) && to_bool(w[3], f2) && to_bool(w[4], f3) && to_bool(w[5], f4)) {
            if (!find(a)) { new Probe(a, f1, f2, f3, f4); ok = true; }
        } else if (op == "add" && w.size() == 4 && to_id(w[1], a) && to_id(w[2], b) && to_bool(w[3], f1)) {
            // refused as ill-formed only when it would close a cycle (c is the root of p's own tree)
            ok = do_add(a, b, f1, ret);
        } else if (op == "hook" && w.size() >= 3 && to_id(w[1], a) && w[2].size() == 1 && std::string("istc").find(w[2][0]) != std::string::npos) {
            std::vector<Act> sc; bool good = true;
            for (size_t k = 3; k < w.size(); ++k) { Act x; if (parse_act(w[k], x)) sc.push_back(x); else good = false; }
            Probe *p = find(a);
            if (good && p) {
                ok = true;
                (w[2][0] == 'i' ? p->s_init : w[2][0] == 's' ? p->s_start : w[2][0] == 't' ? p->s_stop : p->s_cleanup) = sc;
            }
        } else if (op == "set" && w.size() == 5 && to_id(w[1], a) && to_bool(w[2], f1) && to_bool(w[3], f2) && to_bool(w[4], f3)) {
            if (Probe *p = find(a)) { p->cfg = f1; p->init_ok = f2; p->start_ok = f3; ok = true; }
        } else if (w.size() == 2 && to_id(w[1], a)) {
            Probe *p = find(a);
            if (p && p->parent < 0) {
                ok = true;
                try {
                    if (op == "init") ret = do_call(p, 'i');
                    else if (op == "fillinit") {
                        struct Clear { ~Clear() { g_filled.clear(); } } clear_at_end;
                        std::vector<uint64_t> todo{p->id};
                        while (!todo.empty()) { uint64_t k = todo.back(); todo.pop_back(); g_filled.insert(k); for (auto c : g_mods.at(k)->kids) todo.push_back(c); }
                        Json js = Json::object(); js["#"] = (uint64_t)1000; p->fillDefaultConfig(js);
                        g_init_roots.push_back(p->id);
                        struct Pop { ~Pop() { g_init_roots.pop_back(); } } pop_at_end;
                        ret = p->initialize(js);
                    }
                    else if (op == "start") ret = do_call(p, 's');
                    else if (op == "stop") p->stop();
                    else if (op == "cleanup") p->cleanup();
                    else if (op == "destroy") delete p;
                    else ok = false;
                } catch (const std::exception &) { thrown = true; }   // a hook script threw: nobody in between catches
            }
        }
        if (!ok) { std::cout << "bad-op\n"; continue; }
        std::cout << "P ret=" << (thrown ? "X" : ret ? "1" : "0") << " tr=" << trace() << " st=" << states() << "\n";
    }
    alarm(10);
    reset_all(); kreset();
    return 0;
}
