// C11 harness: builds trees of probe modules from op lines, drives the real
// tbox::main::Module lifecycle on the roots and prints, per op, the return value, the user
// hooks that ran (global trace) and state() of every live module — same format as
// lean/Driver/C11.lean.
#include "vh.h"
#include <map>
#include <memory>
#include <tbox/base/json.hpp>
#include <tbox/main/module.h>

using tbox::Json;
using tbox::main::Module;

namespace {

struct DummyCtx : public tbox::main::Context {
    tbox::event::Loop* loop() const override { return nullptr; }
    tbox::eventx::ThreadPool* thread_pool() const override { return nullptr; }
    tbox::eventx::TimerPool* timer_pool() const override { return nullptr; }
    tbox::eventx::Async* async() const override { return nullptr; }
    tbox::terminal::TerminalNodes* terminal() const override { return nullptr; }
    tbox::coroutine::Scheduler* coroutine() const override { return nullptr; }
    std::chrono::milliseconds running_time() const override { return std::chrono::milliseconds(0); }
    std::chrono::system_clock::time_point start_time_point() const override { return {}; }
};

DummyCtx g_ctx;
std::vector<std::string> g_tr;

struct Probe;
std::map<uint64_t, Probe*> g_mods;   // every live module, by id

struct Probe : public Module {
    uint64_t id; bool named, cfg, init_ok, start_ok;
    int64_t parent = -1;               // our own shadow of the tree (Module has no accessor)
    std::vector<uint64_t> kids;

    Probe(uint64_t id_, bool named_, bool cfg_, bool i, bool s)
        : Module(named_ ? "m" + std::to_string(id_) : std::string(), g_ctx),
          id(id_), named(named_), cfg(cfg_), init_ok(i), start_ok(s) { g_mods[id] = this; }
    ~Probe() override { g_mods.erase(id); }

  protected:
    bool onInit(const Json &) override { g_tr.push_back("i" + std::to_string(id) + (init_ok ? "+" : "-")); return init_ok; }
    bool onStart() override { g_tr.push_back("s" + std::to_string(id) + (start_ok ? "+" : "-")); return start_ok; }
    void onStop() override { g_tr.push_back("t" + std::to_string(id)); }
    void onCleanup() override { g_tr.push_back("c" + std::to_string(id)); }
};

void reset_all() {
    // delete the roots; children go with them (their destructors erase themselves from g_mods)
    for (;;) {
        Probe *root = nullptr;
        for (auto &kv : g_mods) if (kv.second->parent < 0) { root = kv.second; break; }
        if (!root) break;
        delete root;
    }
    g_mods.clear();
    g_tr.clear();
}

Probe *find(uint64_t id) { auto it = g_mods.find(id); return it == g_mods.end() ? nullptr : it->second; }

uint64_t root_of(Probe *p) { while (p->parent >= 0) p = g_mods.at((uint64_t)p->parent); return p->id; }

// the configuration object: a named module with cfg=1 gets its key (an object holding its
// children's keys); an unnamed module passes its parent's object through
void fill_cfg(Probe *p, Json &js_parent) {
    if (p->named) {
        if (!p->cfg) return;
        Json &js_this = js_parent["m" + std::to_string(p->id)];
        js_this = Json::object();
        for (auto k : p->kids) fill_cfg(g_mods.at(k), js_this);
    } else {
        for (auto k : p->kids) fill_cfg(g_mods.at(k), js_parent);
    }
}

std::string states() {
    std::string s;
    for (auto &kv : g_mods) {
        if (!s.empty()) s += ",";
        auto st = kv.second->state();
        s += std::to_string(kv.first) + ":" + (st == Module::State::kNone ? "N" : st == Module::State::kInited ? "I" : "R");
    }
    return s.empty() ? "-" : s;
}

std::string trace() {
    std::string s;
    for (auto &e : g_tr) { if (!s.empty()) s += ","; s += e; }
    return s.empty() ? "-" : s;
}

bool to_bool(const std::string &w, bool &b) { if (w == "0") { b = false; return true; } if (w == "1") { b = true; return true; } return false; }
bool to_id(const std::string &w, uint64_t &v) { return w.size() <= 4 && vh::to_u64(w, v) && v < 1000; }

}  // namespace

int main() {
    std::string line;
    while (std::getline(std::cin, line)) {
        auto w = vh::words(line);
        if (w.empty()) continue;
        if (w[0] == "case") { reset_all(); std::cout << line << "\n"; continue; }
        if (w.size() == 1 && w[0] == "quiet") { std::cout << "P quiet\n"; continue; }   // (the model drops its B lines)
        g_tr.clear();
        bool ok = false, ret = true;
        uint64_t a = 0, b = 0; bool f1, f2, f3, f4;
        const std::string &op = w[0];
        if (op == "new" && w.size() == 6 && to_id(w[1], a) && to_bool(w[2], f1) && to_bool(w[3], f2) && to_bool(w[4], f3) && to_bool(w[5], f4)) {
            if (!find(a)) { new Probe(a, f1, f2, f3, f4); ok = true; }
        } else if (op == "add" && w.size() == 4 && to_id(w[1], a) && to_id(w[2], b) && to_bool(w[3], f1)) {
            Probe *p = find(a), *c = find(b);
            // refused as ill-formed only when it would close a cycle (c is the root of p's own tree)
            if (p && c && !(c->parent < 0 && root_of(p) == c->id)) {
                ok = true;
                ret = p->add(c, f1);
                if (ret) { c->parent = (int64_t)p->id; p->kids.push_back(c->id); }
            }
        } else if (op == "set" && w.size() == 5 && to_id(w[1], a) && to_bool(w[2], f1) && to_bool(w[3], f2) && to_bool(w[4], f3)) {
            if (Probe *p = find(a)) { p->cfg = f1; p->init_ok = f2; p->start_ok = f3; ok = true; }
        } else if (w.size() == 2 && to_id(w[1], a)) {
            Probe *p = find(a);
            if (p && p->parent < 0) {
                ok = true;
                if (op == "init") { Json js = Json::object(); fill_cfg(p, js); ret = p->initialize(js); }
                else if (op == "start") ret = p->start();
                else if (op == "stop") p->stop();
                else if (op == "cleanup") p->cleanup();
                else if (op == "destroy") delete p;
                else ok = false;
            }
        }
        if (!ok) { std::cout << "bad-op\n"; continue; }
        std::cout << "P ret=" << (ret ? 1 : 0) << " tr=" << trace() << " st=" << states() << "\n";
    }
    reset_all();
    return 0;
}
