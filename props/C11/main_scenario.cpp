// C11 scenario harness (thorough tier): runs the REAL tbox::main::Main() of
// modules/main/run_in_frontend.cpp with an Apps tree of probe modules described by the op
// file named in $C11_SCENARIO (same `new`/`add` lines as harness.cpp, last line
// `main <ctxInit> <ctxStart> <root>`: module <root> stands for the Apps root that Main() creates).
// Prints one line `P ret=1 tr=<user hooks that ran during Main()> st=-`.
#include "vh.h"
#include <csignal>
#include <fstream>
#include <map>
#include <tbox/base/json.hpp>
#include <tbox/main/main.h>
#include <tbox/main/module.h>

using tbox::Json;
using tbox::main::Module;

namespace {
std::vector<std::string> g_tr;
bool g_bad = false;

struct Probe : public Module {
    uint64_t id; bool init_ok, start_ok;
    Probe(uint64_t id_, bool named, bool i, bool s, tbox::main::Context &ctx)
        : Module(named ? "m" + std::to_string(id_) : std::string(), ctx), id(id_), init_ok(i), start_ok(s) {}
  protected:
    bool onInit(const Json &) override { g_tr.push_back("i" + std::to_string(id) + (init_ok ? "+" : "-")); return init_ok; }
    bool onStart() override { g_tr.push_back("s" + std::to_string(id) + (start_ok ? "+" : "-")); return start_ok; }
    void onStop() override { g_tr.push_back("t" + std::to_string(id)); }
    void onCleanup() override { g_tr.push_back("c" + std::to_string(id)); }
};
}

namespace tbox { namespace main {
void RegisterApps(Module &apps, Context &ctx) {
    const char *path = getenv("C11_SCENARIO");
    std::ifstream in(path ? path : "");
    std::vector<std::vector<std::string>> lines; std::string line;
    while (std::getline(in, line)) { auto w = vh::words(line); if (!w.empty() && w[0] != "case") lines.push_back(w); }
    if (lines.empty() || lines.back()[0] != "main" || lines.back().size() != 4) { g_bad = true; return; }
    uint64_t root = std::stoull(lines.back()[3]);
    std::map<uint64_t, Module*> mods; std::map<uint64_t, bool> owned;
    for (auto &w : lines) {
        if (w[0] == "new" && w.size() == 6) {
            uint64_t id = std::stoull(w[1]);
            if (id == root) { mods[id] = &apps; owned[id] = true; }   // the Apps root is Main()'s own Module("")
            else { mods[id] = new Probe(id, w[2] == "1", w[4] == "1", w[5] == "1", ctx); owned[id] = false; }
        } else if (w[0] == "add" && w.size() == 4) {
            uint64_t p = std::stoull(w[1]), c = std::stoull(w[2]);
            if (!mods.count(p) || !mods.count(c) || c == root) { g_bad = true; continue; }
            if (mods[p]->add(mods[c], w[3] == "1")) owned[c] = true; else g_bad = true;
        }
    }
    for (auto &kv : owned) if (!kv.second) g_bad = true;             // every module must hang below the Apps root
    // when (if) the loop runs — i.e. after apps.start() succeeded — ask Main() to stop
    // (a loop that never runs still drains its queue at shutdown: do nothing then)
    // only while RunInFrontend() has its stop-signal handler installed
    ctx.loop()->runInLoop([] {
        struct sigaction sa; if (sigaction(SIGTERM, nullptr, &sa) == 0 && sa.sa_handler != SIG_DFL && sa.sa_handler != SIG_IGN) raise(SIGTERM);
    });
}
std::string GetAppDescribe() { return "C11 scenario"; }
std::string GetAppBuildTime() { return "-"; }
void GetAppVersion(int &major, int &minor, int &rev, int &build) { major = minor = rev = build = 0; }
}}

int main(int argc, char **argv) {
    (void)argc;
    const char *path = getenv("C11_SCENARIO");
    std::ifstream in(path ? path : ""); std::string line, last;
    while (std::getline(in, line)) if (!vh::words(line).empty()) last = line;
    auto w = vh::words(last);
    if (w.size() != 4 || w[0] != "main") { std::cout << "bad-op\n"; return 0; }
    std::vector<std::string> args = {argv[0], "-s", "exit_wait_sec=0", "-s", "log.stdout.enable=false"};
    if (w[1] == "0") { args.push_back("-s"); args.push_back("thread_pool.min=\"x\""); }   // ContextImp::initialize() fails
    if (w[2] == "0") { std::cout << "unsupported: ContextImp::start() cannot fail\n"; return 0; }
    std::vector<char*> av; for (auto &a : args) av.push_back(&a[0]);
    tbox::main::Main((int)av.size(), av.data());
    if (g_bad) { std::cout << "bad-op\n"; return 0; }
    std::string s; for (auto &e : g_tr) { if (!s.empty()) s += ","; s += e; }
    std::cout << "P ret=1 tr=" << (s.empty() ? "-" : s) << " st=-\n";
    return 0;
}
