// C11 scenario harness: runs the REAL process-level entry points of modules/main with an Apps tree of
// probe modules described by the op file named in $C11_SCENARIO (same `new`/`add`/`set` lines as
// harness.cpp), one process per scenario:
//
//   main <ctxInit> <ctxStart> <root>            tbox::main::Main() of run_in_frontend.cpp (last line);
//                                               an earlier `raise <i|s|t|c> <id>` makes that hook of module <id>
//                                               raise(SIGTERM) when it is entered (a stop signal arriving
//                                               at that moment)
//   bstart <args> <pid> <ctxInit> <ctxStart> <root>   tbox::main::Start() of run_in_backend.cpp
//   bstop <root>                                      tbox::main::Stop()
//   arg <key=json>                                    configuration passed as `-s <key=json>` to the entry points that follow
//                                                     (what the context uses: telnetd / tcp_rpc endpoints that can or cannot be
//                                                     bound, …): nothing the hooks may depend on
//
// Module <root> stands for the Apps root the code creates itself (a base Module("")); RegisterApps()
// rebuilds the tree below it from the `new`/`add` lines — with the flags of the `set` lines seen so far —
// every time the code calls it (once per Start()).
// Faults: <args>=0 passes `-n` (Args::parse answers false), <pid>=0 configures a pid file that cannot be
// created, <ctxInit>=0 a thread_pool.min that is not a number (ContextImp::initialize answers false),
// <ctxStart>=0 makes ContextImp::start() answer false: that function is linked through
// `-Wl,--wrap` (it cannot fail by itself: its body ends in `return true` whatever telnetd/tcp_rpc do).
//
// Output: every hook is written at once as `E <ev>` (unbuffered: a killed process keeps what it wrote);
// `P ret=1 tr=… st=-` after Main() returned; `P bret=<r> tr=…` and `M runtime=<error signal handlers
// installed>` after each Start()/Stop().
#include "vh.h"
#include <csignal>
#include <fstream>
#include <map>
#include <mutex>
#include <unistd.h>
#include <tbox/base/json.hpp>
#include <tbox/main/main.h>
#include <tbox/main/module.h>

using tbox::Json;
using tbox::main::Module;

namespace {
std::mutex g_mx;                       // hooks run on the loop thread (backend) and on the caller's thread
std::vector<std::string> g_tr;
bool g_bad = false;
bool g_ctx_start_fail = false;
int g_raise_hook = -1; uint64_t g_raise_id = 0; bool g_raised = false;
std::vector<std::vector<std::string>> g_tree;     // new / add / set lines seen so far
std::vector<std::string> g_extra_args;            // `arg <key=json>` lines: passed as `-s <key=json>` to every later entry point
uint64_t g_root = 0;

void emit(const std::string &e) {
    { std::lock_guard<std::mutex> lk(g_mx); g_tr.push_back(e); }
    std::string l = "E " + e + "\n";
    if (::write(1, l.data(), l.size()) < 0) {}
}
void out(const std::string &s) { std::cout.flush(); if (::write(1, s.data(), s.size()) < 0) {} }

struct Probe : public Module {
    uint64_t id; bool init_ok, start_ok;
    Probe(uint64_t id_, bool named, bool i, bool s, tbox::main::Context &ctx)
        : Module(named ? "m" + std::to_string(id_) : std::string(), ctx), id(id_), init_ok(i), start_ok(s) {}
    void sig(int h) { if (h == g_raise_hook && id == g_raise_id && !g_raised) { g_raised = true; raise(SIGTERM); } }
  protected:
    bool onInit(const Json &) override { sig(0); emit("i" + std::to_string(id) + (init_ok ? "+" : "-")); return init_ok; }
    bool onStart() override { sig(1); emit("s" + std::to_string(id) + (start_ok ? "+" : "-")); return start_ok; }
    void onStop() override { sig(2); emit("t" + std::to_string(id)); }
    void onCleanup() override { sig(3); emit("c" + std::to_string(id)); }
};

std::string take_trace() {
    std::lock_guard<std::mutex> lk(g_mx);
    std::string s; for (auto &e : g_tr) { if (!s.empty()) s += ","; s += e; }
    g_tr.clear();
    return s.empty() ? "-" : s;
}

struct sigaction g_base_segv;
bool errsig_installed() {
    struct sigaction sa; sigaction(SIGSEGV, nullptr, &sa);
    return sa.sa_sigaction != g_base_segv.sa_sigaction || sa.sa_flags != g_base_segv.sa_flags;
}
}

extern "C" bool __real__ZN4tbox4main10ContextImp5startEv(void *self);
extern "C" bool __wrap__ZN4tbox4main10ContextImp5startEv(void *self) {
    if (g_ctx_start_fail) return false;
    return __real__ZN4tbox4main10ContextImp5startEv(self);
}

namespace tbox { namespace main {
void RegisterApps(Module &apps, Context &ctx) {
    std::map<uint64_t, Module*> mods; std::map<uint64_t, bool> owned;
    std::map<uint64_t, std::pair<bool, bool>> flags;
    for (auto &w : g_tree) if (w[0] == "set" && w.size() == 5) flags[std::stoull(w[1])] = {w[3] == "1", w[4] == "1"};
    for (auto &w : g_tree) {
        if (w[0] == "new" && w.size() == 6) {
            uint64_t id = std::stoull(w[1]);
            bool i = w[4] == "1", s = w[5] == "1";
            if (flags.count(id)) { i = flags[id].first; s = flags[id].second; }
            if (id == g_root) { mods[id] = &apps; owned[id] = true; }   // the Apps root is the code's own Module("")
            else { mods[id] = new Probe(id, w[2] == "1", i, s, ctx); owned[id] = false; }
        } else if (w[0] == "add" && w.size() == 4) {
            uint64_t p = std::stoull(w[1]), c = std::stoull(w[2]);
            if (!mods.count(p) || !mods.count(c) || c == g_root) { g_bad = true; continue; }
            if (mods[p]->add(mods[c], w[3] == "1")) owned[c] = true; else g_bad = true;
        }
    }
    for (auto &kv : owned) if (!kv.second) g_bad = true;             // every module must hang below the Apps root
    // frontend: when (if) the loop runs — i.e. after apps.start() succeeded — ask Main() to stop, but only while
    // RunInFrontend() has its stop-signal handler installed (a loop that never runs still drains its queue at
    // shutdown: do nothing then).  In the backend no handler is ever installed for SIGTERM: nothing happens.
    ctx.loop()->runInLoop([] {
        struct sigaction sa; if (sigaction(SIGTERM, nullptr, &sa) == 0 && sa.sa_handler != SIG_DFL && sa.sa_handler != SIG_IGN) raise(SIGTERM);
    });
}
std::string GetAppDescribe() { return "C11 scenario"; }
std::string GetAppBuildTime() { return "-"; }
void GetAppVersion(int &major, int &minor, int &rev, int &build) { major = minor = rev = build = 0; }
}}

namespace {
bool is_bool(const std::string &w) { return w == "0" || w == "1"; }
bool is_id(const std::string &w) { uint64_t v; return w.size() <= 4 && vh::to_u64(w, v) && v < 1000; }

std::vector<std::string> make_args(const char *argv0, bool args_ok, bool pid_ok, bool ctx_init) {
    std::vector<std::string> a = {argv0, "-s", "exit_wait_sec=0", "-s", "log.stdout.enable=false"};
    if (!args_ok) a.push_back("-n");
    if (!pid_ok) { a.push_back("-s"); a.push_back("pid_file=\"/proc/C11-no-such-dir/x.pid\""); }
    if (!ctx_init) { a.push_back("-s"); a.push_back("thread_pool.min=\"x\""); }   // ContextImp::initialize() fails
    for (auto &x : g_extra_args) { a.push_back("-s"); a.push_back(x); }
    return a;
}
}

int main(int argc, char **argv) {
    (void)argc;
    sigaction(SIGSEGV, nullptr, &g_base_segv);
    const char *path = getenv("C11_SCENARIO");
    std::ifstream in(path ? path : ""); std::string line;
    std::vector<std::vector<std::string>> lines;
    while (std::getline(in, line)) { auto w = vh::words(line); if (!w.empty() && w[0] != "case") lines.push_back(w); }
    bool any = false;
    for (auto &w : lines) {
        const std::string &op = w[0];
        if (op == "new" || op == "add" || op == "set") { g_tree.push_back(w); continue; }
        if (op == "arg" && w.size() == 2) { g_extra_args.push_back(w[1]); continue; }
        if (op == "raise" && w.size() == 3 && w[1].size() == 1 && std::string("istc").find(w[1][0]) != std::string::npos && is_id(w[2])) {
            g_raise_hook = (int)std::string("istc").find(w[1][0]); g_raise_id = std::stoull(w[2]); g_raised = false; continue;
        }
        if (op == "main" && w.size() == 4 && is_bool(w[1]) && is_bool(w[2]) && is_id(w[3]) && &w == &lines.back()) {
            g_root = std::stoull(w[3]); g_ctx_start_fail = (w[2] == "0");
            auto args = make_args(argv[0], true, true, w[1] == "1");
            std::vector<char*> av; for (auto &a : args) av.push_back(&a[0]);
            tbox::main::Main((int)av.size(), av.data());
            if (g_bad) { out("bad-op\n"); return 0; }
            // OS-level state Main() must leave as it found it: stop signals unblocked and at their default disposition,
            // error-signal handlers removed (M: a rewrite may legitimately leave something else)
            sigset_t cur; sigprocmask(SIG_SETMASK, nullptr, &cur);
            struct sigaction sa; sigaction(SIGTERM, nullptr, &sa);
            out("P ret=1 tr=" + take_trace() + " st=-\nM after-main blocked=" + (sigismember(&cur, SIGTERM) || sigismember(&cur, SIGINT) ? "1" : "0") +
                " term=" + (sa.sa_handler == SIG_DFL ? "dfl" : "other") + " errsig=" + (errsig_installed() ? "1" : "0") + "\n");
            any = true; continue;
        }
        if (op == "bstart" && w.size() == 6 && is_bool(w[1]) && is_bool(w[2]) && is_bool(w[3]) && is_bool(w[4]) && is_id(w[5])) {
            g_root = std::stoull(w[5]); g_ctx_start_fail = (w[4] == "0");
            auto args = make_args(argv[0], w[1] == "1", w[2] == "1", w[3] == "1");
            std::vector<char*> av; for (auto &a : args) av.push_back(&a[0]);
            bool r = tbox::main::Start((int)av.size(), av.data());
            if (g_bad) { out("bad-op\n"); return 0; }
            out(std::string("P bret=") + (r ? "1" : "0") + " tr=" + take_trace() + "\nM runtime=" + (errsig_installed() ? "1" : "0") + "\n");
            any = true; continue;
        }
        if (op == "bstop" && w.size() == 2 && is_id(w[1])) {
            tbox::main::Stop();
            out("P bret=1 tr=" + take_trace() + "\nM runtime=" + (errsig_installed() ? "1" : "0") + "\n");
            any = true; continue;
        }
        out("bad-op\n"); return 0;
    }
    if (!any) out("bad-op\n");
    return 0;
}
