"""C11 — module tree lifecycle hooks are nested, ordered and balanced (tbox::main::Module)."""
import itertools
import vlib

ID = 'C11'
LEAN_MODULES = ['TboxModel.C11.Props']
EXE = 'c11'
THEOREMS = ['Tbox.C11.C11_gating', 'Tbox.C11.C11_hooks_of_tree', 'Tbox.C11.C11_balanced', 'Tbox.C11.C11_balanced_counts',
            'Tbox.C11.C11_reverse', 'Tbox.C11.C11_reverse_closed', 'Tbox.C11.C11_reverse_explicit',
            'Tbox.C11.C11_preorder', 'Tbox.C11.C11_preorder_in_sequence', 'Tbox.C11.C11_optional_isolated',
            'Tbox.C11.C11_optional_isolated_root', 'Tbox.C11.C11_required_not_isolated',
            'Tbox.C11.C11_main_is_history', 'Tbox.C11.C11_main_balanced', 'Tbox.C11.C11_main_counterexample_unrepaired', 'Tbox.C11.C11_balanced_counterexample_unrepaired',
            'Tbox.C11.C11_balanced_witness_repaired', 'Tbox.C11.C11_start_counterexample_unrepaired',
            'Tbox.C11.C11_destroy_only_remark']
SOURCES = ['modules/main/module.cpp', 'modules/util/variables.cpp'] + vlib.BASE_SOURCES
FLAVOUR = 'asan'
BATCH = 400
TRUSTED = ['model lean/TboxModel/C11/Model.lean is hand-written from modules/main/module.cpp (with patches/C11-01 applied); '
           'tied by differential runs of generated module trees and root-call sequences',
           'probe modules return a fixed (settable between root calls) result from onInit/onStart; hooks do not re-enter the tree',
           'module names are "" or "m<id>" (unique): name clashes other than two unnamed siblings are not generated']
ASSUMPTIONS = ['user hooks do not throw and do not call lifecycle functions of the tree from inside a hook',
               'children are only driven through the root (module.h: the parent owns the child after add())']
RULE = ('cases = a forest of probe modules built with new/add lines (depth <= 5, fan-out <= 4, required/optional, named/unnamed, '
        'config key present/missing, per-module onInit/onStart results) followed by initialize/start/stop/cleanup/destroy calls on '
        'roots in random (also repeated / out-of-order) order with fault flags changed between calls; non-trivial = the model run '
        'takes a roll-back branch, survives an optional failure, stops from inside cleanup or emits hooks from the destructor; '
        'distinct = distinct op text')

CALLS = ['init', 'start', 'stop', 'cleanup']


def b(x):
    return '1' if x else '0'


def gen_tree(rng, n, p_fail=0.15, ids=None):
    """returns (lines, root id, all ids). Node k's parent is an earlier node (depth <= 5, fan-out <= 4)."""
    ids = ids or list(range(n))
    if rng.random() < 0.3:
        ids = rng.sample(range(60), n)
    lines, depth, fan, unnamed_kid = [], {}, {}, {}
    adds = []
    for k, i in enumerate(ids):
        parent = None
        if k > 0:
            cands = [p for p in ids[:k] if depth[p] < 5 and fan[p] < 4]
            parent = rng.choice(cands) if cands else None
        named = rng.random() < 0.7
        if parent is not None and not named and unnamed_kid.get(parent) and rng.random() < 0.9:
            named = True
        if parent is not None and not named:
            unnamed_kid[parent] = True
        cfg = rng.random() < 0.92
        lines.append('new %d %s %s %s %s' % (i, b(named), b(cfg), b(rng.random() >= p_fail), b(rng.random() >= p_fail)))
        depth[i] = 0 if parent is None else depth[parent] + 1
        fan[i] = 0
        if parent is not None:
            fan[parent] += 1
            adds.append('add %d %d %s' % (parent, i, b(rng.random() < 0.6)))
    return lines + adds, ids[0], ids


def gen_case(rng):
    n = rng.choice([1, 2, 3, 3, 4, 4, 5, 6, 8, 12])
    lines, root, ids = gen_tree(rng, n, p_fail=rng.choice([0.0, 0.1, 0.2, 0.4]))
    ops = list(lines)
    style = rng.random()
    if style < 0.45:
        seq = ['init', 'start', 'stop', 'cleanup']
        # perturb: duplicate / drop / swap
        for _ in range(rng.randrange(3)):
            k = rng.randrange(len(seq) + 1)
            seq.insert(k, rng.choice(CALLS))
        if rng.random() < 0.3 and len(seq) > 1:
            del seq[rng.randrange(len(seq))]
    else:
        seq = [rng.choice(CALLS) for _ in range(rng.choice([2, 4, 6, 10]))]
    for c in seq:
        if rng.random() < 0.15:
            i = rng.choice(ids)
            ops.append('set %d %s %s %s' % (i, b(rng.random() < 0.9), b(rng.random() < 0.7), b(rng.random() < 0.7)))
        ops.append('%s %d' % (c, root))
    if rng.random() < 0.1:   # a late add (refused: parent not in kNone) or an add of an owned child
        ops.append('new 900 1 1 1 1')
        ops.append('add %d 900 1' % rng.choice(ids))
        ops.append('add 900 %d 1' % rng.choice(ids))
    if rng.random() < 0.8:
        ops.append('cleanup %d' % root)
    ops.append('destroy %d' % root)
    return ops


def gen_one_failure(rng):
    """all hooks succeed except one module (init or start), varying whether the path to the root is required"""
    n = rng.choice([2, 3, 4, 5, 7])
    lines, root, ids = gen_tree(rng, n, p_fail=0.0)
    lines = [l if not l.startswith('new') else ' '.join(l.split()[:2] + [l.split()[2], '1', '1', '1']) for l in lines]
    if rng.random() < 0.6:
        lines = [l if not l.startswith('add') else ' '.join(l.split()[:3] + ['1']) for l in lines]
    victim = rng.choice(ids)
    kind = rng.choice(['init', 'start'])
    ops = list(lines) + ['set %d 1 %s %s' % (victim, b(kind != 'init'), b(kind != 'start'))]
    ops += ['init %d' % root, 'start %d' % root]
    if rng.random() < 0.5:
        ops += ['set %d 1 1 1' % victim, 'init %d' % root, 'start %d' % root]
    ops += ['stop %d' % root, 'cleanup %d' % root, 'destroy %d' % root]
    return ops


APIS = 'istc'


def gen_script_case(rng, throws=True):
    """hook scripts: a hook of one module calls the API of itself / its parent / a sibling / the root / a free module,
    adds a free module somewhere, or throws; then root calls as usual"""
    n = rng.choice([2, 3, 4, 5, 6, 8])
    lines, root, ids = gen_tree(rng, n, p_fail=rng.choice([0.0, 0.1, 0.25]))
    free = [900 + k for k in range(rng.choice([0, 1, 2, 3]))]
    # free-standing modules that scripts may add(): the config object of a root call is built when the call is made, so a
    # module that joins the tree during that call has no key in it: give it no name, or a name with the key absent (cfg=0)
    ops = list(lines) + ['new %d %s 0 %s %s' % (f, b(rng.random() < 0.35), b(rng.random() < 0.85), b(rng.random() < 0.85)) for f in free]
    parent = {}
    for l in lines:
        w = l.split()
        if w[0] == 'add':
            parent[int(w[2])] = int(w[1])

    def target(owner):
        r = rng.random()
        kids = [c for c, p in parent.items() if p == owner]
        sibs = [c for c, p in parent.items() if owner in parent and p == parent[owner] and c != owner]
        if r < 0.22: return owner
        if r < 0.40 and owner in parent: return parent[owner]
        if r < 0.55: return root
        if r < 0.70 and sibs: return rng.choice(sibs)
        if r < 0.82 and kids: return rng.choice(kids)
        if r < 0.90 and free: return rng.choice(free)
        return rng.choice(ids)

    for _ in range(rng.choice([1, 1, 2, 3, 4])):
        owner = rng.choice(ids + free[:1])
        h = rng.choice(APIS)
        acts = []
        for _ in range(rng.choice([1, 1, 2, 3])):
            r = rng.random()
            if r < 0.62:
                acts.append('c%s:%d' % (rng.choice(APIS), target(owner)))
            elif r < 0.92 and free:
                acts.append('a:%d:%d:%s' % (target(owner), rng.choice(free), b(rng.random() < 0.6)))
            elif throws and h in 'is' and rng.random() < 0.5:
                acts.append('x')
            else:
                acts.append('c%s:%d' % (rng.choice(APIS), owner))
        ops.append('hook %d %s %s' % (owner, h, ' '.join(acts)))
    seq = ['init', 'start', 'stop', 'cleanup'] if rng.random() < 0.5 else [rng.choice(CALLS) for _ in range(rng.choice([3, 5, 8]))]
    if rng.random() < 0.4:
        seq.insert(rng.randrange(len(seq) + 1), rng.choice(CALLS))
    for c in seq:
        ops.append('%s %d' % (c, root))
        if rng.random() < 0.1:
            ops.append('hook %d %s c%s:%d' % (rng.choice(ids), rng.choice(APIS), rng.choice(APIS), target(rng.choice(ids))))
    # bring everything down while all modules still exist (no hook may fire inside a destructor), then destroy
    for r_ in [root] + free:
        ops.append('cleanup %d' % r_)
    for r_ in [root] + free:
        ops.append('cleanup %d' % r_)
    for r_ in [root] + free:
        ops.append('destroy %d' % r_)
    return ops


def gen_forest(rng):
    """several roots, adds across them (incl. refused ones), a pre-initialised subtree attached later"""
    ops = []
    for i in range(5):
        ops.append('new %d %s 1 %s %s' % (i, b(rng.random() < 0.7), b(rng.random() < 0.85), b(rng.random() < 0.85)))
    if rng.random() < 0.5:
        ops.append('init %d' % rng.randrange(5))
    for _ in range(rng.randrange(3, 9)):
        ops.append('add %d %d %s' % (rng.randrange(5), rng.randrange(5), b(rng.random() < 0.6)))
    for _ in range(rng.randrange(2, 8)):
        ops.append('%s %d' % (rng.choice(CALLS + ['destroy']), rng.randrange(5)))
    for i in range(5):
        ops.append('cleanup %d' % i)
    for i in range(5):
        ops.append('destroy %d' % i)
    return ops


# ---- exhaustive small scope (thorough): every ordered tree shape x required flags x failure kind per module,
# ---- every root-call sequence of the given length (all prefixes are compared too)

def shapes(n):
    """all ordered rooted trees with n nodes as parent vectors (node k>0 has parent < k, pre-order numbering)"""
    def rec(k, parents, path):
        if k == n:
            yield list(parents); return
        # in pre-order numbering node k attaches to any node on the current right-most path
        for d, p in enumerate(path):
            yield from rec(k + 1, parents + [p], path[:d + 1] + [k])
    yield from rec(1, [-1], [0])


EXH = {'trees': 0, 'combos': 0, 'lines': 0, 'chunks': 0, 'bad': []}
EXH_SCOPES = [(1, 4, 4), (5, 5, 4)]   # (min modules, max modules, length of the call sequences)
KINDS = [(1, 1), (0, 1), (1, 0)]      # ok / onInit fails / onStart fails


def exh_skeletons(lo, hi):
    for n in range(lo, hi + 1):
        for par in shapes(n):
            for reqs in itertools.product([1, 0], repeat=n - 1):
                yield (n, par, reqs)


def exh_ops(skel, seq_len):
    """one case: the tree, then for every failure assignment every call sequence of that length, each followed by
    cleanup (which brings the tree back to all-kNone: visible in st=)"""
    n, par, reqs = skel
    seqs = [['%s 0' % c for c in s] + ['cleanup 0'] for s in itertools.product(CALLS, repeat=seq_len)]
    ops = ['quiet'] + ['new %d 1 1 1 1' % i for i in range(n)]
    ops += ['add %d %d %d' % (par[k], k, reqs[k - 1]) for k in range(1, n)]
    cur = [(1, 1)] * n
    ntrees = 0
    for assign in itertools.product(KINDS, repeat=n):
        ntrees += 1
        for k in range(n):
            if cur[k] != assign[k]:
                ops.append('set %d 1 %d %d' % (k, assign[k][0], assign[k][1]))
        cur = list(assign)
        for s in seqs:
            ops += s
    ops.append('destroy 0')
    return ops, ntrees, ntrees * len(seqs)


def run_exhaustive(scopes=None, workers=None):
    """Runs the exhaustive small-scope enumeration in chunks (harness and Lean driver side by side, outputs compared
    byte for byte; with `quiet` the driver prints no B lines). Fills EXH; EXH['bad'] = [(ops, impl_line, model_line)]."""
    import os, threading
    from concurrent.futures import ThreadPoolExecutor
    EXH.update({'trees': 0, 'combos': 0, 'lines': 0, 'chunks': 0, 'bad': []})
    exe, hlog = vlib.build_harness(ID, SOURCES, os.path.join(vlib.VERIF, 'props', ID, 'harness.cpp'), FLAVOUR)
    if exe is None:
        return                                           # standard_check reports the build failure
    drv = os.path.join(vlib.LEAN, '.lake', 'build', 'bin', EXE)
    lock = threading.Lock()
    jobs = []
    for (lo, hi, ln) in (scopes or EXH_SCOPES):
        group, weight = [], 0
        for sk in exh_skeletons(lo, hi):
            group.append((sk, ln)); weight += (3 ** sk[0]) * (4 ** ln) * (ln + 1)
            if weight > 1200000:
                jobs.append(group); group, weight = [], 0
        if group:
            jobs.append(group)

    def one(group):
        cases, nt, nc = {}, 0, 0
        for i, (sk, ln) in enumerate(group):
            ops, t, c = exh_ops(sk, ln)
            cases[i] = ops; nt += t; nc += c
        text = ''.join(vlib.case_text(i, cases[i]) for i in sorted(cases))
        rc1, so1, se1 = vlib.run_proc([exe], text, 900)
        rc2, so2, se2 = vlib.run_proc([drv], text, 900)
        bad = []
        if rc1 != 0 or rc2 != 0 or so1 != so2:
            impl, model = vlib.split_cases(so1), vlib.split_cases(so2)
            for i in sorted(cases):
                il = impl.get(i, ['<no output>'])
                if rc1 != 0 and i == max(impl or {0: 0}):
                    il = il + ['CRASH ' + vlib.classify_crash(rc1, se1)]
                d = vlib.first_diff(il, model.get(i, ['<no model output>']))
                if d:
                    bad.append((cases[i][:d[0] + 1], d[1], d[2]))   # ops up to the first diverging answer (quiet answers too)
                    break
            if not bad and rc2 != 0:
                bad.append((['<driver failed rc=%s>' % rc2], se2[-300:], 'runs'))
        with lock:
            EXH['trees'] += nt; EXH['combos'] += nc; EXH['lines'] += text.count('\n'); EXH['chunks'] += 1
            EXH['bad'] += bad
    with ThreadPoolExecutor(workers or max(2, min(12, vlib.NPROC - 2))) as ex:
        list(ex.map(one, jobs))


def gen(rng, tier):
    n = 500 if tier == 'quick' else 6000
    # malformed stream: both sides must answer bad-op (unknown op, bad flag, unknown id, non-root call, cycle, duplicate id)
    yield ['new 0 1 1 1 1', 'new 0 1 1 1 1', 'new 1 2 1 1 1', 'new x 1 1 1 1', 'add 0 0 1', 'new 1 1 1 1 1', 'add 0 1 1', 'add 1 0 1',
           'init 1', 'init 5', 'frob 0', 'start', 'set 9 1 1 1', 'set 0 1 1', 'destroy 1', 'init 0', 'add 0 1 1', 'new 1000 1 1 1 1',
           'cleanup 0', 'destroy 0', 'destroy 0']
    # DESIGN §7 row 5: root ok, child a ok, required child b fails to initialise / to start
    yield ['new 0 1 1 1 1', 'new 1 1 1 1 1', 'new 2 1 1 0 1', 'add 0 1 1', 'add 0 2 1', 'init 0', 'cleanup 0', 'destroy 0']
    yield ['new 0 1 1 1 1', 'new 1 1 1 1 1', 'new 2 1 1 1 0', 'add 0 1 1', 'add 0 2 1', 'init 0', 'start 0', 'cleanup 0', 'destroy 0']
    # missing config key of a required grandchild; optional failing subtree; two unnamed siblings
    yield ['new 0 0 1 1 1', 'new 1 1 1 1 1', 'new 2 1 0 1 1', 'new 3 1 1 1 1', 'add 0 1 1', 'add 1 3 1', 'add 1 2 1', 'init 0', 'start 0',
           'set 2 1 1 1', 'init 0', 'start 0', 'destroy 0']
    yield ['new 0 1 1 1 1', 'new 1 1 1 1 1', 'new 2 1 1 1 1', 'new 3 1 1 0 1', 'new 4 0 1 1 1', 'new 5 0 1 1 1', 'add 0 1 0', 'add 1 2 1',
           'add 1 3 1', 'add 0 4 1', 'add 0 5 1', 'init 0', 'start 0', 'stop 0', 'start 0', 'cleanup 0', 'destroy 0', 'destroy 5']
    # (thorough: the exhaustive small-scope enumeration runs in plugin.check() -> run_exhaustive(), in parallel chunks)
    for _ in range(n):
        yield gen_case(rng)
    for _ in range(n // 2):
        yield gen_one_failure(rng)
    for _ in range(n // 5):
        yield gen_forest(rng)




def extra_coverage():
    if not EXH['trees']:
        return {}
    return {'main_scenarios': {'run': MAIN['run'], 'agree': MAIN['ok'], 'paths': dict(MAIN['paths']),
                               'what': 'real tbox::main::Main() (run_in_frontend.cpp, ContextImp, Log, Args) with an Apps tree of probe '
                                       'modules; hook trace compared with the model mainTrace; ContextImp::start() cannot fail in the '
                                       'code, that branch is model-only; run_in_backend.cpp has the same sequencing and is not executed'},
'exhaustive': True,
            'exhaustive_scope': 'every ordered tree shape x required/optional flag of every child x {ok, onInit fails, onStart fails} '
                                'per module, x every sequence of root calls over {initialize,start,stop,cleanup} of the given length '
                                '(all prefixes compared too), each followed by cleanup: ' +
                                '; '.join('%d..%d modules with sequences of length %d' % sc for sc in EXH_SCOPES) +
                                ' (%d trees, %d tree/sequence combinations, %d op lines in %d chunks, %d diverging); '
                                'all modules named with config present; run by plugin.run_exhaustive() outside the sampled cases'
                                % (EXH['trees'], EXH['combos'], EXH['lines'], EXH['chunks'], len(EXH['bad']))}


# ---- Main() scenarios (thorough tier): the real tbox::main::Main() of run_in_frontend.cpp with an Apps tree of
# ---- probe modules, compared with the model's `mainTrace` (driver op `main <ctxInit> <ctxStart> <root>`)

MAIN_MODULES = ['base', 'util', 'event', 'eventx', 'log', 'terminal', 'network', 'trace', 'coroutine', 'main']
MAIN = {'run': 0, 'ok': 0, 'paths': {}}


def main_sources():
    import os
    srcs = []
    for m in MAIN_MODULES:
        for root, ds, fs in os.walk(os.path.join(vlib.REPO, 'modules', m)):
            if 'example' in root or '/test' in root:
                continue
            for f in fs:
                if f.endswith('.cpp') and not f.endswith('_test.cpp'):
                    srcs.append(os.path.relpath(os.path.join(root, f), vlib.REPO))
    return sorted(srcs)


def gen_main_scenario(rng, k):
    n = rng.choice([2, 3, 4, 5, 7])
    lines, root, ids = gen_tree(rng, n, p_fail=rng.choice([0.0, 0.15, 0.3]))
    out = []
    for l in lines:
        w = l.split()
        if w[0] == 'new':
            w[3] = '1'                                   # config keys are created by fillDefaultConfig()
            if int(w[1]) == root:
                w[2], w[4], w[5] = '0', '1', '1'          # the Apps root is a base Module("")
        out.append(' '.join(w))
    if k % 5 == 1:                                        # everything fine: the run / stop-signal path
        out = [' '.join(l.split()[:4] + ['1', '1']) if l.startswith('new') else l for l in out]
    out.append('main %d 1 %d' % (0 if k % 7 == 3 else 1, root))
    return out


def run_main_scenarios(seed, count, extra=()):
    """returns list of (ops, impl_line, model_line) that disagree"""
    import os, random, tempfile
    from concurrent.futures import ThreadPoolExecutor
    exe, hlog = vlib.build_harness(ID, main_sources(), os.path.join(vlib.VERIF, 'props', ID, 'main_scenario.cpp'), 'asan',
                                   out_name='mainscn')
    if exe is None:
        return [(['<build of props/C11/main_scenario.cpp>'], hlog[-1500:], 'builds')]
    rng = random.Random('%s:main:%d' % (ID, seed))
    cases = [list(e) for e in extra] + [gen_main_scenario(rng, k) for k in range(count)]
    # keep only scenarios where every module hangs below the Apps root (an add refused for two unnamed siblings leaves a stray root)
    model = vlib.run_driver_cases(EXE, dict(enumerate(cases)))
    tmpd = tempfile.mkdtemp(prefix='C11-main-')

    def one(i):
        path = os.path.join(tmpd, '%d.ops' % i)
        with open(path, 'w') as fh:
            fh.write('\n'.join(cases[i]) + '\n')
        rc, so, se = vlib.run_proc([exe], '', 60, env={'C11_SCENARIO': path})
        lines = [l for l in so.splitlines() if l.startswith('P ') or l == 'bad-op']
        if rc != 0:
            lines.append('CRASH ' + vlib.classify_crash(rc, se))
        return lines
    with ThreadPoolExecutor(8) as ex:
        impl = list(ex.map(one, range(len(cases))))
    import shutil
    shutil.rmtree(tmpd, ignore_errors=True)
    bad = []
    for i, ops in enumerate(cases):
        ml = [l for l in model.get(i, []) if not l.startswith('B ')]
        tags = [l for l in model.get(i, []) if l.startswith('B main-')]
        m_last = ml[-1] if ml else '<none>'
        stray = ',' in m_last.split('st=')[-1] or (m_last.split('st=')[-1].strip() not in ('-',))
        if impl[i] == ['bad-op'] and (stray or m_last == 'bad-op'):
            continue                                    # not a scenario (stray root): skipped on both sides
        MAIN['run'] += 1
        for t in tags:
            MAIN['paths'][t[2:]] = MAIN['paths'].get(t[2:], 0) + 1
        if impl[i] == [m_last]:
            MAIN['ok'] += 1
        else:
            bad.append((ops, ' | '.join(impl[i]) or '<no output>', m_last))
    return bad


def check(tier, seed, replay):
    import hashlib, json, os, time, types
    t0 = time.time()
    me = types.SimpleNamespace(**{k: v for k, v in globals().items() if k != 'check'})
    MAIN.update({'run': 0, 'ok': 0, 'paths': {}})
    bad = []
    if replay:
        ops = [l.strip() for l in open(replay) if l.strip() and not l.startswith('#') and not l.startswith('case ')]
        if ops and ops[-1].startswith('main '):
            bad = run_main_scenarios(seed, 0, extra=[ops])
            for (o, il, ml) in bad:
                print('VIOLATION property=%s replay=%s' % (ID, replay), flush=True)
                vlib.log('  -> Main() scenario: impl=%r expected=%r' % (il, ml))
            return 1 if bad else 0
    elif tier == 'thorough':
        ok, _ = vlib.lean_build([EXE])
        bad = run_main_scenarios(seed, 60, extra=MAIN_FIXED)
        run_exhaustive()
        bad = [(o, il, ml, 'exhaustive enumeration') for (o, il, ml) in EXH['bad']] + [(o, il, ml, 'Main() scenario') for (o, il, ml) in bad]
    rc = vlib.standard_check(me, tier, seed, replay)
    for (o, il, ml, what) in bad[:4]:
        fp = ('main-' if o[-1].startswith('main ') else 'exh-') + hashlib.sha1('\n'.join(o).encode()).hexdigest()[:10]
        path = vlib.write_replay(ID, fp + '.ops', vlib.case_text(0, o) + '# %s\n# implementation: %s\n# model/spec   : %s\n'
                                 % (what, il, ml))
        print('VIOLATION property=%s replay=%s' % (ID, path), flush=True)
        vlib.log('  -> %s: impl=%r expected=%r' % (what, il[:200], ml[:200]))
    if tier == 'thorough' and not replay:
        # the evidence written by standard_check() does not know about the two extra passes: add them
        evp = os.path.join(vlib.VERIF, 'evidence', ID + '.json')
        ev = json.load(open(evp))
        ev['violations'] = ev.get('violations', 0) + min(len(bad), 4)
        ev['wall_s'] = round(time.time() - t0, 2)
        with open(evp + '.tmp', 'w') as fh:
            json.dump(ev, fh, indent=1, sort_keys=True); fh.write('\n')
        os.replace(evp + '.tmp', evp)
    if bad:
        rc = 1
    return rc


# DESIGN 7-5 inside Main(): "Apps init fail" and "Apps start fail" paths, the run path, "Context init fail"
MAIN_FIXED = [
    ['new 0 0 1 1 1', 'new 1 1 1 1 1', 'new 2 1 1 0 1', 'add 0 1 1', 'add 0 2 1', 'main 1 1 0'],
    ['new 0 0 1 1 1', 'new 1 1 1 1 1', 'new 2 1 1 1 0', 'add 0 1 1', 'add 0 2 1', 'main 1 1 0'],
    ['new 0 0 1 1 1', 'new 1 1 1 1 1', 'new 2 0 1 1 1', 'new 3 1 1 0 1', 'add 0 1 1', 'add 0 2 0', 'add 2 3 1', 'main 1 1 0'],
    ['new 0 0 1 1 1', 'new 1 1 1 1 1', 'add 0 1 1', 'main 0 1 0'],
]


NT_TAGS = ('init-rollback', 'start-rollback', '-ok-optfail', 'cleanup-with-stop', 'destroy-emits')


def nontrivial(ops, model_lines):
    tags = ' '.join(l for l in model_lines if l.startswith('B '))
    return 1 if any(t in tags for t in NT_TAGS) else None


def fingerprint(ops, d):
    import hashlib
    kinds = ' '.join(o.split()[0] for o in ops)
    return hashlib.sha1(kinds.encode()).hexdigest()[:12]


LEVEL_TEXT = ('Lean 4 theorems over a hand-written model of Module (tree with per-module state_, transcribed initialize/start/stop/cleanup/'
              '~Module): for every tree, every success/failure assignment and every sequence of root calls the hook trace obeys each '
              "module's lifecycle automaton, is LIFO-nested, and is balanced after cleanup+destroy; the model is tied to module.cpp on every "
              'run by differential execution of generated trees and call sequences (ASan+UBSan build of the working tree)')
LEVEL_NOTE = ('trusted: Lean kernel, hand-written model + differential tie (coverage bounded by the generator, measured in evidence); '
              'hooks that re-enter the tree or throw are not modelled; Main() sequencing is a small model (mainTrace) tied by scenario runs of the real Main() in the thorough tier')
TECHNIQUE = 'Lean 4 structural-induction proofs over a module-tree model + model/implementation correspondence check'
DESIGN_REF = 'DESIGN.md §6 C11, §7 row 5'
