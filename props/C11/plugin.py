"""C11 — module tree lifecycle hooks are nested, ordered and balanced (tbox::main::Module)."""
import itertools
import vlib

ID = 'C11'
LEAN_MODULES = ['TboxModel.C11.Props']
EXE = 'c11'
THEOREMS = ['Tbox.C11.C11_gating', 'Tbox.C11.C11_hooks_of_tree', 'Tbox.C11.C11_balanced', 'Tbox.C11.C11_balanced_counts',
            'Tbox.C11.C11_reverse', 'Tbox.C11.C11_reverse_closed', 'Tbox.C11.C11_reverse_explicit', 'Tbox.C11.C11_balanced_counterexample_unrepaired',
            'Tbox.C11.C11_balanced_witness_repaired', 'Tbox.C11.C11_start_counterexample_unrepaired',
            'Tbox.C11.C11_destroy_only_remark']
SOURCES = ['modules/main/module.cpp', 'modules/util/variables.cpp'] + vlib.BASE_SOURCES
FLAVOUR = 'asan'
BATCH = 400
TRUSTED = ['model lean/TboxModel/C11/Model.lean is hand-written from modules/main/module.cpp (with patches/C11-01 applied); '
           'tied by differential runs of generated module trees and root-call sequences',
           'probe modules return a fixed (settable between root calls) result from onInit/onStart; hooks do not re-enter the tree',
           'module names are "" or "m<id>" (unique): name clashes other than two unnamed siblings are not generated']
ASSUMPTIONS = ['user hooks do not throw and do not call lifecycle functions of the tree from inside a hook',
               'children are only driven through the root (module.h: the parent owns the child after add())']
RULE = ('cases = a forest of probe modules built with new/add lines (depth <= 5, fan-out <= 4, required/optional, named/unnamed, '
        'config key present/missing, per-module onInit/onStart results) followed by initialize/start/stop/cleanup/destroy calls on '
        'roots in random (also repeated / out-of-order) order with fault flags changed between calls; non-trivial = the model run '
        'takes a roll-back branch, survives an optional failure, stops from inside cleanup or emits hooks from the destructor; '
        'distinct = distinct op text')

CALLS = ['init', 'start', 'stop', 'cleanup']


def b(x):
    return '1' if x else '0'


def gen_tree(rng, n, p_fail=0.15, ids=None):
    """returns (lines, root id, all ids). Node k's parent is an earlier node (depth <= 5, fan-out <= 4)."""
    ids = ids or list(range(n))
    if rng.random() < 0.3:
        ids = rng.sample(range(60), n)
    lines, depth, fan, unnamed_kid = [], {}, {}, {}
    adds = []
    for k, i in enumerate(ids):
        parent = None
        if k > 0:
            cands = [p for p in ids[:k] if depth[p] < 5 and fan[p] < 4]
            parent = rng.choice(cands) if cands else None
        named = rng.random() < 0.7
        if parent is not None and not named and unnamed_kid.get(parent) and rng.random() < 0.9:
            named = True
        if parent is not None and not named:
            unnamed_kid[parent] = True
        cfg = rng.random() < 0.92
        lines.append('new %d %s %s %s %s' % (i, b(named), b(cfg), b(rng.random() >= p_fail), b(rng.random() >= p_fail)))
        depth[i] = 0 if parent is None else depth[parent] + 1
        fan[i] = 0
        if parent is not None:
            fan[parent] += 1
            adds.append('add %d %d %s' % (parent, i, b(rng.random() < 0.6)))
    return lines + adds, ids[0], ids


def gen_case(rng):
    n = rng.choice([1, 2, 3, 3, 4, 4, 5, 6, 8, 12])
    lines, root, ids = gen_tree(rng, n, p_fail=rng.choice([0.0, 0.1, 0.2, 0.4]))
    ops = list(lines)
    style = rng.random()
    if style < 0.45:
        seq = ['init', 'start', 'stop', 'cleanup']
        # perturb: duplicate / drop / swap
        for _ in range(rng.randrange(3)):
            k = rng.randrange(len(seq) + 1)
            seq.insert(k, rng.choice(CALLS))
        if rng.random() < 0.3 and len(seq) > 1:
            del seq[rng.randrange(len(seq))]
    else:
        seq = [rng.choice(CALLS) for _ in range(rng.choice([2, 4, 6, 10]))]
    for c in seq:
        if rng.random() < 0.15:
            i = rng.choice(ids)
            ops.append('set %d %s %s %s' % (i, b(rng.random() < 0.9), b(rng.random() < 0.7), b(rng.random() < 0.7)))
        ops.append('%s %d' % (c, root))
    if rng.random() < 0.1:   # a late add (refused: parent not in kNone) or an add of an owned child
        ops.append('new 900 1 1 1 1')
        ops.append('add %d 900 1' % rng.choice(ids))
        ops.append('add 900 %d 1' % rng.choice(ids))
    if rng.random() < 0.8:
        ops.append('cleanup %d' % root)
    ops.append('destroy %d' % root)
    return ops


def gen_one_failure(rng):
    """all hooks succeed except one module (init or start), varying whether the path to the root is required"""
    n = rng.choice([2, 3, 4, 5, 7])
    lines, root, ids = gen_tree(rng, n, p_fail=0.0)
    lines = [l if not l.startswith('new') else ' '.join(l.split()[:2] + [l.split()[2], '1', '1', '1']) for l in lines]
    if rng.random() < 0.6:
        lines = [l if not l.startswith('add') else ' '.join(l.split()[:3] + ['1']) for l in lines]
    victim = rng.choice(ids)
    kind = rng.choice(['init', 'start'])
    ops = list(lines) + ['set %d 1 %s %s' % (victim, b(kind != 'init'), b(kind != 'start'))]
    ops += ['init %d' % root, 'start %d' % root]
    if rng.random() < 0.5:
        ops += ['set %d 1 1 1' % victim, 'init %d' % root, 'start %d' % root]
    ops += ['stop %d' % root, 'cleanup %d' % root, 'destroy %d' % root]
    return ops


def gen_forest(rng):
    """several roots, adds across them (incl. refused ones), a pre-initialised subtree attached later"""
    ops = []
    for i in range(5):
        ops.append('new %d %s 1 %s %s' % (i, b(rng.random() < 0.7), b(rng.random() < 0.85), b(rng.random() < 0.85)))
    if rng.random() < 0.5:
        ops.append('init %d' % rng.randrange(5))
    for _ in range(rng.randrange(3, 9)):
        ops.append('add %d %d %s' % (rng.randrange(5), rng.randrange(5), b(rng.random() < 0.6)))
    for _ in range(rng.randrange(2, 8)):
        ops.append('%s %d' % (rng.choice(CALLS + ['destroy']), rng.randrange(5)))
    for i in range(5):
        ops.append('cleanup %d' % i)
    for i in range(5):
        ops.append('destroy %d' % i)
    return ops


# ---- exhaustive small scope (thorough): every ordered tree shape x required flags x failure kind per module,
# ---- every root-call sequence of the given length (all prefixes are compared too)

def shapes(n):
    """all ordered rooted trees with n nodes as parent vectors (node k>0 has parent < k, pre-order numbering)"""
    def rec(k, parents, path):
        if k == n:
            yield list(parents); return
        # in pre-order numbering node k attaches to any node on the current right-most path
        for d, p in enumerate(path):
            yield from rec(k + 1, parents + [p], path[:d + 1] + [k])
    yield from rec(1, [-1], [0])


EXH = {'trees': 0, 'combos': 0}


def gen_exhaustive(min_nodes, max_nodes, seq_len):
    kinds = [(1, 1), (0, 1), (1, 0)]          # ok / onInit fails / onStart fails
    seqs = list(itertools.product(CALLS, repeat=seq_len))
    for n in range(min_nodes, max_nodes + 1):
        for par in shapes(n):
            for reqs in itertools.product([1, 0], repeat=n - 1):
                ops = ['new %d 1 1 1 1' % i for i in range(n)]
                ops += ['add %d %d %d' % (par[k], k, reqs[k - 1]) for k in range(1, n)]
                cur = [(1, 1)] * n
                for assign in itertools.product(kinds, repeat=n):
                    EXH['trees'] += 1
                    for k in range(n):
                        if cur[k] != assign[k]:
                            ops.append('set %d 1 %d %d' % (k, assign[k][0], assign[k][1]))
                    cur = list(assign)
                    for s in seqs:
                        EXH['combos'] += 1
                        ops += ['%s 0' % c for c in s]
                        ops.append('cleanup 0')     # back to the all-kNone tree (visible in st=)
                ops.append('destroy 0')
                yield ops


def gen(rng, tier):
    EXH['trees'] = EXH['combos'] = 0
    n = 500 if tier == 'quick' else 6000
    # malformed stream: both sides must answer bad-op (unknown op, bad flag, unknown id, non-root call, cycle, duplicate id)
    yield ['new 0 1 1 1 1', 'new 0 1 1 1 1', 'new 1 2 1 1 1', 'new x 1 1 1 1', 'add 0 0 1', 'new 1 1 1 1 1', 'add 0 1 1', 'add 1 0 1',
           'init 1', 'init 5', 'frob 0', 'start', 'set 9 1 1 1', 'set 0 1 1', 'destroy 1', 'init 0', 'add 0 1 1', 'new 1000 1 1 1 1',
           'cleanup 0', 'destroy 0', 'destroy 0']
    # DESIGN §7 row 5: root ok, child a ok, required child b fails to initialise / to start
    yield ['new 0 1 1 1 1', 'new 1 1 1 1 1', 'new 2 1 1 0 1', 'add 0 1 1', 'add 0 2 1', 'init 0', 'cleanup 0', 'destroy 0']
    yield ['new 0 1 1 1 1', 'new 1 1 1 1 1', 'new 2 1 1 1 0', 'add 0 1 1', 'add 0 2 1', 'init 0', 'start 0', 'cleanup 0', 'destroy 0']
    # missing config key of a required grandchild; optional failing subtree; two unnamed siblings
    yield ['new 0 0 1 1 1', 'new 1 1 1 1 1', 'new 2 1 0 1 1', 'new 3 1 1 1 1', 'add 0 1 1', 'add 1 3 1', 'add 1 2 1', 'init 0', 'start 0',
           'set 2 1 1 1', 'init 0', 'start 0', 'destroy 0']
    yield ['new 0 1 1 1 1', 'new 1 1 1 1 1', 'new 2 1 1 1 1', 'new 3 1 1 0 1', 'new 4 0 1 1 1', 'new 5 0 1 1 1', 'add 0 1 0', 'add 1 2 1',
           'add 1 3 1', 'add 0 4 1', 'add 0 5 1', 'init 0', 'start 0', 'stop 0', 'start 0', 'cleanup 0', 'destroy 0', 'destroy 5']
    if tier == 'thorough':
        for (lo, hi, ln) in EXH_SCOPES:
            yield from gen_exhaustive(lo, hi, ln)
    for _ in range(n):
        yield gen_case(rng)
    for _ in range(n // 2):
        yield gen_one_failure(rng)
    for _ in range(n // 5):
        yield gen_forest(rng)


EXH_SCOPES = [(1, 4, 4), (5, 5, 2)]   # (min modules, max modules, length of the call sequences)


def extra_coverage():
    if not EXH['trees']:
        return {}
    return {'exhaustive': True,
            'exhaustive_scope': 'every ordered tree shape x required/optional flag of every child x {ok, onInit fails, onStart fails} '
                                'per module, x every sequence of root calls over {initialize,start,stop,cleanup} of the given length '
                                '(all prefixes compared too), each followed by cleanup: ' +
                                '; '.join('%d..%d modules with sequences of length %d' % sc for sc in EXH_SCOPES) +
                                ' (%d trees, %d tree/sequence combinations); all modules named with config present'
                                % (EXH['trees'], EXH['combos'])}


NT_TAGS = ('init-rollback', 'start-rollback', '-ok-optfail', 'cleanup-with-stop', 'destroy-emits')


def nontrivial(ops, model_lines):
    tags = ' '.join(l for l in model_lines if l.startswith('B '))
    return 1 if any(t in tags for t in NT_TAGS) else None


def fingerprint(ops, d):
    import hashlib
    kinds = ' '.join(o.split()[0] for o in ops)
    return hashlib.sha1(kinds.encode()).hexdigest()[:12]


LEVEL_TEXT = ('Lean 4 theorems over a hand-written model of Module (tree with per-module state_, transcribed initialize/start/stop/cleanup/'
              '~Module): for every tree, every success/failure assignment and every sequence of root calls the hook trace obeys each '
              "module's lifecycle automaton, is LIFO-nested, and is balanced after cleanup+destroy; the model is tied to module.cpp on every "
              'run by differential execution of generated trees and call sequences (ASan+UBSan build of the working tree)')
LEVEL_NOTE = ('trusted: Lean kernel, hand-written model + differential tie (coverage bounded by the generator, measured in evidence); '
              'hooks that re-enter the tree or throw, and Main() sequencing in run_in_frontend/backend.cpp, are not modelled')
TECHNIQUE = 'Lean 4 structural-induction proofs over a module-tree model + model/implementation correspondence check'
DESIGN_REF = 'DESIGN.md §6 C11, §7 row 5'
