"""C11 — module tree lifecycle hooks are nested, ordered and balanced (tbox::main::Module)."""
import itertools
import vlib

ID = 'C11'
LEAN_MODULES = ['TboxModel.C11.Props', 'TboxModel.C11.PropsArena', 'TboxModel.C11.PropsBackend', 'TboxModel.C11.PropsNames']
EXE = 'c11'
THEOREMS = ['Tbox.C11.C11_gating', 'Tbox.C11.C11_hooks_of_tree', 'Tbox.C11.C11_balanced', 'Tbox.C11.C11_balanced_counts',
            'Tbox.C11.C11_reverse', 'Tbox.C11.C11_reverse_closed', 'Tbox.C11.C11_reverse_explicit',
            'Tbox.C11.C11_preorder', 'Tbox.C11.C11_preorder_in_sequence', 'Tbox.C11.C11_optional_isolated',
            'Tbox.C11.C11_optional_isolated_root', 'Tbox.C11.C11_required_not_isolated',
            'Tbox.C11.C11_state_table', 'Tbox.C11.C11_state_machine', 'Tbox.C11.C11_add_guard',
            'Tbox.C11.Arena.C11_scripts_gating', 'Tbox.C11.Arena.C11_scripts_balanced', 'Tbox.C11.Arena.C11_scripts_busy_untouched',
            'Tbox.C11.Arena.C11_reentrant_cleanup_counterexample', 'Tbox.C11.Arena.C11_reentrant_cleanup_repaired',
            'Tbox.C11.Arena.C11_reentrant_init_counterexample', 'Tbox.C11.Arena.C11_throwing_hook_counterexample',
            'Tbox.C11.Arena.C11_throwing_hook_repaired', 'Tbox.C11.Arena.C11_throwing_start_counterexample',
            'Tbox.C11.Arena.C11_throw_through_script_repaired', 'Tbox.C11.Arena.C11_throwing_teardown_counterexample',
            'Tbox.C11.Arena.C11_teardown_throws_only_from_teardown_hooks', 'Tbox.C11.Arena.C11_scripts_refused_noop',
            'Tbox.C11.Arena.C11_scripts_own_subtree_counterexample', 'Tbox.C11.Arena.C11_add_no_cycle',
            'Tbox.C11.Arena.C11_add_cycle_counterexample',
            'Tbox.C11.Arena.C11_script_stop_parent_from_onStart', 'Tbox.C11.Arena.C11_script_add_from_parent_onInit',
            'Tbox.C11.Arena.C11_script_add_from_sibling_onInit', 'Tbox.C11.Arena.C11_scripts_nesting_counterexample',
            'Tbox.C11.C11_main_is_history', 'Tbox.C11.C11_main_balanced', 'Tbox.C11.C11_main_counterexample_unrepaired', 'Tbox.C11.C11_balanced_counterexample_unrepaired',
            'Tbox.C11.C11_balanced_witness_repaired', 'Tbox.C11.C11_start_counterexample_unrepaired',
            'Tbox.C11.C11_destroy_only_remark',
            'Tbox.C11.Backend.C11_backend_balanced', 'Tbox.C11.Backend.C11_backend_closed_after_stop',
            'Tbox.C11.Backend.C11_backend_start_twice', 'Tbox.C11.Backend.C11_backend_stop_without_start',
            'Tbox.C11.Backend.C11_backend_restart_after_failure', 'Tbox.C11.Backend.C11_backend_same_as_main',
            'Tbox.C11.Backend.C11_backend_leak_counterexample', 'Tbox.C11.Backend.C11_backend_leak_repaired',
            'Tbox.C11.Backend.C11_main_signal_partial', 'Tbox.C11.Backend.C11_main_signal_counterexample',
            'Tbox.C11.Backend.C11_main_signal_prefix',
            'Tbox.C11.Names.C11_addAs_refused_unchanged', 'Tbox.C11.Names.C11_addAs_accepted', 'Tbox.C11.Names.C11_siblings_distinct_names',
            'Tbox.C11.Names.C11_addAs_null', 'Tbox.C11.Names.C11_addAs_null_counterexample',
            'Tbox.C11.Names.C11_fill_creates_own_key', 'Tbox.C11.Names.C11_init_missing_key_gated',
            'Tbox.C11.Names.C11_init_receives_own_subobject', 'Tbox.C11.Names.C11_fill_then_init_root_runs',
            'Tbox.C11.Names.C11_equal_names_share_object_counterexample', 'Tbox.C11.Names.C11_distinct_names_own_object_example',
            'Tbox.C11.Names.C11_reserved_key_fill_throws_counterexample', 'Tbox.C11.Names.C11_fill_then_init_counterexample',
            'Tbox.C11.Names.C11_reinit_changed_config_example']
SOURCES = ['modules/main/module.cpp', 'modules/util/variables.cpp'] + vlib.BASE_SOURCES
FLAVOUR = 'asan'
BATCH = 400
TRUSTED = ['model lean/TboxModel/C11/Model.lean is hand-written from modules/main/module.cpp (with patches/C11-01 applied); '
           'tied by differential runs of generated module trees and root-call sequences',
           'probe modules return a fixed (settable between root calls) result from onInit/onStart and run a one-shot script '
           '(API calls on any module, add(), throw) given by the op file',
           'Backend.lean (Start()/Stop() of run_in_backend.cpp, stop signal during Main()) is hand-written from the two run_in_*.cpp '
           'files; tied by process scenarios with the real Main()/Start()/Stop(), ContextImp, Log, Args (ContextImp::start() fails only '
           'through -Wl,--wrap: its body cannot fail)',
           'in the tree/arena ops module names are "" or "m<id>" (unique); arbitrary names, addAs(), equal names, names equal to keys the hooks or '
           'toJson write, onFillDefaultConfig scripts and edited configuration objects live in the `k` ops (Names.lean: JSON = null / number / '
           'object; all hooks succeed there, failures come from the configuration), tied by the same differential runs']
ASSUMPTIONS = ['onStop/onCleanup hooks do not throw (C11_throwing_teardown_counterexample; ~Module is noexcept); exceptions from onInit/onStart '
               'are rolled back and passed on (patches/C11-07, C11_scripts_gating/balanced hold for such histories); hooks that call lifecycle '
               'functions of the tree keep gating and balance (C11_scripts_*), LIFO nesting is stated for trees driven through the root and for '
               'scripts whose calls are all refused (C11_scripts_refused_noop)',
               'children are only driven through the root (module.h: the parent owns the child after add())',
               'a stop signal that arrives while a user hook runs (no handler installed: the process dies) is outside the property\'s '
               'quantifier; modelled as found (Backend.mainSig), tied by raise(SIGTERM) from probe hooks, not repaired']
RULE = ('cases = a forest of probe modules built with new/add lines (depth <= 5, fan-out <= 4, required/optional, named/unnamed, '
        'config key present/missing, per-module onInit/onStart results) followed by initialize/start/stop/cleanup/destroy calls on '
        'roots in random (also repeated / out-of-order) order with fault flags changed between calls; non-trivial = the model run '
        'takes a roll-back branch, survives an optional failure, stops from inside cleanup or emits hooks from the destructor; '
        '; names world: 2-7 modules with names from a pool of 8 (few distinct names on purpose), add/addAs/addAs(nullptr) between any two, '
        'fillDefaultConfig with key-writing hooks, config edits (delete / number / object / null at a path), initialize / cleanup / '
        're-initialize / toJson / destroy; non-trivial there = a shared or foreign config object, a roll-back, a refused duplicate, a type_error; '
        'distinct = distinct op text')

CALLS = ['init', 'start', 'stop', 'cleanup']


# ---- translator for the part of module.cpp that is data: the state guard and the state assignment of every API function.
# ---- Regenerated on every run into lean/TboxModel/C11/GenTable.lean; Props.lean states the transition table of the model
# ---- in terms of these definitions, so a changed guard / assignment in the source breaks a proof obligation at lake build.

def _func_body(src, name):
    import re
    m = re.search(r'^[\w:<>\s]*\bModule::%s\s*\([^)]*\)\s*\n?\{' % re.escape(name), src, re.M)
    if not m:
        return None
    i, depth = m.end(), 1
    while depth and i < len(src):
        depth += {'{': 1, '}': -1}.get(src[i], 0)
        i += 1
    return src[m.end():i - 1]


def pre_lean(repo, lean):
    import os, re
    src = open(os.path.join(repo, 'modules/main/module.cpp'), encoding='utf-8').read()
    src = re.sub(r'//[^\n]*', '', src)
    ST = {'kNone': '.none', 'kInited': '.inited', 'kRunning': '.running'}

    def guard(fn, alt=None):
        body = _func_body(src, fn)
        if alt and _func_body(src, alt) is not None and 'state_' not in (body or '').split(alt)[0]:
            body = _func_body(src, alt)
        if body is None:
            raise RuntimeError('Module::%s not found' % fn)
        g = re.search(r'if\s*\(\s*state_\s*(!=|==)\s*State::(k\w+)\s*\)', body)
        a = re.findall(r'\bstate_\s*=\s*State::(k\w+)\s*;', body)
        if not g or g.group(2) not in ST:
            raise RuntimeError('state guard of Module::%s not recognised' % fn)
        return g.group(1), ST[g.group(2)], (ST[a[-1]] if a and a[-1] in ST else None)

    rows = {'init': guard('initialize'), 'start': guard('start'), 'stop': guard('stop', 'doStop'),
            'cleanup': guard('cleanup'), 'add': guard('add')}
    out = ['/- GENERATED by props/C11/plugin.py pre_lean() from modules/main/module.cpp on every run — do not edit.',
           '   For every API function: the state in which its first `if (state_ … State::k…)` makes it return early, and',
           '   the last `state_ = State::k…;` it performs. -/', 'import TboxModel.C11.Model', 'namespace Tbox.C11.Gen', 'open Tbox.C11', '']
    for k, (op, st, nxt) in rows.items():
        out.append('/-- `Module::%s`: returns early when `state_ %s %s` -/' % (k, op, st))
        out.append('def %sRefuses (s : St) : Bool := s %s %s' % (k, '!=' if op == '!=' else '==', st))
        if k != 'add':
            if nxt is None:
                raise RuntimeError('no state assignment in Module::%s' % k)
            out.append('def %sNext : St := %s' % (k, nxt))
        out.append('')
    out.append('end Tbox.C11.Gen')
    text = '\n'.join(out) + '\n'
    path = os.path.join(lean, 'TboxModel', 'C11', 'GenTable.lean')
    if not os.path.exists(path) or open(path).read() != text:
        with open(path, 'w') as fh:
            fh.write(text)


def b(x):
    return '1' if x else '0'


def gen_tree(rng, n, p_fail=0.15, ids=None):
    """returns (lines, root id, all ids). Node k's parent is an earlier node (depth <= 5, fan-out <= 4)."""
    ids = ids or list(range(n))
    if rng.random() < 0.3:
        ids = rng.sample(range(60), n)
    lines, depth, fan, unnamed_kid = [], {}, {}, {}
    adds = []
    for k, i in enumerate(ids):
        parent = None
        if k > 0:
            cands = [p for p in ids[:k] if depth[p] < 5 and fan[p] < 4]
            parent = rng.choice(cands) if cands else None
        named = rng.random() < 0.7
        if parent is not None and not named and unnamed_kid.get(parent) and rng.random() < 0.9:
            named = True
        if parent is not None and not named:
            unnamed_kid[parent] = True
        cfg = rng.random() < 0.92
        lines.append('new %d %s %s %s %s' % (i, b(named), b(cfg), b(rng.random() >= p_fail), b(rng.random() >= p_fail)))
        depth[i] = 0 if parent is None else depth[parent] + 1
        fan[i] = 0
        if parent is not None:
            fan[parent] += 1
            adds.append('add %d %d %s' % (parent, i, b(rng.random() < 0.6)))
    return lines + adds, ids[0], ids


def gen_case(rng):
    n = rng.choice([1, 2, 3, 3, 4, 4, 5, 6, 8, 12])
    lines, root, ids = gen_tree(rng, n, p_fail=rng.choice([0.0, 0.1, 0.2, 0.4]))
    ops = list(lines)
    style = rng.random()
    if style < 0.45:
        seq = ['init', 'start', 'stop', 'cleanup']
        # perturb: duplicate / drop / swap
        for _ in range(rng.randrange(3)):
            k = rng.randrange(len(seq) + 1)
            seq.insert(k, rng.choice(CALLS))
        if rng.random() < 0.3 and len(seq) > 1:
            del seq[rng.randrange(len(seq))]
    else:
        seq = [rng.choice(CALLS) for _ in range(rng.choice([2, 4, 6, 10]))]
    if rng.random() < 0.3:   # values in vars() of some modules: toJson() writes "vars" only where there are some
        for _ in range(rng.randrange(1, 4)):
            ops.append('vdef m%d %s %d' % (rng.choice(ids), rng.choice(VNAMES), rng.randrange(100)))
        if rng.random() < 0.3:
            ops.append('vundef m%d %s' % (rng.choice(ids), rng.choice(VNAMES)))
    for c in seq:
        if rng.random() < 0.15:
            i = rng.choice(ids)
            ops.append('set %d %s %s %s' % (i, b(rng.random() < 0.9), b(rng.random() < 0.7), b(rng.random() < 0.7)))
        ops.append('%s %d' % (c, root))
        if rng.random() < 0.12:
            ops.append('json %d' % root)
    if rng.random() < 0.25:   # self-add, add of the own root / an ancestor (a cycle: refused), then the tree must still work
        x = rng.choice(ids)
        ops.append('add %d %d %s' % (x, rng.choice([x, root, root]), b(rng.random() < 0.5)))
        ops += ['json %d' % root, 'cleanup %d' % root, 'fillinit %d' % root] if rng.random() < 0.5 else ['json %d' % root]
    if rng.random() < 0.1:   # a late add (refused: parent not in kNone) or an add of an owned child
        ops.append('new 900 1 1 1 1')
        ops.append('add %d 900 1' % rng.choice(ids))
        ops.append('add 900 %d 1' % rng.choice(ids))
    if rng.random() < 0.8:
        ops.append('cleanup %d' % root)
    ops.append('destroy %d' % root)
    return ops


def gen_one_failure(rng):
    """all hooks succeed except one module (init or start), varying whether the path to the root is required"""
    n = rng.choice([2, 3, 4, 5, 7])
    lines, root, ids = gen_tree(rng, n, p_fail=0.0)
    lines = [l if not l.startswith('new') else ' '.join(l.split()[:2] + [l.split()[2], '1', '1', '1']) for l in lines]
    if rng.random() < 0.6:
        lines = [l if not l.startswith('add') else ' '.join(l.split()[:3] + ['1']) for l in lines]
    victim = rng.choice(ids)
    kind = rng.choice(['init', 'start'])
    ops = list(lines) + ['set %d 1 %s %s' % (victim, b(kind != 'init'), b(kind != 'start'))]
    ops += ['init %d' % root, 'start %d' % root]
    if rng.random() < 0.5:
        ops += ['set %d 1 1 1' % victim, 'init %d' % root, 'start %d' % root]
    ops += ['stop %d' % root, 'cleanup %d' % root, 'destroy %d' % root]
    return ops


APIS = 'istc'


def gen_script_case(rng, throws=True):
    """hook scripts: a hook of one module calls the API of itself / its parent / a sibling / the root / a free module,
    adds a free module somewhere, or throws; then root calls as usual"""
    n = rng.choice([2, 3, 4, 5, 6, 8])
    lines, root, ids = gen_tree(rng, n, p_fail=rng.choice([0.0, 0.1, 0.25]))
    free = [900 + k for k in range(rng.choice([0, 1, 2, 3]))]
    # free-standing modules that scripts may add(): the config object of a root call is built when the call is made, so a
    # module that joins the tree during that call has no key in it: give it no name, or a name with the key absent (cfg=0)
    ops = list(lines) + ['new %d %s 0 %s %s' % (f, b(rng.random() < 0.35), b(rng.random() < 0.85), b(rng.random() < 0.85)) for f in free]
    parent = {}
    for l in lines:
        w = l.split()
        if w[0] == 'add':
            parent[int(w[2])] = int(w[1])

    def target(owner):
        r = rng.random()
        kids = [c for c, p in parent.items() if p == owner]
        sibs = [c for c, p in parent.items() if owner in parent and p == parent[owner] and c != owner]
        if r < 0.22: return owner
        if r < 0.40 and owner in parent: return parent[owner]
        if r < 0.55: return root
        if r < 0.70 and sibs: return rng.choice(sibs)
        if r < 0.82 and kids: return rng.choice(kids)
        if r < 0.90 and free: return rng.choice(free)
        return rng.choice(ids)

    for _ in range(rng.choice([1, 1, 2, 3, 4])):
        owner = rng.choice(ids + free[:1])
        h = rng.choice(APIS)
        acts = []
        for _ in range(rng.choice([1, 1, 2, 3])):
            r = rng.random()
            if r < 0.62:
                acts.append('c%s:%d' % (rng.choice(APIS), target(owner)))
            elif r < 0.92 and free:
                acts.append('a:%d:%d:%s' % (target(owner), rng.choice(free), b(rng.random() < 0.6)))
            elif throws and h in 'is' and rng.random() < 0.5:
                acts.append('x')
            else:
                acts.append('c%s:%d' % (rng.choice(APIS), owner))
        ops.append('hook %d %s %s' % (owner, h, ' '.join(acts)))
    seq = ['init', 'start', 'stop', 'cleanup'] if rng.random() < 0.5 else [rng.choice(CALLS) for _ in range(rng.choice([3, 5, 8]))]
    if rng.random() < 0.4:
        seq.insert(rng.randrange(len(seq) + 1), rng.choice(CALLS))
    for c in seq:
        ops.append('%s %d' % ('fillinit' if c == 'init' and rng.random() < 0.3 else c, root))
        if rng.random() < 0.1:
            ops.append('hook %d %s c%s:%d' % (rng.choice(ids), rng.choice(APIS), rng.choice(APIS), target(rng.choice(ids))))
    # bring everything down while all modules still exist (no hook may fire inside a destructor), then destroy
    for r_ in [root] + free:
        ops.append('cleanup %d' % r_)
    for r_ in [root] + free:
        ops.append('cleanup %d' % r_)
    for r_ in [root] + free:
        ops.append('destroy %d' % r_)
    return ops


VNAMES = ['a', 'b', 'c', 'xy']


def gen_vars_case(rng):
    """util::Variables: stand-alone objects with parent chains of any depth (set before / after values exist, re-parented,
    cycle attempts of every length, copy/swap inside a chain) and the vars() of a module tree (linked by add())"""
    k = rng.choice([2, 3, 4, 6, 10])
    ops = ['vnew %d' % i for i in range(k)]
    mods = []
    if rng.random() < 0.5:
        lines, root, ids = gen_tree(rng, rng.choice([2, 3, 5]), p_fail=0.0)
        news = [l for l in lines if l.startswith('new')]
        adds = [l for l in lines if l.startswith('add')]
        mods = ids
        ops += news
        ops += ['vdef m%d %s %d' % (rng.choice(ids), rng.choice(VNAMES), rng.randrange(-5, 100)) for _ in range(rng.randrange(4))]
        ops += adds                                     # parents set after values exist
    objs = ['v%d' % i for i in range(k)] + ['m%d' % i for i in mods]
    if rng.random() < 0.6:                              # a chain v0 <- v1 <- v2 ... of full depth
        ops += ['vpar v%d v%d' % (i + 1, i) for i in range(k - 1)]
    for _ in range(rng.choice([6, 12, 25])):
        r = rng.random()
        x = rng.choice(objs); n = rng.choice(VNAMES)
        if r < 0.2: ops.append('vdef %s %s %d' % (x, n, rng.randrange(-9, 1000)))
        elif r < 0.28: ops.append('vundef %s %s' % (x, n))
        elif r < 0.42: ops.append('vget %s %s %s' % (x, n, b(rng.random() < 0.2)))
        elif r < 0.5: ops.append('vhas %s %s %s' % (x, n, b(rng.random() < 0.2)))
        elif r < 0.62: ops.append('vset %s %s %d %s' % (x, n, rng.randrange(1000), b(rng.random() < 0.2)))
        elif r < 0.85: ops.append('vpar v%d %s' % (rng.randrange(k), rng.choice(['-'] + ['v%d' % i for i in range(k)])))
        elif r < 0.93: ops.append('vcopy v%d v%d' % (rng.randrange(k), rng.randrange(k)))
        else: ops.append('vswap v%d v%d' % (rng.randrange(k), rng.randrange(k)))
    # a name nobody defines, asked everywhere: a parent cycle would recurse for ever here
    ops += ['vhas %s zz 0' % x for x in objs] + ['vget %s %s 0' % (x, rng.choice(VNAMES)) for x in objs]
    return ops


VARS_FIXED = [
    # two-cycle and self-cycle through setParent, then a miss
    ['vnew 0', 'vnew 1', 'vpar v0 v1', 'vpar v1 v0', 'vhas v0 zz 0', 'vpar v0 v0', 'vget v1 a 0', 'vdef v1 a 5', 'vget v0 a 0', 'vset v0 a 6 0', 'vget v1 a 1'],
    # cycle through copy / swap inside a chain; copy from an object without variables
    ['vnew 0', 'vnew 1', 'vnew 2', 'vpar v1 v0', 'vpar v2 v1', 'vdef v0 a 1', 'vcopy v0 v2', 'vhas v0 zz 0', 'vswap v1 v2', 'vhas v1 zz 0', 'vhas v2 zz 0',
     'vdef v2 b 2', 'vcopy v2 v1', 'vget v2 b 1', 'vget v2 a 0'],
    ['vnew 0', 'vnew 1', 'vdef v0 a 1', 'vcopy v0 v1', 'vhas v0 a 1', 'vget v0 a 0'],
    # module vars: values defined before add(), looked up through the chain after it; malformed lines
    ['new 0 1 1 1 1', 'new 1 1 1 1 1', 'new 2 1 1 1 1', 'vdef m0 a 7', 'vdef m2 a 9', 'add 0 1 1', 'add 1 2 1', 'vget m2 a 0', 'vget m1 a 0', 'vget m1 a 1',
     'vset m1 a 8 0', 'vget m0 a 1', 'vundef m2 a', 'vget m2 a 0', 'vpar m1 m0', 'vget m9 a 0', 'vget v3 a 0', 'vdef m0 A 1', 'vdef m0 a x', 'vnew 99', 'vfrob',
     'destroy 0', 'vget m1 a 0'],
]


# directed hook-script cases (each found a divergence or a crash on the tree before patches/C11-02)
SCRIPT_FIXED = [
    # child's onStart calls root.cleanup() while the root is in start()
    ['new 0 1 1 1 1', 'new 1 1 1 1 1', 'add 0 1 1', 'hook 1 s cc:0', 'init 0', 'start 0', 'cleanup 0', 'destroy 0'],
    # child's onInit calls root.initialize()
    ['new 0 1 1 1 1', 'new 1 1 1 1 1', 'add 0 1 1', 'hook 1 i ci:0', 'init 0', 'cleanup 0', 'destroy 0'],
    # a module's onStop calls its own start(); its onCleanup calls its own initialize()
    ['new 0 1 1 1 1', 'new 1 1 1 1 1', 'add 0 1 1', 'hook 1 t cs:1', 'hook 1 c ci:1', 'init 0', 'start 0', 'stop 0', 'cleanup 0', 'cleanup 0',
     'destroy 0'],
    # children's onInit add() further children to the parent that is walking its vector (reallocation: 1->2->4->8)
    ['new 0 1 1 1 1'] + ['new %d 1 1 1 1' % k for k in (1, 2)] + ['new %d 0 0 1 1' % k for k in (900,)] + ['new %d 1 0 1 1' % k for k in (901, 902, 903, 904)] +
    ['add 0 1 1', 'add 0 2 1', 'hook 1 i a:0:900:0 a:0:901:0 a:0:902:0', 'hook 2 i a:0:903:0 a:0:904:0', 'init 0', 'start 0', 'cleanup 0', 'destroy 0'],
    # add() from onCleanup during the roll-back of initialize()
    ['new 0 1 1 1 1', 'new 1 1 1 1 1', 'new 2 1 1 0 1', 'new 900 0 0 1 1', 'new 901 1 0 1 1', 'add 0 1 1', 'add 0 2 1', 'hook 1 c a:0:900:0 a:0:901:1 cs:0',
     'init 0', 'set 2 1 1 1', 'init 0', 'start 0', 'cleanup 0', 'destroy 0'],
    # a module adds children to itself in its own onInit (legitimate), a sibling is started early by a hook
    ['new 0 1 1 1 1', 'new 1 1 1 1 1', 'new 2 1 1 1 1', 'new 900 0 0 1 1', 'add 0 1 1', 'add 0 2 1', 'hook 1 i a:1:900:1', 'hook 1 s cs:2', 'init 0', 'start 0',
     'stop 0', 'cleanup 0', 'destroy 0'],
    # throwing hooks: onInit of a child (no roll-back: parent's onInit unmatched), onStart, then recover with cleanup
    ['new 0 1 1 1 1', 'new 1 1 1 1 1', 'new 2 1 1 1 1', 'add 0 1 1', 'add 0 2 1', 'hook 2 i x', 'init 0', 'cleanup 0', 'init 0', 'hook 2 s x', 'start 0',
     'cleanup 0', 'cleanup 0', 'destroy 0'],
    # throwing onStop: state_ stays kRunning, the next cleanup() stops it again
    ['new 0 1 1 1 1', 'new 1 1 1 1 1', 'add 0 1 1', 'hook 1 t x', 'init 0', 'start 0', 'stop 0', 'stop 0', 'cleanup 0', 'destroy 0'],
    # DESIGN §10 lesson (e), the scripts of C11_script_* / C11_scripts_nesting_counterexample: onStart stops the parent, onStop cleans
    # up itself and the parent; add() from onInit of the parent-to-be (accepted) and from its onStart (refused: kInited); add() from
    # a sibling's onInit; a hook cleaning up an elder sibling (balanced, not nested)
    ['new 0 1 1 1 1', 'new 1 1 1 1 1', 'add 0 1 1', 'hook 1 s ct:0', 'hook 1 t cc:1 cc:0', 'init 0', 'start 0', 'stop 0', 'cleanup 0', 'destroy 0'],
    ['new 0 1 1 1 1', 'new 1 1 1 1 1', 'new 2 0 0 1 1', 'add 0 1 1', 'hook 0 i a:0:2:1', 'hook 0 s a:0:2:1', 'init 0', 'start 0', 'cleanup 0',
     'destroy 0'],
    ['new 0 1 1 1 1', 'new 1 1 1 1 1', 'new 2 0 0 1 1', 'add 0 1 1', 'hook 1 i a:0:2:0', 'init 0', 'add 0 2 1', 'cleanup 0', 'destroy 0'],
    ['new 0 1 1 1 1', 'new 1 1 1 1 1', 'new 2 1 1 1 1', 'new 3 1 1 1 1', 'add 0 1 1', 'add 0 2 1', 'add 0 3 1', 'hook 3 i cc:1', 'init 0', 'cleanup 0',
     'destroy 0'],
    # exceptions crossing several levels and a script: 2's onInit initialises the free-standing tree 5 -> 6 whose leaf throws;
    # onStart of a grandchild throws below an OPTIONAL child (still propagates); throw after refused calls on the own path
    ['new 0 1 1 1 1', 'new 1 1 1 1 1', 'new 2 1 1 1 1', 'new 5 0 0 1 1', 'new 6 0 0 1 1', 'add 0 1 1', 'add 0 2 1', 'add 5 6 1', 'hook 2 i ci:5',
     'hook 6 i x', 'init 0', 'init 0', 'start 0', 'cleanup 0', 'cleanup 5', 'destroy 0', 'destroy 5'],
    ['new 0 1 1 1 1', 'new 1 1 1 1 1', 'new 2 1 1 1 1', 'new 3 1 1 1 1', 'new 4 1 1 1 1', 'add 0 1 1', 'add 0 2 0', 'add 2 3 1', 'add 0 4 1',
     'hook 3 s ct:0 cc:2 x', 'init 0', 'start 0', 'json 0', 'start 0', 'stop 0', 'cleanup 0', 'destroy 0'],
    ['new 0 1 1 1 1', 'new 1 1 1 1 1', 'new 2 1 1 1 1', 'add 0 1 1', 'add 0 2 1', 'hook 0 i x', 'init 0', 'hook 1 i x', 'init 0', 'hook 2 i x',
     'init 0', 'init 0', 'hook 0 s x', 'start 0', 'hook 1 s x', 'start 0', 'hook 2 s x', 'start 0', 'start 0', 'cleanup 0', 'destroy 0'],
    # add() of the module itself / of the root of its own tree (cycle: refused), toJson / fillDefaultConfig / destruction afterwards
    ['new 0 1 1 1 1', 'new 1 1 1 1 1', 'new 2 1 1 1 1', 'add 0 0 1', 'add 0 1 1', 'add 1 2 0', 'add 2 0 1', 'add 1 0 0', 'add 2 2 1', 'json 0',
     'fillinit 0', 'start 0', 'json 0', 'cleanup 0', 'destroy 0'],
    # malformed scripts: both sides answer bad-op
    ['new 0 1 1 1 1', 'hook 0 i cz:0', 'hook 0 q ci:0', 'hook 5 i ci:0', 'hook 0 i a:0:1', 'hook 0 i ci:x', 'hook 0 i', 'init 0', 'cleanup 0', 'destroy 0'],
]


def gen_forest(rng):
    """several roots, adds across them (incl. refused ones), a pre-initialised subtree attached later"""
    ops = []
    for i in range(5):
        ops.append('new %d %s 1 %s %s' % (i, b(rng.random() < 0.7), b(rng.random() < 0.85), b(rng.random() < 0.85)))
    if rng.random() < 0.5:
        ops.append('init %d' % rng.randrange(5))
    for _ in range(rng.randrange(3, 9)):
        ops.append('add %d %d %s' % (rng.randrange(5), rng.randrange(5), b(rng.random() < 0.6)))
    for _ in range(rng.randrange(2, 8)):
        ops.append('%s %d' % (rng.choice(CALLS + ['destroy']), rng.randrange(5)))
    ops.append('json %d' % rng.randrange(5))
    for i in range(5):
        ops.append('cleanup %d' % i)
    for i in range(5):
        ops.append('json %d' % i)
    for i in range(5):
        ops.append('destroy %d' % i)
    return ops


def gen_throw_case(rng):
    """oracle per hook call = ok / fail / throw: one or two modules get an onInit/onStart script that throws (possibly after
    refused calls on the own path), anywhere in the tree, required or optional; root calls go on after the exception
    (re-initialise, start again with the script gone), then cleanup x2 and destroy"""
    n = rng.choice([2, 3, 4, 5, 6, 8])
    lines, root, ids = gen_tree(rng, n, p_fail=rng.choice([0.0, 0.0, 0.1]))
    ops = list(lines)
    parent = {}
    for l in lines:
        w = l.split()
        if w[0] == 'add':
            parent[int(w[2])] = int(w[1])

    def arm():
        v = rng.choice(ids)
        h = rng.choice('iiss')
        pre = []
        if rng.random() < 0.3:
            pre.append('c%s:%d' % (rng.choice(APIS), v))
        if rng.random() < 0.3 and v in parent:
            pre.append('c%s:%d' % (rng.choice(APIS), parent[v]))
        return 'hook %d %s %s' % (v, h, ' '.join(pre + ['x']))
    for _ in range(rng.choice([1, 1, 2])):
        ops.append(arm())
    seq = rng.choice([['init', 'start', 'stop', 'cleanup'], ['init', 'init', 'start', 'start', 'cleanup'],
                      ['fillinit', 'start', 'init', 'start', 'stop', 'cleanup', 'init', 'start'],
                      [rng.choice(CALLS) for _ in range(6)]])
    for c in seq:
        ops.append('%s %d' % (c, root))
        if rng.random() < 0.2:
            ops.append(arm())
        if rng.random() < 0.1:
            ops.append('json %d' % root)
    ops += ['cleanup %d' % root, 'cleanup %d' % root, 'json %d' % root, 'destroy %d' % root]
    return ops


# ---- exhaustive small scope (thorough): every ordered tree shape x required flags x failure kind per module,
# ---- every root-call sequence of the given length (all prefixes are compared too)

def shapes(n):
    """all ordered rooted trees with n nodes as parent vectors (node k>0 has parent < k, pre-order numbering)"""
    def rec(k, parents, path):
        if k == n:
            yield list(parents); return
        # in pre-order numbering node k attaches to any node on the current right-most path
        for d, p in enumerate(path):
            yield from rec(k + 1, parents + [p], path[:d + 1] + [k])
    yield from rec(1, [-1], [0])


EXH = {'trees': 0, 'combos': 0, 'lines': 0, 'chunks': 0, 'bad': []}
EXH_SCOPES = [(1, 4, 4), (5, 5, 4)]   # (min modules, max modules, length of the call sequences)
KINDS = [(1, 1), (0, 1), (1, 0)]      # ok / onInit fails / onStart fails


def exh_skeletons(lo, hi):
    for n in range(lo, hi + 1):
        for par in shapes(n):
            for reqs in itertools.product([1, 0], repeat=n - 1):
                yield (n, par, reqs)


def exh_ops(skel, seq_len):
    """one case: the tree, then for every failure assignment every call sequence of that length, each followed by
    cleanup (which brings the tree back to all-kNone: visible in st=)"""
    n, par, reqs = skel
    seqs = [['%s 0' % c for c in s] + ['cleanup 0'] for s in itertools.product(CALLS, repeat=seq_len)]
    ops = ['quiet'] + ['new %d 1 1 1 1' % i for i in range(n)]
    ops += ['add %d %d %d' % (par[k], k, reqs[k - 1]) for k in range(1, n)]
    cur = [(1, 1)] * n
    ntrees = 0
    for assign in itertools.product(KINDS, repeat=n):
        ntrees += 1
        for k in range(n):
            if cur[k] != assign[k]:
                ops.append('set %d 1 %d %d' % (k, assign[k][0], assign[k][1]))
        cur = list(assign)
        for s in seqs:
            ops += s
    ops.append('destroy 0')
    return ops, ntrees, ntrees * len(seqs)


def run_exhaustive(scopes=None, workers=None):
    """Runs the exhaustive small-scope enumeration in chunks (harness and Lean driver side by side, outputs compared
    byte for byte; with `quiet` the driver prints no B lines). Fills EXH; EXH['bad'] = [(ops, impl_line, model_line)]."""
    import os, threading
    from concurrent.futures import ThreadPoolExecutor
    EXH.update({'trees': 0, 'combos': 0, 'lines': 0, 'chunks': 0, 'bad': []})
    exe, hlog = vlib.build_harness(ID, SOURCES, os.path.join(vlib.VERIF, 'props', ID, 'harness.cpp'), FLAVOUR)
    if exe is None:
        return                                           # standard_check reports the build failure
    drv = os.path.join(vlib.LEAN, '.lake', 'build', 'bin', EXE)
    lock = threading.Lock()
    jobs = []
    for (lo, hi, ln) in (scopes or EXH_SCOPES):
        group, weight = [], 0
        for sk in exh_skeletons(lo, hi):
            group.append((sk, ln)); weight += (3 ** sk[0]) * (4 ** ln) * (ln + 1)
            if weight > 1200000:
                jobs.append(group); group, weight = [], 0
        if group:
            jobs.append(group)

    def one(group):
        cases, nt, nc = {}, 0, 0
        for i, (sk, ln) in enumerate(group):
            ops, t, c = exh_ops(sk, ln)
            cases[i] = ops; nt += t; nc += c
        text = ''.join(vlib.case_text(i, cases[i]) for i in sorted(cases))
        rc1, so1, se1 = vlib.run_proc([exe], text, 900)
        rc2, so2, se2 = vlib.run_proc([drv], text, 900)
        bad = []
        if rc1 != 0 or rc2 != 0 or so1 != so2:
            impl, model = vlib.split_cases(so1), vlib.split_cases(so2)
            for i in sorted(cases):
                il = impl.get(i, ['<no output>'])
                if rc1 != 0 and i == max(impl or {0: 0}):
                    il = il + ['CRASH ' + vlib.classify_crash(rc1, se1)]
                d = vlib.first_diff(il, model.get(i, ['<no model output>']))
                if d:
                    bad.append((cases[i][:d[0] + 1], d[1], d[2]))   # ops up to the first diverging answer (quiet answers too)
                    break
            if not bad and rc2 != 0:
                bad.append((['<driver failed rc=%s>' % rc2], se2[-300:], 'runs'))
        with lock:
            EXH['trees'] += nt; EXH['combos'] += nc; EXH['lines'] += text.count('\n'); EXH['chunks'] += 1
            EXH['bad'] += bad
    with ThreadPoolExecutor(workers or max(2, min(12, vlib.NPROC - 2))) as ex:
        list(ex.map(one, jobs))


def gen_script_exhaustive():
    """every (hook owner, hook, target, API) single-call script on three 3-module skeletons x every root-call sequence of length 3"""
    skels = [['add 0 1 1', 'add 0 2 1'], ['add 0 1 1', 'add 0 2 0'], ['add 0 1 1', 'add 1 2 1']]
    for sk in skels:
        for owner in range(3):
            for h in APIS:
                for tgt in range(3):
                    for api in APIS:
                        for seq in itertools.product(CALLS, repeat=3):
                            yield (['new %d 1 1 1 1' % i for i in range(3)] + sk + ['hook %d %s c%s:%d' % (owner, h, api, tgt)] +
                                   ['%s 0' % c for c in seq] + ['cleanup 0', 'cleanup 0', 'destroy 0'])


def gen_vars_exhaustive():
    """every sequence of <= 3 parent-changing operations over three objects, then a miss asked of each object"""
    objs = ['v0', 'v1', 'v2']
    alpha = (['vpar %s %s' % (a, b_) for a in objs for b_ in objs + ['-']] + ['vcopy %s %s' % (a, b_) for a in objs for b_ in objs if a != b_] +
             ['vswap v0 v1', 'vswap v0 v2', 'vswap v1 v2'])
    for L in range(1, 4):
        for seq in itertools.product(alpha, repeat=L):
            yield ['vnew 0', 'vnew 1', 'vnew 2', 'vdef v0 a 1', 'vdef v1 b 2'] + list(seq) + ['vhas %s zz 0' % o for o in objs] + ['vget v2 a 0', 'vget v0 b 0']


# ---- names world (k-ops): arbitrary names, addAs(), the configuration object (Names.lean) ----
KNAMES = ['-', '#', 'a', 'b', 'c', 'children', 'required', 'vars']
KKEYS = KNAMES[1:]

K_FIXED = [
    # an unnamed child passes its parent's object through: its child `a` and the sibling `a` share one sub-object (the later marker wins)
    ['knew 0 -', 'knew 1 -', 'knew 2 a', 'knew 3 a', 'knew 4 b', 'kadd 0 1 1', 'kadd 1 2 1', 'kadd 0 3 1', 'kadd 3 4 1', 'kfill 0', 'kinit 0', 'kjson 0',
     'kcleanup 0', 'kdestroy 0'],
    # duplicate names among siblings: add() and addAs() refuse, addAs() restores the old name; renaming makes it acceptable
    ['knew 0 a', 'knew 1 b', 'knew 2 b', 'knew 3 c', 'kadd 0 1 1', 'kadd 0 2 1', 'kaddas 0 3 b 0', 'kaddas 0 2 c 1', 'kaddas 0 3 c 1', 'kaddas 0 3 - 0',
     'kaddas 0 3 a 1', 'kfill 0', 'kinit 0', 'kjson 0', 'kdestroy 0'],
    # addAs(nullptr, ...) (patches/C11-09); addAs of itself / of its own root / of a module that has a parent: name restored
    ['knew 0 a', 'knew 1 b', 'knull 0 c 1', 'kadd 0 1 1', 'knull 1 - 0', 'kaddas 0 0 c 1', 'kaddas 1 0 c 1', 'kaddas 1 1 c 1', 'knew 2 -', 'kaddas 2 1 c 1',
     'kjson 0', 'kfill 0', 'kinit 0', 'knull 0 b 1', 'kaddas 0 2 c 1', 'kdestroy 0', 'kdestroy 2'],
    # a child named like the key its parent writes (`#`): fillDefaultConfig throws nlohmann's type_error; under an unnamed root it works
    ['knew 0 a', 'knew 1 #', 'kadd 0 1 1', 'kfill 0', 'kinit 0', 'kput a o', 'kput a/# n', 'kinit 0', 'kcleanup 0', 'kdestroy 0'],
    ['knew 0 -', 'knew 1 #', 'knew 2 a', 'kadd 0 1 1', 'kadd 1 2 0', 'kfill 0', 'kinit 0', 'kjson 0', 'kdestroy 0'],
    ['knew 0 a', 'knew 1 b', 'knew 2 c', 'kwr 0 b', 'kadd 0 1 1', 'kadd 1 2 1', 'kfill 0', 'kinit 0', 'kwr 0', 'kfill 0', 'kwr 0 c vars', 'kcfg', 'kfill 0', 'kinit 0',
     'kdestroy 0'],
    # reserved keys of toJson as names
    ['knew 0 children', 'knew 1 children', 'knew 2 required', 'knew 3 vars', 'knew 4 required', 'kadd 0 1 1', 'kadd 0 2 0', 'kadd 0 3 1', 'kadd 1 4 0', 'kjson 0',
     'kfill 0', 'kinit 0', 'kcleanup 0', 'kjson 0', 'kdestroy 0'],
    # re-initialize after cleanup with changed content: key removed (required / optional), replaced by a number, by null, restored
    ['knew 0 a', 'knew 1 b', 'knew 2 c', 'knew 3 b', 'kadd 0 1 1', 'kadd 0 2 0', 'kadd 2 3 1', 'kfill 0', 'kinit 0', 'kinit 0', 'kcleanup 0', 'kdel a/c/b', 'kinit 0',
     'kcleanup 0', 'kdel a/b', 'kinit 0', 'kput a/b n', 'kinit 0', 'kcleanup 0', 'kput a/b z', 'kput a/c/b/# n', 'kinit 0', 'kcleanup 0', 'kcfg', 'kinit 0',
     'kfill 0', 'kinit 0', 'kdestroy 0'],
    # the same configuration object filled by two trees; marker of the second overwrites
    ['knew 0 a', 'knew 1 a', 'knew 2 b', 'kadd 1 2 1', 'kfill 0', 'kfill 1', 'kinit 0', 'kinit 1', 'kdestroy 0', 'kdestroy 1'],
    # an initialised tree added below a fresh module (add() looks at the parent's state only), then destroyed through the new parent
    ['knew 0 -', 'knew 1 children', 'knew 2 #', 'kadd 0 1 1', 'kfill 0', 'kinit 0', 'kaddas 2 0 # 1', 'kjson 2', 'kinit 2', 'kcleanup 2', 'kdestroy 2'],
    ['knew 0 c', 'knew 1 vars', 'knew 2 required', 'kaddas 0 2 vars 0', 'kfill 0', 'kinit 0', 'kaddas 1 0 - 1', 'kdestroy 1'],
    # malformed
    ['knew 0 a', 'knew 0 b', 'knew 1 zz', 'knew 1000 a', 'kadd 0 7 1', 'kaddas 0 0 zz 1', 'kfill 5', 'kinit', 'kput - n', 'kput a/zz n', 'kput a q', 'kdel -',
     'kwr 0 -', 'knull 3 a 1', 'knull 0 a 2', 'kfrob 0', 'knew 1 b', 'kadd 0 1 1', 'kinit 1', 'kdestroy 1', 'kjson 1', 'kdestroy 0', 'kdestroy 0'],
]


def gen_names_case(rng):
    n = rng.randint(2, 7)
    few = rng.random() < 0.6          # few distinct names: collisions are the point
    pool = rng.sample(KNAMES, 3) + ['-'] if few else KNAMES
    ops = ['knew %d %s' % (i, rng.choice(pool)) for i in range(n)]
    for i in range(n):
        if rng.random() < 0.25:
            ops.append('kwr %d %s' % (i, ' '.join(rng.choice(KKEYS) for _ in range(rng.randint(0, 2)))))
    for i in range(1, n):
        for _ in range(rng.randint(1, 2)):
            p = rng.randrange(0, n) if rng.random() < 0.15 else rng.randrange(0, i)
            r = rng.random()
            if r < 0.45:
                ops.append('kadd %d %d %d' % (p, i, rng.random() < 0.6))
            elif r < 0.95:
                ops.append('kaddas %d %d %s %d' % (p, i, rng.choice(pool), rng.random() < 0.6))
            else:
                ops.append('knull %d %s 1' % (p, rng.choice(pool)))
    def path():
        return '/'.join(rng.choice([x for x in pool if x != '-'] or ['a']) for _ in range(rng.randint(1, 3)))
    roots = [0] + [i for i in range(1, n) if rng.random() < 0.3]
    for _ in range(rng.randint(3, 9)):
        r = rng.random()
        root = rng.choice(roots)
        if r < 0.25: ops.append('kfill %d' % root)
        elif r < 0.50: ops.append('kinit %d' % root)
        elif r < 0.62: ops.append('kcleanup %d' % root)
        elif r < 0.74: ops.append('kdel ' + path())
        elif r < 0.84: ops.append('kput %s %s' % (path(), rng.choice('noz')))
        elif r < 0.88: ops.append('kcfg')
        elif r < 0.94: ops.append('kjson %d' % root)
        else: ops.append('kaddas %d %d %s 1' % (rng.randrange(n), rng.randrange(n), rng.choice(pool)))
    ops += ['kfill 0', 'kinit 0', 'kjson 0', 'kcleanup 0', 'kdel ' + path(), 'kinit 0'] + ['kdestroy %d' % i for i in range(n)]
    return ops


def gen(rng, tier):
    n = 500 if tier == 'quick' else 6000
    # malformed stream: both sides must answer bad-op (unknown op, bad flag, unknown id, non-root call, cycle, duplicate id)
    yield ['new 0 1 1 1 1', 'new 0 1 1 1 1', 'new 1 2 1 1 1', 'new x 1 1 1 1', 'add 0 0 1', 'new 1 1 1 1 1', 'add 0 1 1', 'add 1 0 1',
           'init 1', 'init 5', 'frob 0', 'start', 'set 9 1 1 1', 'set 0 1 1', 'destroy 1', 'init 0', 'add 0 1 1', 'new 1000 1 1 1 1',
           'cleanup 0', 'destroy 0', 'destroy 0']
    # DESIGN §7 row 5: root ok, child a ok, required child b fails to initialise / to start
    yield ['new 0 1 1 1 1', 'new 1 1 1 1 1', 'new 2 1 1 0 1', 'add 0 1 1', 'add 0 2 1', 'init 0', 'cleanup 0', 'destroy 0']
    yield ['new 0 1 1 1 1', 'new 1 1 1 1 1', 'new 2 1 1 1 0', 'add 0 1 1', 'add 0 2 1', 'init 0', 'start 0', 'cleanup 0', 'destroy 0']
    # missing config key of a required grandchild; optional failing subtree; two unnamed siblings
    yield ['new 0 0 1 1 1', 'new 1 1 1 1 1', 'new 2 1 0 1 1', 'new 3 1 1 1 1', 'add 0 1 1', 'add 1 3 1', 'add 1 2 1', 'init 0', 'start 0',
           'set 2 1 1 1', 'init 0', 'start 0', 'destroy 0']
    yield ['new 0 1 1 1 1', 'new 1 1 1 1 1', 'new 2 1 1 1 1', 'new 3 1 1 0 1', 'new 4 0 1 1 1', 'new 5 0 1 1 1', 'add 0 1 0', 'add 1 2 1',
           'add 1 3 1', 'add 0 4 1', 'add 0 5 1', 'init 0', 'start 0', 'stop 0', 'start 0', 'cleanup 0', 'destroy 0', 'destroy 5']
    # (thorough: the exhaustive small-scope enumeration runs in plugin.check() -> run_exhaustive(), in parallel chunks)
    for _ in range(n):
        yield gen_case(rng)
    for _ in range(n // 2):
        yield gen_one_failure(rng)
    for _ in range(n // 5):
        yield gen_forest(rng)
    if tier == 'thorough':
        yield from gen_script_exhaustive()
        yield from gen_vars_exhaustive()
    # util::Variables
    yield from VARS_FIXED
    for _ in range(n // 5):
        yield gen_vars_case(rng)
    # hook scripts (re-entrant API calls, add() from hooks, throwing hooks)
    yield from SCRIPT_FIXED
    for _ in range(n // 2 if tier == 'quick' else n):
        yield gen_script_case(rng)
    for _ in range(n // 3):
        yield gen_throw_case(rng)
    # names, addAs, the configuration object itself
    yield from K_FIXED
    for _ in range(n // 2):
        yield gen_names_case(rng)
    # toJson: malformed lines
    yield ['new 0 1 1 1 1', 'new 1 0 1 1 1', 'add 0 1 1', 'json 0', 'json 1', 'json 7', 'json', 'json 0 0', 'vdef m1 a 3', 'json 0', 'vundef m1 a', 'json 0',
           'destroy 0', 'json 0']




def extra_coverage():
    cov = {'process_scenarios': {'run': MAIN['run'], 'agree': MAIN['ok'], 'paths': dict(MAIN['paths']),
                                 'what': 'real tbox::main::Main() (run_in_frontend.cpp) and tbox::main::Start()/Stop() '
                                         '(run_in_backend.cpp) with ContextImp, Log, Args and an Apps tree of probe modules, one '
                                         'process per scenario; hook traces and return values compared with mainTrace / '
                                         'Backend.mainSig / Backend.startB / Backend.stopB; faults: -n (Args::parse), pid file '
                                         'that cannot be created, thread_pool.min not a number (ContextImp::initialize), '
                                         'ContextImp::start() through -Wl,--wrap; stop signal = real raise(SIGTERM) from inside '
                                         'a probe hook'}}
    if not EXH['trees']:
        return cov
    cov.update({'exhaustive': True,
            'exhaustive_scope': 'every ordered tree shape x required/optional flag of every child x {ok, onInit fails, onStart fails} '
                                'per module, x every sequence of root calls over {initialize,start,stop,cleanup} of the given length '
                                '(all prefixes compared too), each followed by cleanup: ' +
                                '; '.join('%d..%d modules with sequences of length %d' % sc for sc in EXH_SCOPES) +
                                ' (%d trees, %d tree/sequence combinations, %d op lines in %d chunks, %d diverging); '
                                'all modules named with config present; run by plugin.run_exhaustive() outside the sampled cases'
                                % (EXH['trees'], EXH['combos'], EXH['lines'], EXH['chunks'], len(EXH['bad']))})
    return cov


# ---- process-level scenarios: the real tbox::main::Main() (run_in_frontend.cpp) and tbox::main::Start()/Stop()
# ---- (run_in_backend.cpp) with an Apps tree of probe modules, one process per scenario, compared with the model
# ---- (`mainTrace` / `Backend.mainSig` / `Backend.startB` / `Backend.stopB`; driver ops `main`, `raise`, `bstart`, `bstop`)

MAIN_MODULES = ['base', 'util', 'event', 'eventx', 'log', 'terminal', 'network', 'trace', 'coroutine', 'main']
MAIN = {'run': 0, 'ok': 0, 'paths': {}}
WRAP = ['-Wl,--wrap=_ZN4tbox4main10ContextImp5startEv']     # fault injection into ContextImp::start() (it ends in `return true`)


def main_sources():
    import os
    srcs = []
    for m in MAIN_MODULES:
        for root, ds, fs in os.walk(os.path.join(vlib.REPO, 'modules', m)):
            if 'example' in root or '/test' in root:
                continue
            for f in fs:
                if f.endswith('.cpp') and not f.endswith('_test.cpp'):
                    srcs.append(os.path.relpath(os.path.join(root, f), vlib.REPO))
    return sorted(srcs)


def scenario_tree(rng, all_ok=False, sizes=(2, 3, 4, 5, 7)):
    n = rng.choice(sizes)
    lines, root, ids = gen_tree(rng, n, p_fail=rng.choice([0.0, 0.15, 0.3]))
    out = []
    for l in lines:
        w = l.split()
        if w[0] == 'new':
            w[3] = '1'                                   # config keys are created by fillDefaultConfig()
            if int(w[1]) == root:
                w[2], w[4], w[5] = '0', '1', '1'          # the Apps root is a base Module("")
            elif all_ok:
                w[4], w[5] = '1', '1'
        out.append(' '.join(w))
    return out, root, ids


CTX_ARGS = ['telnetd.bind="256.0.0.1:80"', 'telnetd.bind="127.0.0.1:0"', 'tcp_rpc.bind="127.0.0.1:0"', 'tcp_rpc.bind="/proc/C11-no-such-dir/s"',
            'thread_pool.max=3', 'loop.water_line.run_next_queue_size=5']


def ctx_args(rng):
    """what the context uses, usable or not: ContextImp swallows these failures, the hooks must not notice"""
    return ['arg ' + a for a in rng.sample(CTX_ARGS, rng.choice([0, 0, 1, 2]))]


def gen_main_scenario(rng, k):
    out, root, ids = scenario_tree(rng, all_ok=(k % 5 == 1))   # k%5==1: everything fine: the run / stop-signal path
    others = [i for i in ids if i != root]
    out += ctx_args(rng)
    if k % 3 == 0 and others:                             # a stop signal raised from inside a hook
        out.append('raise %s %d' % (rng.choice('iisstc'), rng.choice(others)))
    out.append('main %d %d %d' % (0 if k % 7 == 3 else 1, 0 if k % 4 == 2 else 1, root))
    return out


def gen_backend_scenario(rng, k):
    """a history of Start()/Stop() calls: failures at every stage, Start twice, Stop without Start, Start after a failure"""
    out, root, ids = scenario_tree(rng, all_ok=(k % 3 == 0), sizes=(2, 3, 4, 6))
    others = [i for i in ids if i != root]
    out += ctx_args(rng)
    for _ in range(rng.choice([1, 2, 3, 4, 6])):
        r = rng.random()
        if r < 0.55:
            f = [1, 1, 1, 1]
            if rng.random() < 0.45:
                f[rng.randrange(4)] = 0
            out.append('bstart %d %d %d %d %d' % (f[0], f[1], f[2], f[3], root))
        elif r < 0.8:
            out.append('bstop %d' % root)
        elif others:
            out.append('set %d 1 %s %s' % (rng.choice(others), b(rng.random() < 0.7), b(rng.random() < 0.7)))
    out.append('bstop %d' % root)                         # never leave the loop thread running
    return out


def _impl_lines(rc, so, se, frontend):
    """observable lines of one scenario process: its P/M lines; a process killed by SIGTERM inside Main() is
    reported as `P ret=K tr=<the hooks it had written>`; any other abnormal end as CRASH"""
    lines, ev = [], []
    for l in so.splitlines():
        if l.startswith('E '):
            ev.append(l[2:])
        elif l.startswith('P ') or l.startswith('M ') or l == 'bad-op':
            lines.append(l); ev = []
    if rc == -15 and frontend:
        lines.append('P ret=K tr=%s st=-' % (','.join(ev) or '-'))
    elif rc != 0:
        lines.append('CRASH ' + vlib.classify_crash(rc, se))
    return lines


def _model_lines(model, frontend):
    ml = [l for l in model if not l.startswith('B ')]
    if frontend:                                           # the answer to the final `main` line: P, then M unless the process was killed
        k = max([i for i, l in enumerate(ml) if l.startswith('P ')] or [0])
        return ml[k:] if ml else ['<none>']
    return [l for l in ml if l.startswith(('P bret=', 'P bcrash', 'P dead', 'M runtime=')) or l == 'bad-op']


def run_main_scenarios(seed, count, extra=(), backend=None):
    """returns list of (ops, impl_line, model_line, kind) that disagree; kind 'P' or 'M'"""
    import os, random, tempfile
    from concurrent.futures import ThreadPoolExecutor
    exe, hlog = vlib.build_harness(ID, main_sources(), os.path.join(vlib.VERIF, 'props', ID, 'main_scenario.cpp'), 'asan',
                                   libs=WRAP, out_name='mainscn')
    if exe is None:
        return [(['<build of props/C11/main_scenario.cpp>'], hlog[-1500:], 'builds', 'P')]
    rng = random.Random('%s:main:%d' % (ID, seed))
    # corpus/C11/process/*.ops: replays of the process-level defects (run first, like corpus/C11/*.ops in the standard pass)
    import glob
    corp = []
    if count or backend:
        for f in sorted(glob.glob(os.path.join(vlib.VERIF, 'corpus', ID, 'process', '*.ops'))):
            corp.append([l.strip() for l in open(f) if l.strip() and not l.startswith('#') and not l.startswith('case ')])
    cases = corp + [list(e) for e in extra] + [gen_main_scenario(rng, k) for k in range(count)]
    cases += [gen_backend_scenario(rng, k) for k in range(count if backend is None else backend)]
    # C11_DRIVER_ARGS='nofx' selects the model of run_in_backend.cpp before patches/C11-06 (used only to validate the tie
    # against a tree without that commit)
    model = vlib.run_driver_cases(EXE, dict(enumerate(cases)), argv=tuple(os.environ.get('C11_DRIVER_ARGS', '').split()))
    tmpd = tempfile.mkdtemp(prefix='C11-main-')

    def one(i):
        path = os.path.join(tmpd, '%d.ops' % i)
        with open(path, 'w') as fh:
            fh.write('\n'.join(cases[i]) + '\n')
        rc, so, se = vlib.run_proc([exe], '', 120, env={'C11_SCENARIO': path})
        return _impl_lines(rc, so, se, cases[i][-1].startswith('main '))
    with ThreadPoolExecutor(8) as ex:
        impl = list(ex.map(one, range(len(cases))))
    import shutil
    shutil.rmtree(tmpd, ignore_errors=True)
    bad = []
    for i, ops in enumerate(cases):
        frontend = ops[-1].startswith('main ')
        ml = _model_lines(model.get(i, []), frontend)
        tags = [l for l in model.get(i, []) if l.startswith(('B main-', 'B bstart-', 'B bstop-'))]
        # keep only scenarios where every module hangs below the Apps root (an add refused for two unnamed siblings leaves
        # a stray root): the harness answers bad-op; the model shows the stray root in st= of its `add` answers
        if impl[i][:1] == ['bad-op']:
            addl = [l for l in model.get(i, []) if l.startswith('P ret=0 ')]
            if addl or 'bad-op' in ml:
                continue
        MAIN['run'] += 1
        for t in tags:
            MAIN['paths'][t[2:]] = MAIN['paths'].get(t[2:], 0) + 1
        if impl[i] == ml:
            MAIN['ok'] += 1
        else:
            d = vlib.first_diff(impl[i], ml)
            kind = d[3] if d and len(d) > 3 else 'P'
            bad.append((ops, ' | '.join(impl[i]) or '<no output>', ' | '.join(ml), kind))
    return bad


def check(tier, seed, replay):
    import hashlib, json, os, time, types
    t0 = time.time()
    me = types.SimpleNamespace(**{k: v for k, v in globals().items() if k != 'check'})
    MAIN.update({'run': 0, 'ok': 0, 'paths': {}})
    EXH.update({'trees': 0, 'combos': 0, 'lines': 0, 'chunks': 0, 'bad': []})
    bad = []
    if replay:
        ops = [l.strip() for l in open(replay) if l.strip() and not l.startswith('#') and not l.startswith('case ')]
        if ops and (ops[-1].startswith('main ') or any(o.startswith(('bstart ', 'bstop ')) for o in ops)):
            ok, _ = vlib.lean_build([EXE])
            bad = run_main_scenarios(seed, 0, extra=[ops], backend=0)
            for (o, il, ml, kind) in bad:
                print('VIOLATION property=%s replay=%s%s' % (ID, replay, '' if kind == 'P' else ' no-failing-input-found'), flush=True)
                vlib.log('  -> process scenario: impl=%r expected=%r' % (il, ml))
            return 1 if bad else 0
    else:
        ok, _ = vlib.lean_build([EXE])
        if tier == 'thorough':
            bad = run_main_scenarios(seed, 60, extra=MAIN_FIXED)
            run_exhaustive()
        else:
            bad = run_main_scenarios(seed, 12, extra=MAIN_FIXED)
        bad = [(o, il, ml, 'P', 'exhaustive enumeration') for (o, il, ml) in EXH['bad']] + \
              [(o, il, ml, kind, 'process scenario') for (o, il, ml, kind) in bad]
    rc = vlib.standard_check(me, tier, seed, replay)
    # report at most four, one of each class first (exhaustive / Main() / Start()-Stop())
    cls = lambda x: 0 if x[4].startswith('exh') else (1 if x[0][-1].startswith('main ') else 2)
    firsts = [next(x for x in bad if cls(x) == c) for c in sorted(set(cls(x) for x in bad))]
    bad = firsts + [x for x in bad if x not in firsts]
    for (o, il, ml, kind, what) in bad[:4]:
        proc = o[-1].startswith('main ') or any(x.startswith(('bstart ', 'bstop ')) for x in o)
        fp = ('main-' if proc else 'exh-') + hashlib.sha1('\n'.join(o).encode()).hexdigest()[:10]
        path = vlib.write_replay(ID, fp + '.ops', vlib.case_text(0, o) + '# %s\n# implementation: %s\n# model/spec   : %s\n'
                                 % (what, il, ml))
        print('VIOLATION property=%s replay=%s%s' % (ID, path, '' if kind == 'P' else ' no-failing-input-found'), flush=True)
        vlib.log('  -> %s: impl=%r expected=%r' % (what, il[:300], ml[:300]))
    if not replay:
        # the evidence written by standard_check() does not know about the extra passes: add them
        evp = os.path.join(vlib.VERIF, 'evidence', ID + '.json')
        ev = json.load(open(evp))
        ev['violations'] = ev.get('violations', 0) + min(len(bad), 4)
        ev['wall_s'] = round(time.time() - t0, 2)
        with open(evp + '.tmp', 'w') as fh:
            json.dump(ev, fh, indent=1, sort_keys=True); fh.write('\n')
        os.replace(evp + '.tmp', evp)
    if bad:
        rc = 1
    return rc


# DESIGN 7-5 inside Main(): "Apps init fail" and "Apps start fail" paths, the run path, "Context init fail"
MAIN_FIXED = [
    ['new 0 0 1 1 1', 'new 1 1 1 1 1', 'new 2 1 1 0 1', 'add 0 1 1', 'add 0 2 1', 'main 1 1 0'],
    ['new 0 0 1 1 1', 'new 1 1 1 1 1', 'new 2 1 1 1 0', 'add 0 1 1', 'add 0 2 1', 'main 1 1 0'],
    ['new 0 0 1 1 1', 'new 1 1 1 1 1', 'new 2 0 1 1 1', 'new 3 1 1 0 1', 'add 0 1 1', 'add 0 2 0', 'add 2 3 1', 'main 1 1 0'],
    ['new 0 0 1 1 1', 'new 1 1 1 1 1', 'add 0 1 1', 'main 0 1 0'],
    # ContextImp::start() answers false (linked through --wrap): apps are cleaned up, never started
    ['new 0 0 1 1 1', 'new 1 1 1 1 1', 'new 2 1 1 1 1', 'add 0 1 1', 'add 1 2 1', 'main 1 0 0'],
    # a stop signal raised from inside a hook (as the code is: default disposition, the process is killed there, `P ret=K` with the
    # hooks run so far): onInit / onStart of a module during start-up (run path), onStart during a start-up that fails afterwards,
    # the roll-back onStop of a failing start-up, onStop of the stop sequence, onCleanup
    ['new 0 0 1 1 1', 'new 1 1 1 1 1', 'new 2 1 1 1 1', 'add 0 1 1', 'add 0 2 1', 'raise i 2', 'main 1 1 0'],
    ['new 0 0 1 1 1', 'new 1 1 1 1 1', 'new 2 1 1 1 1', 'add 0 1 1', 'add 0 2 1', 'raise s 1', 'main 1 1 0'],
    ['new 0 0 1 1 1', 'new 1 1 1 1 1', 'new 2 1 1 1 0', 'add 0 1 1', 'add 0 2 1', 'raise s 1', 'main 1 1 0'],
    ['new 0 0 1 1 1', 'new 1 1 1 1 1', 'new 2 1 1 1 0', 'add 0 1 1', 'add 0 2 1', 'raise t 1', 'main 1 1 0'],
    ['new 0 0 1 1 1', 'new 1 1 1 1 1', 'new 2 1 1 1 1', 'add 0 1 1', 'add 0 2 1', 'raise t 2', 'main 1 1 0'],
    ['new 0 0 1 1 1', 'new 1 1 1 1 1', 'new 2 1 1 1 1', 'add 0 1 1', 'add 0 2 1', 'raise c 1', 'main 1 1 0'],
    ['new 0 0 1 1 1', 'new 1 1 1 1 1', 'new 2 1 1 0 1', 'add 0 1 1', 'add 0 2 1', 'raise c 1', 'main 1 1 0'],
    # run_in_backend.cpp: Stop without Start, Start, Start again, Stop, Stop again
    ['new 0 0 1 1 1', 'new 1 1 1 1 1', 'new 2 1 1 1 1', 'add 0 1 1', 'add 1 2 1', 'bstop 0', 'bstart 1 1 1 1 0', 'bstart 1 1 1 1 0', 'bstop 0', 'bstop 0'],
    # Start failing at each stage (arguments, pid file, context initialise, apps initialise, context start, apps start),
    # each followed by a Start that works, and Stop
    ['new 0 0 1 1 1', 'new 1 1 1 1 1', 'add 0 1 1', 'bstart 0 1 1 1 0', 'bstart 1 1 1 1 0', 'bstop 0'],
    ['new 0 0 1 1 1', 'new 1 1 1 1 1', 'add 0 1 1', 'bstart 1 0 1 1 0', 'bstart 1 1 1 1 0', 'bstop 0'],
    ['new 0 0 1 1 1', 'new 1 1 1 1 1', 'add 0 1 1', 'bstart 1 1 0 1 0', 'bstart 1 1 1 1 0', 'bstop 0'],
    ['new 0 0 1 1 1', 'new 1 1 1 1 1', 'new 2 1 1 0 1', 'add 0 1 1', 'add 0 2 1', 'bstart 1 1 1 1 0', 'set 2 1 1 1', 'bstart 1 1 1 1 0', 'bstop 0'],
    ['new 0 0 1 1 1', 'new 1 1 1 1 1', 'new 2 1 1 1 1', 'add 0 1 1', 'add 0 2 1', 'bstart 1 1 1 0 0', 'bstart 1 1 1 1 0', 'bstop 0'],
    ['new 0 0 1 1 1', 'new 1 1 1 1 1', 'new 2 1 1 1 0', 'add 0 1 1', 'add 0 2 1', 'bstart 1 1 1 1 0', 'set 2 1 1 1', 'bstart 1 1 1 1 0', 'bstop 0',
     'bstart 0 0 0 0 0', 'bstop 0'],
]


NT_TAGS = ('init-rollback', 'start-rollback', '-ok-optfail', 'cleanup-with-stop', 'destroy-emits', 'guard-matters', 'thrown', 'catch-matters',
           'add-fail-cycle', 'kshared', 'kforeign', 'kinit-rollback', 'kaddas-dup', 'kfill-throws', 'knull')


def nontrivial(ops, model_lines):
    tags = ' '.join(l for l in model_lines if l.startswith('B '))
    return 1 if any(t in tags for t in NT_TAGS) else None


def fingerprint(ops, d):
    import hashlib
    kinds = ' '.join(o.split()[0] for o in ops)
    return hashlib.sha1(kinds.encode()).hexdigest()[:12]


LEVEL_TEXT = ('Lean 4 theorems over a hand-written model of Module (tree with per-module state_, transcribed initialize/start/stop/cleanup/'
              '~Module): for every tree, every success/failure assignment and every sequence of root calls the hook trace obeys each '
              "module's lifecycle automaton, is LIFO-nested, and is balanced after cleanup+destroy; the model is tied to module.cpp on every "
              'run by differential execution of generated trees and call sequences (ASan+UBSan build of the working tree)')
LEVEL_NOTE = ('trusted: Lean kernel, hand-written model + differential tie (coverage bounded by the generator, measured in evidence); '
              'throwing teardown hooks are outside the property; Main()/Start()/Stop() sequencing are small models (mainTrace, Backend.startB/stopB/mainSig) tied by '
              'process scenarios of the real entry points in both tiers')
TECHNIQUE = 'Lean 4 structural-induction proofs over a module-tree model + model/implementation correspondence check'
DESIGN_REF = 'DESIGN.md §6 C11, §7 row 5'
