// C12 harness.
//  parser level  : `feed <hex>`  — the segment is appended to an accumulating tbox Buffer and a
//                  real RequestParser is driven by the same loop as Server::Impl::onTcpReceived
//                  (while readable > 0: parse, hasRead, getRequest / kFail / break).
//  server level  : `srv`, `sync <i> <hex>`, `seg <hex>`, `done <i> <hex>` — a real http Server on
//                  a Unix-domain socket with a real event loop; the harness is the client.
// Output format = lean/Driver/C12.lean. Exceptions are caught here and printed as outcomes.
#include "vh.h"
#include <cerrno>
#include <csignal>
#include <cstring>
#include <map>
#include <memory>
#include <fcntl.h>
#include <sys/socket.h>
#include <sys/un.h>
#include <unistd.h>
#include <dlfcn.h>
#include <sys/stat.h>
#include <sys/uio.h>

#include <tbox/event/loop.h>
#include <tbox/util/buffer.h>
#include <tbox/network/sockaddr.h>
#include <tbox/http/server/request_parser.h>
#include <tbox/http/server/server.h>
#include <tbox/http/server/context.h>

// System-call interposers (fault schedules). The client side of the harness uses send()/recv(), so every write()/
// readv()/accept() on a socket other than the client's belongs to the server under test.
//  write : answers come from a queue filled by the op `wq` (p = pass through, s<n> = short count: at most n bytes are
//          really written, a = EAGAIN, e = EPIPE now and for every later write); `wfail` = EPIPE from now on;
//          an empty queue passes through.
//  readv : `rseg` arms a one-shot ECONNRESET for the next readv on the server side.
//  accept: the first g_accept_fail calls fail (EMFILE, ECONNABORTED, EINTR in turn); the pending connection stays queued.
#include <deque>
struct WAns { char kind; size_t n; };
static std::deque<WAns> g_wq;
static volatile unsigned long g_wq_used = 0;
static volatile bool g_wfail = false;
static volatile bool g_rerr = false;
static volatile int g_accept_fail = 0;
static volatile int g_client_fd = -1;
static bool serverSideSocket(int fd) {
    if (fd == g_client_fd) return false;
    struct stat st;
    return fstat(fd, &st) == 0 && S_ISSOCK(st.st_mode);
}
extern "C" ssize_t write(int fd, const void *buf, size_t n) {
    typedef ssize_t (*write_t)(int, const void *, size_t);
    static write_t real = (write_t)dlsym(RTLD_NEXT, "write");
    if ((g_wfail || !g_wq.empty()) && serverSideSocket(fd)) {
        if (g_wfail) { errno = EPIPE; return -1; }
        WAns a = g_wq.front(); g_wq.pop_front(); ++g_wq_used;
        switch (a.kind) {
            case 'p': break;
            case 's': return real(fd, buf, n < a.n ? n : a.n);
            case 'a': errno = EAGAIN; return -1;
            case 'e': g_wfail = true; errno = EPIPE; return -1;
        }
    }
    return real(fd, buf, n);
}
extern "C" ssize_t readv(int fd, const struct iovec *iov, int cnt) {
    typedef ssize_t (*readv_t)(int, const struct iovec *, int);
    static readv_t real = (readv_t)dlsym(RTLD_NEXT, "readv");
    if (g_rerr && serverSideSocket(fd)) { g_rerr = false; errno = ECONNRESET; return -1; }
    return real(fd, iov, cnt);
}
// OS-level effect watched as a model-internal observable: the server never shuts a connection down half-way
// (the repaired C12-04 defect was a shutdown(SHUT_RD)); a rewrite that does is reported as a broken correspondence
static std::string g_shutdowns;
extern "C" int shutdown(int fd, int how) {
    typedef int (*shutdown_t)(int, int);
    static shutdown_t real = (shutdown_t)dlsym(RTLD_NEXT, "shutdown");
    if (fd != g_client_fd && g_client_fd >= 0) g_shutdowns += (g_shutdowns.empty() ? "" : ",") + std::to_string(how);
    return real(fd, how);
}
extern "C" int accept(int fd, struct sockaddr *addr, socklen_t *len) {
    typedef int (*accept_t)(int, struct sockaddr *, socklen_t *);
    static accept_t real = (accept_t)dlsym(RTLD_NEXT, "accept");
    if (g_accept_fail > 0) {
        static const int errs[] = {EMFILE, ECONNABORTED, EINTR};
        errno = errs[g_accept_fail % 3];
        --g_accept_fail;
        return -1;
    }
    return real(fd, addr, len);
}

using namespace tbox;
using namespace tbox::http;
using namespace tbox::http::server;

static std::string showKVs(const std::map<std::string, std::string> &m) {
    if (m.empty()) return "-";
    std::string s; bool first = true;
    for (auto &kv : m) {
        if (!first) s += ",";
        first = false;
        s += vh::hex(kv.first) + ":" + vh::hex(kv.second);
    }
    return s;
}

// "khex:vhex,khex:vhex" or "-"
static bool parseKVs(const std::string &w, std::map<std::string, std::string> &out) {
    out.clear();
    if (w == "-") return true;
    size_t pos = 0;
    while (pos <= w.size()) {
        size_t e = w.find(',', pos);
        std::string item = w.substr(pos, e == std::string::npos ? std::string::npos : e - pos);
        size_t c = item.find(':');
        if (c == std::string::npos || item.find(':', c + 1) != std::string::npos) return false;
        std::vector<uint8_t> k, v;
        if (!vh::unhex(item.substr(0, c), k) || !vh::unhex(item.substr(c + 1), v)) return false;
        out[std::string(k.begin(), k.end())] = std::string(v.begin(), v.end());
        if (e == std::string::npos) break;
        pos = e + 1;
    }
    return true;
}

// does the target survive UrlPathToString -> StringToUrlPath ?
static const char *urlRoundTrip(const Url::Path &u) {
    Url::Path v;
    if (!StringToUrlPath(UrlPathToString(u), v)) return "0";
    return (v.path == u.path && v.params == u.params && v.query == u.query && v.frag == u.frag) ? "1" : "0";
}

static std::string showReq(const Request &r) {
    return "m=" + MethodToString(r.method) + " path=" + vh::hex(r.url.path) + " params=" + showKVs(r.url.params) +
           " query=" + showKVs(r.url.query) + " frag=" + vh::hex(r.url.frag) + " ver=" + HttpVerToString(r.http_ver) +
           " hdr=" + showKVs(r.headers) + " body=" + vh::hex(r.body) + " str=" + vh::hex(r.toString()) +
           " rt=" + urlRoundTrip(r.url);
}

static const char *showState(RequestParser::State s) {
    switch (s) {
        case RequestParser::State::kInit: return "init";
        case RequestParser::State::kFinishedStartLine: return "startline";
        case RequestParser::State::kFinishedHeads: return "heads";
        case RequestParser::State::kFinishedAll: return "all";
        case RequestParser::State::kFail: return "fail";
    }
    return "?";
}

static const char *methodName(Method m) {
    switch (m) {
        case Method::kUnset: return "kUnset"; case Method::kGet: return "kGet"; case Method::kHead: return "kHead";
        case Method::kPut: return "kPut"; case Method::kPost: return "kPost"; case Method::kTrace: return "kTrace";
        case Method::kOptions: return "kOptions"; case Method::kDelete: return "kDelete"; default: return "?";
    }
}
static const char *verName(HttpVer v) {
    switch (v) {
        case HttpVer::kUnset: return "kUnset"; case HttpVer::k1_0: return "k1_0"; case HttpVer::k1_1: return "k1_1";
        case HttpVer::k2_0: return "k2_0"; default: return "?";
    }
}

static std::string showPath(const Url::Path &u) {
    return "path=" + vh::hex(u.path) + " params=" + showKVs(u.params) + " query=" + showKVs(u.query) + " frag=" + vh::hex(u.frag);
}
static std::string showHost(const Url::Host &h) {
    return "user=" + vh::hex(h.user) + " pw=" + vh::hex(h.password) + " host=" + vh::hex(h.host) + " port=" + std::to_string((unsigned)h.port);
}
static bool samePath(const Url::Path &a, const Url::Path &b) {
    return a.path == b.path && a.params == b.params && a.query == b.query && a.frag == b.frag;
}
static bool sameHost(const Url::Host &a, const Url::Host &b) {
    return a.user == b.user && a.password == b.password && a.host == b.host && a.port == b.port;
}
static std::string str(const std::vector<uint8_t> &d) { return std::string(d.begin(), d.end()); }
static bool methodByName(const std::string &n, Method &m) {
    static const char *names[] = {"kUnset", "kGet", "kHead", "kPut", "kPost", "kTrace", "kOptions", "kDelete"};
    static const Method vals[] = {Method::kUnset, Method::kGet, Method::kHead, Method::kPut, Method::kPost, Method::kTrace, Method::kOptions, Method::kDelete};
    for (int i = 0; i < 8; ++i) if (n == names[i]) { m = vals[i]; return true; }
    return false;
}
static bool verByName(const std::string &n, HttpVer &v) {
    static const char *names[] = {"kUnset", "k1_0", "k1_1", "k2_0"};
    static const HttpVer vals[] = {HttpVer::kUnset, HttpVer::k1_0, HttpVer::k1_1, HttpVer::k2_0};
    for (int i = 0; i < 4; ++i) if (n == names[i]) { v = vals[i]; return true; }
    return false;
}

// "p,s5,a,e"
static bool parseWq(const std::string &spec, std::vector<WAns> &out) {
    out.clear();
    size_t pos = 0;
    while (true) {
        size_t e = spec.find(',', pos);
        std::string a = spec.substr(pos, e == std::string::npos ? std::string::npos : e - pos);
        if (a == "p" || a == "a" || a == "e") out.push_back(WAns{a[0], 0});
        else if (a.size() >= 2 && a[0] == 's') {
            uint64_t v = 0;
            if (!vh::to_u64(a.substr(1), v)) return false;
            out.push_back(WAns{'s', (size_t)v});
        } else return false;
        if (e == std::string::npos) break;
        pos = e + 1;
    }
    return true;
}

// ---------------------------------------------------------------- parser level
struct PConn {
    RequestParser parser;
    util::Buffer buff;
    bool dead = false;
};

// P lines (requests, fail, exception) first, then ONE model-internal line with the parse calls
static void doFeed(PConn &c, const std::vector<uint8_t> &seg) {
    if (c.dead) { std::cout << "P dead\n"; return; }
    if (!seg.empty()) c.buff.append(seg.data(), seg.size());
    std::string calls;
    auto finish = [&](const char *st, size_t pending) {
        std::cout << "M calls=" << (calls.empty() ? "-" : calls) << " end=" << st << " pending=" << pending << "\n";
    };
    try {
        while (c.buff.readableSize() > 0) {
            size_t avail = c.buff.readableSize();
            // exact-size copy, right-aligned against the ASan redzone (a read past the given size is visible), the start
            // pointer at every alignment 0..7 in turn
            static unsigned align_seq = 0;
            size_t off = (align_seq++) % 8;
            std::unique_ptr<uint8_t[]> exact(new uint8_t[off + avail]);
            memcpy(exact.get() + off, c.buff.readableBegin(), avail);
            size_t rsize = c.parser.parse(exact.get() + off, avail);
            if (rsize > avail) { std::cout << "P over-consume " << rsize << " of " << avail << "\n"; c.dead = true; return; }
            c.buff.hasRead(rsize);
            auto st = c.parser.state();
            if (!calls.empty()) calls += ",";
            calls += std::to_string(rsize) + ":" + showState(st);
            if (st == RequestParser::State::kFinishedAll) {
                std::unique_ptr<Request> req(c.parser.getRequest());
                std::cout << "P req " << showReq(*req) << "\n";
            } else if (st == RequestParser::State::kFail) {
                c.dead = true;
                std::cout << "P fail\n";
                finish("fail", 0);
                return;
            } else
                break;
        }
    } catch (const std::exception &e) {
        c.dead = true;
        std::cout << "P exception\n";
        return;
    }
    finish(showState(c.parser.state()), c.buff.readableSize());
}

// ---------------------------------------------------------------- server level
struct Srv {
    event::Loop *loop = nullptr;
    Server *srv = nullptr;
    int cfd = -1;
    std::string path;
    // scripted handlers: the server has kLevels handlers (a middleware chain); what handler `lvl` does for
    // request `idx` is a list of actions: n = call next(), b<hex> = set 200 + body, k = keep the context (answered
    // later by `done`), t = throw, s = server.stop(), c = server.cleanup().  No script: level 0 keeps the context.
    struct Act { char kind; std::string body; };
    static const int kLevels = 3;
    typedef std::vector<std::vector<Act>> Script;
    std::map<int, ContextSptr> held;
    std::map<int, Script> scripts;
    int next_idx = 0;
    int cur_idx = -1;
    bool poisoned = false;      // a handler threw: counters of the library are unbalanced, the objects are leaked at reset

    static bool parseScript(const std::string &spec, Script &out) {
        out.assign(kLevels, std::vector<Act>());
        size_t pos = 0; int lvl = 0;
        while (true) {
            size_t e = spec.find('/', pos);
            std::string level = spec.substr(pos, e == std::string::npos ? std::string::npos : e - pos);
            if (lvl >= kLevels) return false;
            if (level != "-") {
                size_t p2 = 0;
                while (true) {
                    size_t e2 = level.find('.', p2);
                    std::string a = level.substr(p2, e2 == std::string::npos ? std::string::npos : e2 - p2);
                    if (a.empty()) return false;
                    Act act; act.kind = a[0];
                    if (a[0] == 'b') { std::vector<uint8_t> d; if (!vh::unhex(a.substr(1), d)) return false; act.body.assign(d.begin(), d.end()); }
                    else if (a.size() != 1 || std::string("nktsc").find(a[0]) == std::string::npos) return false;
                    out[lvl].push_back(act);
                    if (e2 == std::string::npos) break;
                    p2 = e2 + 1;
                }
            }
            ++lvl;
            if (e == std::string::npos) break;
            pos = e + 1;
        }
        return true;
    }

    void runLevel(int lvl, ContextSptr ctx, const NextFunc &next) {
        if (lvl == 0) {
            cur_idx = next_idx++;
            std::cout << "P req " << cur_idx << " " << showReq(ctx->req()) << "\n";
        }
        int idx = cur_idx;
        std::cout << "P call " << idx << " " << lvl << "\n";
        auto it = scripts.find(idx);
        if (it == scripts.end()) { if (lvl == 0) held[idx] = ctx; return; }
        std::vector<Act> acts = it->second[lvl];
        for (auto &a : acts) {
            switch (a.kind) {
                case 'n': next(); break;
                case 'b': ctx->res().status_code = StatusCode::k200_OK; ctx->res().body = a.body; break;
                case 'k': held[idx] = ctx; break;
                case 't': throw std::runtime_error("scripted handler throws");
                case 's': srv->stop(); break;
                case 'c': srv->cleanup(); break;
            }
        }
    }

    bool eof = false;
    bool cclosed = false;

    bool start(int accept_failures = 0) {
        static int seq = 0;
        g_accept_fail = accept_failures;
        path = "/tmp/C12-h-" + std::to_string(getpid()) + "-" + std::to_string(seq++) + ".sock";
        loop = event::Loop::New();
        srv = new Server(loop);
        if (!srv->initialize(network::SockAddr(network::DomainSockPath(path)), 4)) return false;
        for (int lvl = 0; lvl < kLevels; ++lvl)
            srv->use([this, lvl](ContextSptr ctx, const NextFunc &next) { runLevel(lvl, ctx, next); });
        if (!srv->start()) return false;
        cfd = ::socket(AF_UNIX, SOCK_STREAM | SOCK_NONBLOCK, 0);
        struct sockaddr_un a; memset(&a, 0, sizeof(a));
        a.sun_family = AF_UNIX; strncpy(a.sun_path, path.c_str(), sizeof(a.sun_path) - 1);
        if (::connect(cfd, (struct sockaddr *)&a, sizeof(a)) != 0) return false;
        g_client_fd = cfd;
        pump();
        return true;
    }

    // a few passes of the real loop: epoll_wait(0) -> ready fd events -> deferred functions
    void pump() {
        for (int i = 0; i < 8; ++i) {
            loop->runNext([] {}, "verif-pass");
            loop->runLoop(event::Loop::Mode::kOnce);
        }
    }

    static std::string showBytes(const std::string &got) {
        if (got.size() <= 4096) return vh::hex(got);
        uint32_t h = 2166136261u;
        for (unsigned char c : got) { h ^= c; h *= 16777619u; }
        char buf[64]; snprintf(buf, sizeof(buf), "len=%zu fnv=%08x", got.size(), h);
        return buf;
    }

    // run the loop and read at the client until nothing moves any more (a large response needs
    // the client to read before the server's write event can drain its send buffer)
    void settle(bool run_loop = true) {
        std::string got;
        bool now_eof = false;
        if (run_loop) pump();
        for (int idle = 0, rounds = 0; idle < 2 && rounds < 100000; ++rounds) {
            size_t before = got.size();
            unsigned long used_before = g_wq_used;
            if (!eof && !now_eof && cfd >= 0) {
                char b[65536];
                for (;;) {
                    ssize_t n = ::recv(cfd, b, sizeof(b), 0);
                    if (n > 0) { got.append(b, n); continue; }
                    if (n == 0) now_eof = true;
                    break;
                }
            }
            if (run_loop) for (int i = 0; i < 3; ++i) { loop->runNext([] {}, "verif-pass"); loop->runLoop(event::Loop::Mode::kOnce); }
            idle = (got.size() == before && g_wq_used == used_before) ? idle + 1 : 0;
        }
        std::cout << "P out " << showBytes(got) << "\n";
        if (now_eof) { eof = true; std::cout << "P eof\n"; }
        std::cout << "M shutdown " << (g_shutdowns.empty() ? "-" : g_shutdowns) << "\n";
        g_shutdowns.clear();
    }

    void clientClose() {
        if (cfd >= 0) { ::close(cfd); cfd = -1; }
        eof = true;
        pump();
    }

    void stop() {
        g_wfail = false; g_rerr = false; g_accept_fail = 0; g_wq.clear(); g_shutdowns.clear();
        if (poisoned) {     // after an exception out of a handler the library's callback counters are unbalanced
            if (cfd >= 0) { ::close(cfd); cfd = -1; }   // (its destructors assert on them): leak the objects
            if (!path.empty()) ::unlink(path.c_str());
            new std::map<int, ContextSptr>(std::move(held));
            return;
        }
        held.clear();   // contexts commit into a still-living server
        if (srv) { srv->cleanup(); delete srv; srv = nullptr; }
        if (cfd >= 0) { ::close(cfd); cfd = -1; }
        if (loop) { loop->runNext([] {}, "verif-pass"); loop->runLoop(event::Loop::Mode::kOnce); delete loop; loop = nullptr; }
        if (!path.empty()) ::unlink(path.c_str());
    }
};

int main() {
    signal(SIGPIPE, SIG_IGN);
    std::string line;
    std::unique_ptr<PConn> pc;
    std::unique_ptr<Srv> sv;
    auto reset = [&] { pc.reset(); if (sv) { sv->stop(); sv.reset(); } };
    while (std::getline(std::cin, line)) {
        auto w = vh::words(line);
        if (w.empty()) continue;
        if (w[0] == "case") { reset(); std::cout << line << "\n"; continue; }
        const std::string &op = w[0];
        std::vector<uint8_t> d, d2, d3, d4, d5, d6; uint64_t n = 0, n2 = 0, n3 = 0; std::map<std::string, std::string> kvs, kvs2, kvs3;
        Method me = Method::kUnset; HttpVer ve = HttpVer::kUnset;
        bool ok = true; Srv::Script sc; std::vector<WAns> wq;
        try {
            if (op == "method" && w.size() == 2 && vh::unhex(w[1], d)) {
                std::cout << "P method " << methodName(StringToMethod(std::string(d.begin(), d.end()))) << "\n";
            } else if (op == "version" && w.size() == 2 && vh::unhex(w[1], d)) {
                std::cout << "P version " << verName(StringToHttpVer(std::string(d.begin(), d.end()))) << "\n";
            } else if (op == "upath" && w.size() == 2 && vh::unhex(w[1], d)) {
                Url::Path u;
                std::string in = str(d);
                std::unique_ptr<char[]> exact(new char[in.size() + 1]);   // exact-size copy: an over-read is visible to ASan
                memcpy(exact.get(), in.data(), in.size());
                if (!StringToUrlPath(std::string(exact.get(), in.size()), u)) std::cout << "P upath 0\n";
                else std::cout << "P upath 1 " << showPath(u) << " str=" << vh::hex(UrlPathToString(u)) << " rt=" << urlRoundTrip(u) << "\n";
            } else if (op == "uhost" && w.size() == 2 && vh::unhex(w[1], d)) {
                Url::Host h;
                if (!StringToUrlHost(str(d), h)) std::cout << "P uhost 0\n";
                else std::cout << "P uhost 1 " << showHost(h) << " str=" << vh::hex(UrlHostToString(h)) << "\n";
            } else if (op == "url" && w.size() == 2 && vh::unhex(w[1], d)) {
                Url u;
                if (!StringToUrl(str(d), u)) std::cout << "P url 0\n";
                else {
                    Url v; std::string s2 = UrlToString(u);
                    bool rt = StringToUrl(s2, v) && v.scheme == u.scheme && sameHost(v.host, u.host) && samePath(v.path, u.path);
                    std::cout << "P url 1 scheme=" << vh::hex(u.scheme) << " " << showHost(u.host) << " " << showPath(u.path)
                              << " str=" << vh::hex(s2) << " rt=" << (rt ? "1" : "0") << "\n";
                }
            } else if (op == "mkpath" && w.size() == 5 && vh::unhex(w[1], d) && parseKVs(w[2], kvs) && parseKVs(w[3], kvs2) && vh::unhex(w[4], d2)) {
                Url::Path u; u.path = str(d); u.params = kvs; u.query = kvs2; u.frag = str(d2);
                std::string s2 = UrlPathToString(u);
                Url::Path v;
                std::cout << "P mkpath str=" << vh::hex(s2) << " back=";
                if (!StringToUrlPath(s2, v)) std::cout << "0\n";
                else std::cout << "1 " << showPath(v) << " rt=" << (samePath(u, v) ? "1" : "0") << "\n";
            } else if (op == "mkurl" && w.size() == 10 && vh::unhex(w[1], d) && vh::unhex(w[2], d2) && vh::unhex(w[3], d3) && vh::unhex(w[4], d4) &&
                       vh::to_u64(w[5], n) && n <= 65535 && vh::unhex(w[6], d5) && parseKVs(w[7], kvs) && parseKVs(w[8], kvs2) && vh::unhex(w[9], d6)) {
                Url u; u.scheme = str(d); u.host.user = str(d2); u.host.password = str(d3); u.host.host = str(d4); u.host.port = (uint16_t)n;
                u.path.path = str(d5); u.path.params = kvs; u.path.query = kvs2; u.path.frag = str(d6);
                std::string s2 = UrlToString(u);
                Url v;
                std::cout << "P mkurl str=" << vh::hex(s2) << " back=";
                bool okk = false;
                try { okk = StringToUrl(s2, v); } catch (const std::exception &) { std::cout << "exception\n"; continue; }
                if (!okk) std::cout << "0\n";
                else std::cout << "1 scheme=" << vh::hex(v.scheme) << " " << showHost(v.host) << " " << showPath(v.path) << " rt="
                               << ((v.scheme == u.scheme && sameHost(v.host, u.host) && samePath(v.path, u.path)) ? "1" : "0") << "\n";
            } else if (op == "enc" && w.size() == 3 && (w[1] == "0" || w[1] == "1") && vh::unhex(w[2], d)) {
                std::cout << "P enc " << vh::hex(UrlEncode(str(d), w[1] == "1")) << "\n";
            } else if (op == "dec" && w.size() == 2 && vh::unhex(w[1], d)) {
                std::string out; bool threw = false;
                try { out = UrlDecode(str(d)); } catch (const std::out_of_range &) { threw = true; }   // the documented failure
                if (threw) std::cout << "P dec throws\n"; else std::cout << "P dec " << vh::hex(out) << "\n";
            } else if (op == "mkreq" && w.size() == 9 && methodByName(w[1], me) && vh::unhex(w[2], d) && parseKVs(w[3], kvs) && parseKVs(w[4], kvs2) &&
                       vh::unhex(w[5], d2) && verByName(w[6], ve) && parseKVs(w[7], kvs3) && vh::unhex(w[8], d3)) {
                Request r; r.method = me; r.http_ver = ve; r.url.path = str(d); r.url.params = kvs; r.url.query = kvs2; r.url.frag = str(d2);
                r.headers = kvs3; r.body = str(d3);
                std::string s2 = r.toString();
                std::cout << "P mkreq str=" << vh::hex(s2) << "\n";
                RequestParser rp;
                std::unique_ptr<char[]> exact(new char[s2.size() + 1]);
                memcpy(exact.get(), s2.data(), s2.size());
                size_t used = rp.parse(exact.get(), s2.size());
                std::cout << "P reparse consumed=" << used << " st=" << showState(rp.state());
                if (rp.state() == RequestParser::State::kFinishedAll) {
                    std::unique_ptr<Request> q(rp.getRequest());
                    Headers want = r.headers; want["Content-Length"] = std::to_string(r.body.size());
                    bool same = q->method == r.method && q->http_ver == r.http_ver && samePath(q->url, r.url) && q->headers == want && q->body == r.body;
                    std::cout << " " << showReq(*q) << " same=" << (same ? "1" : "0");
                }
                std::cout << "\n";
            } else if (op == "mkres" && w.size() == 5 && verByName(w[1], ve) && vh::to_u64(w[2], n) && n <= 999 && parseKVs(w[3], kvs) && vh::unhex(w[4], d)) {
                Respond r; r.http_ver = ve; r.status_code = (StatusCode)(int)n; r.headers = kvs; r.body = str(d);
                std::cout << "P mkres " << vh::hex(r.toString()) << "\n";
            } else if ((op == "sstop" || op == "sclean") && w.size() == 1 && sv && !sv->poisoned) {
                if (op == "sstop") sv->srv->stop(); else sv->srv->cleanup();   // outside any handler; contexts may still be held
                sv->settle();
            } else if (op == "feed" && w.size() == 2 && vh::unhex(w[1], d) && !sv) {
                if (!pc) pc.reset(new PConn);
                doFeed(*pc, d);
            } else if (op == "srv" && (w.size() == 1 || (w.size() == 2 && vh::to_u64(w[1], n) && n >= 1 && n <= 5)) && !sv && !pc) {
                sv.reset(new Srv);
                if (!sv->start((int)n)) { std::cout << "P srv-start-failed\n"; }
                else std::cout << "P srv\n";
            } else if (sv && sv->poisoned && (op == "seg" || op == "done" || op == "doneN" || op == "doneR" || op == "rel" ||
                       op == "cclose" || op == "dclose" || op == "dcloseN" || op == "cdone" || op == "chalf" || op == "chalfS" || op == "wfail" || op == "sstop" || op == "sclean" ||
                       op == "wq" || op == "rseg")) {
                std::cout << "P poisoned\n";
            } else if (op == "sync" && w.size() == 3 && vh::to_u64(w[1], n) && vh::unhex(w[2], d) && sv && !sv->scripts.count((int)n)) {
                Srv::Script sc(Srv::kLevels);
                Srv::Act a; a.kind = 'b'; a.body.assign(d.begin(), d.end());
                sc[0].push_back(a);
                sv->scripts[(int)n] = sc;
                std::cout << "P sync\n";
            } else if (op == "script" && w.size() == 3 && vh::to_u64(w[1], n) && sv && !sv->scripts.count((int)n) &&
                       Srv::parseScript(w[2], sc)) {
                sv->scripts[(int)n] = sc;
                std::cout << "P script\n";
            } else if (op == "seg" && w.size() == 2 && vh::unhex(w[1], d) && sv && !d.empty()) {
                if (sv->cfd >= 0) ::send(sv->cfd, d.data(), d.size(), MSG_NOSIGNAL);
                sv->settle();
            } else if (op == "done" && w.size() == 3 && vh::to_u64(w[1], n) && vh::unhex(w[2], d) && sv && sv->held.count((int)n)) {
                auto it = sv->held.find((int)n);
                it->second->res().status_code = StatusCode::k200_OK;
                it->second->res().body = std::string(d.begin(), d.end());
                sv->held.erase(it);     // ~Context -> commitRespond
                sv->settle();
            } else if (op == "doneN" && w.size() == 4 && vh::to_u64(w[1], n) && vh::to_u64(w[2], n2) && vh::to_u64(w[3], n3) &&
                       n2 <= 2000000 && n3 <= 255 && sv && sv->held.count((int)n)) {
                auto it = sv->held.find((int)n);
                it->second->res().status_code = StatusCode::k200_OK;
                it->second->res().body = std::string((size_t)n2, (char)n3);
                sv->held.erase(it);
                sv->settle();
            } else if (op == "doneR" && w.size() == 5 && vh::to_u64(w[1], n) && vh::to_u64(w[2], n2) && n2 <= 999 &&
                       parseKVs(w[3], kvs) && vh::unhex(w[4], d) && sv && sv->held.count((int)n)) {
                auto it = sv->held.find((int)n);
                it->second->res().status_code = (StatusCode)(int)n2;
                it->second->res().headers = kvs;
                it->second->res().body = std::string(d.begin(), d.end());
                sv->held.erase(it);
                sv->settle();
            } else if (op == "rel" && w.size() == 2 && vh::to_u64(w[1], n) && sv && sv->held.count((int)n)) {
                sv->held.erase((int)n);     // the handler lets go of the context without touching the response
                sv->settle();
            } else if ((op == "chalf" || op == "chalfS") && w.size() == 1 && sv && !sv->cclosed) {
                ::shutdown(sv->cfd, SHUT_WR);   // the client has nothing more to say but keeps reading
                sv->settle();
            } else if (op == "wq" && w.size() == 2 && sv && parseWq(w[1], wq) && wq.size() <= 8) {
                for (auto &a : wq) g_wq.push_back(a);
                std::cout << "P wq\n";
            } else if (op == "rseg" && w.size() == 2 && vh::unhex(w[1], d) && sv && !d.empty() && !sv->cclosed) {
                g_rerr = true;
                if (sv->cfd >= 0) ::send(sv->cfd, d.data(), d.size(), MSG_NOSIGNAL);
                sv->settle();
                g_rerr = false;
            } else if (op == "wfail" && w.size() == 1 && sv) {
                g_wfail = true;
                std::cout << "P wfail\n";
            } else if (op == "cdone" && w.size() == 3 && vh::to_u64(w[1], n) && vh::unhex(w[2], d) && sv && !sv->cclosed &&
                       sv->held.count((int)n)) {
                sv->cclosed = true;
                if (sv->cfd >= 0) { ::close(sv->cfd); sv->cfd = -1; }   // the peer is gone before the handler completes
                sv->eof = true;
                auto it = sv->held.find((int)n);
                it->second->res().status_code = StatusCode::k200_OK;
                it->second->res().body = std::string(d.begin(), d.end());
                sv->held.erase(it);     // write() -> EPIPE
                sv->pump();
                std::cout << "P closed\n";
            } else if (op == "dcloseN" && w.size() == 4 && vh::to_u64(w[1], n) && vh::to_u64(w[2], n2) && vh::to_u64(w[3], n3) &&
                       n2 <= 2000000 && n3 <= 255 && sv && !sv->cclosed && sv->held.count((int)n)) {
                auto it = sv->held.find((int)n);
                it->second->res().status_code = StatusCode::k200_OK;
                it->second->res().body = std::string((size_t)n2, (char)n3);
                sv->held.erase(it);     // partial write, the rest waits in the send buffer
                sv->cclosed = true;
                sv->clientClose();      // the peer goes away without reading
                std::cout << "P closed\n";
            } else if (op == "cclose" && w.size() == 1 && sv && !sv->cclosed) {
                sv->cclosed = true;
                sv->clientClose();
                std::cout << "P closed\n";
            } else if (op == "dclose" && w.size() == 3 && vh::to_u64(w[1], n) && vh::unhex(w[2], d) && sv && !sv->cclosed &&
                       sv->held.count((int)n)) {
                auto it = sv->held.find((int)n);
                it->second->res().status_code = StatusCode::k200_OK;
                it->second->res().body = std::string(d.begin(), d.end());
                sv->held.erase(it);     // commit, then the peer closes before the loop runs again
                sv->cclosed = true;
                sv->clientClose();
                std::cout << "P closed\n";
            } else ok = false;
        } catch (const std::exception &e) {
            std::cout << "P exception\n";
            if (sv) { sv->poisoned = true; sv->settle(false); }   // what reached the client, without running the loop again
            continue;
        }
        if (!ok) std::cout << "bad-op\n";
    }
    reset();
    return 0;
}
