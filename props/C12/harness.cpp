// C12 harness.
//  parser level  : `feed <hex>`  — the segment is appended to an accumulating tbox Buffer and a
//                  real RequestParser is driven by the same loop as Server::Impl::onTcpReceived
//                  (while readable > 0: parse, hasRead, getRequest / kFail / break).
//  server level  : `srv`, `sync <i> <hex>`, `seg <hex>`, `done <i> <hex>` — a real http Server on
//                  a Unix-domain socket with a real event loop; the harness is the client.
// Output format = lean/Driver/C12.lean. Exceptions are caught here and printed as outcomes.
#include "vh.h"
#include <cerrno>
#include <csignal>
#include <cstring>
#include <map>
#include <memory>
#include <fcntl.h>
#include <sys/socket.h>
#include <sys/un.h>
#include <unistd.h>
#include <dlfcn.h>
#include <sys/stat.h>
#include <sys/uio.h>
#include <sys/epoll.h>
#include <algorithm>

#include <tbox/event/loop.h>
#include <tbox/util/buffer.h>
#include <tbox/network/sockaddr.h>
#include <tbox/http/server/request_parser.h>
#include <tbox/http/server/server.h>
#include <tbox/http/server/context.h>

// System-call interposers (fault schedules). The client side of the harness uses send()/recv(), so every write()/
// readv()/accept() on a socket other than the client's belongs to the server under test.
//  write : answers come from a queue filled by the op `wq` (p = pass through, s<n> = short count: at most n bytes are
//          really written, a = EAGAIN, e = EPIPE now and for every later write); `wfail` = EPIPE from now on;
//          an empty queue passes through.
//  readv : `rseg` arms a one-shot ECONNRESET for the next readv on the server side.
//  accept: the first g_accept_fail calls fail (EMFILE, ECONNABORTED, EINTR in turn); the pending connection stays queued.
#include <deque>
#include <cstdarg>
struct WAns { char kind; size_t n; };
static std::deque<WAns> g_wq;
static volatile unsigned long g_wq_used = 0;
static volatile bool g_rerr = false;
static volatile int g_accept_fail = 0;
// Server-side connection sockets: the k-th successful accept() belongs to the k-th client of the harness (clients connect
// one at a time). Everything the library does on such a descriptor is attributed to that connection index.
static const int kMaxFd = 4096;
static int g_conn_of_fd[kMaxFd];            // -1 = not a server-side connection socket
static bool g_wfail_fd[kMaxFd];             // every further write on this descriptor fails with EPIPE
static bool g_fd_tables_ready = false;
static int g_accepted = 0;
static int g_last_read_conn = -1;           // connection whose socket was read last (request handlers run right after)
static std::string g_sys;                   // system calls on server-side connection sockets since the last report
// The order in which the engine reports several ready connections in ONE loop pass is the kernel's choice: the op file makes it
// (`mseg`: events of the listed connections are handed to the loop in the listed order, whatever order the clients wrote in);
// `g_hold` withholds the events of connection sockets altogether (level-triggered: they are reported again later) so that the
// accepts after `start()` can be separated from the first reads. `g_rd`: connections in the order of their first readv().
static std::vector<int> g_order;
static volatile bool g_hold = false;
static std::vector<int> g_rd;
static volatile bool g_rd_on = false;
static void initFdTables() {
    if (g_fd_tables_ready) return;
    for (int i = 0; i < kMaxFd; ++i) { g_conn_of_fd[i] = -1; g_wfail_fd[i] = false; }
    g_fd_tables_ready = true;
}
static int connOfFd(int fd) { initFdTables(); return (fd >= 0 && fd < kMaxFd) ? g_conn_of_fd[fd] : -1; }
static void sysEvent(int conn, const std::string &what) {
    g_sys += (g_sys.empty() ? "" : ",") + ("c" + std::to_string(conn) + ":" + what);
}
extern "C" ssize_t write(int fd, const void *buf, size_t n) {
    typedef ssize_t (*write_t)(int, const void *, size_t);
    static write_t real = (write_t)dlsym(RTLD_NEXT, "write");
    if (connOfFd(fd) >= 0) {
        if (g_wfail_fd[fd]) { errno = EPIPE; return -1; }
        if (!g_wq.empty()) {
            WAns a = g_wq.front(); g_wq.pop_front(); ++g_wq_used;
            switch (a.kind) {
                case 'p': break;
                case 's': return real(fd, buf, n < a.n ? n : a.n);
                case 'a': errno = EAGAIN; return -1;
                case 'e': g_wfail_fd[fd] = true; errno = EPIPE; return -1;
            }
        }
    }
    return real(fd, buf, n);
}
extern "C" ssize_t readv(int fd, const struct iovec *iov, int cnt) {
    typedef ssize_t (*readv_t)(int, const struct iovec *, int);
    static readv_t real = (readv_t)dlsym(RTLD_NEXT, "readv");
    int c = connOfFd(fd);
    if (c >= 0) {
        g_last_read_conn = c;
        if (g_rd_on && std::find(g_rd.begin(), g_rd.end(), c) == g_rd.end()) g_rd.push_back(c);
        if (g_rerr) { g_rerr = false; errno = ECONNRESET; return -1; }
    }
    return real(fd, iov, cnt);
}
// OS-level effects on the server side of every connection, reported as a model-internal observable (`M sys`): the library
// makes the accepted socket non-blocking and, when a connection is torn down, closes it — no shutdown(), no socket option
// (the repaired C12-04 defect was a shutdown(SHUT_RD); SO_LINGER{on,0} would discard unsent responses at close)
extern "C" int shutdown(int fd, int how) {
    typedef int (*shutdown_t)(int, int);
    static shutdown_t real = (shutdown_t)dlsym(RTLD_NEXT, "shutdown");
    int c = connOfFd(fd);
    if (c >= 0) sysEvent(c, "shutdown=" + std::to_string(how));
    return real(fd, how);
}
extern "C" int setsockopt(int fd, int level, int optname, const void *optval, socklen_t optlen) {
    typedef int (*sso_t)(int, int, int, const void *, socklen_t);
    static sso_t real = (sso_t)dlsym(RTLD_NEXT, "setsockopt");
    int c = connOfFd(fd);
    if (c >= 0) {
        int v = 0; if (optval && optlen >= sizeof(int)) memcpy(&v, optval, sizeof(int));
        sysEvent(c, "sockopt=" + std::to_string(level) + "/" + std::to_string(optname) + "/" + std::to_string(v));
    }
    return real(fd, level, optname, optval, optlen);
}
extern "C" int fcntl(int fd, int cmd, ...) {
    typedef int (*fcntl_t)(int, int, ...);
    static fcntl_t real = (fcntl_t)dlsym(RTLD_NEXT, "fcntl");
    va_list ap; va_start(ap, cmd); long arg = va_arg(ap, long); va_end(ap);
    int c = connOfFd(fd);
    if (c >= 0 && cmd == F_SETFL) sysEvent(c, std::string("setfl") + ((arg & O_NONBLOCK) ? "+nonblock" : "-nonblock"));
    if (c >= 0 && cmd == F_SETFD) sysEvent(c, std::string("setfd") + ((arg & FD_CLOEXEC) ? "+cloexec" : "-cloexec"));
    return real(fd, cmd, arg);
}
extern "C" int close(int fd) {
    typedef int (*close_t)(int);
    static close_t real = (close_t)dlsym(RTLD_NEXT, "close");
    int c = connOfFd(fd);
    if (c >= 0) { sysEvent(c, "close"); g_conn_of_fd[fd] = -1; g_wfail_fd[fd] = false; }
    return real(fd);
}
extern "C" int epoll_wait(int epfd, struct epoll_event *ev, int maxev, int timeout) {
    typedef int (*ew_t)(int, struct epoll_event *, int, int);
    static ew_t real = (ew_t)dlsym(RTLD_NEXT, "epoll_wait");
    int n = real(epfd, ev, maxev, timeout);
    if (n <= 0) return n;
    if (g_hold) {
        int k = 0;
        for (int i = 0; i < n; ++i) if (connOfFd(ev[i].data.fd) < 0) ev[k++] = ev[i];
        n = k;
    }
    if (!g_order.empty() && n > 1) {
        auto rank = [](const struct epoll_event &e) {
            int c = connOfFd(e.data.fd);
            auto it = std::find(g_order.begin(), g_order.end(), c);
            return (c < 0 || it == g_order.end()) ? -1 : (int)(it - g_order.begin());
        };
        std::vector<int> slots; std::vector<struct epoll_event> evs;
        for (int i = 0; i < n; ++i) if (rank(ev[i]) >= 0) { slots.push_back(i); evs.push_back(ev[i]); }
        std::stable_sort(evs.begin(), evs.end(), [&](const struct epoll_event &a, const struct epoll_event &b) { return rank(a) < rank(b); });
        for (size_t j = 0; j < slots.size(); ++j) ev[slots[j]] = evs[j];
    }
    return n;
}
extern "C" int accept(int fd, struct sockaddr *addr, socklen_t *len) {
    typedef int (*accept_t)(int, struct sockaddr *, socklen_t *);
    static accept_t real = (accept_t)dlsym(RTLD_NEXT, "accept");
    if (g_accept_fail > 0) {
        static const int errs[] = {EMFILE, ECONNABORTED, EINTR};
        errno = errs[g_accept_fail % 3];
        --g_accept_fail;
        return -1;
    }
    int nfd = real(fd, addr, len);
    initFdTables();
    if (nfd >= 0 && nfd < kMaxFd) { g_conn_of_fd[nfd] = g_accepted++; g_wfail_fd[nfd] = false; }
    return nfd;
}

using namespace tbox;
using namespace tbox::http;
using namespace tbox::http::server;

static std::string showKVs(const std::map<std::string, std::string> &m) {
    if (m.empty()) return "-";
    std::string s; bool first = true;
    for (auto &kv : m) {
        if (!first) s += ",";
        first = false;
        s += vh::hex(kv.first) + ":" + vh::hex(kv.second);
    }
    return s;
}

// "khex:vhex,khex:vhex" or "-"
static bool parseKVs(const std::string &w, std::map<std::string, std::string> &out) {
    out.clear();
    if (w == "-") return true;
    size_t pos = 0;
    while (pos <= w.size()) {
        size_t e = w.find(',', pos);
        std::string item = w.substr(pos, e == std::string::npos ? std::string::npos : e - pos);
        size_t c = item.find(':');
        if (c == std::string::npos || item.find(':', c + 1) != std::string::npos) return false;
        std::vector<uint8_t> k, v;
        if (!vh::unhex(item.substr(0, c), k) || !vh::unhex(item.substr(c + 1), v)) return false;
        out[std::string(k.begin(), k.end())] = std::string(v.begin(), v.end());
        if (e == std::string::npos) break;
        pos = e + 1;
    }
    return true;
}

// does the target survive UrlPathToString -> StringToUrlPath ?
static const char *urlRoundTrip(const Url::Path &u) {
    Url::Path v;
    if (!StringToUrlPath(UrlPathToString(u), v)) return "0";
    return (v.path == u.path && v.params == u.params && v.query == u.query && v.frag == u.frag) ? "1" : "0";
}

static std::string showReq(const Request &r) {
    return "m=" + MethodToString(r.method) + " path=" + vh::hex(r.url.path) + " params=" + showKVs(r.url.params) +
           " query=" + showKVs(r.url.query) + " frag=" + vh::hex(r.url.frag) + " ver=" + HttpVerToString(r.http_ver) +
           " hdr=" + showKVs(r.headers) + " body=" + vh::hex(r.body) + " str=" + vh::hex(r.toString()) +
           " rt=" + urlRoundTrip(r.url);
}

static const char *showState(RequestParser::State s) {
    switch (s) {
        case RequestParser::State::kInit: return "init";
        case RequestParser::State::kFinishedStartLine: return "startline";
        case RequestParser::State::kFinishedHeads: return "heads";
        case RequestParser::State::kFinishedAll: return "all";
        case RequestParser::State::kFail: return "fail";
    }
    return "?";
}

static const char *methodName(Method m) {
    switch (m) {
        case Method::kUnset: return "kUnset"; case Method::kGet: return "kGet"; case Method::kHead: return "kHead";
        case Method::kPut: return "kPut"; case Method::kPost: return "kPost"; case Method::kTrace: return "kTrace";
        case Method::kOptions: return "kOptions"; case Method::kDelete: return "kDelete"; default: return "?";
    }
}
static const char *verName(HttpVer v) {
    switch (v) {
        case HttpVer::kUnset: return "kUnset"; case HttpVer::k1_0: return "k1_0"; case HttpVer::k1_1: return "k1_1";
        case HttpVer::k2_0: return "k2_0"; default: return "?";
    }
}

static std::string showPath(const Url::Path &u) {
    return "path=" + vh::hex(u.path) + " params=" + showKVs(u.params) + " query=" + showKVs(u.query) + " frag=" + vh::hex(u.frag);
}
static std::string showHost(const Url::Host &h) {
    return "user=" + vh::hex(h.user) + " pw=" + vh::hex(h.password) + " host=" + vh::hex(h.host) + " port=" + std::to_string((unsigned)h.port);
}
static bool samePath(const Url::Path &a, const Url::Path &b) {
    return a.path == b.path && a.params == b.params && a.query == b.query && a.frag == b.frag;
}
static bool sameHost(const Url::Host &a, const Url::Host &b) {
    return a.user == b.user && a.password == b.password && a.host == b.host && a.port == b.port;
}
static std::string str(const std::vector<uint8_t> &d) { return std::string(d.begin(), d.end()); }
// the same bytes as a string whose storage is a heap block of exactly size()+1 bytes (no small-string buffer, no slack capacity):
// a read past the terminating NUL runs into the ASan redzone
static std::string exactStr(const std::vector<uint8_t> &d) {
    std::string s;
    s.reserve(d.size() > 15 ? d.size() : 16);   // > 15 forces heap storage in libstdc++
    s.assign(d.begin(), d.end());
    if (d.size() > 15) s.shrink_to_fit();
    return s;
}
static bool methodByName(const std::string &n, Method &m) {
    static const char *names[] = {"kUnset", "kGet", "kHead", "kPut", "kPost", "kTrace", "kOptions", "kDelete"};
    static const Method vals[] = {Method::kUnset, Method::kGet, Method::kHead, Method::kPut, Method::kPost, Method::kTrace, Method::kOptions, Method::kDelete};
    for (int i = 0; i < 8; ++i) if (n == names[i]) { m = vals[i]; return true; }
    return false;
}
static bool verByName(const std::string &n, HttpVer &v) {
    static const char *names[] = {"kUnset", "k1_0", "k1_1", "k2_0"};
    static const HttpVer vals[] = {HttpVer::kUnset, HttpVer::k1_0, HttpVer::k1_1, HttpVer::k2_0};
    for (int i = 0; i < 4; ++i) if (n == names[i]) { v = vals[i]; return true; }
    return false;
}

// "p,s5,a,e"
static bool parseWq(const std::string &spec, std::vector<WAns> &out) {
    out.clear();
    size_t pos = 0;
    while (true) {
        size_t e = spec.find(',', pos);
        std::string a = spec.substr(pos, e == std::string::npos ? std::string::npos : e - pos);
        if (a == "p" || a == "a" || a == "e") out.push_back(WAns{a[0], 0});
        else if (a.size() >= 2 && a[0] == 's') {
            uint64_t v = 0;
            if (!vh::to_u64(a.substr(1), v)) return false;
            out.push_back(WAns{'s', (size_t)v});
        } else return false;
        if (e == std::string::npos) break;
        pos = e + 1;
    }
    return true;
}

// "0:hex,2:hex"
static bool parseItems(const std::string &spec, std::vector<std::pair<int, std::vector<uint8_t>>> &out) {
    out.clear();
    size_t pos = 0;
    while (true) {
        size_t e = spec.find(',', pos);
        std::string it = spec.substr(pos, e == std::string::npos ? std::string::npos : e - pos);
        size_t c = it.find(':');
        if (c == std::string::npos || it.find(':', c + 1) != std::string::npos) return false;
        uint64_t k = 0; std::vector<uint8_t> d;
        if (!vh::to_u64(it.substr(0, c), k) || k > 1000 || !vh::unhex(it.substr(c + 1), d) || d.empty()) return false;
        out.push_back(std::make_pair((int)k, d));
        if (e == std::string::npos) break;
        pos = e + 1;
    }
    return true;
}

// ---------------------------------------------------------------- parser level
struct PConn {
    RequestParser parser;
    util::Buffer buff;
    bool dead = false;
};

// P lines (requests, fail, exception) first, then ONE model-internal line with the parse calls
static void doFeed(PConn &c, const std::vector<uint8_t> &seg) {
    if (c.dead) { std::cout << "P dead\n"; return; }
    if (!seg.empty()) c.buff.append(seg.data(), seg.size());
    std::string calls;
    auto finish = [&](const char *st, size_t pending) {
        std::cout << "M calls=" << (calls.empty() ? "-" : calls) << " end=" << st << " pending=" << pending << "\n";
    };
    try {
        while (c.buff.readableSize() > 0) {
            size_t avail = c.buff.readableSize();
            // exact-size copy, right-aligned against the ASan redzone (a read past the given size is visible), the start
            // pointer at every alignment 0..7 in turn
            static unsigned align_seq = 0;
            size_t off = (align_seq++) % 8;
            std::unique_ptr<uint8_t[]> exact(new uint8_t[off + avail]);
            memcpy(exact.get() + off, c.buff.readableBegin(), avail);
            size_t rsize = c.parser.parse(exact.get() + off, avail);
            if (rsize > avail) { std::cout << "P over-consume " << rsize << " of " << avail << "\n"; c.dead = true; return; }
            c.buff.hasRead(rsize);
            auto st = c.parser.state();
            if (!calls.empty()) calls += ",";
            calls += std::to_string(rsize) + ":" + showState(st);
            if (st == RequestParser::State::kFinishedAll) {
                std::unique_ptr<Request> req(c.parser.getRequest());
                std::cout << "P req " << showReq(*req) << "\n";
            } else if (st == RequestParser::State::kFail) {
                c.dead = true;
                std::cout << "P fail\n";
                finish("fail", 0);
                return;
            } else
                break;
        }
    } catch (const std::exception &e) {
        c.dead = true;
        std::cout << "P exception\n";
        return;
    }
    finish(showState(c.parser.state()), c.buff.readableSize());
}

// ---------------------------------------------------------------- server level
struct Srv {
    event::Loop *loop = nullptr;
    Server *srv = nullptr;
    std::string path;
    // scripted handlers: the server has kLevels handlers (a middleware chain); what handler `lvl` does for
    // request `idx` of a connection is a list of actions: n = call next(), b<hex> = set 200 + body, k = keep the context
    // (answered later by `done`), t = throw, s = server.stop(), c = server.cleanup().  No script: level 0 keeps the context.
    struct Act { char kind; std::string body; };
    static const int kLevels = 3;
    typedef std::vector<std::vector<Act>> Script;
    // one client of the harness = one connection of the server (index = accept order)
    struct Cli {
        int cfd = -1;
        bool eof = false;
        bool cclosed = false;
        std::map<int, ContextSptr> held;
        std::map<int, Script> scripts;
        int next_idx = 0;
        int cur_idx = -1;
        bool pre_data = false;      // sent something while still in the listen backlog
    };
    std::vector<std::unique_ptr<Cli>> clis;
    int cur = 0;                // the connection the op lines are about (`on <k>`)
    bool multi = false;         // this op is about several connections at once: everything is reported with its connection index
    bool q_ran = false;         // a handler let a new client connect during this op
    bool any_q = false;         // some script of this case lets a client connect: which cabinet cell the new connection gets depends on
                                // whether the engine sees it before or after an unrelated teardown of the same op, so the order of the
                                // close() calls of a later stop() is compared by connection, not by cell
    bool rd_line = false;       // report the order of the first reads
    bool curOk() const { return cur >= 0 && cur < (int)clis.size() && cur < g_accepted; }
    // a client connects; no loop pass here (called from handlers too)
    bool connectOnly() {
        int fd = ::socket(AF_UNIX, SOCK_STREAM | SOCK_NONBLOCK, 0);
        struct sockaddr_un a; memset(&a, 0, sizeof(a));
        a.sun_family = AF_UNIX; strncpy(a.sun_path, path.c_str(), sizeof(a.sun_path) - 1);
        if (::connect(fd, (struct sockaddr *)&a, sizeof(a)) != 0) { ::close(fd); return false; }
        clis.emplace_back(new Cli);
        clis.back()->cfd = fd;
        return true;
    }
    bool poisoned = false;      // a handler threw: counters of the library are unbalanced, the objects are leaked at reset
    Cli &c() { return *clis[cur]; }

    static bool parseScript(const std::string &spec, Script &out) {
        out.assign(kLevels, std::vector<Act>());
        size_t pos = 0; int lvl = 0;
        while (true) {
            size_t e = spec.find('/', pos);
            std::string level = spec.substr(pos, e == std::string::npos ? std::string::npos : e - pos);
            if (lvl >= kLevels) return false;
            if (level != "-") {
                size_t p2 = 0;
                while (true) {
                    size_t e2 = level.find('.', p2);
                    std::string a = level.substr(p2, e2 == std::string::npos ? std::string::npos : e2 - p2);
                    if (a.empty()) return false;
                    Act act; act.kind = a[0];
                    if (a[0] == 'b') { std::vector<uint8_t> d; if (!vh::unhex(a.substr(1), d)) return false; act.body.assign(d.begin(), d.end()); }
                    else if (a.size() != 1 || std::string("nktscq").find(a[0]) == std::string::npos) return false;
                    if (a[0] == 'q' && (lvl != 0 || !out[0].empty())) return false;   // only as the first action of the first handler
                    out[lvl].push_back(act);
                    if (e2 == std::string::npos) break;
                    p2 = e2 + 1;
                }
            }
            ++lvl;
            if (e == std::string::npos) break;
            pos = e + 1;
        }
        return true;
    }

    // the request belongs to the connection whose socket the library read last (onTcpReceived runs right after readv)
    void runLevel(int lvl, ContextSptr ctx, const NextFunc &next) {
        int ci = g_last_read_conn;
        if (ci < 0 || ci >= (int)clis.size()) { std::cout << "P req on unknown connection " << ci << "\n"; return; }
        Cli &cl = *clis[ci];
        if (lvl == 0) {
            cl.cur_idx = cl.next_idx++;
            if (multi || ci != cur) std::cout << "P xreq " << ci << "\n";     // a request handed out on a connection that got no segment
            std::cout << "P req " << cl.cur_idx << " " << showReq(ctx->req()) << "\n";
        }
        int idx = cl.cur_idx;
        std::cout << "P call " << idx << " " << lvl << "\n";
        auto it = cl.scripts.find(idx);
        if (it == cl.scripts.end()) { if (lvl == 0) cl.held[idx] = ctx; return; }
        std::vector<Act> acts = it->second[lvl];
        for (auto &a : acts) {
            switch (a.kind) {
                case 'n': next(); break;
                case 'b': ctx->res().status_code = StatusCode::k200_OK; ctx->res().body = a.body; break;
                case 'k': cl.held[idx] = ctx; break;
                case 't': throw std::runtime_error("scripted handler throws");
                case 's': srv->stop(); break;
                case 'c': srv->cleanup(); break;
                case 'q': q_ran = true; connectOnly(); break;
            }
        }
    }

    // one more client; true = the server accepted it (its accept() count went up)
    bool connectClient() {
        int before = g_accepted;
        if (!connectOnly()) return false;
        pump();
        return g_accepted == before + 1;
    }

    bool start(int accept_failures = 0, bool run = true) {
        static int seq = 0;
        initFdTables();
        for (int i = 0; i < kMaxFd; ++i) { g_conn_of_fd[i] = -1; g_wfail_fd[i] = false; }
        g_accepted = 0; g_last_read_conn = -1; g_sys.clear();
        g_accept_fail = accept_failures;
        path = "/tmp/C12-h-" + std::to_string(getpid()) + "-" + std::to_string(seq++) + ".sock";
        loop = event::Loop::New();
        srv = new Server(loop);
        if (!srv->initialize(network::SockAddr(network::DomainSockPath(path)), 16)) return false;
        for (int lvl = 0; lvl < kLevels; ++lvl)
            srv->use([this, lvl](ContextSptr ctx, const NextFunc &next) { runLevel(lvl, ctx, next); });
        if (!run) return true;
        if (!srv->start()) return false;
        return connectClient();
    }

    // a few passes of the real loop: epoll_wait(0) -> ready fd events -> deferred functions
    void pump() {
        for (int i = 0; i < 8; ++i) {
            loop->runNext([] {}, "verif-pass");
            loop->runLoop(event::Loop::Mode::kOnce);
        }
    }

    static std::string showBytes(const std::string &got) {
        if (got.size() <= 4096) return vh::hex(got);
        uint32_t h = 2166136261u;
        for (unsigned char c : got) { h ^= c; h *= 16777619u; }
        char buf[64]; snprintf(buf, sizeof(buf), "len=%zu fnv=%08x", got.size(), h);
        return buf;
    }

    // accepts (`setfl`) first, then everything else in the order it happened: whether a connection accepted in the same op comes
    // before or after the close of another one is the engine's order of two unrelated events
    // (`by_conn`: an op about several connections at once — which of two unrelated connections is closed first is the engine's order too)
    static void sysLine(bool by_conn = false) {
        std::vector<std::string> a, b; size_t pos = 0;
        while (!g_sys.empty() && pos <= g_sys.size()) {
            size_t e = g_sys.find(',', pos);
            std::string it = g_sys.substr(pos, e == std::string::npos ? std::string::npos : e - pos);
            (it.find(":setfl") != std::string::npos ? a : b).push_back(it);
            if (e == std::string::npos) break;
            pos = e + 1;
        }
        if (by_conn) std::stable_sort(b.begin(), b.end(), [](const std::string &x, const std::string &y) { return atoi(x.c_str() + 1) < atoi(y.c_str() + 1); });
        a.insert(a.end(), b.begin(), b.end());
        std::string out;
        for (auto &x : a) out += (out.empty() ? "" : ",") + x;
        std::cout << "M sys " << (out.empty() ? "-" : out) << "\n";
        g_sys.clear();
    }

    // run the loop and read at EVERY client until nothing moves any more (a large response needs the client to read before
    // the server's write event can drain its send buffer); what arrives at the current client is `P out`, anything at
    // another client is reported as `P xout` / `P xeof`
    void settle(bool run_loop = true) {
        size_t n = clis.size();
        std::vector<std::string> got(n);
        std::vector<bool> now_eof(n, false);
        if (run_loop) pump();
        for (int idle = 0, rounds = 0; idle < 2 && rounds < 100000; ++rounds) {
            size_t before = 0, after = 0;
            for (auto &g : got) before += g.size();
            unsigned long used_before = g_wq_used;
            for (size_t k = 0; k < n && (int)k < g_accepted; ++k) {     // a client still in the listen backlog has nobody to hear from
                Cli &cl = *clis[k];
                if (cl.eof || now_eof[k] || cl.cfd < 0) continue;
                char b[65536];
                for (;;) {
                    ssize_t r = ::recv(cl.cfd, b, sizeof(b), 0);
                    if (r > 0) { got[k].append(b, r); continue; }
                    if (r == 0) now_eof[k] = true;
                    break;
                }
            }
            if (run_loop) for (int i = 0; i < 3; ++i) { loop->runNext([] {}, "verif-pass"); loop->runLoop(event::Loop::Mode::kOnce); }
            for (auto &g : got) after += g.size();
            idle = (after == before && g_wq_used == used_before) ? idle + 1 : 0;
        }
        size_t pending = 0;
        if (srv && srv->state() != Server::State::kNone && (int)clis.size() > g_accepted) pending = clis.size() - g_accepted;
        if (q_ran) std::cout << "P hconn " << g_accepted << " " << pending << "\n";
        if (rd_line) {
            std::string r;
            for (int c : g_rd) r += (r.empty() ? "" : ",") + ("c" + std::to_string(c));
            std::cout << "M rd " << (r.empty() ? "-" : r) << "\n";
        }
        if (!multi) {
            std::cout << "P out " << ((size_t)cur < n ? showBytes(got[cur]) : std::string("-")) << "\n";
            if ((size_t)cur < n && now_eof[cur]) { c().eof = true; std::cout << "P eof\n"; }
        }
        for (size_t k = 0; k < n; ++k) {
            if ((int)k == cur && !multi) continue;
            if (!got[k].empty()) std::cout << "P xout " << k << " " << showBytes(got[k]) << "\n";
            if (now_eof[k]) { clis[k]->eof = true; std::cout << "P xeof " << k << "\n"; }
        }
        sysLine(multi || any_q);
    }

    void clientClose() {
        if (c().cfd >= 0) { ::close(c().cfd); c().cfd = -1; }
        c().eof = true;
        pump();
    }

    void stop() {
        g_rerr = false; g_accept_fail = 0; g_wq.clear();
        if (poisoned) {     // after an exception out of a handler the library's callback counters are unbalanced
            for (auto &cl : clis) {   // (its destructors assert on them): leak the objects
                if (cl->cfd >= 0) { ::close(cl->cfd); cl->cfd = -1; }
                new std::map<int, ContextSptr>(std::move(cl->held));
            }
            if (!path.empty()) ::unlink(path.c_str());
            g_sys.clear();
            return;
        }
        for (auto &cl : clis) cl->held.clear();   // contexts commit into a still-living server
        if (srv) { srv->cleanup(); delete srv; srv = nullptr; }
        for (auto &cl : clis) if (cl->cfd >= 0) { ::close(cl->cfd); cl->cfd = -1; }
        if (loop) { loop->runNext([] {}, "verif-pass"); loop->runLoop(event::Loop::Mode::kOnce); delete loop; loop = nullptr; }
        if (!path.empty()) ::unlink(path.c_str());
        g_sys.clear();
    }
};

int main() {
    signal(SIGPIPE, SIG_IGN);
    std::string line;
    std::unique_ptr<PConn> pc;
    std::unique_ptr<Srv> sv;
    auto reset = [&] { pc.reset(); if (sv) { sv->stop(); sv.reset(); } };
    while (std::getline(std::cin, line)) {
        auto w = vh::words(line);
        if (w.empty()) continue;
        if (w[0] == "case") { reset(); std::cout << line << "\n"; continue; }
        const std::string &op = w[0];
        std::vector<uint8_t> d, d2, d3, d4, d5, d6; uint64_t n = 0, n2 = 0, n3 = 0; std::map<std::string, std::string> kvs, kvs2, kvs3;
        Method me = Method::kUnset; HttpVer ve = HttpVer::kUnset;
        bool ok = true; Srv::Script sc; std::vector<WAns> wq;
        std::vector<std::pair<int, std::vector<uint8_t>>> items;
        static const char *cur_ops[] = {"seg", "done", "doneN", "doneR", "rel", "cclose", "dclose", "dcloseN", "cdone", "chalf", "chalfS", "wfail", "rseg", "sync", "script"};
        bool needs_cur = false;
        for (const char *o : cur_ops) if (op == o) needs_cur = true;
        if (sv) { sv->multi = false; sv->q_ran = false; sv->rd_line = false; }
        g_order.clear(); g_rd.clear(); g_rd_on = false; g_hold = false;
        try {
            if (sv && needs_cur && !sv->poisoned && !sv->curOk()) {
                ok = false;     // no current connection (server created without a client)
            } else if (op == "method" && w.size() == 2 && vh::unhex(w[1], d)) {
                std::cout << "P method " << methodName(StringToMethod(std::string(d.begin(), d.end()))) << "\n";
            } else if (op == "version" && w.size() == 2 && vh::unhex(w[1], d)) {
                std::cout << "P version " << verName(StringToHttpVer(std::string(d.begin(), d.end()))) << "\n";
            } else if (op == "upath" && w.size() == 2 && vh::unhex(w[1], d)) {
                Url::Path u;
                std::string in = str(d);
                std::unique_ptr<char[]> exact(new char[in.size() + 1]);   // exact-size copy: an over-read is visible to ASan
                memcpy(exact.get(), in.data(), in.size());
                if (!StringToUrlPath(std::string(exact.get(), in.size()), u)) std::cout << "P upath 0\n";
                else std::cout << "P upath 1 " << showPath(u) << " str=" << vh::hex(UrlPathToString(u)) << " rt=" << urlRoundTrip(u) << "\n";
            } else if (op == "uhost" && w.size() == 2 && vh::unhex(w[1], d)) {
                Url::Host h;
                if (!StringToUrlHost(exactStr(d), h)) std::cout << "P uhost 0\n";
                else std::cout << "P uhost 1 " << showHost(h) << " str=" << vh::hex(UrlHostToString(h)) << "\n";
            } else if (op == "url" && w.size() == 2 && vh::unhex(w[1], d)) {
                Url u;
                if (!StringToUrl(exactStr(d), u)) std::cout << "P url 0\n";
                else {
                    Url v; std::string s2 = UrlToString(u);
                    bool rt = StringToUrl(s2, v) && v.scheme == u.scheme && sameHost(v.host, u.host) && samePath(v.path, u.path);
                    std::cout << "P url 1 scheme=" << vh::hex(u.scheme) << " " << showHost(u.host) << " " << showPath(u.path)
                              << " str=" << vh::hex(s2) << " rt=" << (rt ? "1" : "0") << "\n";
                }
            } else if (op == "mkpath" && w.size() == 5 && vh::unhex(w[1], d) && parseKVs(w[2], kvs) && parseKVs(w[3], kvs2) && vh::unhex(w[4], d2)) {
                Url::Path u; u.path = str(d); u.params = kvs; u.query = kvs2; u.frag = str(d2);
                std::string s2 = UrlPathToString(u);
                Url::Path v;
                std::cout << "P mkpath str=" << vh::hex(s2) << " back=";
                if (!StringToUrlPath(s2, v)) std::cout << "0\n";
                else std::cout << "1 " << showPath(v) << " rt=" << (samePath(u, v) ? "1" : "0") << "\n";
            } else if (op == "mkurl" && w.size() == 10 && vh::unhex(w[1], d) && vh::unhex(w[2], d2) && vh::unhex(w[3], d3) && vh::unhex(w[4], d4) &&
                       vh::to_u64(w[5], n) && n <= 65535 && vh::unhex(w[6], d5) && parseKVs(w[7], kvs) && parseKVs(w[8], kvs2) && vh::unhex(w[9], d6)) {
                Url u; u.scheme = str(d); u.host.user = str(d2); u.host.password = str(d3); u.host.host = str(d4); u.host.port = (uint16_t)n;
                u.path.path = str(d5); u.path.params = kvs; u.path.query = kvs2; u.path.frag = str(d6);
                std::string s2 = UrlToString(u);
                Url v;
                std::cout << "P mkurl str=" << vh::hex(s2) << " back=";
                bool okk = false;
                try { okk = StringToUrl(s2, v); } catch (const std::exception &) { std::cout << "exception\n"; continue; }
                if (!okk) std::cout << "0\n";
                else std::cout << "1 scheme=" << vh::hex(v.scheme) << " " << showHost(v.host) << " " << showPath(v.path) << " rt="
                               << ((v.scheme == u.scheme && sameHost(v.host, u.host) && samePath(v.path, u.path)) ? "1" : "0") << "\n";
            } else if (op == "enc" && w.size() == 3 && (w[1] == "0" || w[1] == "1") && vh::unhex(w[2], d)) {
                std::cout << "P enc " << vh::hex(UrlEncode(exactStr(d), w[1] == "1")) << "\n";
            } else if (op == "dec" && w.size() == 2 && vh::unhex(w[1], d)) {
                std::string out; bool threw = false;
                try { out = UrlDecode(exactStr(d)); } catch (const std::out_of_range &) { threw = true; }   // the documented failure
                if (threw) std::cout << "P dec throws\n"; else std::cout << "P dec " << vh::hex(out) << "\n";
            } else if (op == "mkreq" && w.size() == 9 && methodByName(w[1], me) && vh::unhex(w[2], d) && parseKVs(w[3], kvs) && parseKVs(w[4], kvs2) &&
                       vh::unhex(w[5], d2) && verByName(w[6], ve) && parseKVs(w[7], kvs3) && vh::unhex(w[8], d3)) {
                Request r; r.method = me; r.http_ver = ve; r.url.path = str(d); r.url.params = kvs; r.url.query = kvs2; r.url.frag = str(d2);
                r.headers = kvs3; r.body = str(d3);
                std::string s2 = r.toString();
                std::cout << "P mkreq str=" << vh::hex(s2) << "\n";
                RequestParser rp;
                std::unique_ptr<char[]> exact(new char[s2.size() + 1]);
                memcpy(exact.get(), s2.data(), s2.size());
                size_t used = rp.parse(exact.get(), s2.size());
                std::cout << "P reparse consumed=" << used << " st=" << showState(rp.state());
                if (rp.state() == RequestParser::State::kFinishedAll) {
                    std::unique_ptr<Request> q(rp.getRequest());
                    Headers want = r.headers; want["Content-Length"] = std::to_string(r.body.size());
                    bool same = q->method == r.method && q->http_ver == r.http_ver && samePath(q->url, r.url) && q->headers == want && q->body == r.body;
                    std::cout << " " << showReq(*q) << " same=" << (same ? "1" : "0");
                }
                std::cout << "\n";
            } else if (op == "mkres" && w.size() == 5 && verByName(w[1], ve) && vh::to_u64(w[2], n) && n <= 999 && parseKVs(w[3], kvs) && vh::unhex(w[4], d)) {
                Respond r; r.http_ver = ve; r.status_code = (StatusCode)(int)n; r.headers = kvs; r.body = exactStr(d);
                std::cout << "P mkres " << vh::hex(r.toString()) << "\n";
            } else if ((op == "sstop" || op == "sclean") && w.size() == 1 && sv && !sv->poisoned) {
                if (op == "sstop") sv->srv->stop(); else sv->srv->cleanup();   // outside any handler; contexts may still be held
                sv->settle();
            } else if (op == "feed" && w.size() == 2 && vh::unhex(w[1], d) && !sv) {
                if (!pc) pc.reset(new PConn);
                doFeed(*pc, d);
            } else if (op == "srv" && (w.size() == 1 || (w.size() == 2 && vh::to_u64(w[1], n) && n >= 1 && n <= 5)) && !sv && !pc) {
                sv.reset(new Srv);
                if (!sv->start((int)n)) { std::cout << "P srv-start-failed\n"; }
                else { std::cout << "P srv\n"; Srv::sysLine(); }
            } else if (op == "srvq" && w.size() == 1 && !sv && !pc) {
                sv.reset(new Srv);
                if (!sv->start(0, false)) std::cout << "P srv-start-failed\n";
                else { std::cout << "P srvq\n"; Srv::sysLine(); }
            } else if (op == "conn" && w.size() == 1 && sv && !sv->poisoned && sv->srv->state() == Server::State::kNone) {
                if (sv->connectOnly()) std::cout << "P conn " << sv->clis.size() - 1 << " connected-to-a-closed-listener\n";
                else std::cout << "P conn refused\n";
                Srv::sysLine();
            } else if ((op == "conn" || op == "connd") && (op == "conn" ? w.size() == 1 : (w.size() == 2 && vh::unhex(w[1], d) && !d.empty())) && sv && !sv->poisoned &&
                       sv->srv->state() == Server::State::kInited && sv->clis.size() < 8 && (int)sv->clis.size() - g_accepted < 4) {
                size_t k = sv->clis.size();
                bool connected = sv->connectOnly();
                if (connected && !d.empty()) { ::send(sv->clis.back()->cfd, d.data(), d.size(), MSG_NOSIGNAL); sv->clis.back()->pre_data = true; }
                int before = g_accepted;
                sv->pump();
                if (!connected) std::cout << "P conn " << k << " refused\n";
                else if (g_accepted != before) std::cout << "P conn " << k << " accepted-while-stopped\n";
                else std::cout << "P conn " << k << " queued\n";
                Srv::sysLine();
            } else if (op == "conn" && w.size() == 1 && sv && !sv->poisoned && sv->srv->state() == Server::State::kRunning && sv->clis.size() < 8) {
                size_t k = sv->clis.size();
                if (sv->connectClient()) std::cout << "P conn " << k << "\n"; else std::cout << "P conn " << k << " not-accepted\n";
                Srv::sysLine();
            } else if ((op == "mseg" || op == "msegr") && w.size() == 2 && sv && !sv->poisoned && parseItems(w[1], items) && items.size() <= 8 && g_wq.empty() &&
                       std::all_of(items.begin(), items.end(), [&](const std::pair<int, std::vector<uint8_t>> &it) {
                           return it.first < g_accepted && it.first < (int)sv->clis.size() &&
                                  std::count_if(items.begin(), items.end(), [&](const std::pair<int, std::vector<uint8_t>> &o) { return o.first == it.first; }) == 1; })) {
                // every listed client has written before the loop makes its next pass; the engine is told about the connections
                // in the listed order (for `msegr` the clients wrote in the opposite order)
                sv->multi = true; sv->rd_line = true; g_rd_on = true;
                for (auto &it : items) g_order.push_back(it.first);
                if (op == "msegr") std::reverse(items.begin(), items.end());
                for (auto &it : items) if (sv->clis[it.first]->cfd >= 0) ::send(sv->clis[it.first]->cfd, it.second.data(), it.second.size(), MSG_NOSIGNAL);
                sv->settle();
            } else if (op == "on" && w.size() == 2 && vh::to_u64(w[1], n) && sv && n < sv->clis.size() && (int)n < g_accepted) {
                sv->cur = (int)n;
                std::cout << "P on " << n << "\n";
            } else if (op == "sstart" && w.size() == 1 && sv && !sv->poisoned) {
                bool started = sv->srv->start();
                std::cout << "P sstart " << (started ? 1 : 0) << "\n";
                sv->multi = true;
                if (started) {
                    // the accepts first (one per pass), the events of the new connections withheld; then ONE pass that reads what the
                    // clients of the backlog had sent already, in connection order
                    int first = g_accepted;
                    g_hold = true;
                    for (int i = 0; i < 16 && g_accepted < (int)sv->clis.size(); ++i) { sv->loop->runNext([] {}, "verif-pass"); sv->loop->runLoop(event::Loop::Mode::kOnce); }
                    g_hold = false;
                    for (int k = first; k < g_accepted && k < (int)sv->clis.size(); ++k) {
                        g_order.push_back(k);
                        if (sv->clis[k]->pre_data) sv->rd_line = true;
                    }
                    g_rd_on = true;
                }
                sv->settle();
            } else if (sv && sv->poisoned && (op == "seg" || op == "done" || op == "doneN" || op == "doneR" || op == "rel" ||
                       op == "cclose" || op == "dclose" || op == "dcloseN" || op == "cdone" || op == "chalf" || op == "chalfS" || op == "wfail" || op == "sstop" || op == "sclean" ||
                       op == "wq" || op == "rseg" || op == "conn" || op == "connd" || op == "sstart" || op == "mseg" || op == "msegr")) {
                std::cout << "P poisoned\n";
            } else if (op == "sync" && w.size() == 3 && vh::to_u64(w[1], n) && vh::unhex(w[2], d) && sv && !sv->c().scripts.count((int)n)) {
                Srv::Script sc(Srv::kLevels);
                Srv::Act a; a.kind = 'b'; a.body.assign(d.begin(), d.end());
                sc[0].push_back(a);
                sv->c().scripts[(int)n] = sc;
                std::cout << "P sync\n";
                Srv::sysLine();
            } else if (op == "script" && w.size() == 3 && vh::to_u64(w[1], n) && sv && !sv->c().scripts.count((int)n) &&
                       Srv::parseScript(w[2], sc)) {
                sv->c().scripts[(int)n] = sc;
                if (!sc[0].empty() && sc[0][0].kind == 'q') sv->any_q = true;
                std::cout << "P script\n";
                Srv::sysLine();
            } else if (op == "seg" && w.size() == 2 && vh::unhex(w[1], d) && sv && !d.empty()) {
                if (sv->c().cfd >= 0) ::send(sv->c().cfd, d.data(), d.size(), MSG_NOSIGNAL);
                sv->settle();
            } else if (op == "done" && w.size() == 3 && vh::to_u64(w[1], n) && vh::unhex(w[2], d) && sv && sv->c().held.count((int)n)) {
                auto it = sv->c().held.find((int)n);
                it->second->res().status_code = StatusCode::k200_OK;
                it->second->res().body = std::string(d.begin(), d.end());
                sv->c().held.erase(it);     // ~Context -> commitRespond
                sv->settle();
            } else if (op == "doneN" && w.size() == 4 && vh::to_u64(w[1], n) && vh::to_u64(w[2], n2) && vh::to_u64(w[3], n3) &&
                       n2 <= 2000000 && n3 <= 255 && sv && sv->c().held.count((int)n)) {
                auto it = sv->c().held.find((int)n);
                it->second->res().status_code = StatusCode::k200_OK;
                it->second->res().body = std::string((size_t)n2, (char)n3);
                sv->c().held.erase(it);
                sv->settle();
            } else if (op == "doneR" && w.size() == 5 && vh::to_u64(w[1], n) && vh::to_u64(w[2], n2) && n2 <= 999 &&
                       parseKVs(w[3], kvs) && vh::unhex(w[4], d) && sv && sv->c().held.count((int)n)) {
                auto it = sv->c().held.find((int)n);
                it->second->res().status_code = (StatusCode)(int)n2;
                it->second->res().headers = kvs;
                it->second->res().body = std::string(d.begin(), d.end());
                sv->c().held.erase(it);
                sv->settle();
            } else if (op == "rel" && w.size() == 2 && vh::to_u64(w[1], n) && sv && sv->c().held.count((int)n)) {
                sv->c().held.erase((int)n);     // the handler lets go of the context without touching the response
                sv->settle();
            } else if ((op == "chalf" || op == "chalfS") && w.size() == 1 && sv && !sv->c().cclosed) {
                ::shutdown(sv->c().cfd, SHUT_WR);   // the client has nothing more to say but keeps reading
                sv->settle();
            } else if (op == "wq" && w.size() == 2 && sv && parseWq(w[1], wq) && wq.size() <= 8) {
                for (auto &a : wq) g_wq.push_back(a);
                std::cout << "P wq\n";
                Srv::sysLine();
            } else if (op == "rseg" && w.size() == 2 && vh::unhex(w[1], d) && sv && !d.empty() && !sv->c().cclosed) {
                g_rerr = true;
                if (sv->c().cfd >= 0) ::send(sv->c().cfd, d.data(), d.size(), MSG_NOSIGNAL);
                sv->settle();
                g_rerr = false;
            } else if (op == "wfail" && w.size() == 1 && sv) {
                for (int fd = 0; fd < kMaxFd; ++fd) if (g_conn_of_fd[fd] == sv->cur) g_wfail_fd[fd] = true;
                std::cout << "P wfail\n";
                Srv::sysLine();
            } else if (op == "cdone" && w.size() == 3 && vh::to_u64(w[1], n) && vh::unhex(w[2], d) && sv && !sv->c().cclosed &&
                       sv->c().held.count((int)n)) {
                sv->c().cclosed = true;
                if (sv->c().cfd >= 0) { ::close(sv->c().cfd); sv->c().cfd = -1; }   // the peer is gone before the handler completes
                sv->c().eof = true;
                auto it = sv->c().held.find((int)n);
                it->second->res().status_code = StatusCode::k200_OK;
                it->second->res().body = std::string(d.begin(), d.end());
                sv->c().held.erase(it);     // write() -> EPIPE
                sv->pump();
                std::cout << "P closed\n";
                Srv::sysLine();
            } else if (op == "dcloseN" && w.size() == 4 && vh::to_u64(w[1], n) && vh::to_u64(w[2], n2) && vh::to_u64(w[3], n3) &&
                       n2 <= 2000000 && n3 <= 255 && sv && !sv->c().cclosed && sv->c().held.count((int)n)) {
                auto it = sv->c().held.find((int)n);
                it->second->res().status_code = StatusCode::k200_OK;
                it->second->res().body = std::string((size_t)n2, (char)n3);
                sv->c().held.erase(it);     // partial write, the rest waits in the send buffer
                sv->c().cclosed = true;
                sv->clientClose();      // the peer goes away without reading
                std::cout << "P closed\n";
                Srv::sysLine();
            } else if (op == "cclose" && w.size() == 1 && sv && !sv->c().cclosed) {
                sv->c().cclosed = true;
                sv->clientClose();
                std::cout << "P closed\n";
                Srv::sysLine();
            } else if (op == "dclose" && w.size() == 3 && vh::to_u64(w[1], n) && vh::unhex(w[2], d) && sv && !sv->c().cclosed &&
                       sv->c().held.count((int)n)) {
                auto it = sv->c().held.find((int)n);
                it->second->res().status_code = StatusCode::k200_OK;
                it->second->res().body = std::string(d.begin(), d.end());
                sv->c().held.erase(it);     // commit, then the peer closes before the loop runs again
                sv->c().cclosed = true;
                sv->clientClose();
                std::cout << "P closed\n";
                Srv::sysLine();
            } else ok = false;
        } catch (const std::exception &e) {
            std::cout << "P exception\n";
            if (sv) { sv->poisoned = true; sv->settle(false); }   // what reached the client, without running the loop again
            continue;
        }
        if (!ok) std::cout << "bad-op\n";
    }
    reset();
    return 0;
}
