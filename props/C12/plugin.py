"""C12 — HTTP server: total, segmentation-independent parsing; in-order responses."""
import os, re
import vlib

ID = 'C12'
LEAN_MODULES = ['TboxModel.C12.Props']
EXE = 'c12'
THEOREMS = ['Tbox.C12.' + t for t in [
    'tablesStd_holds', 'C12_total', 'C12_total_feed', 'C12_total_counterexample_unpatched',
    'C12_resumable_partial', 'C12_resumable_counterexample', 'C12_resumable_counterexample_unpatched',
    'C12_segmentation', 'C12_parse_wellformed', 'C12_segmentation_wellformed', 'C12_no_request_after_close',
    'C12_in_order_once', 'C12_no_response_stuck', 'C12_nothing_after_close',
    'C12_single_disconnect', 'C12_peer_stream', 'C12_close_after_full_delivery',
    'C12_write_error', 'C12_half_close_counterexample', 'C12_written_once', 'C12_head_of_line', 'C12_commit_after_gone',
    'C12_handler_commits_once', 'C12_scripted_admissible', 'C12_scripted_pipelining',
    'C12_respond_roundtrip', 'C12_untouched_context_answers_404', 'C12_url_codec_roundtrip', 'C12_url_roundtrip_path', 'C12_url_roundtrip_counterexample',
    'C12_url_path_roundtrip', 'C12_url_path_roundtrip_counterexample_key', 'C12_url_reparse_counterexample',
    'C12_url_path_roundtrip_counterexample_frag', 'C12_url_path_roundtrip_counterexample_path', 'C12_url_total',
    'C12_request_roundtrip', 'C12_request_roundtrip_counterexample',
    'C12_nothing_after_close_counterexample_unpatched', 'C12_closing_response_lost_unpatched',
    'C12_url_host_roundtrip', 'C12_url_abs_roundtrip', 'C12_url_host_roundtrip_counterexample_user',
    'C12_url_host_roundtrip_counterexample_password', 'C12_url_host_roundtrip_counterexample_host',
    'C12_url_host_roundtrip_counterexample_pw_without_user', 'C12_url_host_roundtrip_counterexample_percent',
    'C12_url_host_roundtrip_counterexample_port', 'C12_url_abs_roundtrip_counterexample_scheme',
    'C12_url_abs_roundtrip_counterexample_noscheme', 'C12_port_width', 'C12_port_width_counterexample',
    'C12_content_length_width', 'C12_declared_length_waits', 'C12_scripted_peer_stream',
    'C12_multi_token_own', 'C12_multi_frame', 'C12_multi_per_connection', 'C12_multi_stale_commit',
    'C12_multi_stale_commit_counterexample_unrepaired_cabinet', 'C12_multi_stop_all', 'C12_multi_handler_stop',
    'C12_multi_backlog_held', 'C12_multi_backlog_queue', 'C12_multi_backlog_start', 'C12_multi_close_commit']]
SOURCES = [
    'modules/http/common.cpp', 'modules/http/url.cpp', 'modules/http/request.cpp', 'modules/http/respond.cpp',
    'modules/http/server/request_parser.cpp', 'modules/http/server/server.cpp', 'modules/http/server/server_imp.cpp',
    'modules/http/server/context.cpp',
    'modules/network/tcp_server.cpp', 'modules/network/tcp_acceptor.cpp', 'modules/network/tcp_connection.cpp',
    'modules/network/buffered_fd.cpp', 'modules/network/sockaddr.cpp', 'modules/network/socket_fd.cpp',
    'modules/network/ip_address.cpp',
    'modules/util/buffer.cpp', 'modules/util/string.cpp', 'modules/util/fd.cpp', 'modules/util/fs.cpp',
    'modules/event/common_loop.cpp', 'modules/event/common_loop_run.cpp', 'modules/event/common_loop_signal.cpp',
    'modules/event/common_loop_timer.cpp', 'modules/event/engines/epoll/fd_event.cpp', 'modules/event/engines/epoll/loop.cpp',
    'modules/event/engines/select/fd_event.cpp', 'modules/event/engines/select/loop.cpp', 'modules/event/loop.cpp', 'modules/event/misc.cpp', 'modules/event/signal_event_impl.cpp', 'modules/event/stat.cpp',
    'modules/event/timer_event_impl.cpp',
] + vlib.BASE_SOURCES
FLAVOUR = 'asan'
LIBS = ['-ldl']
BATCH = 150
MAX_REPORT = 14
BATCH_TIMEOUT = 240



TRUSTED = ['models lean/TboxModel/C12/Model.lean (parser, feed loop) and Pipeline.lean (response pipeline) are hand-written '
           'from request_parser.cpp / url.cpp / common.cpp / util/string.cpp / server_imp.cpp / context.cpp; tied by differential runs',
           'stage 1 of parse is transcribed literally over the whole buffer (startLineLit, positions as suffixes); that it depends '
           'only on the start line is the lemma Proofs.startLineLit_eq',
           'send-side contract assumed (property C06): bytes handed to send reach the peer in order; send-complete is reported only '
           'after the send buffer drained (part of traceOk); the harness exercises it with responses larger than the socket buffer',
           'Respond::toString, Request::toString, UrlPathToString, UrlEncode are transcribed (Pipeline.Respond.render, Model.Req.render) '
           'and compared byte for byte (client output, str= field of every delivered request); the status table is regenerated from common.cpp/.h',
           'write errors are injected by interposing write() in the harness (EPIPE on the server side of the connection) and by real '
           'EPIPE/ECONNRESET (client closes before a commit / without reading a large response)',
           'request handlers are scripts interpreted by the harness (props/C12/harness.cpp runLevel) and by the model (Pipeline.runChain); '
           'a handler that throws leaves the library with unbalanced callback counters (its destructors assert), the harness leaks the objects of that case',
           'ops method/version compare StringToMethod/StringToHttpVer with a fixed reference table (Model.stdMethods/stdVersions)',
           'method/version tables are regenerated from common.cpp on every run (GenTables.lean)',
           'kernel/socket behaviour (a small write is accepted whole; send-complete follows a burst of writes) is observed, not modelled',
           'url.cpp is modelled completely (Model.lean: UrlEncode/UrlDecode/UrlPathToString/StringToUrlPath; Url.lean: UrlHostToString/'
           'UrlToString/StringToUrlHost/StringToUrl incl. std::stoi port -> uint16_t); every StringTo* function is applied to a FRESH output '
           'object (as RequestParser does); ops upath/uhost/url/mkpath/mkurl/enc/dec run the real functions on generated and hostile input '
           '(all 256 byte values in every position class) and compare results, printed forms and the re-read value (rt=)',
           'ops mkreq/mkres build arbitrary Request/Respond values, compare toString() byte for byte and feed the request text back into a real RequestParser',
           'ops sstop/sclean call Server::stop()/cleanup() outside any handler while contexts are held (late commits after teardown)',
           'std::map / std::string of libstdc++ behave as ordered map / byte string',
           'fault schedules: the harness interposes write / readv / accept / shutdown on the server side of the connection; op `wq` queues the '
           'answers of the next write() calls (pass, short count, EAGAIN, EPIPE-for-good), `rseg` makes the next readv fail with ECONNRESET, '
           '`srv k` makes the first k accept() calls fail; the model (Pipeline.lean WAns / directWrite / drain / quiesce) takes the same answers '
           'as oracle input; BufferedFd::send / onWriteCallback (network/, property C06) are modelled as far as the http server depends on them: '
           'append when the buffer is not empty, direct write otherwise, EAGAIN buffers, any other error DROPS the chunk, the write event reports '
           'send-complete when it finds the buffer empty — also after a drop',
           'system calls on the server side of every connection (fcntl F_SETFL/F_SETFD, setsockopt, shutdown, close — interposed in the harness, '
           'attributed to the connection by accept order) are a model-internal observable (`M sys`): the library makes the accepted socket non-blocking, '
           'sets no socket option, never shuts down, and closes the socket in the op that tears the connection down (in cabinet-position order when '
           'stop() tears several down); kernel semantics assumed: close() without SO_LINGER keeps delivering what the kernel already accepted',
           'several connections (Multi.lean): one Server record per accepted connection + a transcription of cabinet::Cabinet (cells, LIFO free list, '
           'ids never reissued) for TcpServer::conns; the harness has up to 8 clients on the Unix socket (`conn`, `on <k>`), attributes each request to '
           'the connection whose socket the library read last (interposed readv), reads at EVERY client after every op and prints bytes / EOF seen at a '
           'connection other than the current one as `P xout` / `P xeof`; write answers (`wq`) are one global queue on both sides, `wfail` / EPIPE is per socket; '
           'ops sstop/sclean/sstart = Server::stop/cleanup/start',
           'listen backlog (MServer.pending, MOp.connq, acceptN): TcpAcceptor::stop() only disables the read event of the listening socket, so clients '
           'keep connecting (`srvq` = initialised but never started, `conn`/`connd <bytes>` while stopped, script prefix `q` = a client connects while the '
           'first handler of that request runs); kernel semantics assumed: a completed connection waits in the backlog in connect order (the harness listens '
           'with backlog 16 and keeps at most 4 + the handler-time connects waiting), data sent before accept() is delivered after it, closing the '
           'listening socket refuses later connects; the k-th accepted connection is the k-th client that connected (FIFO), which is how the harness '
           'attributes server-side descriptors to clients; clients still in the backlog are not read by the harness',
           'same pass: `mseg c:hex,…` / `msegr` let several clients write before ONE loop pass; an epoll_wait interposer hands the events of the listed '
           'connections to the loop in the listed order whatever order the kernel found them in (`msegr`: the clients wrote in the opposite order) — the '
           'engine order is an oracle input; during `sstart` the same interposer withholds the events of connection sockets until every waiting client is '
           'accepted (level-triggered events come again), then the first reads happen in connection order; the model runs the listed connections one after the other '
           '(C12_multi_frame / C12_multi_per_connection: the records are independent), handler-time connects are added after the last one; the order of the first '
           'readv calls is compared as `M rd`; for these ops the close() calls of unrelated connections are compared sorted by connection; `mseg` requires an '
           'empty write-answer queue (the queue is global, the interleaving of the writes of two connections across passes is not modelled)',
           'a case with a peer half-close is run as coded (`chalf`) and — for the first 3 such cases — as the property asks (`chalfS`, recorded finding); '
           'the fingerprint of the finding is given only when the implementation reports EOF where responses were still expected AND the same '
           'history agrees with the model of the code as it is; everything else in such a history keeps its own fingerprint']
ASSUMPTIONS = ['size_t is 64 bit', 'operator new does not fail',
               'fewer than 2^31-1 requests on one connection (req_index / res_index / close_index are int, INT_MAX is the "no closing request" marker)',
               'strings given to StringToUrlHost are shorter than 2^31 bytes (url.cpp:208 keeps a position in an int)',
               'a failed write on a socket is permanent (EPIPE / ECONNRESET); transient errors other than EAGAIN (ENOBUFS, EINTR) make BufferedFd::send '
               'drop data on a live connection - property C06, not modelled here',
               'each Context is destroyed once (shared_ptr), so each delivered request commits exactly once',
               'fewer than 2^64 connections accepted by one TcpServer (cabinet ids wrap at 2^64: property C08)']
RULE = ('cases from props/C12/plugin.py: (a) parser level — pipelines of 1-4 generated requests (7 methods, targets with params/query/'
        'fragment/escapes, 3 versions, 0-3 extra headers, Content-Length + body incl. CR/LF/NUL bytes), fed through a real RequestParser '
        'in 1..n segments (single, every byte, random cuts, cuts next to every CR/LF/space/colon), plus the same with missing or '
        'malformed Content-Length and syntax mutations, plus a hostile byte stream; (b) server level — a real Server on a Unix socket, '
        'pipelines with and without a closing request, handlers completing inside the callback or later in a random permutation, '
        'the client closing at a random point (also in the same loop pass as a completion, before a completion = EPIPE, without '
        'reading a large response), half-closing, an injected permanent write failure, responses of up to 1 MB (partial writes), '
        'responses with arbitrary status / header map / body and contexts dropped untouched, compared byte for byte at the client; '
        'SCRIPTED HANDLER CHAINS (3 handlers; per request: next() 0/1/2 times at any level, set the response at several levels, keep the '
        'context, throw, server.stop()/cleanup() from inside the handler; fixed families + random scripts); '
        '(c) the standard method/version names against a fixed reference table; (d) boundary families: Content-Length 0 / exactly the '
        'buffered amount / one more with every cut around the body end, the header terminator cut at every pair of places, header lines '
        'and targets up to 70 kB, 1500 headers, Content-Length digit strings at the int/size_t limits, chunked bodies (not implemented '
        'by the server), percent-escapes cut at the end of the target, empty keys; '
        '(e) url.cpp: StringToUrlPath/StringToUrlHost/StringToUrl on structured + hostile strings, UrlPathToString/UrlToString on random values '
        '(keys/values over all 256 bytes, empty keys, fragments with delimiters) and re-read, every single byte value in 18 position classes; '
        '(f) Request::toString / Respond::toString on arbitrary values, the request text re-parsed; (g) header-line families (case of names, '
        'duplicates, white space, empty values, no space after the colon, control/high bytes, Content-Length spellings, 5 kB lines) at parser and '
        'server level; (h) 4-7 pipelined requests answered in fixed nasty and random permutations, with a permanent gap, with a closing request; '
        '(i) Server::stop()/cleanup() outside handlers at random points followed by late completions; '
        '(j) FAULT SCHEDULES: answers of the kernel to the server\'s write() calls chosen by the op file (pass / short count incl. 0 / EAGAIN / EPIPE at any '
        'call index: in the middle of a batch of parked responses released by one commit, inside the receive callback, while a 300 kB response drains), '
        'a readv error while contexts are held, 1-5 failing accept() calls before the connection is accepted; '
        '(k) width families: Content-Length strings on both sides of 2^15/2^16/2^31/2^32/2^63/2^64-2, with sign / blank / hex / leading zeros, as a '
        'DECLARED length with a 3-byte body followed by peer close / half-close / more bytes; header lines of 32767..131073 bytes; ports on both sides of '
        '2^15/2^16/2^31/2^32/2^63; parse() input at every start alignment 0..7, right-aligned against an ASan redzone. '
        '(l) SEVERAL CONNECTIONS: 2-5 (up to 8) clients of one server, each with its own pipeline (requests /c<j>/<i>), segments and handler completions '
        'interleaved across connections; teardown of one connection (closing request, peer close, half close, read error, parse failure, write fault) '
        'while others are mid-request / have parked responses; stop()/cleanup() outside and from inside a handler with connections in different pipeline '
        'states, start() again, new connections reusing the cabinet cell of a torn-down one, late completions of every Context afterwards; '
        '(m) STATE-DERIVED parser inputs: a body that is a complete request (delivered whole or as a segment of its own), a request whose bytes equal the '
        'previous body / the previous request / a prefix of it, Content-Length = bytes buffered at the blank line -1/0/+1 (0..65), header names differing in '
        'case from Content-Length / Connection, duplicate Content-Length headers with different / malformed values, close inside longer Connection values, '
        'the same request 2-3 times, 64..3000 headers (also 3000 times the same name); (n) placement: every byte-string input of url.cpp / Respond::toString as a heap '
        'string of exactly its size, lengths 0..4 and around 8/16/24/32/64, escapes ending at / 1 / 2 bytes before the end; '
        '(o) SAME PASS: 2-4 connections have a segment waiting when the loop makes ONE pass (`mseg`/`msegr`); the order in which the engine hears about '
        'them is part of the op (an epoll_wait interposer hands the events over in that order, whatever order the clients wrote in), incl. a handler of the '
        'first one stopping the server or throwing before the others are read; (p) LISTEN BACKLOG: clients connecting before start(), while the server is '
        'stopped, and from inside a handler (which may stop / clean up the server in the same call), some sending requests at once; start() accepts them in '
        'order over the cabinet cells of torn-down connections whose Contexts complete late (done / commit in the pass of the peer close); cleanup() with '
        'clients waiting; connect after cleanup. '
        'non-trivial = the model run delivers at least one request out of >= 2 segments, or parks/flushes a response, or fails/closes, '
        'or sees a peer close or a large response; '
        'distinct = distinct op text')
LEVEL_TEXT = ('Lean 4 theorems over a hand-written model of RequestParser::parse + the onTcpReceived feed loop (totality, '
              'consumed <= given, termination, resumability of every split, segmentation independence for streams with declared lengths, '
              'functional correctness on every well-formed request with Content-Length and hence unconditional segmentation independence '
              'for well-formed pipelines) '
              ', of url.cpp (StringToUrlPath o UrlPathToString = id on every well-formed path value with arbitrary-byte keys/values; StringToUrl never throws) '
              'and of Request::toString (parse o render returns the request, plus the Content-Length entry, for every printable request value) '
              'and of the response pipeline (responses written in request order exactly once, no response stuck, nothing after the closing '
              'response, connection dropped after it and only after every byte was delivered, a single tear-down under peer close at any '
              'point, peer stream = prefix of the in-order responses under partial writes) and of SEVERAL CONNECTIONS of one server over a transcription of the '
              'TcpServer cabinet (a token resolves to its own connection or to nothing for every history incl. cell reuse and stop/start; frame: an event of one '
              'connection leaves every other record untouched; every connection\'s pipeline is the run of its own admissible history; stop() tears all down); counterexample theorems for the unpatched code; the model is tied to the working '
              'tree on every run by differential execution (ASan+UBSan) at parser level and against a real Server over a Unix socket')
LEVEL_NOTE = ('trusted: Lean kernel, hand-written model + differential tie (coverage bounded by the generator, measured in evidence); '
              'requests without Content-Length are outside the segmentation theorem (the code takes "everything in the buffer" as body); '
              'peer half-close is modelled AS CODED (read-zero tears the connection down; outstanding responses are lost — recorded as a '
              'finding, C12_half_close_counterexample; a repair needs a half-close notion in TcpConnection + TcpServer + http Server); the send-side '
              'contract is assumed (C06) except that the kernel\'s answers to write() are oracle inputs here (short / EAGAIN / EPIPE at any call); a TRANSIENT '
              'write error other than EAGAIN inside BufferedFd::send (data dropped, connection kept) belongs to C06 and is not modelled')
TECHNIQUE = 'Lean 4 proofs over an executable parser/feed-loop/pipeline model + model/implementation correspondence check'
DESIGN_REF = 'DESIGN.md §6 C12, §7 row 6'


def pre_lean(repo, lean):
    """regenerate GenTables.lean (method / version tables) from modules/http/common.cpp"""
    src = open(os.path.join(repo, 'modules/http/common.cpp'), encoding='utf-8').read()

    def table(name, enum):
        m = re.search(r'%s\s*\[\]\s*=\s*\{(.*?)\};' % name, src, re.S)
        if not m: raise RuntimeError('table %s not found' % name)
        ents = re.findall(r'\{\s*%s::(\w+)\s*,\s*"([^"\\]*)"\s*\}' % enum, m.group(1))
        if not ents: raise RuntimeError('table %s empty' % name)
        return ents
    mt, vt = table('_method_map', 'Method'), table('_http_ver_map', 'HttpVer')
    fmt = lambda ents: '[' + ', '.join('("%s", "%s")' % e for e in ents) + ']'
    # status codes: numeric value of the enum constant (common.h) and the text of the table (common.cpp)
    hdr = open(os.path.join(repo, 'modules/http/common.h'), encoding='utf-8').read()
    m = re.search(r'enum class StatusCode\s*\{(.*?)\};', hdr, re.S)
    if not m: raise RuntimeError('enum StatusCode not found')
    values = dict(re.findall(r'(k\w+)\s*=\s*(\d+)', m.group(1)))
    st = [(values[n], t) for (n, t) in table('_status_code_map', 'StatusCode') if n in values]
    if not st: raise RuntimeError('status table empty')
    text = ('/- GENERATED by props/C12/plugin.py pre_lean from modules/http/common.cpp / common.h — do not edit.\n'
            '   Method / HTTP-version tables of StringToMethod / StringToHttpVer (enum name, wire string) and the\n'
            '   status table of StatusCodeToString (numeric value of the enum constant, text). -/\n'
            'namespace Tbox.C12.Gen\n\n'
            'def methodTable : List (String × String) :=\n  %s\n\n'
            'def verTable : List (String × String) :=\n  %s\n\n'
            'def statusTable : List (Nat × String) :=\n  %s\n\n'
            'end Tbox.C12.Gen\n' % (fmt(mt), fmt(vt), '[' + ', '.join('(%s, "%s")' % e for e in st) + ']'))
    path = os.path.join(lean, 'TboxModel/C12/GenTables.lean')
    old = open(path, encoding='utf-8').read() if os.path.exists(path) else None
    if old != text:
        with open(path, 'w', encoding='utf-8') as fh:
            fh.write(text)


# ----------------------------------------------------------------------------- generator
METHODS = ['GET', 'HEAD', 'PUT', 'POST', 'TRACE', 'OPTIONS', 'DELETE']
VERSIONS = ['HTTP/1.1', 'HTTP/1.1', 'HTTP/1.1', 'HTTP/1.0', 'HTTP/2.0']
TARGETS = ['/', '/index.html', '/a/b/c', '/a%20b', '/p;x=1', '/p;x=1;y=2', '/p?q=1', '/p?q=1&r=2', '/p?q=', '/p#frag', '/p;a=b?c=d#e',
           '/%41%42', '/%ff%00', '/a%2fb.c', '/p?k%3d=v%26w', '/p#%41', '/p;a%3b=%25', '/x?k=%3d&k=2', '/p?b=1&a=2', '/p;z=%7e', '/?a=b', '/#', '/a?x=1;y=2', '/a#b?c=d', '/a%4',
           '/a%', '/%', '/+', '/a+b', '/p?a+b=c+d', '/p?a=%', '/p?a=%4', '/p?a=b&c=%', '/p;a=%4', '/p#%', '/p#%4', '/p?a==', '/p?a=b#', '/p;a=b?', '/p?%3d=1',
           '/p?a=1&a=2', '/p;k=1;k=2', '/p?z=1&y=2&x=3', '/p?a=', '/p;a=', '/%2F', '/.', '/..', '//', '/a/', '/%25%32%35']
BAD_TARGETS = ['x', '', '/p;', '/p;a', '/p?', '/p?a', '/p?=b', '/p;=v', '/p?&', '/p?a=b&', '/p?&a=b', '/p;a=b;', '/p?a', '/p?a=b=c', '/p?%=1', '/p?a=%g1', '%2f', '/%zz', '/%4z', '/p;a=b=c', '/p?a=1&&b=2', 'http://h/p', '*']
HDRS = [('Host', 'example.com'), ('Accept', '*/*'), ('X-A', 'b'), ('X-A', 'c'), ('Connection', 'keep-alive'), ('Connection', 'close'),
        ('Connection', 'Keep-Alive'), ('Connection', 'x, close'), ('connection', 'close'), ('User-Agent', 'a b  c'), ('X-Colon', 'a:b'),
        ('X Sp', 'v'), ('Content-Type', 'text/plain')]
BAD_LENS = ['abc', '-1', '-2', '+5', '12abc', ' 7', '7 ', '007', '1 2', '0x10', '99999999999999999999', '18446744073709551615',
            '18446744073709551614', '2147483648', '', ' ', '\t3', '3\t', '1e3', '٣']


def hx(b):
    if isinstance(b, str): b = b.encode('utf-8', 'surrogatepass')
    return b.hex() or '-'


def rbody(rng):
    r = rng.random()
    if r < 0.25: return b''
    n = rng.choice([1, 2, 3, 5, 8, 17, 40])
    alpha = b'abcXYZ019 \r\n:\x00\xff%GET/'
    return bytes(rng.choice(alpha) for _ in range(n))


def gen_request(rng, declared=True, closing=None, bad=None):
    """returns bytes of one request. closing: None=random headers, True/False = force.
    bad: None or a mutation name"""
    m = rng.choice(METHODS)
    t = rng.choice(TARGETS)
    v = rng.choice(VERSIONS)
    hs = [rng.choice(HDRS) for _ in range(rng.choice([0, 0, 1, 1, 2, 3]))]
    if closing is not None:
        hs = [h for h in hs if h[0] != 'Connection']
        if closing:
            if rng.random() < 0.3: v = 'HTTP/1.0'
            else: hs.append(('Connection', rng.choice(['close', 'x, close'])))
            if v == 'HTTP/1.0': hs = [h for h in hs if h[0] != 'Connection']
        else:
            if v == 'HTTP/1.0': hs.append(('Connection', 'keep-alive'))
    body = rbody(rng) if m in ('PUT', 'POST') or rng.random() < 0.3 else b''
    clen = str(len(body))
    sp1, sp2 = ' ', ' '
    if bad == 'len': clen = rng.choice(BAD_LENS)
    elif bad == 'target': t = rng.choice(BAD_TARGETS)
    elif bad == 'method': m = rng.choice(['get', 'GE', 'GETT', 'FOO', '', ' GET', 'G ET', 'GET\r'])
    elif bad == 'ver': v = rng.choice(['HTTP/1.2', 'http/1.1', 'HTTP/1.1 ', 'HTTX/1.1', 'HTTP/', '', 'HTTP/1.1\r'])
    elif bad == 'spaces': sp1, sp2 = rng.choice(['', '  ', '   ']), rng.choice(['', '  ', ' \t'])
    lines = []
    if declared or bad == 'len':
        hs.insert(rng.randrange(len(hs) + 1), ('Content-Length', clen))
    for (k, val) in hs:
        sep = rng.choice([': ', ':', ':  ', ' : '])
        lines.append(k + sep + val + rng.choice(['', '', ' ']))
    if bad == 'nocolon' and lines: lines[rng.randrange(len(lines))] = 'NoColonHere'
    if bad == 'emptyval': lines.insert(rng.randrange(len(lines) + 1), rng.choice(['X-E:', 'X-E:   ', ':v', ' : ']))
    raw = (m + sp1 + t + sp2 + v + '\r\n' + ''.join(l + '\r\n' for l in lines) + '\r\n').encode('utf-8', 'surrogatepass')
    if bad == 'lf': raw = raw.replace(b'\r\n', b'\n', 1)
    if bad == 'flip' and raw:
        i = rng.randrange(len(raw)); raw = raw[:i] + bytes([rng.choice(b' \r\n:\x00/%;?#=&A')]) + raw[i + 1:]
    if bad == 'del' and raw:
        i = rng.randrange(len(raw)); raw = raw[:i] + raw[i + 1:]
    if not (declared or bad == 'len'): body = body if rng.random() < 0.5 else b''
    return raw + body


def interesting_cuts(stream):
    cuts = set()
    for i, c in enumerate(stream):
        if c in b'\r\n :':
            cuts.update((i, i + 1))
    cuts.update((1, 2, 3, len(stream) - 1))
    return sorted(c for c in cuts if 0 < c < len(stream))


def split_stream(rng, stream, how=None):
    n = len(stream)
    if n <= 1: return [stream] if n else []
    how = how or rng.choice(['one', 'bytes', 'rand', 'rand', 'edge', 'edge', 'two'])
    if how == 'one': cuts = []
    elif how == 'bytes': cuts = list(range(1, n)) if n <= 120 else sorted(rng.sample(range(1, n), 100))
    elif how == 'two': cuts = [rng.randrange(1, n)]
    elif how == 'edge':
        ic = interesting_cuts(stream)
        cuts = sorted(rng.sample(ic, min(len(ic), rng.choice([1, 1, 2, 3]))))
    else: cuts = sorted(rng.sample(range(1, n), min(n - 1, rng.choice([1, 2, 3, 5, 8]))))
    segs, prev = [], 0
    for c in cuts + [n]:
        segs.append(stream[prev:c]); prev = c
    return [s for s in segs if s]


def gen_parser_case(rng):
    r = rng.random()
    k = rng.choice([1, 1, 2, 2, 3, 4])
    if r < 0.50:      # well-formed, declared
        reqs = [gen_request(rng) for _ in range(k)]
    elif r < 0.60:    # some undeclared
        reqs = [gen_request(rng, declared=rng.random() < 0.5) for _ in range(k)]
    elif r < 0.92:    # one malformed request somewhere in the pipeline
        j = rng.randrange(k)
        bad = rng.choice(['len', 'len', 'len', 'target', 'method', 'ver', 'spaces', 'nocolon', 'emptyval', 'lf', 'flip', 'flip', 'del'])
        reqs = [gen_request(rng, bad=bad if i == j else None) for i in range(k)]
    else:             # hostile bytes
        alpha = b'GETPOSHAD / HTTP/1.1\r\n\r\n::Content-Length: 0123456789%;?#=&\x00\xff\tabc'
        reqs = [bytes(rng.choice(alpha) for _ in range(rng.choice([1, 3, 10, 30, 80])))]
    stream = b''.join(reqs)
    return ['feed ' + hx(s) for s in split_stream(rng, stream)]


# `chalf` ties the half-close behaviour AS CODED (read-zero tears the connection down). Once the lead has recorded the
# finding (fp below) in known_findings.txt the generator asks for what the PROPERTY wants instead (`chalfS`: outstanding
# responses still written), so that every run reports KNOWN-FINDING with a concrete replay.
HALF_FP = 'srv-halfclose-responses-lost'
HALF_KNOWN = any(fp == HALF_FP for (fp, _) in vlib.load_findings('C12'))
HALF_OP = 'chalfS' if HALF_KNOWN else 'chalf'


def half_variants(ops):
    """a case with a half-close is run AS CODED (`chalf`: full tie of what the code does, so every other deviation in such a
    history is still reported) and, once the finding is recorded, also as the PROPERTY wants it (`chalfS`: KNOWN-FINDING)"""
    if not any(o in ('chalf', 'chalfS') for o in ops):
        yield ops; return
    yield ['chalf' if o == 'chalfS' else o for o in ops]
    if HALF_KNOWN: yield ['chalfS' if o == 'chalf' else o for o in ops]


WQ_ANS = ['p', 'p', 'a', 'e', 's0', 's1', 's5', 's17', 's40', 's100000']
WQ_FIXED = ['e', 'p,e', 'p,p,e', 's5,e', 'a,e', 's5,a,s3,p', 'p,s0,e', 'a,a,a', 's1,s1,s1,s1,e', 's0,s0,p', 'p,a,p', 's17,p,e', 'a,p,p']


def big_safe(spec):
    """for histories with responses larger than the socket buffer: `p` (pass through) would let the REAL kernel decide how much it
    takes; use a short count that always fits instead, so that model and implementation see the same answers"""
    return ','.join('s50000' if (a == 'p' or (a[0] == 's' and int(a[1:]) > 50000)) else a for a in spec.split(','))


def wq_spec(rng):
    return ','.join(rng.choice(WQ_ANS) for _ in range(rng.choice([1, 1, 2, 2, 3, 4, 6])))


def gen_fault_case(rng):
    """fault schedules through TcpServer/TcpConnection/BufferedFd under the http server: the kernel's answers to the server's
    write() calls (short count, EAGAIN, EPIPE) at chosen call indices — in the middle of a batch of pipelined responses released
    by one commit, inside the receive callback, while a large response drains —, a read error, accept errors"""
    k = rng.choice([2, 3, 3, 4, 5])
    closing = rng.random() < 0.4
    reqs = [('GET /%d HTTP/1.1\r\n%sContent-Length: 0\r\n\r\n' % (i, 'Connection: close\r\n' if closing and i == k - 1 else '')).encode() for i in range(k)]
    ops = ['srv' if rng.random() < 0.8 else 'srv %d' % rng.choice([1, 2, 3, 5])]
    spec = rng.choice(WQ_FIXED) if rng.random() < 0.6 else wq_spec(rng)
    fam = rng.choice(['batch', 'batch', 'batch', 'sync', 'big', 'rerr', 'mixed'])
    if fam == 'batch':          # every context kept; the commit of request 0 releases the parked responses 1..k-1
        ops.append('seg ' + hx(b''.join(reqs)))
        rest = list(range(1, k)); rng.shuffle(rest)
        gap = rng.choice([None, None, rest[0]])
        for i in rest:
            if i != gap: ops.append('done %d %s' % (i, hx(b'r%d' % i)))
        ops.append('wq ' + spec)
        ops.append('done 0 ' + hx(b'r0'))
        if gap is not None: ops.append('done %d %s' % (gap, hx(b'gap')))
    elif fam == 'sync':         # responses written from inside the receive callback, one direct write each
        for i in range(k):
            if rng.random() < 0.8: ops.append('sync %d %s' % (i, hx(b's%d' % i)))
        ops.append('wq ' + spec)
        for sg in split_stream(rng, b''.join(reqs), rng.choice(['one', 'one', 'two'])): ops.append('seg ' + hx(sg))
        for i in range(k):
            if not any(o.startswith('sync %d ' % i) for o in ops): ops.append('done %d %s' % (i, hx(b'd%d' % i)))
    elif fam == 'big':          # a large response drains through several write events
        ops.append('seg ' + hx(b''.join(reqs)))
        ops.append('wq ' + rng.choice(['s1000', 's50000,a,s50000', 's50000,e', 'a,s5', 's50000,s1,s1,a,s50000', 's50000,s50000,e', 'e', 'a,e', big_safe(wq_spec(rng))]))
        ops.append('doneN 0 %d %d' % (rng.choice([5000, 70000, 300000]), rng.randrange(256)))
        for i in range(1, k): ops.append('done %d %s' % (i, hx(b'r%d' % i)))
    elif fam == 'rerr':
        cut = rng.randrange(1, k)
        ops.append('seg ' + hx(b''.join(reqs[:cut])))
        done = [i for i in range(cut) if rng.random() < 0.5]
        for i in done: ops.append('done %d %s' % (i, hx(b'r%d' % i)))
        ops.append('rseg ' + hx(b''.join(reqs[cut:])))
        for i in range(cut):
            if i not in done: ops.append('done %d %s' % (i, hx(b'late%d' % i)))
        ops.append('seg ' + hx(reqs[0]))
    else:
        ops = gen_server_case(rng)
        first = 1 + sum(1 for o in ops if o.startswith(('sync ', 'script ')))
        big = any(o.startswith(('doneN ', 'dcloseN ')) for o in ops)
        for _ in range(rng.choice([1, 2])):
            sp = wq_spec(rng)
            ops.insert(rng.randrange(first, len(ops) + 1), 'wq ' + (big_safe(sp) if big else sp))
        return ops
    if rng.random() < 0.3: ops.append(rng.choice(['cclose', 'seg ' + hx(reqs[0]), 'sstop']))
    return ops


CHAIN_SCRIPTS = ['n/b41', 'n/n/b42', 'n.n/b41.k/-', 'b41.n/n/b42', 'n/k', 'k.n/b41', 'n/n/n', 'n.n/n.n/b43', '-', 'b-', 'n/-/b44',
                 'k.k', 'n/k.n/k', 'b41.b42', 'n.b45/b46']
ABORT_SCRIPTS = ['t', 'b41.t', 'n/t', 'k.t', 'n/n/t', 'n/b41/t', 't.b41', 'n.t/b47',
                 's', 'c', 'b41.s', 'b41.c', 'n/c.b43', 's.n/b41', 'c.n/b41', 'k.s', 'k.c', 'n/n/s', 's.c', 'c.s', 's.t', 'c.t']


def gen_script(rng):
    """what the three handlers do for one request (see harness: n k t s c b<hex>)"""
    r = rng.random()
    if r < 0.45: return rng.choice(CHAIN_SCRIPTS)
    if r < 0.60: return rng.choice(ABORT_SCRIPTS)
    levels = []
    for _ in range(rng.choice([1, 2, 3])):
        acts = [rng.choice(['n', 'n', 'n', 'k', 'b' + hx(rbody(rng)), 'b-', 'n', 'k', 't', 's', 'c'][:9 if rng.random() < 0.8 else 11])
                for _ in range(rng.choice([0, 1, 1, 2, 3]))]
        levels.append('.'.join(acts) or '-')
    return '/'.join(levels)


def gen_boundary_case(rng):
    """rare-boundary families: Content-Length against what is buffered, the header terminator cut everywhere,
    huge header lines / many headers / long targets, chunked bodies (not implemented by the server: treated as
    'no Content-Length'), Content-Length digit strings at the size_t limits"""
    fam = rng.choice(['cl', 'cl', 'term', 'term', 'big', 'chunk', 'lenlimit'])
    nxt = b'GET /next HTTP/1.1\r\nContent-Length: 0\r\n\r\n'
    if fam == 'cl':
        L = rng.choice([0, 1, 2, 5, 17])
        body = bytes(rng.choice(b'ab\r\n:G') for _ in range(L))
        cl = max(0, L + rng.choice([-1, 0, 0, 1, 1, 2]))
        head = ('POST /b HTTP/1.1\r\nContent-Length: %d\r\n\r\n' % cl).encode()
        stream = head + body + (nxt if rng.random() < 0.7 else b'')
        # cuts around the end of the headers and around the declared / the real end of the body
        marks = sorted({len(head) - 1, len(head), len(head) + 1, len(head) + cl - 1, len(head) + cl, len(head) + cl + 1,
                        len(head) + L, len(head) + L + 1})
        marks = [m for m in marks if 0 < m < len(stream)]
        cuts = sorted(rng.sample(marks, min(len(marks), rng.choice([1, 2, 3]))))
    elif fam == 'term':
        base = rng.choice(BASE[:3] + [b'GET /t HTTP/1.0\r\nA: b\r\n\r\n', b'PUT /u HTTP/1.1\r\nContent-Length: 1\r\nX: y\r\n\r\nZ' + nxt])
        stream = base
        t = stream.find(b'\r\n\r\n')
        region = [c for c in range(t - 1, t + 6) if 0 < c < len(stream)]
        cuts = sorted(set(rng.sample(region, min(len(region), rng.choice([2, 3, 4])))))
    elif fam == 'big':
        kind = rng.choice(['line', 'many', 'target', 'value-spaces'])
        if kind == 'line': hdrs = 'X-Long: ' + 'v' * rng.choice([1023, 1024, 1025, 4096, 32767, 32768, 65535, 65536, 65537, 70000, 131073]) + '\r\n'
        elif kind == 'many': hdrs = ''.join('H%d: %d\r\n' % (i, i) for i in range(rng.choice([100, 500, 1500])))
        elif kind == 'value-spaces': hdrs = 'X-S:' + ' ' * rng.choice([255, 4096]) + 'v' + ' ' * rng.choice([0, 300]) + '\r\n'
        else: hdrs = ''
        tgt = '/' + 'a' * rng.choice([2000, 9000]) if kind == 'target' else '/big'
        stream = ('GET %s HTTP/1.1\r\n%sContent-Length: 2\r\n\r\nok' % (tgt, hdrs)).encode() + nxt
        cuts = sorted(rng.sample(range(1, len(stream)), rng.choice([0, 1, 3])))
    elif fam == 'chunk':
        size = rng.choice(['5', '05', '0005', '5;ext=1', '5 ; x', 'ffffffffffffffff', '10000000000000000', 'FFFFFFFFFFFFFFFFF', '-1', '0x5', '5\r', ''])
        stream = ('POST /c HTTP/1.1\r\nTransfer-Encoding: chunked\r\n\r\n%s\r\nhello\r\n0\r\n\r\n' % size).encode() + nxt
        cuts = sorted(rng.sample(range(1, len(stream)), rng.choice([0, 1, 2, 4])))
    else:
        v = rng.choice(['18446744073709551613', '18446744073709551614', '18446744073709551615', '18446744073709551616', '9223372036854775807',
                        '9223372036854775808', '4294967295', '4294967296', '2147483647', '2147483648', '00000000000000000000000000000003',
                        '1' + '0' * 30, '0', '00', '3', '65535', '65536', '32767', '32768', '+3', ' +3', '-3', '0x3', '3 ', '\t3', '٣', '3e0',
                        '0000000000000000000018446744073709551614', '0000000000000000000018446744073709551615'])
        stream = ('PUT /l HTTP/1.1\r\nContent-Length: %s\r\n\r\nabc' % v).encode() + nxt
        cuts = sorted(rng.sample(range(1, len(stream)), rng.choice([0, 1, 2])))
    segs, prev = [], 0
    for c in cuts + [len(stream)]:
        if c > prev: segs.append(stream[prev:c]); prev = c
    if rng.random() < (0.5 if fam == 'lenlimit' else 0.25):
        # a DECLARED length far beyond what will ever arrive, a short body, then the peer gives up
        tail = [rng.choice(['cclose', 'chalf', 'seg ' + hx(nxt)])] if fam == 'lenlimit' else []
        return ['srv', 'sync 0 6f6b', 'sync 1 6f6b'] + ['seg ' + hx(x) for x in segs] + tail
    return ['feed ' + hx(x) for x in segs]


def gen_server_case(rng):
    k = rng.choice([1, 2, 2, 3, 3, 4, 5])
    closing_at = rng.randrange(k + 2) if rng.random() < 0.6 else None   # may be beyond the pipeline = none
    bad_at = rng.randrange(k) if rng.random() < 0.12 else None
    reqs = []
    for i in range(k):
        bad = rng.choice(['len', 'method', 'target', 'nocolon', 'flip']) if i == bad_at else None
        reqs.append(gen_request(rng, declared=True, closing=(closing_at == i), bad=bad))
    ops = ['srv']
    sync = []                      # requests whose context is NOT kept (answered when the handler chain returns)
    for i in range(k):
        r = rng.random()
        if r < 0.25:
            sync.append(i); ops.append('sync %d %s' % (i, hx(rbody(rng))))
        elif r < 0.60:
            spec = gen_script(rng)
            ops.append('script %d %s' % (i, spec))
            if 'k' not in [a[0] for lv in spec.split('/') for a in lv.split('.')]: sync.append(i)
    stream = b''.join(reqs)
    segs = split_stream(rng, stream, rng.choice(['one', 'one', 'rand', 'edge', 'two']))
    if len(segs) > 12: segs = [b''.join(segs[:-11])] + segs[-11:]
    # delivered-so-far estimate (exact for well-formed pipelines) to place the `done` ops
    ends, pos = [], 0
    for rq in reqs:
        pos += len(rq); ends.append(pos)
    pending, fed = [], 0
    order = [i for i in range(k) if i not in sync]
    rng.shuffle(order)
    for s in segs:
        ops.append('seg ' + hx(s)); fed += len(s)
        while order and rng.random() < 0.5:
            cand = [i for i in order if ends[i] <= fed]
            if not cand: break
            i = cand[0]; order.remove(i)
            ops.append('done %d %s' % (i, hx(rbody(rng))))
    for i in order:
        ops.append('done %d %s' % (i, hx(rbody(rng))))
    if rng.random() < 0.3:
        ops.append('seg ' + hx(gen_request(rng)))      # traffic after everything (after close: must be ignored)
    ops = [richer_done(rng, o) if o.startswith('done ') else o for o in ops]
    first = 1 + len(sync)
    # peer half-close / write failure at a random point
    r = rng.random()
    if r < 0.10 and len(ops) > first:
        ops.insert(rng.randrange(first + 1, len(ops) + 1), HALF_OP)
    elif r < 0.18 and len(ops) > first:
        ops.insert(rng.randrange(first, len(ops) + 1), 'wfail')
    # the application stops / cleans up the server at a random point, outside any handler (late commits follow)
    if rng.random() < 0.10 and len(ops) > first:
        ops.insert(rng.randrange(first + 1, len(ops) + 1), rng.choice(['sstop', 'sclean']))
    # peer-initiated close at a random point (handlers may still complete afterwards)
    r = rng.random()
    if r < 0.25:
        first = 1 + len(sync)
        pos = rng.randrange(first + 1, len(ops) + 1) if len(ops) > first else len(ops)
        dones = [k for k in range(pos, len(ops)) if ops[k].startswith('done ')]
        if dones and rng.random() < 0.5:
            k = dones[0]; w = ops[k].split()
            v = rng.random()
            if v < 0.4: ops[k] = 'dclose %s %s' % (w[1], w[2])     # commit and peer close in the same loop pass
            elif v < 0.7: ops[k] = 'cdone %s %s' % (w[1], w[2])    # peer closes first: the commit's write gets EPIPE
            else: ops[k] = 'dcloseN %s %d %d' % (w[1], rng.choice([300000, 1000000]), rng.randrange(256))
        else:
            ops.insert(pos, 'cclose')
        if rng.random() < 0.2: ops.append('cclose')    # second close: bad-op on both sides
    return ops


RESP_HDRS = [('Content-Type', 'text/plain'), ('X-A', 'b'), ('Server', 'tbox'), ('Content-Length', '99'), ('X-Colon', 'a:b'),
             ('', 'empty-key'), ('X-Sp', ' v '), ('Set-Cookie', 'a=b; c=d'), ('X-Bin', '\x00\xff')]
STATUS = [200, 200, 201, 204, 206, 301, 400, 404, 500, 505, 299, 0, 999]


def richer_done(rng, op):
    """turn some plain `done i body` ops into doneR (status, headers) / rel (context dropped untouched)"""
    w = op.split()
    r = rng.random()
    if r < 0.30:
        hs = [rng.choice(RESP_HDRS) for _ in range(rng.choice([0, 1, 2, 3]))]
        kv = ','.join('%s:%s' % (hx(k.encode('latin-1')), hx(v.encode('latin-1'))) for (k, v) in hs) or '-'
        return 'doneR %s %d %s %s' % (w[1], rng.choice(STATUS), kv, w[2])
    if r < 0.38:
        return 'rel %s' % w[1]
    return op


def gen_big_case(rng):
    """responses larger than the socket buffer: partial writes, send-complete only after the buffer drained"""
    k = rng.choice([1, 2, 3])
    closing_at = rng.choice([None, k - 1, k - 1, 0])
    reqs = [gen_request(rng, declared=True, closing=(closing_at == i)) for i in range(k)]
    ops = ['srv', 'seg ' + hx(b''.join(reqs))]
    order = list(range(k)); rng.shuffle(order)
    for i in order:
        if rng.random() < 0.7:
            ops.append('doneN %d %d %d' % (i, rng.choice([5000, 70000, 300000, 1000000]), rng.randrange(256)))
        else:
            ops.append('done %d %s' % (i, hx(rbody(rng))))
    if rng.random() < 0.3: ops.append('cclose')
    return ops


# ----------------------------------------------------------------------------- url.cpp / request.cpp / respond.cpp values
def rbytes(rng, n=None, alpha=None):
    n = rng.choice([0, 1, 1, 2, 3, 5, 9]) if n is None else n
    if alpha is None:
        alpha = rng.choice([None, None, b'ab/;?#=&%+ .:@', b'%41%zz%4', b'\x00\xff\x80\x7f\r\n '])
    if alpha is None: return bytes(rng.randrange(256) for _ in range(n))
    return bytes(rng.choice(alpha) for _ in range(n))


def kvs(pairs):
    return ','.join('%s:%s' % (hx(k), hx(v)) for (k, v) in pairs) or '-'


def rmap(rng, allow_empty_key=True):
    out = []
    for _ in range(rng.choice([0, 0, 1, 1, 2, 3])):
        k = rbytes(rng)
        if not k and not (allow_empty_key and rng.random() < 0.15): k = b'k'
        out.append((k, rbytes(rng)))
    return out


def rpathval(rng, wf=False):
    p = b'/' + rbytes(rng)
    if not wf and rng.random() < 0.08: p = rbytes(rng)
    f = rbytes(rng, alpha=b'ab#=&/:. ') if wf or rng.random() < 0.6 else rbytes(rng)
    if rng.random() < 0.5: f = b''
    return p, rmap(rng, not wf), rmap(rng, not wf), f


HOST_STRS = ['h', 'example.com', 'h:80', 'h:0', 'h:65535', 'h:65536', 'h:99999', 'h:-1', 'h:+80', 'h: 80', 'h:80x', 'h:', 'h:abc', 'h:2147483647',
             'h:2147483648', 'h:99999999999999999999', ':80', '', '@', 'u@h', 'u:p@h', 'u:p@h:8080', 'u:@h', ':p@h', '@h', 'u@', 'a@b@c', 'u:p:q@h',
             'u@h:1:2', 'h:1:2', '%41@h', '%zz@h', 'u:%4@h', 'u@%', 'u@h%41', '%3a:%40@h', 'u:p@h:', 'u@:80', 'u:p@:', '::', ':@:', 'h:\t80', 'h:0x10',
             'h:00080', 'h:-65535', 'h:-65536', 'h:-2147483648', 'h:-2147483649', 'u:p@h:80/x', 'h:32767', 'h:32768', 'h:-32768', 'h:-32769',
             'h:4294967295', 'h:4294967296', 'h:9223372036854775808', 'h:65535x', 'h:65537', 'h:131071', 'h:131072']
URL_STRS = ['http://h/p', 'http://h', 'http://h/', 'http://u:p@h:80/a;b=c?d=e#f', 'h/p', 'h', '/', '/p?a=1', '', '://', 'a://', '://h', 'http:///p',
            'http://h?x=1', 'http://h#f', 'http://h:80', 'http://h:80x/p', 'http://h:/p', 'http://%41/p', 'http://%zz/p', 'http://h/%zz',
            'a://b://c/d', 'http://u:p@h/p#x://y', 'h/p#://', 'u://x@h/', 'u:%2f%2fx@h/', 'http:/h/p', 'http:h/p', ':///', 'http://h/p;', 'http://h/p?',
            'a:b://h/p', 'a/b://h/p', '://h/p', 'x:///', 'x://@/', 'x://:@:/']


def gen_url_case(rng):
    ops = []
    for _ in range(rng.choice([4, 8, 12])):
        r = rng.random()
        if r < 0.20:
            t = rng.choice(TARGETS + BAD_TARGETS).encode()
            if rng.random() < 0.4 and t:
                i = rng.randrange(len(t) + 1); t = t[:i] + rbytes(rng, rng.choice([1, 1, 2])) + t[i + rng.choice([0, 1]):]
            ops.append('upath ' + hx(t))
        elif r < 0.28:
            ops.append('upath ' + hx(rbytes(rng, rng.choice([1, 3, 8, 20]), b'/;?#=&%4a1 zZ\x00\xff')))
        elif r < 0.50:
            p, ps, qs, f = rpathval(rng, wf=rng.random() < 0.6)
            ops.append('mkpath %s %s %s %s' % (hx(p), kvs(ps), kvs(qs), hx(f)))
        elif r < 0.60:
            t = rng.choice(HOST_STRS).encode('latin-1')
            if rng.random() < 0.3:
                i = rng.randrange(len(t) + 1); t = t[:i] + rbytes(rng, 1) + t[i:]
            ops.append('uhost ' + hx(t))
        elif r < 0.72:
            t = rng.choice(URL_STRS).encode('latin-1')
            if rng.random() < 0.3:
                i = rng.randrange(len(t) + 1); t = t[:i] + rbytes(rng, 1) + t[i:]
            ops.append('url ' + hx(t))
        elif r < 0.86:
            p, ps, qs, f = rpathval(rng, wf=rng.random() < 0.7)
            tok = lambda: rbytes(rng, alpha=rng.choice([b'abc.-_', b'abc.-_', b'a%@:/']))
            us = tok(); pw = tok() if us or rng.random() < 0.2 else b''
            sc = rng.choice([b'http', b'https', b'', b'a:b', b'x/y', tok()])
            ops.append('mkurl %s %s %s %s %d %s %s %s %s' % (hx(sc), hx(us), hx(pw), hx(tok()), rng.choice([0, 0, 1, 80, 8080, 65535]),
                                                            hx(p), kvs(ps), kvs(qs), hx(f)))
        elif r < 0.93:
            b = rbytes(rng, rng.choice([1, 4, 12]))
            ops.append('enc %d %s' % (rng.randrange(2), hx(b)))
            ops.append('dec ' + hx(rbytes(rng, rng.choice([1, 3, 6]), b'%4aFg1z')))
        else:
            ops.append('dec ' + hx(rbytes(rng, rng.choice([2, 5, 9]))))
    return ops


REQ_HDR_KEYS = [b'Host', b'X-A', b'x-a', b'Content-Length', b'content-length', b'Connection', b'', b'X B', b' X', b'X:Y', b'X\rY', b'\xff\x00', b'Content-Type']
REQ_HDR_VALS = [b'v', b'', b' v', b'v ', b'a b', b'a:b', b'5', b'0', b'abc', b'18446744073709551614', b'18446744073709551615', b'\x00\xff', b'a\rb', b'a\r\nb', b'close', b'\tv']


def gen_msg_case(rng):
    """Request::toString / Respond::toString on arbitrary values, and the request text read back by RequestParser"""
    ops = []
    for _ in range(rng.choice([3, 6])):
        if rng.random() < 0.7:
            p, ps, qs, f = rpathval(rng, wf=rng.random() < 0.8)
            hs = [(rng.choice(REQ_HDR_KEYS) if rng.random() < 0.8 else rbytes(rng), rng.choice(REQ_HDR_VALS) if rng.random() < 0.8 else rbytes(rng))
                  for _ in range(rng.choice([0, 1, 2, 3]))]
            ops.append('mkreq %s %s %s %s %s %s %s %s' % (rng.choice(['kGet', 'kPost', 'kPut', 'kDelete', 'kHead', 'kTrace', 'kOptions', 'kUnset']),
                       hx(p), kvs(ps), kvs(qs), hx(f), rng.choice(['k1_1', 'k1_1', 'k1_0', 'k2_0', 'kUnset']), kvs(hs), hx(rbody(rng))))
        else:
            hs = [(rng.choice(REQ_HDR_KEYS), rng.choice(REQ_HDR_VALS)) for _ in range(rng.choice([0, 1, 2, 3]))]
            ops.append('mkres %s %d %s %s' % (rng.choice(['k1_1', 'k1_0', 'k2_0', 'kUnset']), rng.choice(STATUS), kvs(hs), hx(rbody(rng))))
    return ops


HDR_LINES = [b'X-A: b', b'X-A:b', b'X-A:   b', b'X-A : b', b' X-A: b', b'X-A: b ', b'X-A:  b  c  ', b'x-a: B', b'X-A: c', b'X-A:', b'X-A: ', b'X-A:    ',
             b':v', b': v', b' : v', b'NoColon', b'X-A: a:b', b'X-A::', b'X-A:: v', b'X-A:\tv', b'X-A: \tv', b'X\tA: v', b'X-A: v\t', b'X-A: \x00', b'X-\xff: \xfe',
             b'X-A: a\rb', b'X-A: a\nb', b'\nX-A: b', b'X-A: b\r', b'content-length: 3', b'CONTENT-LENGTH: 3', b'Content-length: 3', b'Content-Length : 3',
             b' Content-Length: 3', b'Content-Length:3', b'Content-Length:  3  ', b'Content-Length: 3', b'Content-Length: 0', b'Content-Length: 03',
             b'Content-Length: 3, 3', b'Content-Length: +3', b'Connection: close', b'connection: close', b'Connection: Close', b'Connection:close',
             b'Connection: keep-alive, close', b'Connection: closed', b'Connection : close', b'Connection: keep-alive', b'Host: h', b'Host:  h:80 ']


def gen_header_case(rng):
    """what exactly reaches the handler for odd header lines: case of names, duplicates, white space around name and value,
    empty values, no space after the colon, control and high bytes, several Content-Length spellings, long lines"""
    n = rng.choice([1, 2, 3, 4, 6])
    lines = [rng.choice(HDR_LINES) for _ in range(n)]
    if rng.random() < 0.15:
        lines.insert(rng.randrange(len(lines) + 1), b'X-Long: ' + bytes(rng.choice(b'ab ') for _ in range(rng.choice([200, 5000]))))
    if rng.random() < 0.15:
        lines.insert(rng.randrange(len(lines) + 1), rbytes(rng, rng.choice([1, 3, 8])) + b':' + rbytes(rng, rng.choice([1, 3, 8])))
    ver = rng.choice([b'HTTP/1.1', b'HTTP/1.1', b'HTTP/1.0'])
    stream = b'POST /h HTTP/1.1\r\n'.replace(b'HTTP/1.1', ver) + b''.join(l + b'\r\n' for l in lines) + b'\r\nabcGET /n HTTP/1.1\r\nContent-Length: 0\r\n\r\n'
    segs = split_stream(rng, stream, rng.choice(['one', 'one', 'edge', 'two', 'rand']))
    if rng.random() < 0.35:
        return ['srv', 'sync 0 6f6b', 'sync 1 6f6b'] + ['seg ' + hx(x) for x in segs]
    return ['feed ' + hx(x) for x in segs]


def gen_perm_case(rng, k=None, order=None):
    """k pipelined requests in ONE segment, every context kept, the handlers complete in a given permutation (the parked
    responses must be flushed exactly when the gap in front of them closes)"""
    k = k or rng.choice([5, 5, 6, 6, 4, 7])
    closing_at = rng.choice([None, None, k - 1, rng.randrange(k)])
    reqs = [('GET /%d HTTP/1.1\r\n%sContent-Length: 0\r\n\r\n' % (i, 'Connection: close\r\n' if closing_at == i else '')).encode() for i in range(k)]
    n = k if closing_at is None else closing_at + 1
    if order is None:
        order = list(range(n)); rng.shuffle(order)
    ops = ['srv', 'seg ' + hx(b''.join(reqs))]
    for i in order:
        if i < n: ops.append('done %d %s' % (i, hx(b'r%d' % i)))
    if rng.random() < 0.3: ops.append('seg ' + hx(reqs[0]))
    return ops


def gen_state_case(rng):
    """inputs derived from what the parser object (and the receive buffer) hold from the previous steps of the SAME connection:
    a request equal to the previous request's body; a body that contains a complete request; Content-Length equal to the bytes
    buffered right now +-1; header names differing only in case from Content-Length / Connection; duplicate Content-Length headers
    with different values; `close` inside a longer Connection value; the same request twice; a request equal to the previous
    request's header block; very many headers"""
    fam = rng.choice(['body-is-request', 'body-is-request', 'next-is-prev-body', 'cl-vs-buffered', 'cl-vs-buffered', 'case', 'dup-cl', 'dup-cl',
                      'conn-token', 'same-twice', 'prev-prefix', 'many'])
    inner = rng.choice([b'GET /in HTTP/1.1\r\nContent-Length: 0\r\n\r\n', b'GET /in HTTP/1.1\r\nConnection: close\r\nContent-Length: 0\r\n\r\n',
                        b'POST /in HTTP/1.1\r\nContent-Length: 3\r\n\r\nxyz', b'GET /in HTTP/1.0\r\n\r\n'])
    nxt = b'GET /next HTTP/1.1\r\nContent-Length: 0\r\n\r\n'
    server = rng.random() < 0.35
    segs = None
    if fam == 'body-is-request':        # must be delivered as a body, never parsed as a request
        d = rng.choice([0, 0, 0, -1, 1, len(inner)])
        outer = ('POST /o HTTP/1.1\r\nContent-Length: %d\r\n\r\n' % max(0, len(inner) + d)).encode() + inner
        stream = outer + nxt
        segs = split_stream(rng, stream, rng.choice(['one', 'edge', 'two', 'rand']))
        if rng.random() < 0.4:      # the body arrives as a segment of its own, exactly the inner request
            h = len(outer) - len(inner)
            segs = [stream[:h], inner, stream[h + len(inner):]]
    elif fam == 'next-is-prev-body':    # the next request's bytes EQUAL the previous body (and the previous whole request)
        outer = ('POST /o HTTP/1.1\r\nContent-Length: %d\r\n\r\n' % len(inner)).encode() + inner
        stream = outer + inner + outer + nxt
        segs = rng.choice([[outer, inner, outer, nxt], [outer + inner, outer + nxt], split_stream(rng, stream, 'edge')])
    elif fam == 'cl-vs-buffered':       # declared length = what is in the buffer when the blank line is parsed, -1, +1
        have = rng.choice([0, 1, 2, 3, 7, 8, 15, 16, 17, 63, 64, 65])
        d = rng.choice([-1, 0, 0, 1])
        cl = max(0, have + d)
        head = ('PUT /b HTTP/1.1\r\nContent-Length: %d\r\n\r\n' % cl).encode()
        body = bytes(rng.choice(b'GET /\r\n:x') for _ in range(have))
        rest = bytes(rng.choice(b'ab') for _ in range(max(0, cl - have))) + nxt
        first = head + body
        if rng.random() < 0.5:          # the previous request is still in front of it in the same segment
            first = nxt + first
        segs = [first] + ([rest[:1], rest[1:]] if rng.random() < 0.5 and len(rest) > 1 else [rest])
    elif fam == 'case':
        k1 = rng.choice(['content-length', 'CONTENT-LENGTH', 'Content-length', 'content-Length', 'Content-Length', 'CoNtEnT-LeNgTh'])
        k2 = rng.choice(['connection', 'CONNECTION', 'Connection', 'connectioN'])
        v2 = rng.choice(['close', 'Close', 'CLOSE', 'keep-alive', 'Keep-Alive'])
        stream = ('POST /c HTTP/%s\r\n%s: 3\r\n%s: %s\r\n\r\nabc' % (rng.choice(['1.1', '1.0']), k1, k2, v2)).encode() + nxt
        segs = split_stream(rng, stream, rng.choice(['one', 'edge', 'two']))
    elif fam == 'dup-cl':               # which one wins? (the last one parsed; the map keeps the last value)
        a_, b_ = rng.choice([(3, 5), (5, 3), (0, 3), (3, 0), (3, 3), (2, 4)])
        bad = rng.choice([None, None, 'x', '-1', ''])
        lines = ['Content-Length: %d' % a_, 'Content-Length: %s' % (bad if bad is not None else b_)]
        if rng.random() < 0.3: lines.insert(1, 'X-Mid: 1')
        if rng.random() < 0.3: lines.append('content-length: 1')
        stream = ('POST /d HTTP/1.1\r\n' + ''.join(l + '\r\n' for l in lines) + '\r\n').encode() + b'abcde' + nxt
        segs = split_stream(rng, stream, rng.choice(['one', 'edge', 'two', 'bytes']))
    elif fam == 'conn-token':
        v = rng.choice(['keep-alive, close', 'close, keep-alive', 'closed', 'xclosex', 'enclosed', 'clos', 'CLOSE', 'close ', 'keep-alive,close',
                        'Keep-Alive', 'keep-alive-not', 'xkeep-alivex', 'upgrade', 'c l o s e', 'close\tx'])
        ver = rng.choice(['1.1', '1.1', '1.0'])
        stream = ('GET /k HTTP/%s\r\nConnection: %s\r\nContent-Length: 0\r\n\r\n' % (ver, v)).encode() + nxt
        segs = split_stream(rng, stream, rng.choice(['one', 'one', 'edge']))
        server = rng.random() < 0.7
    elif fam == 'same-twice':           # the identical request again (a 'same as last time? skip' shortcut would show)
        r1 = gen_request(rng, closing=False if server else None)
        n = rng.choice([2, 3])
        stream = r1 * n
        segs = rng.choice([[r1] * n, [stream], split_stream(rng, stream, 'rand')])
    elif fam == 'prev-prefix':          # the next request is a prefix / the header block of the previous one
        r1 = b'POST /p HTTP/1.1\r\nX-A: b\r\nContent-Length: 4\r\n\r\nBODY'
        cut = rng.choice([len(r1) - 4, len(r1) - 6, 18, 10])
        stream = r1 + r1[:cut] + (b'' if cut < len(r1) - 4 else b'BODY') + nxt
        segs = split_stream(rng, stream, rng.choice(['one', 'edge', 'rand']))
    else:
        nh = rng.choice([64, 65, 255, 256, 257, 1000, 3000])
        same = rng.random() < 0.3
        hdrs = ''.join('%s: %d\r\n' % ('H' if same else 'H%d' % i, i) for i in range(nh))
        stream = ('GET /m HTTP/1.1\r\n%sContent-Length: 0\r\n\r\n' % hdrs).encode() + nxt
        segs = split_stream(rng, stream, rng.choice(['one', 'two', 'rand']))
    segs = [x for x in segs if x]
    if server:
        return ['srv', 'sync 0 6f6b', 'sync 1 6f6b', 'sync 2 6f6b', 'sync 3 6f6b'] + ['seg ' + hx(x) for x in segs]
    return ['feed ' + hx(x) for x in segs]


def gen_placement_case(rng):
    """everything besides parse() that takes a byte string: UrlDecode / UrlEncode / StringToUrlPath / StringToUrlHost / StringToUrl /
    Respond::toString with lengths 0..3 and around the 15/16 (small-string), 31/32 and 64-byte boundaries; the harness hands every
    input over as a heap string of exactly that size (right against the ASan redzone)"""
    ops = []
    for _ in range(rng.choice([4, 8])):
        n = rng.choice([0, 1, 2, 3, 4, 7, 8, 9, 14, 15, 16, 17, 22, 23, 24, 31, 32, 33, 63, 64, 65])
        kind = rng.choice(['dec', 'dec', 'dec-tail', 'enc', 'upath', 'uhost', 'url', 'mkres'])
        if kind == 'dec':
            ops.append('dec ' + hx(bytes(rng.choice(b'%4a1Fz ') for _ in range(n))))
        elif kind == 'dec-tail':        # an escape that ends exactly at / one or two bytes before the end of the string
            tail = rng.choice([b'%', b'%4', b'%41', b'%4g', b'%g', b'%%', b'%%4'])
            ops.append('dec ' + hx((b'a' * max(0, n - len(tail)) + tail)))
        elif kind == 'enc':
            ops.append('enc %d %s' % (rng.randrange(2), hx(bytes(rng.choice(b'ab /%\xff\x00.') for _ in range(n)))))
        elif kind == 'upath':
            t = b'/' + bytes(rng.choice(b'ab;?#=&%41') for _ in range(max(0, n - 1)))
            ops.append('upath ' + hx(t[:n]))
        elif kind == 'uhost':
            ops.append('uhost ' + hx(bytes(rng.choice(b'uh@:%419.') for _ in range(n))))
        elif kind == 'url':
            t = rng.choice([b'', b'a://', b'http://h']) + bytes(rng.choice(b'h/:@?#%4a') for _ in range(n))
            ops.append('url ' + hx(t[:n] if rng.random() < 0.5 else t))
        else:
            ops.append('mkres k1_1 %d - %s' % (rng.choice([200, 404, 0]), hx(b'x' * n)))
    return ops


def gen_multi_case(rng, nconn=None, fam=None):
    """several connections of ONE server, interleaved: every connection has its own pipeline (requests /c<j>/<i>), its segments and
    handler completions are interleaved with those of the others; connections are closed by the peer / a read error / a parse
    failure / a closing request while others are alive; stop()/cleanup() outside and from inside a handler with connections in
    different pipeline states; restart; a NEW connection reusing the cabinet slot of a torn-down one whose Contexts complete late"""
    nconn = nconn or rng.choice([2, 2, 3, 3, 4, 5])
    fam = fam or rng.choice(['mix', 'mix', 'mix', 'reuse', 'reuse', 'stop', 'hstop', 'restart', 'fault', 'pass', 'pass', 'passstop'])
    ops = ['srv']
    cur = [0]
    st = {}          # per connection: stream, fed, ends, kept, done, dead, nreq

    def mk(j):
        k = rng.choice([1, 2, 2, 3, 4])
        closing = rng.randrange(k + 2) if rng.random() < 0.35 else None
        bad = rng.randrange(k) if rng.random() < 0.08 else None
        reqs = []
        for i in range(k):
            body = b'' if rng.random() < 0.6 else bytes(rng.choice(b'abc\r\nG') for _ in range(rng.choice([1, 3, 9])))
            if i == bad: reqs.append(b'GE T /c%d/%d HTTP/1.1\r\n\r\n' % (j, i)); continue
            reqs.append(('%s /c%d/%d HTTP/1.1\r\n%sContent-Length: %d\r\n\r\n' % ('POST' if body else 'GET', j, i,
                         'Connection: close\r\n' if closing == i else '', len(body))).encode() + body)
        stream = b''.join(reqs)
        ends, pos = [], 0
        for r in reqs: pos += len(r); ends.append(pos)
        n = k if closing is None or closing >= k else closing + 1
        if bad is not None: n = min(n, bad)
        segs = split_stream(rng, stream, rng.choice(['one', 'two', 'rand', 'edge']))[:6]
        st[j] = dict(segs=segs, fed=0, ends=ends, n=n, kept=set(), done=set(), dead=False, scripts={})

    def on(j):
        if cur[0] != j:
            ops.append('on %d' % j); cur[0] = j

    def delivered(j): return [i for i in range(st[j]['n']) if st[j]['ends'][i] <= st[j]['fed']]

    def feed(j, collect=None):
        c = st[j]
        if not c['segs']: return False
        on(j)
        if c['fed'] == 0:          # handler scripts are set before the first segment
            for i in range(c['n']):
                r = rng.random()
                if r < 0.25: ops.append('sync %d %s' % (i, hx(b's%d.%d' % (j, i)))); c['scripts'][i] = 'b'
                elif r < 0.33:
                    sp = rng.choice(['n/b41', 'n/k', 'k.n/b42', 'n.n/b43', 'b41.b42'])
                    ops.append('script %d %s' % (i, sp)); c['scripts'][i] = sp
                elif fam in ('hstop', 'passstop') and r < 0.50:
                    sp = rng.choice(['s', 'c', 'k.s', 'k.c', 'b41.s', 'n/c'])
                    ops.append('script %d %s' % (i, sp)); c['scripts'][i] = sp
        sg = c['segs'].pop(0)
        c['fed'] += len(sg)
        if collect is None: ops.append('seg ' + hx(sg))
        else: collect.append((j, sg))
        return True

    def complete(j, late=False):
        c = st[j]
        cand = [i for i in delivered(j) if i not in c['done'] and ('k' in c['scripts'].get(i, 'k'))]
        if not cand: return False
        i = rng.choice(cand); c['done'].add(i)
        on(j)
        r = rng.random()
        if r < 0.7: ops.append('done %d %s' % (i, hx(b'r%d.%d' % (j, i))))
        elif r < 0.8: ops.append('rel %d' % i)
        elif r < 0.9: ops.append('doneR %d %d - %s' % (i, rng.choice([200, 404, 500]), hx(b'R%d.%d' % (j, i))))
        else: ops.append('doneN %d %d %d' % (i, rng.choice([5000, 70000]), 48 + j))
        return True

    mk(0)
    for j in range(1, nconn):
        if rng.random() < 0.6: ops.append('conn'); mk(j)
    steps = rng.choice([8, 12, 18, 25])
    for _ in range(steps):
        live = sorted(st)
        r = rng.random()
        j = rng.choice(live)
        if r < 0.40 and fam in ('pass', 'passstop') and len(live) >= 2:
            # several connections have a segment waiting in the same loop pass; the engine's order is part of the input
            items = []
            for jj in rng.sample(live, min(len(live), rng.choice([2, 2, 3, 4]))): feed(jj, items)
            if items: ops.append(rng.choice(['mseg ', 'msegr ']) + ','.join('%d:%s' % (jj, hx(sg)) for (jj, sg) in items))
        elif r < 0.40: feed(j)
        elif r < 0.70: complete(j)
        elif r < 0.76 and len(st) < nconn + (2 if fam in ('reuse', 'restart') else 0):
            ops.append('conn'); mk(len(st))
        elif r < 0.86 and fam in ('mix', 'reuse', 'fault'):
            if not st[j]['dead']:
                on(j); st[j]['dead'] = True
                ops.append(rng.choice(['cclose', 'cclose', 'cclose', 'chalf', 'rseg ' + hx(b'GET /x HTTP/1.1\r\n\r\n')]))
                if fam == 'reuse' and rng.random() < 0.8 and len(st) < 8:
                    ops.append('conn'); mk(len(st))          # takes the cabinet slot that was just freed
        elif r < 0.90 and fam == 'fault':
            on(j); ops.append(rng.choice(['wfail', 'wq ' + wq_spec(rng), 'wq ' + rng.choice(WQ_FIXED)]))
        elif r < 0.93 and fam in ('stop', 'restart'):
            ops.append(rng.choice(['sstop', 'sstop', 'sclean']))
            if fam == 'restart':
                ops.append('sstart')
                if len(st) < 8: ops.append('conn'); mk(len(st))
        elif r < 0.95 and fam == 'restart':
            ops.append('sstart')
    # everything that is still outstanding completes at the end (late commits of torn-down connections included)
    order = [(j, i) for j in st for i in delivered(j) if i not in st[j]['done'] and ('k' in st[j]['scripts'].get(i, 'k'))]
    rng.shuffle(order)
    for (j, i) in order:
        on(j); ops.append('done %d %s' % (i, hx(b'late%d.%d' % (j, i))))
    if rng.random() < 0.3:
        j = rng.choice(sorted(st)); on(j); ops.append('seg ' + hx(b'GET /after HTTP/1.1\r\nContent-Length: 0\r\n\r\n'))
    return ops


def multi_fixed():
    """directed multi-connection histories"""
    def rq(j, i, close=False):
        return ('GET /c%d/%d HTTP/1.1\r\n%sContent-Length: 0\r\n\r\n' % (j, i, 'Connection: close\r\n' if close else '')).encode()
    a3 = b''.join(rq(0, i) for i in range(3)); b3 = b''.join(rq(1, i) for i in range(3))
    # slot reuse: connection 0 is torn down with Contexts held (peer close / read error / parse failure / closing request / half
    # close), a new connection takes its cabinet slot, then the old Contexts complete: nothing may arrive at the new connection
    for down in (['cclose'], ['rseg 00'], ['seg ' + hx(b'BAD\r\n\r\n')], ['chalf'], ['seg ' + hx(rq(0, 3, True)), 'done 3 33', 'done 0 30', 'done 1 31', 'done 2 32']):
        yield ['srv', 'seg ' + hx(a3)] + down + ['conn', 'on 1', 'seg ' + hx(b3), 'on 0', 'done 0 58', 'done 1 59', 'on 1', 'done 1 31', 'done 0 30', 'on 0', 'done 2 5a', 'on 1', 'done 2 32']
    # same after stop()/cleanup() + start(): the cabinet was cleared, positions start again at 0 (ids must not)
    yield ['srv', 'conn', 'seg ' + hx(a3), 'on 1', 'seg ' + hx(b3), 'sstop', 'sstart', 'conn', 'conn', 'on 2', 'seg ' + hx(a3), 'on 3', 'seg ' + hx(b3),
           'on 0', 'done 0 58', 'on 1', 'done 0 59', 'done 1 59', 'on 2', 'done 0 30', 'on 3', 'done 1 31', 'done 0 30', 'on 0', 'done 1 58', 'done 2 58', 'on 2', 'done 1 31', 'done 2 32']
    # stop() / cleanup() with connections in different pipeline states: mid-request, responses parked, closing response pending, idle
    for stop in ('sstop', 'sclean'):
        yield ['srv', 'conn', 'conn', 'conn', 'seg ' + hx(a3[:20]), 'on 1', 'seg ' + hx(b3), 'done 2 32', 'done 1 31', 'on 2', 'seg ' + hx(rq(2, 0, True)), stop,
               'on 1', 'done 0 30', 'on 2', 'done 0 30', 'on 0', 'seg ' + hx(a3[20:]), 'on 3', 'seg ' + hx(b3), 'conn', 'sstart', 'conn', 'on 4', 'seg ' + hx(a3), 'done 0 30']
        # ... and from inside a handler of connection 1
        yield ['srv', 'conn', 'conn', 'seg ' + hx(a3), 'done 1 31', 'on 2', 'seg ' + hx(b3[:30]), 'on 1', 'script 1 ' + ('k.s' if stop == 'sstop' else 'k.c'), 'seg ' + hx(b3),
               'done 0 30', 'done 1 31', 'on 0', 'done 0 30', 'done 2 32', 'on 2', 'seg ' + hx(b3[30:]), 'sstart', 'conn']
    # two connections answer in opposite orders; the closing one is dropped, the other goes on
    yield ['srv', 'conn', 'seg ' + hx(a3), 'on 1', 'seg ' + hx(b3[:-len(rq(1, 2))] + rq(1, 2, True)), 'done 2 32', 'on 0', 'done 2 32', 'on 1', 'done 0 30', 'on 0', 'done 1 31',
           'on 1', 'done 1 31', 'on 0', 'done 0 30', 'seg ' + hx(a3), 'on 1', 'seg ' + hx(b3)]
    # write faults on one connection only (EPIPE for good / short counts), the other keeps delivering
    yield ['srv', 'conn', 'seg ' + hx(a3), 'on 1', 'seg ' + hx(b3), 'wfail', 'done 0 30', 'on 0', 'done 0 30', 'on 1', 'done 1 31', 'on 0', 'done 1 31', 'wq s3,a,e', 'done 2 32', 'on 1', 'done 2 32']
    # malformed lines
    yield ['conn', 'on 0', 'sstart', 'srv', 'on 1', 'on x', 'on', 'conn 1', 'conn', 'on 1', 'on 2', 'sstart', 'sstart x', 'conn', 'conn', 'conn', 'conn', 'conn', 'conn', 'conn', 'sclean', 'conn', 'sstart']


def gen_backlog_case(rng):
    """the listen backlog: clients connect before start() (`srvq`), while the server is stopped, from inside a handler (script
    prefix `q`) that may stop / clean up the server in the same call; some send at once (`connd`); start() accepts them in
    connect order over the cabinet cells of the torn-down connections, whose Contexts complete late (`done`, `dclose`, `cdone`);
    cleanup() with clients waiting; several connections readable in one pass (`mseg`)"""
    def rq(j, i, close=False, body=b''):
        return ('%s /b%d/%d HTTP/1.1\r\n%sContent-Length: %d\r\n\r\n' % ('POST' if body else 'GET', j, i, 'Connection: close\r\n' if close else '', len(body))).encode() + body
    first_q = rng.random() < 0.3
    ops = ['srvq'] if first_q else ['srv']
    state = 'inited' if first_q else 'running'
    conns = [] if first_q else [dict(alive=True, n=0, kept=[], pre=0)]
    pending = []        # pre-sent request counts of the clients in the backlog
    cur = [0]
    nq = [0]

    def on(j):
        if cur[0] != j: ops.append('on %d' % j); cur[0] = j

    def feed(j, same_pass=None):
        c = conns[j]
        k = rng.choice([1, 1, 2, 3])
        closing = rng.random() < 0.15
        scripts = {}
        on(j)
        for t in range(k):
            i = c['n'] + t
            r = rng.random()
            if r < 0.25: ops.append('sync %d %s' % (i, hx(b's%d.%d' % (j, i)))); scripts[i] = 'b'
            elif r < 0.55 and state[0] == 'r' and nq[0] < 3:
                sp = rng.choice(['q', 'q.k', 'q.k.s', 'q.s', 'q.k.c', 'q.b41', 'q.n/k', 'q/n/b42', 'q.b41.s', 'q.c'])
                nq[0] += 1
                ops.append('script %d %s' % (i, sp)); scripts[i] = sp
            elif r < 0.62: sp = rng.choice(['k.s', 's', 'b41.s']); ops.append('script %d %s' % (i, sp)); scripts[i] = sp
        data = b''.join(rq(j, c['n'] + t, closing and t == k - 1) for t in range(k))
        return k, scripts, data

    def account(j, k, scripts):
        """what the generator believes happened (approximate: ops that turn out impossible are refused by both sides)"""
        nonlocal state
        c = conns[j]
        if not c['alive'] or state != 'running': return
        for t in range(k):
            i = c['n']; c['n'] += 1
            sp = scripts.get(i, 'k')
            if sp.startswith('q'):
                pending.append(0)
            if 'k' in sp.split('/')[0] or sp in ('q', 's', 'q.s', 'q.c') and False: c['kept'].append(i)
            elif sp == 'k': c['kept'].append(i)
            if 's' in sp or sp.endswith('.c') or sp == 'q.c':
                state = 'none' if sp.endswith('c') else 'inited'
                for d in conns: d['alive'] = False
                if state == 'none': del pending[:]
                return
        # still running: whoever connected from a handler is accepted in the following passes
        while pending:
            conns.append(dict(alive=True, n=0, kept=[], pre=pending.pop(0)))

    for _ in range(rng.choice([6, 10, 14, 20])):
        r = rng.random()
        live = [j for j, c in enumerate(conns) if c['alive']]
        if state == 'running':
            if r < 0.35 and live:
                j = rng.choice(live)
                k, scripts, data = feed(j)
                ops.append('seg ' + hx(data)); account(j, k, scripts)
            elif r < 0.50 and len(live) >= 2:
                js = rng.sample(live, rng.choice([2, 2, 3]) if len(live) >= 3 else 2)
                items = []
                for j in js:
                    k, scripts, data = feed(j)
                    items.append((j, k, scripts, data))
                ops.append(rng.choice(['mseg ', 'msegr ']) + ','.join('%d:%s' % (j, hx(d)) for (j, _, _, d) in items))
                for (j, k, scripts, _) in items: account(j, k, scripts)
            elif r < 0.65:
                cand = [(j, i) for j, c in enumerate(conns) for i in c['kept']]
                if cand:
                    j, i = rng.choice(cand); conns[j]['kept'].remove(i); on(j)
                    ops.append(rng.choice(['done %d %s' % (i, hx(b'r%d.%d' % (j, i))), 'rel %d' % i, 'dclose %d 58' % i, 'cdone %d 59' % i]))
            elif r < 0.75 and len(conns) < 7: ops.append('conn'); conns.append(dict(alive=True, n=0, kept=[], pre=0))
            elif r < 0.90:
                ops.append(rng.choice(['sstop', 'sstop', 'sstop', 'sclean']))
                state = 'none' if ops[-1] == 'sclean' else 'inited'
                for d in conns: d['alive'] = False
            else: ops.append('sstart')
        elif state == 'inited':
            if r < 0.30 and len(conns) + len(pending) < 7 and len(pending) < 4:
                if rng.random() < 0.5: ops.append('conn'); pending.append(0)
                else:
                    j = len(conns) + len(pending); k = rng.choice([1, 2, 3])
                    ops.append('connd ' + hx(b''.join(rq(j, t, rng.random() < 0.1 and t == k - 1) for t in range(k)) + (b'GET /b%d/par' % j if rng.random() < 0.3 else b'')))
                    pending.append(k)
            elif r < 0.50:
                cand = [(j, i) for j, c in enumerate(conns) for i in c['kept']]
                if cand:
                    j, i = rng.choice(cand); conns[j]['kept'].remove(i); on(j)
                    ops.append(rng.choice(['done %d %s' % (i, hx(b'late%d.%d' % (j, i))), 'rel %d' % i, 'dclose %d 58' % i, 'cdone %d 59' % i]))
            elif r < 0.58 and conns:
                j = rng.randrange(len(conns)); on(j); ops.append('seg ' + hx(rq(j, 9)))
            elif r < 0.64: ops.append(rng.choice(['sstop', 'sclean'])); state = 'none' if ops[-1] == 'sclean' else state; pending[:] = [] if state == 'none' else pending
            elif r < 0.70 and conns: ops.append('on %d' % (len(conns) + len(pending))); ops.append('seg 00')     # nobody there yet
            else:
                ops.append('sstart'); state = 'running'
                for k in pending:
                    c = dict(alive=True, n=k, kept=list(range(k)), pre=k); conns.append(c)
                del pending[:]
        else:
            if r < 0.4: ops.append('conn')
            elif r < 0.6: ops.append('sstart')
            else:
                cand = [(j, i) for j, c in enumerate(conns) for i in c['kept']]
                if cand:
                    j, i = rng.choice(cand); conns[j]['kept'].remove(i); on(j)
                    ops.append(rng.choice(['done %d %s' % (i, hx(b'late%d.%d' % (j, i))), 'dclose %d 58' % i, 'cdone %d 59' % i]))
    cand = [(j, i) for j, c in enumerate(conns) for i in c['kept']]
    rng.shuffle(cand)
    for (j, i) in cand[:8]:
        on(j); ops.append('done %d %s' % (i, hx(b'end%d.%d' % (j, i))))
    return ops


def backlog_fixed():
    def rq(j, i, close=False):
        return ('GET /c%d/%d HTTP/1.1\r\n%sContent-Length: 0\r\n\r\n' % (j, i, 'Connection: close\r\n' if close else '')).encode()
    a3 = b''.join(rq(0, i) for i in range(3)); b3 = b''.join(rq(1, i) for i in range(3))
    # three connections readable in one pass, in an order that is not the order of writing; one of them closes
    yield ['srv', 'conn', 'conn', 'sync 0 30', 'on 1', 'sync 1 31', 'mseg 1:%s,0:%s,2:%s' % (hx(b3), hx(a3), hx(rq(2, 0, True))), 'on 2', 'done 0 32', 'on 0', 'done 1 31',
           'msegr 0:%s,1:%s' % (hx(a3), hx(b3)), 'done 2 32', 'on 1', 'done 0 30']
    # clients before start(); one has already sent three requests; stop with Contexts held; one more client; start; cleanup; refused
    yield ['srvq', 'seg 00', 'conn', 'connd ' + hx(a3), 'conn', 'on 0', 'sstart', 'on 1', 'done 0 30', 'on 2', 'on 0', 'seg ' + hx(b3), 'sstop', 'conn', 'sstart', 'on 3',
           'seg ' + hx(a3), 'on 0', 'done 1 31', 'sclean', 'conn', 'sstart', 'on 3', 'done 0 30']
    # a client connects while a handler runs which then stops the server / keeps running / cleans up
    yield ['srv', 'conn', 'script 0 q.k.s', 'script 1 q', 'seg ' + hx(a3), 'conn', 'sstart', 'on 2', 'seg ' + hx(b3), 'on 0', 'done 0 30', 'on 3', 'seg ' + hx(a3), 'on 2', 'done 1 31']
    yield ['srv', 'conn', 'script 1 q.k', 'seg ' + hx(a3), 'on 2', 'seg ' + hx(b3), 'on 0', 'script 3 q.c', 'seg ' + hx(rq(0, 3)), 'conn', 'sstart', 'on 2', 'done 0 30']
    # handler stop / throw while another connection of the same pass has not been read yet
    yield ['srv', 'conn', 'on 1', 'script 0 s', 'on 0', 'mseg 1:%s,0:%s' % (hx(b3), hx(a3)), 'sstart', 'conn', 'on 2', 'seg ' + hx(a3)]
    yield ['srv', 'conn', 'on 1', 'script 0 k.c', 'on 0', 'msegr 1:%s,0:%s' % (hx(b3), hx(a3)), 'on 1', 'done 0 30']
    yield ['srv', 'conn', 'on 1', 'script 0 t', 'on 0', 'sync 0 30', 'mseg 0:%s,1:%s' % (hx(a3), hx(b3))]
    # commit in the pass of the peer's close, on a connection torn down by stop(); its cabinet cell belongs to a new connection
    for late in (['dclose 0 58'], ['cdone 0 59'], ['dcloseN 0 70000 65']):
        yield ['srv', 'conn', 'seg ' + hx(a3), 'sstop', 'sstart', 'conn', 'on 2', 'seg ' + hx(b3), 'on 0'] + late + ['on 1', 'cdone 0 59', 'on 0', 'done 1 5a', 'on 2', 'done 0 30', 'done 1 31']
        yield ['srv', 'seg ' + hx(a3), 'cclose', 'conn', 'on 1', 'seg ' + hx(b3), 'on 0', 'done 1 31'] + late + ['on 1', 'done 0 30'] + late
    # malformed
    yield ['srvq', 'srvq', 'srv', 'connd', 'connd zz', 'connd -', 'mseg', 'mseg 0:00', 'sstart', 'conn', 'mseg 0:00,0:01', 'mseg 0:00,1:01', 'mseg 0:', 'mseg 0', 'mseg x:00', 'msegr 0:00,',
           'connd 00', 'script 0 k.q', 'script 0 n/q', 'script 0 q.q', 'script 0 q', 'wq p', 'mseg 0:00', 'seg ' + hx(a3)]


NASTY_ORDERS = [[1, 3, 0, 2], [1, 3, 0, 2, 4], [1, 3, 5, 0, 2, 4], [4, 2, 0, 1, 3], [1, 2, 4, 5, 0, 3], [5, 3, 1, 0, 2, 4], [2, 4, 1, 0, 3, 5],
                [1, 4, 0, 3, 2], [3, 1, 0, 2, 4], [1, 3, 4, 0, 2, 5], [2, 3, 5, 1, 0, 4], [5, 4, 3, 2, 1, 0], [1, 0, 3, 2, 5, 4], [0, 2, 4, 1, 3, 5]]


BASE = [b'GET / HTTP/1.1\r\nContent-Length: 0\r\n\r\n',
        b'POST /p;a=b?c=d#e HTTP/1.1\r\nHost: h\r\nContent-Length: 5\r\n\r\nab\r\n:',
        b'PUT /x HTTP/1.0\r\nConnection: keep-alive\r\nContent-Length: 2\r\n\r\nhiGET /y HTTP/1.1\r\nContent-Length: 0\r\n\r\n',
        b'GET /a HTTP/1.1\r\nContent-Length: abc\r\n\r\n',
        b'DELETE /%41 HTTP/2.0\r\nX: 1\r\nX: 2\r\nContent-Length: 1\r\n\r\nZ']


HALF_SPEC_CASES = 3     # the check examines the first MAX_REPORT diverging cases only: the recorded finding must not crowd others out


# The recorded half-close finding is reproduced on every run and counts as a property-level break of its case; the generic
# machinery reports a divergence that shows ONLY in model-internal (`M`) lines when no case has a property-level break, so the
# cases that reproduce the finding run in a pass of their own (`finding`) and everything else in the `main` pass, where a
# broken correspondence on `M sys` (socket options, shutdown, close order) or `M calls` is reported as such.
_PHASE = 'all'


def gen(rng, tier):
    nspec = 0
    if HALF_KNOWN and _PHASE in ('all', 'finding'):      # the recorded finding: responses outstanding when the peer half-closes
        three = ''.join('GET /%d HTTP/1.1\r\nContent-Length: 0\r\n\r\n' % i for i in range(3))
        yield ['srv', 'seg ' + hx(three), 'done 1 31', 'chalfS', 'done 0 30', 'done 2 32']
    for ops in gen_raw(rng, tier):
        for v in half_variants(list(ops)):
            if 'chalfS' in v:
                nspec += 1
                if nspec > HALF_SPEC_CASES or _PHASE == 'main': continue
            elif _PHASE == 'finding': continue
            yield v


def check(tier, seed, replay):
    """two passes of the standard check (see _PHASE); the evidence file describes the main pass and names the finding"""
    global _PHASE
    import types, json
    P = types.SimpleNamespace(**{k: v for k, v in globals().items() if k != 'check'})
    if replay or not HALF_KNOWN:
        _PHASE = 'all'
        return vlib.standard_check(P, tier, seed, replay)
    ev = os.path.join(vlib.VERIF, 'evidence', ID + '.json')
    _PHASE = 'finding'
    rc = vlib.standard_check(P, 'quick', seed, None)
    if rc != 0: return rc
    try: hit = json.load(open(ev))['coverage'].get('known_findings_hit', [])
    except Exception: hit = []
    _PHASE = 'main'
    rc = vlib.standard_check(P, tier, seed, None)
    try:
        e = json.load(open(ev))
        e['coverage']['known_findings_hit'] = list(e['coverage'].get('known_findings_hit', [])) + [h for h in hit if h not in e['coverage'].get('known_findings_hit', [])]
        e['coverage']['notes'] = list(e['coverage'].get('notes', [])) + ['the cases reproducing the recorded half-close finding ran in a separate pass before this one']
        json.dump(e, open(ev, 'w'), indent=1)
    except Exception:
        pass
    return rc


def gen_raw(rng, tier):
    # malformed op lines: both sides must answer bad-op
    yield ['feed 0g', 'feed', 'seg 00', 'done 0 00', 'sync 0 00', 'frob', 'feed 00 00']
    yield ['srv', 'feed 00', 'srv', 'seg -', 'seg zz', 'done 0 00', 'done x 00', 'sync 1 00', 'sync 1 01']
    # the standard method / version names against the fixed reference (a wrong table entry gets a concrete replay)
    yield ['method ' + hx(m) for m in METHODS] + ['version ' + hx(v) for v in ['HTTP/1.0', 'HTTP/1.1', 'HTTP/2.0']]
    yield ['method ' + hx(m) for m in ['get', 'GE', 'GETT', '', 'PATCH', 'GET ', 'CONNECT']] + \
          ['version ' + hx(v) for v in ['HTTP/1.2', 'http/1.1', 'HTTP/1.1 ', '', 'HTTP/3.0']] + ['method zz', 'version']
    # every two-way split and the byte-wise segmentation of a few base streams
    for b in BASE:
        yield ['feed ' + hx(b)]
        yield ['feed ' + hx(bytes([c])) for c in b]
        for c in (range(1, len(b)) if tier == 'thorough' else interesting_cuts(b)):
            yield ['feed ' + hx(b[:c]), 'feed ' + hx(b[c:])]
    n = 1500 if tier == "quick" else 60000
    for _ in range(n):
        yield gen_parser_case(rng)
    m = 350 if tier == "quick" else 10000
    for _ in range(m):
        yield gen_server_case(rng)
    # Content-Length 0 / exactly what is buffered / one more, with the body boundary cut at every place
    for L, d in [(0, 0), (0, 1), (1, 0), (1, 1), (1, -1), (3, 0), (3, 1), (3, -1)]:
        b = ('POST /e HTTP/1.1\r\nContent-Length: %d\r\n\r\n' % max(0, L + d)).encode() + b'x' * L + b'GET /n HTTP/1.1\r\nContent-Length: 0\r\n\r\n'
        yield ['feed ' + hx(b)]
        t = b.find(b'\r\n\r\n')
        for c in range(t, min(len(b), t + 4 + L + 3)):
            yield ['feed ' + hx(b[:c]), 'feed ' + hx(b[c:])]
            yield ['feed ' + hx(b[:c]), 'feed ' + hx(b[c:c + 1]), 'feed ' + hx(b[c + 1:])] if c + 1 < len(b) else ['feed ' + hx(b)]
    for _ in range(250 if tier == "quick" else 6000):
        yield gen_boundary_case(rng)
    three = ''.join('GET /%d HTTP/1.1\r\nContent-Length: 0\r\n\r\n' % i for i in range(3))
    yield ['srv', 'script 0 n', 'script 0 k', 'script 1 x', 'script 1 n/n/n/n', 'script 1 b0', 'script 1 n..k', 'script 1 ', 'script', 'sync 1 00', 'script 1 k']
    for sc in CHAIN_SCRIPTS + ABORT_SCRIPTS:
        yield ['srv', 'script 1 ' + sc, 'seg ' + hx(three), 'done 1 31', 'done 0 30', 'done 2 32', 'seg ' + hx(three)]
        yield ['srv', 'sync 0 61', 'script 1 ' + sc, 'sync 2 63', 'seg ' + hx(three), 'done 1 31']
    yield ['srv', 'doneR 0 200 - 00', 'rel 0', 'doneR', 'rel', 'chalf', 'chalf', 'wfail', 'cdone 0 00', 'dcloseN 0 5 1', 'cclose', 'chalf', 'wfail']
    yield ['srv', 'seg ' + hx(three), 'doneR 1 201 582d41:62,:76 6f6b', 'rel 0', 'doneR 2 1000 - 00', 'doneR 2 299 zz 00', 'doneR 2 299 41:42:43 00',
           'doneR 2 299 436f6e74656e742d4c656e677468:3939 626f6479']
    yield ['srv', 'seg ' + hx(three), 'done 1 31', HALF_OP, 'done 0 30', 'done 2 32', 'seg ' + hx(three)]
    yield ['srv', 'seg ' + hx(three), 'wfail', 'done 0 30', 'done 1 31', 'cclose', 'done 2 32']
    yield ['srv', 'cclose', 'cclose', 'dclose 0 00', 'doneN 0 10 1', 'doneN x 1 1', 'doneN 0 3000000 1', 'doneN 0 1 256']
    for _ in range(12 if tier == 'quick' else 150):
        yield gen_big_case(rng)
    # --- late commits after the connection / the server is gone (Context outlives its connection)
    for stop in ('sstop', 'sclean', 'cclose'):
        yield ['srv', 'seg ' + hx(three), 'done 1 31', stop, 'done 0 30', 'seg ' + hx(three), 'done 2 32', stop]
        yield ['srv', 'script 0 k', 'script 1 n/k.b41', 'script 2 b42', 'seg ' + hx(three), stop, 'rel 1', 'doneR 0 201 582d41:62 6f6b', 'sstop', 'sclean']
        yield ['srv', stop, 'seg ' + hx(three), 'done 0 30']
    yield ['srv', 'script 0 k.s', 'seg ' + hx(three), 'sclean', 'done 0 30', 'sstop']
    yield ['srv', 'script 1 k.c', 'seg ' + hx(three), 'done 1 31', 'sstop', 'done 0 30', 'sclean']
    yield ['srv', 'script 1 t', 'seg ' + hx(three), 'sstop', 'sclean']
    yield ['sstop', 'sclean', 'feed 00', 'sstop']
    # --- permutations of 4-7 pipelined requests (fixed nasty orders + random ones)
    for order in NASTY_ORDERS:
        yield gen_perm_case(rng, k=len(order), order=order)
        ops = gen_perm_case(rng, k=len(order) + 1, order=order)     # one request is never answered: a permanent gap
        yield ops
    for _ in range(60 if tier == 'quick' else 1500):
        yield gen_perm_case(rng)
    # --- url.cpp: all 256 byte values in every position class
    for b in range(256):
        c = bytes([b])
        yield ['enc 0 ' + hx(c), 'enc 1 ' + hx(c), 'dec ' + hx(c), 'dec ' + hx(b'%' + c + b'0'), 'dec ' + hx(b'%0' + c), 'dec ' + hx(b'a%' + c),
               'upath ' + hx(b'/a' + c + b'c'), 'upath ' + hx(b'/p;k' + c + b'=v' + c), 'upath ' + hx(b'/p?' + c + b'=' + c + b'&z=1'), 'upath ' + hx(b'/p#' + c),
               'upath ' + hx(c), 'upath ' + hx(b'/%' + c + b'1'),
               'mkpath %s %s %s -' % (hx(b'/p' + c), kvs([(b'k' + c, b'v' + c), (c, c)]), kvs([(c + c, b''), (b'a', c)])),
               'mkpath 2f - - ' + hx(b'f' + c),
               'uhost ' + hx(b'u' + c + b'@h' + c + b':8' + c), 'uhost ' + hx(c), 'url ' + hx(b's' + c + b'://h' + c + b'/p' + c),
               'mkurl %s %s %s %s 80 2f - - -' % (hx(b's' + c), hx(b'u' + c), hx(b'p' + c), hx(b'h' + c))]
    yield ['upath ' + hx(t) for t in TARGETS + BAD_TARGETS]
    yield ['uhost ' + hx(t.encode('latin-1')) for t in HOST_STRS] + ['url ' + hx(t.encode('latin-1')) for t in URL_STRS]
    yield ['upath', 'upath zz', 'uhost', 'url', 'url 0', 'mkpath 2f - -', 'mkpath 2f x - -', 'mkurl - - - - 65536 2f - - -', 'mkurl - - - - 1 2f - -', 'enc 2 00', 'enc 0',
           'dec', 'mkreq kGet 2f - - - k1_1 -', 'mkreq kFoo 2f - - - k1_1 - -', 'mkreq kGet 2f - - - k3_0 - -', 'mkres k1_1 1000 - -', 'mkres kX 200 - -', 'mkres k1_1 200 -']
    for _ in range(250 if tier == 'quick' else 6000):
        yield gen_url_case(rng)
    for _ in range(150 if tier == 'quick' else 4000):
        yield gen_msg_case(rng)
    for _ in range(250 if tier == 'quick' else 6000):
        yield gen_header_case(rng)
    # --- fault schedules: the kernel's answers to the server's write()/readv()/accept() calls
    yield ['srv', 'wq', 'wq x', 'wq p,,p', 'wq s', 'wq s-1', 'wq p,p,p,p,p,p,p,p,p', 'rseg', 'rseg -', 'rseg zz', 'wq p', 'cclose', 'rseg 00', 'wq e']
    yield ['srv 0', 'srv 6', 'srv x', 'srv 1 2', 'wq p', 'rseg 00', 'srv 2', 'srv 1', 'seg ' + hx(three), 'done 0 30']
    closing3 = three.replace('GET /2 HTTP/1.1\r\n', 'GET /2 HTTP/1.1\r\nConnection: close\r\n')
    for spec in WQ_FIXED:
        for stream in (three, closing3):
            yield ['srv', 'seg ' + hx(stream), 'done 2 32', 'done 1 31', 'wq ' + spec, 'done 0 30', 'seg ' + hx(three)]
            yield ['srv', 'sync 0 30', 'sync 1 31', 'sync 2 32', 'wq ' + spec, 'seg ' + hx(stream), 'seg ' + hx(three)]
        yield ['srv', 'seg ' + hx(three), 'wq ' + big_safe(spec), 'doneN 0 300000 65', 'done 1 31', 'done 2 32', 'cclose']
    for k in (1, 2, 3, 5):
        yield ['srv %d' % k, 'sync 0 30', 'seg ' + hx(three), 'done 1 31', 'rseg ' + hx(three), 'done 2 32']
    for _ in range(200 if tier == 'quick' else 5000):
        yield gen_fault_case(rng)
    # --- inputs derived from the state the parser / the connection keeps; placement of every other byte-string input
    for _ in range(300 if tier == 'quick' else 8000):
        yield gen_state_case(rng)
    for _ in range(100 if tier == 'quick' else 2500):
        yield gen_placement_case(rng)
    # --- several connections of one server, interleaved
    for ops in multi_fixed():
        yield ops
    for _ in range(300 if tier == 'quick' else 8000):
        yield gen_multi_case(rng)
    # --- the listen backlog; several connections readable in one loop pass; commits in the pass of the peer's close
    for ops in backlog_fixed():
        yield ops
    for _ in range(300 if tier == 'quick' else 8000):
        yield gen_backlog_case(rng)


def nontrivial(ops, model_lines):
    tags = ' '.join(l for l in model_lines if l.startswith('B '))
    nseg = sum(1 for o in ops if o.startswith(('feed ', 'seg ')))
    if 'req-' in tags and nseg >= 2: return 1
    if any(t in tags for t in ('wq-', 'read-error', 'accept-errors', 'parked', 'wrote-flush', 'wrote-closing', 'parse-fail', 'seg-after-close', 'peer-close', 'doneN', 'doneR', 'rel-', 'half-close', 'wfail', 'epipe', 'h-', 'url-', 'absurl-', 'host-', 'upath-', 'uhost-', 'mkreq', 'mkres', 'stop-', 'multi-', 'conn', 'stale-token', 'sstart', 'same-pass', 'backlog-', 'srvq', 'mseg')): return 1
    return None


def _as_coded_agrees(ops):
    """does the same history with the half-close handled AS CODED (`chalf`) agree between implementation and model?"""
    import hashlib
    rkey = '' if vlib.REPO == '/repo' else '_' + hashlib.sha1(vlib.REPO.encode()).hexdigest()[:8]
    exe = os.path.join(vlib.CACHE, ID, 'harness_' + FLAVOUR + rkey)
    alt = ['chalf' if o == 'chalfS' else o for o in ops]
    try:
        il, _ = vlib.run_harness_cases(exe, {0: alt}, timeout_per_batch=60)
        ml = vlib.run_driver_cases(EXE, {0: alt})
        return vlib.first_diff(il.get(0, []), ml.get(0, [])) is None
    except Exception:
        return False


def fingerprint(ops, d):
    """class of the divergence: what the implementation printed vs what the model expected"""
    import hashlib
    def cls(line):
        w = line.split()
        if not w: return 'none'
        if w[0] == 'CRASH': return 'crash:' + (w[1] if len(w) > 1 else '')
        if w[0] in ('P', 'M') and len(w) > 1: return w[0] + '-' + w[1].split('=')[0]
        return w[0]
    mode = 'srv' if any(o.startswith('srv') for o in ops) else 'parser'
    if any(o == 'chalfS' for o in ops):
        # the recorded finding, and only it: the implementation reports the end of the stream where the property still
        # expects the outstanding responses, AND the very same history agrees with the model of the code as it is; any
        # other deviation in a history with a half-close keeps its own fingerprint and is reported as a violation
        impl_line = d[1] if d else ''
        if impl_line.strip() in ('P eof', 'P out -') and not impl_line.startswith('CRASH') and _as_coded_agrees(ops):
            return HALF_FP
        return (mode + '-halfclose-other-' + cls(d[1] if d else '') + '-vs-' + cls(d[2] if d else '')).replace('/', '_').replace(':', '_').replace('<', '').replace('>', '')
    if not d: return mode + '-none'
    return (mode + '-' + cls(d[1]) + '-vs-' + cls(d[2])).replace('/', '_').replace(':', '_').replace('<', '').replace('>', '')
