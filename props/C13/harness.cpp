// C13 harness.
//  world A: the real tbox::terminal::Terminal with a recording Connection and probe command
//           nodes (ops open/recv/pass/opt/winsz/close + node-tree ops);
//  world B: the real Telnetd::Impl / TcpRpc::Impl framing code driven directly
//           (onTcpConnected / onTcpReceived with an exactly sized Buffer, so that a read past
//           the received bytes is a heap-buffer-overflow for ASan) against a recording
//           TerminalInteract;
//  mode `dump`: the key scanner's complete transition table (BFS over reachable step_ values
//           x 256 bytes) in the text format props/C13/plugin.py turns into Gen.lean.
// Every line is flushed at once: a crash must be attributed to the right case.
#include "vh.h"
#include <algorithm>
#include <cstring>
#include <deque>
#include <functional>
#include <map>
#include <memory>
#include <set>
#include <sstream>
#include <string>
#include <vector>
#include <tbox/base/log.h>
#include <tbox/base/log_output.h>
#include <tbox/base/cabinet.hpp>
#include <tbox/base/object_pool.hpp>
#include <tbox/event/loop.h>
#include <tbox/network/tcp_server.h>
#include <tbox/util/buffer.h>

// the scanner's step_, and the services' Impl classes, are private: open them for the harness
#define private public
#define protected public
#include <tbox/terminal/impl/key_event_scanner.h>
#include <tbox/terminal/terminal.h>
#include <tbox/terminal/session.h>
#include <tbox/terminal/connection.h>
#include <tbox/terminal/service/telnetd.h>
#include <tbox/terminal/service/tcp_rpc.h>
#include <tbox/terminal/impl/service/telnetd.h>
#include <tbox/terminal/impl/service/tcp_rpc.h>
#undef private
#undef protected

using namespace tbox;
using namespace tbox::terminal;

// ------------------------------------------------------------------ event recording
static std::vector<std::string> g_ev;     // lines of the current op
static std::string g_tx;                  // pending (merged) bytes sent to the client
static void flush_tx() { if (!g_tx.empty()) { g_ev.push_back("P tx " + vh::hex(g_tx)); g_tx.clear(); } }
static void ev(const std::string &s) { flush_tx(); g_ev.push_back(s); }
static void emit() { flush_tx(); for (auto &l : g_ev) std::cout << l << "\n"; g_ev.clear(); std::cout.flush(); }

// ------------------------------------------------------------------ world A
struct RecConn : public Connection {
    SessionToken tok;
    virtual bool send(const SessionToken &st, char ch) override {
        if (st != tok) { ev("P tx-other"); return false; }
        g_tx.push_back(ch); return true;
    }
    virtual bool send(const SessionToken &st, const std::string &str) override {
        if (st != tok) { ev("P tx-other"); return false; }
        g_tx += str; return true;
    }
    virtual bool endSession(const SessionToken &st) override { ev(st == tok ? "P end" : "P end-other"); return true; }
    virtual bool isValid(const SessionToken &) const override { return true; }
    virtual ~RecConn() {}
};

struct WorldA {
    event::Loop *loop = nullptr;
    Terminal *term = nullptr;
    RecConn conn;
    bool opened = false;
    std::vector<NodeToken> nodes;      // harness index -> token (0 = root)
    WorldA() {
        loop = event::Loop::New();
        term = new Terminal(loop);
        term->setWelcomeText("Welcome\r\n");
        nodes.push_back(term->rootNode());
    }
    // drain queued tasks while the terminal still exists (the order a host program has to keep), silently
    ~WorldA() { pass(); g_ev.clear(); g_tx.clear(); delete term; delete loop; }
    void pass() { loop->runNext([] {}, "verif-pass"); loop->runLoop(event::Loop::Mode::kOnce); }
};

// ------------------------------------------------------------------ world B
struct MockTerm : public TerminalInteract {
    size_t next_id = 0;
    std::map<SessionToken, uint32_t> opts;
    virtual SessionToken newSession(Connection *) override { ++next_id; SessionToken t(next_id, next_id); opts[t] = 0; ev("P new"); return t; }
    virtual bool deleteSession(const SessionToken &st) override { ev("P del"); return opts.erase(st) > 0; }
    virtual uint32_t getOptions(const SessionToken &st) const override { auto it = opts.find(st); return it == opts.end() ? 0 : it->second; }
    virtual void setOptions(const SessionToken &st, uint32_t o) override { opts[st] = o; ev("P setopt " + std::to_string(o)); }
    virtual bool onBegin(const SessionToken &) override { ev("P begin"); return true; }
    virtual bool onExit(const SessionToken &) override { ev("P exit"); return true; }
    virtual bool onRecvString(const SessionToken &, const std::string &s) override { ev("P str " + vh::hex(s)); return true; }
    virtual bool onRecvWindowSize(const SessionToken &, uint16_t w, uint16_t h) override {
        ev("P win " + std::to_string(w) + " " + std::to_string(h)); return true; }
    virtual ~MockTerm() {}
};

template <class ImplT>
struct Front {
    ImplT impl;
    network::TcpServer::ConnToken ct;
    SessionToken st;
    int state = 0;               // 0 = never connected, 1 = connected, 2 = ended/disconnected
    std::vector<uint8_t> pending;
    Front(event::Loop *l, MockTerm *t) : impl(l, t), ct(77, 3) {}
};

struct WorldB {
    event::Loop *loop = nullptr;
    MockTerm term;
    std::unique_ptr<Front<Telnetd::Impl>> tel;
    std::unique_ptr<Front<TcpRpc::Impl>> rpc;
    WorldB() {
        loop = event::Loop::New();
        tel.reset(new Front<Telnetd::Impl>(loop, &term));
        rpc.reset(new Front<TcpRpc::Impl>(loop, &term));
    }
    ~WorldB() { pass(); g_ev.clear(); g_tx.clear(); tel.reset(); rpc.reset(); delete loop; }
    void pass() { loop->runNext([] {}, "verif-pass"); loop->runLoop(event::Loop::Mode::kOnce); }
};

template <class F>
static bool front_op(WorldB &b, F &f, const std::string &op, const std::vector<std::string> &w) {
    if (op == "conn" && w.size() == 1 && f.state == 0) {
        f.impl.onTcpConnected(f.ct);
        f.st = f.impl.client_to_session_.at(f.ct);
        f.state = 1;
        return true;
    }
    std::vector<uint8_t> d;
    if (op == "recv" && w.size() == 2 && f.state == 1 && vh::unhex(w[1], d)) {
        // what TcpConnection does: append to the accumulating receive buffer, call back; here the
        // buffer holds exactly the unconsumed bytes + the new segment (no slack)
        size_t n = f.pending.size() + d.size();
        util::Buffer buf(n);
        if (!f.pending.empty()) buf.append(f.pending.data(), f.pending.size());
        if (!d.empty()) buf.append(d.data(), d.size());
        if (n > 0) f.impl.onTcpReceived(f.ct, buf);
        f.pending.assign(buf.readableBegin(), buf.readableBegin() + buf.readableSize());
        ev("M rest=" + std::to_string(f.pending.size()));
        return true;
    }
    if (op == "disc" && w.size() == 1 && f.state == 1) {
        f.impl.onTcpDisconnected(f.ct);
        f.state = 2;
        return true;
    }
    if (op == "end" && w.size() == 1 && f.state >= 1) {
        bool r = f.impl.endSession(f.st);
        b.pass();
        f.state = 2;
        ev(std::string("P ret=") + (r ? "1" : "0"));
        return true;
    }
    if (op == "send" && w.size() == 1 && f.state >= 1) {
        // a command node that kept its Session replies later (maybe after the client went away)
        bool r1 = f.impl.send(f.st, std::string("late"));
        bool r2 = f.impl.send(f.st, 'x');
        bool v = f.impl.isValid(f.st);
        ev(std::string("P ret=") + (r1 ? "1" : "0") + (r2 ? "1" : "0") + " valid=" + (v ? "1" : "0"));
        return true;
    }
    return false;
}

// ------------------------------------------------------------------ scanner dump
static const char *kResultNames[] = {
    "none", "printable", "tab", "backspace", "esc", "enter", "altplus", "ctrlaltplus",
    "up", "down", "left", "right", "home", "insert", "delete", "end", "pageup", "pagedown",
    "f1", "f2", "f3", "f4", "f5", "f6", "f7", "f8", "f9", "f10", "f11", "f12" };

static int dump_scanner() {
    typedef KeyEventScanner::Step Step;
    std::vector<int> order;              // BFS order of raw step values; index = model state id
    std::map<int, int> id;
    KeyEventScanner probe; probe.start();
    order.push_back((int)probe.step_); id[(int)probe.step_] = 0;
    std::ostringstream rows;
    for (size_t k = 0; k < order.size(); ++k) {
        if (order.size() > 200) { std::cerr << "scanner state space unexpectedly large\n"; return 2; }
        for (int b = 0; b < 256; ++b) {
            KeyEventScanner s; s.start(); s.step_ = (Step)order[k];
            auto st = s.next((uint8_t)b);
            int raw = (int)s.step_;
            if (st == KeyEventScanner::Status::kUnsure || st == KeyEventScanner::Status::kFail) {
                if (!id.count(raw)) { id[raw] = (int)order.size(); order.push_back(raw); }
            }
            if (st == KeyEventScanner::Status::kUnsure) rows << "t " << k << " " << b << " u " << id[raw] << "\n";
            else if (st == KeyEventScanner::Status::kEnsure) {
                int r = (int)s.result();
                if (r < 0 || r >= (int)(sizeof(kResultNames) / sizeof(*kResultNames))) return 3;
                rows << "t " << k << " " << b << " e " << kResultNames[r] << "\n";
            } else if (id[raw] != 0) rows << "t " << k << " " << b << " f " << id[raw] << "\n";   // fail not going to state 0
            // plain fail (-> state 0) is the default and not listed
        }
    }
    std::cout << "states " << order.size() << "\n" << rows.str();
    for (size_t k = 0; k < order.size(); ++k) {
        KeyEventScanner s; s.start(); s.step_ = (Step)order[k];
        auto st = s.stop();
        if (st == KeyEventScanner::Status::kEnsure) std::cout << "s " << k << " e " << kResultNames[(int)s.result()] << "\n";
        else std::cout << "s " << k << " f\n";
    }
    std::cout << "end\n";
    return 0;
}

// ------------------------------------------------------------------ main loop
static bool idx(const std::string &s, size_t lim, size_t &out) {
    uint64_t v; if (!vh::to_u64(s, v) || v >= lim) return false; out = v; return true;
}

int main(int argc, char **argv) {
    LogOutput_Disable();
    if (argc > 1 && std::string(argv[1]) == "dump") return dump_scanner();
    std::unique_ptr<WorldA> A; std::unique_ptr<WorldB> B;
    std::string line;
    while (std::getline(std::cin, line)) {
        auto w = vh::words(line);
        if (w.empty()) continue;
        if (w[0] == "case") {
            A.reset(); B.reset();
            A.reset(new WorldA());
            std::cout << line << "\n"; std::cout.flush();
            continue;
        }
        if (!A) A.reset(new WorldA());
        const std::string &op = w[0];
        bool ok = true;
        std::vector<uint8_t> d; uint64_t n = 0, m = 0; size_t i = 0, j = 0;
        if (op == "open" && w.size() == 2 && vh::to_u64(w[1], n) && n < 4 && !A->opened) {
            A->conn.tok = A->term->newSession(&A->conn);
            A->opened = true;
            A->term->setOptions(A->conn.tok, (uint32_t)n);
            bool r = A->term->onBegin(A->conn.tok);
            ev(std::string("P ret=") + (r ? "1" : "0"));
        } else if (op == "recv" && w.size() == 2 && vh::unhex(w[1], d) && A->opened) {
            bool r = A->term->onRecvString(A->conn.tok, std::string(d.begin(), d.end()));
            ev(std::string("P ret=") + (r ? "1" : "0"));
        } else if (op == "pass" && w.size() == 1) {
            A->pass();
            ev("P pass");
        } else if (op == "opt" && w.size() == 2 && vh::to_u64(w[1], n) && n < 4 && A->opened) {
            A->term->setOptions(A->conn.tok, (uint32_t)n);
            ev("P opt=" + std::to_string(A->term->getOptions(A->conn.tok)));
        } else if (op == "winsz" && w.size() == 3 && vh::to_u64(w[1], n) && vh::to_u64(w[2], m) && n < 65536 && m < 65536 && A->opened) {
            bool r = A->term->onRecvWindowSize(A->conn.tok, (uint16_t)n, (uint16_t)m);
            ev(std::string("P ret=") + (r ? "1" : "0"));
        } else if (op == "close" && w.size() == 1 && A->opened) {
            bool r = A->term->deleteSession(A->conn.tok);
            ev(std::string("P ret=") + (r ? "1" : "0"));
        } else if (op == "mkdir" && w.size() == 1 && A->nodes.size() < 16) {
            size_t id = A->nodes.size();
            A->nodes.push_back(A->term->createDirNode("help-" + std::to_string(id)));
            ev("P node=" + std::to_string(id));
        } else if (op == "mkfunc" && w.size() == 1 && A->nodes.size() < 16) {
            size_t id = A->nodes.size();
            A->nodes.push_back(A->term->createFuncNode(
                [id](const Session &s, const Args &a) {
                    std::string l = "P probe " + std::to_string(id) + " " + std::to_string(a.size());
                    for (auto &x : a) l += " " + vh::hex(x);
                    ev(l);
                    s.send("<" + std::to_string(id) + ">\r\n");
                }, "help-" + std::to_string(id)));
            ev("P node=" + std::to_string(id));
        } else if (op == "mount" && w.size() == 4 && idx(w[1], A->nodes.size(), i) && idx(w[2], A->nodes.size(), j) && vh::unhex(w[3], d)) {
            bool r = A->term->mountNode(A->nodes[i], A->nodes[j], std::string(d.begin(), d.end()));
            ev(std::string("P ret=") + (r ? "1" : "0"));
        } else if (op == "umount" && w.size() == 3 && idx(w[1], A->nodes.size(), i) && vh::unhex(w[2], d)) {
            bool r = A->term->umountNode(A->nodes[i], std::string(d.begin(), d.end()));
            ev(std::string("P ret=") + (r ? "1" : "0"));
        } else if (op == "rmnode" && w.size() == 2 && idx(w[1], A->nodes.size(), i) && i != 0) {
            bool r = A->term->deleteNode(A->nodes[i]);
            ev(std::string("P ret=") + (r ? "1" : "0"));
        } else if (op.size() > 1 && (op[0] == 't' || op[0] == 'r') &&
                   (op.substr(1) == "conn" || op.substr(1) == "recv" || op.substr(1) == "disc" || op.substr(1) == "end" || op.substr(1) == "send")) {
            if (!B) B.reset(new WorldB());
            ok = (op[0] == 't') ? front_op(*B, *B->tel, op.substr(1), w) : front_op(*B, *B->rpc, op.substr(1), w);
        } else ok = false;
        if (!ok) { g_ev.clear(); g_tx.clear(); std::cout << "bad-op\n"; std::cout.flush(); continue; }
        emit();
    }
    return 0;
}
