// C13 harness.
//  world A: ONE real tbox::terminal::Terminal (one node tree) shared by eight session slots:
//           slots 0-3  sessions on a recording Connection (ops sel/open/recv/opt/winsz/close),
//           slots 4,5  two telnet clients of one real Telnetd::Impl, slot 6 a client of the real
//                      TcpRpc::Impl (ops xconn/xrecv/xdisc): each client is a socketpair whose server
//                      end is handed to the real TcpServer as a TcpConnection, so what the services send
//                      (telnet negotiation included) and whom they disconnect goes through the real
//                      Telnetd/TcpRpc -> TcpServer -> TcpConnection -> socket path and is read back from
//                      the client end; received bytes are handed to Impl::onTcpReceived in an exactly
//                      sized Buffer (a read past the received bytes is a heap-buffer-overflow for ASan),
//           slot 7     the real Stdio::Impl over the real StdioStream/BufferedFd with fds 0 and 1
//                      redirected to pipes (ops sstart/srecv/sstop; the op protocol itself runs
//                      on duplicates of the original fds);
//           pass = one drained loop pass; teardown = destroy services, Terminal, then the Loop
//           WITHOUT draining first (a host shutting down while an exit task is queued); passdown = one loop
//           pass whose last task destroys services and Terminal (shutdown in the same pass as a client's exit);
//           probe command nodes, node-tree ops, split (util::SplitCmdline directly).
//  world B: Telnetd::Impl / TcpRpc::Impl against a recording TerminalInteract (framing events).
//  mode `dump`: the key scanner's complete transition table (BFS over reachable step_ values
//           x 256 bytes) in the text format props/C13/plugin.py turns into Gen.lean.
// Lines of one op are grouped by connection: sessions on the recording connection (slots 0-3) form one
// group in chronological order, every socket / pipe client is a group (separate connections have no mutual order); every line is flushed at once: a crash must be attributed to the right case.
#include "vh.h"
#include <fcntl.h>
#include <signal.h>
#include <unistd.h>
#include <algorithm>
#include <cstring>
#include <deque>
#include <functional>
#include <map>
#include <memory>
#include <set>
#include <sstream>
#include <string>
#include <vector>
#include <tbox/base/log.h>
#include <tbox/base/log_output.h>
#include <tbox/base/cabinet.hpp>
#include <tbox/base/object_pool.hpp>
#include <tbox/event/loop.h>
#include <sys/socket.h>
#include <dlfcn.h>
#include <errno.h>
#include <tbox/util/buffer.h>
#include <tbox/util/split_cmdline.h>
#include <tbox/util/string.h>
#include <sys/uio.h>
#include <sys/ioctl.h>
#include <sys/un.h>

// the scanner's step_, and the services' Impl classes, are private: open them for the harness
#define private public
#define protected public
#include <tbox/network/buffered_fd.h>
#include <tbox/network/stdio_stream.h>
#include <tbox/network/tcp_server.h>
#include <tbox/network/tcp_connection.h>
#include <tbox/network/tcp_acceptor.h>
#include <tbox/terminal/session.h>
#include <tbox/terminal/impl/key_event_scanner.h>
#include <tbox/terminal/terminal.h>
#include <tbox/terminal/session.h>
#include <tbox/terminal/connection.h>
#include <tbox/terminal/service/telnetd.h>
#include <tbox/terminal/service/tcp_rpc.h>
#include <tbox/terminal/service/stdio.h>
#include <tbox/terminal/impl/service/telnetd.h>
#include <tbox/terminal/impl/service/tcp_rpc.h>
#include <tbox/terminal/impl/service/stdio.h>
#include <tbox/terminal/impl/terminal.h>
#undef private
#undef protected

using namespace tbox;
using namespace tbox::terminal;

// ------------------------------------------------------------------ protocol I/O (not on fd 0/1)
static FILE *g_in = nullptr, *g_out = nullptr;
static void outln(const std::string &s) { fputs(s.c_str(), g_out); fputc('\n', g_out); fflush(g_out); }

// ------------------------------------------------------------------ the kernel's answers to write() on the clients' sockets
// mode per server-side fd (op `wfault k m`): 0 everything is taken, 1 short counts (1..3 bytes), 2 EAGAIN on every
// other call, 3 EPIPE (BufferedFd::send logs and drops the data). What BufferedFd queues is flushed at the end of the
// op by the calls the loop's write event would make (pump_clients), so the client sees the same bytes in the same order.
static int g_wmode[4096];
static unsigned g_wcalls = 0;
typedef ssize_t (*write_t)(int, const void *, size_t);
static write_t real_write() { static write_t f = (write_t)dlsym(RTLD_NEXT, "write"); return f; }
extern "C" ssize_t write(int fd, const void *p, size_t n) {
    int m = (fd >= 0 && fd < 4096) ? g_wmode[fd] : 0;
    if (m == 0 || n == 0) return real_write()(fd, p, n);
    ++g_wcalls;
    if (m == 3) { errno = EPIPE; return -1; }
    if (m == 2 && (g_wcalls & 1)) { errno = EAGAIN; return -1; }
    size_t k = (m == 1) ? 1 + g_wcalls % 3 : n;
    return real_write()(fd, p, k < n ? k : n);
}

// ------------------------------------------------------------------ the kernel's answers on the SERVICE's end of a client's socket
// g_fdslot maps a descriptor accepted for slot 4..6 to its slot; every system call the code makes on such a descriptor is
// recorded as a token of that slot's `M sys` line. The answers to readv()/read() come from the op (`xsock`): sizes of the
// successful calls, then EAGAIN / end of file / ECONNRESET / EINTR / EIO; with nothing scripted the real kernel answers.
// (EINTR: BufferedFd treats it like EAGAIN since fix 1c1abc6 — the model predicts no close for it.)
struct RAns { char kind; size_t n; };              // 'c' a successful call of at most n bytes, 't' errno n (0 = end of file)
static int g_fdslot[4096];
static std::deque<RAns> g_rq[3];
static std::vector<std::string> g_sys[3];
static size_t g_rdbytes[3] = {0, 0, 0};
static bool g_sys_on = true;
static int g_listen_fd[2] = {-1, -1}, g_accept_slot = -1, g_accept_err = 0;
static int slot_of_fd(int fd) { return (fd >= 0 && fd < 4096) ? g_fdslot[fd] : -1; }
static void sys_tok(int slot, const std::string &t) { if (g_sys_on && slot >= 4 && slot < 7) g_sys[slot - 4].push_back(t); }
static const char *errno_name(int e) {
    switch (e) { case EAGAIN: return "EAGAIN"; case ECONNRESET: return "ECONNRESET"; case EINTR: return "EINTR"; case EIO: return "EIO";
                 case EMFILE: return "EMFILE"; case ECONNABORTED: return "ECONNABORTED"; case EPIPE: return "EPIPE"; default: return "E?"; }
}
typedef ssize_t (*readv_t)(int, const struct iovec *, int);
typedef int (*close_t)(int);
static readv_t real_readv() { static readv_t f = (readv_t)dlsym(RTLD_NEXT, "readv"); return f; }
static close_t real_close() { static close_t f = (close_t)dlsym(RTLD_NEXT, "close"); return f; }
static ssize_t scripted_readv(const char *name, int slot, int fd, const struct iovec *iov, int cnt) {
    std::deque<RAns> &q = g_rq[slot - 4];
    std::string nm(name);
    if (!q.empty()) {
        RAns a = q.front(); q.pop_front();
        if (a.kind == 't') {
            q.clear();
            if (a.n == 0) { sys_tok(slot, nm + "=EOF"); return 0; }
            sys_tok(slot, nm + "=" + errno_name((int)a.n)); errno = (int)a.n; return -1;
        }
        struct iovec v[4]; int m = 0; size_t left = a.n;
        for (int i = 0; i < cnt && i < 4 && left > 0; ++i) {
            size_t len = iov[i].iov_len < left ? iov[i].iov_len : left;
            if (len == 0) continue;
            v[m].iov_base = iov[i].iov_base; v[m].iov_len = len; ++m; left -= len;
        }
        ssize_t r = real_readv()(fd, v, m);
        int e = errno;
        if (r > 0) { g_rdbytes[slot - 4] += (size_t)r; sys_tok(slot, nm + "=" + std::to_string(r)); }
        else { q.clear(); sys_tok(slot, nm + "=" + (r == 0 ? "EOF" : errno_name(e))); }
        errno = e;
        return r;
    }
    ssize_t r = real_readv()(fd, iov, cnt);
    int e = errno;
    if (r > 0) {
        g_rdbytes[slot - 4] += (size_t)r;
        std::vector<std::string> &t = g_sys[slot - 4];
        std::string pre = nm + "=+";
        if (g_sys_on && !t.empty() && t.back().compare(0, pre.size(), pre) == 0)
            t.back() = pre + std::to_string(std::stoull(t.back().substr(pre.size())) + (size_t)r);
        else sys_tok(slot, pre + std::to_string(r));
    } else sys_tok(slot, nm + "=" + (r == 0 ? "EOF" : errno_name(e)));
    errno = e;
    return r;
}
extern "C" ssize_t readv(int fd, const struct iovec *iov, int cnt) {
    int slot = slot_of_fd(fd);
    if (slot < 4) return real_readv()(fd, iov, cnt);
    return scripted_readv("readv", slot, fd, iov, cnt);
}
typedef ssize_t (*read_t)(int, void *, size_t);
extern "C" ssize_t read(int fd, void *p, size_t n) {
    static read_t real = (read_t)dlsym(RTLD_NEXT, "read");
    int slot = slot_of_fd(fd);
    if (slot < 4) return real(fd, p, n);
    struct iovec v; v.iov_base = p; v.iov_len = n;
    return scripted_readv("read", slot, fd, &v, 1);
}
extern "C" int close(int fd) {
    int slot = slot_of_fd(fd);
    if (slot >= 4) { sys_tok(slot, "close"); g_fdslot[fd] = -1; }
    return real_close()(fd);
}
extern "C" int shutdown(int fd, int how) {
    typedef int (*fn_t)(int, int);
    static fn_t real = (fn_t)dlsym(RTLD_NEXT, "shutdown");
    int slot = slot_of_fd(fd);
    if (slot >= 4) sys_tok(slot, "shutdown:" + std::to_string(how));
    return real(fd, how);
}
extern "C" int setsockopt(int fd, int level, int name, const void *val, socklen_t len) {
    typedef int (*fn_t)(int, int, int, const void *, socklen_t);
    static fn_t real = (fn_t)dlsym(RTLD_NEXT, "setsockopt");
    int slot = slot_of_fd(fd);
    if (slot >= 4) sys_tok(slot, "setsockopt:" + std::to_string(level) + ":" + std::to_string(name));
    return real(fd, level, name, val, len);
}
static int accept_common(int fd, struct sockaddr *a, socklen_t *l, int flags, bool four) {
    typedef int (*fn_t)(int, struct sockaddr *, socklen_t *);
    typedef int (*fn4_t)(int, struct sockaddr *, socklen_t *, int);
    static fn_t real = (fn_t)dlsym(RTLD_NEXT, "accept");
    static fn4_t real4 = (fn4_t)dlsym(RTLD_NEXT, "accept4");
    bool ours = fd >= 0 && (fd == g_listen_fd[0] || fd == g_listen_fd[1]) && g_accept_slot >= 4;
    int r = four ? real4(fd, a, l, flags) : real(fd, a, l);
    if (!ours) return r;
    if (g_accept_err) {          // the kernel refuses: the pending connection is gone (nothing is left in the backlog)
        if (r >= 0) real_close()(r);
        sys_tok(g_accept_slot, std::string("accept=") + errno_name(g_accept_err));
        errno = g_accept_err; return -1;
    }
    if (r >= 0 && r < 4096) { g_fdslot[r] = g_accept_slot; sys_tok(g_accept_slot, "accept=ok"); }
    return r;
}
extern "C" int accept(int fd, struct sockaddr *a, socklen_t *l) { return accept_common(fd, a, l, 0, false); }
extern "C" int accept4(int fd, struct sockaddr *a, socklen_t *l, int flags) { return accept_common(fd, a, l, flags, true); }
static void sys_reset() { for (int i = 0; i < 4096; ++i) g_fdslot[i] = -1; for (int k = 0; k < 3; ++k) { g_rq[k].clear(); g_sys[k].clear(); g_rdbytes[k] = 0; } }

// ------------------------------------------------------------------ the client's screen: an independent VT100-style emulator
// (a grid of rows with a right margin `w`, immediate autowrap, BS / CR / LF, ESC [ C, ESC [ D, other CSI sequences skipped),
// fed with every byte a client receives; its current row and cursor are printed as `P scr` and compared with the Lean
// terminal ScrW run on the bytes the model sends.
struct Vt {
    size_t w = 80;
    std::deque<std::string> rows;
    size_t r = 0, c = 0, base = 0;       // rows[r - base] is the cursor's row
    int esc = 0;
    Vt() { rows.push_back(""); }
    std::string &cur() { return rows[r - base]; }
    void down() { ++r; if (r - base == rows.size()) rows.push_back(""); while (rows.size() > 4) { rows.pop_front(); ++base; } }
    void put(unsigned char b) {
        if (esc == 1) { esc = (b == '[') ? 2 : 0; return; }
        if (esc == 2) {
            if (b == 'C') { esc = 0; if (c + 1 < w) ++c; }
            else if (b == 'D') { esc = 0; if (c > 0) --c; }
            else if (b >= 0x40 && b <= 0x7e) esc = 0;
            return;
        }
        switch (b) {
            case 8: if (c > 0) --c; return;
            case 27: esc = 1; return;
            case 13: c = 0; return;
            case 10: down(); return;
            default: break;
        }
        std::string &row = cur();
        if (row.size() < c) row.append(c - row.size(), ' ');
        if (c < row.size()) row[c] = (char)b; else row.push_back((char)b);
        if (c + 1 >= w) { down(); c = 0; } else ++c;
    }
    std::string line(int k) {
        std::string row = cur();
        while (!row.empty() && row.back() == ' ') row.pop_back();
        return "P scr " + std::to_string(k) + " " + std::to_string(r) + " " + std::to_string(c) + " " + vh::hex(row);
    }
};
static Vt g_vt[8];
static std::string g_optx[8];

// ------------------------------------------------------------------ event recording, per slot
static const int kSlots = 8, kNoSlot = 8;          // index 8: lines of the op itself / world B
static std::vector<std::string> g_ev[kSlots + 1];
static std::string g_tx[kSlots + 1];
static int g_op_slot = kNoSlot;
// sessions on the recording connection (slots 0-3) share one group, in the order things happened (the order in
// which sessions are ended in a loop pass is compared); each socket / pipe client is a group of its own
static int grp(int k) { return k < 4 ? 0 : k; }
static void flush_tx(int k) {
    if (!g_tx[k].empty()) {
        g_ev[grp(k)].push_back((k == kNoSlot ? "P tx " : "P tx " + std::to_string(k) + " ") + vh::hex(g_tx[k]));
        g_tx[k].clear();
    }
}
static void flush_other_direct(int k) { if (k < 4) for (int j = 0; j < 4; ++j) if (j != k) flush_tx(j); }
static void ev(int k, const std::string &s) { flush_other_direct(k); flush_tx(k); g_ev[grp(k)].push_back(s); }
static void ev(const std::string &s) { ev(kNoSlot, s); }
static void tx(int k, const void *p, size_t n) { flush_other_direct(k); g_tx[k].append((const char *)p, n); if (k < kSlots) g_optx[k].append((const char *)p, n); }
static void clear_events() {
    for (int k = 0; k <= kSlots; ++k) { g_ev[k].clear(); g_tx[k].clear(); }
    for (int k = 0; k < kSlots; ++k) g_optx[k].clear();
    for (int k = 0; k < 3; ++k) { g_sys[k].clear(); g_rdbytes[k] = 0; g_rq[k].clear(); }
}
static void emit() {
    for (int k = 0; k <= kSlots; ++k) flush_tx(k);
    for (int g = 0; g <= kSlots; ++g) {
        for (auto &l : g_ev[g]) outln(l);
        for (int k = 0; k < kSlots; ++k) {
            if (grp(k) != g || g_optx[k].empty()) continue;
            for (unsigned char b : g_optx[k]) g_vt[k].put(b);
            outln(g_vt[k].line(k));
        }
        if (g >= 4 && g < 7 && !g_sys[g - 4].empty()) {
            std::string l = "M sys " + std::to_string(g);
            for (auto &t : g_sys[g - 4]) l += " " + t;
            outln(l);
        }
    }
    clear_events();
}

// ------------------------------------------------------------------ world A
static void park_std_fds();
struct RecConn : public Connection {
    int slot = 0;
    SessionToken tok;
    virtual bool send(const SessionToken &st, char ch) override {
        if (st != tok) { ev(slot, "P tx-other"); return false; }
        tx(slot, &ch, 1); return true;
    }
    virtual bool send(const SessionToken &st, const std::string &str) override {
        if (st != tok) { ev(slot, "P tx-other"); return false; }
        tx(slot, str.data(), str.size()); return true;
    }
    virtual bool endSession(const SessionToken &st) override {
        ev(slot, (st == tok ? "P end " : "P end-other ") + std::to_string(slot)); return true; }
    virtual bool isValid(const SessionToken &) const override { return true; }
    virtual ~RecConn() {}
};

struct Client {                 // a telnet / raw-TCP client (slots 4..6): the client end of a socketpair
    network::TcpServer::ConnToken ct;
    network::TcpConnection *conn = nullptr;   // (owned by the TcpServer)
    int fd = -1;
    int sfd = -1;               // the server's end (for the write() answers)
    bool gone = false;          // the client closed its end; the service has not noticed yet
    bool ended_by_read = false; // a scripted read answer (end of file / error) ended the connection at the service
    int state = 0;              // 0 never connected, 1 connected, 2 gone
    std::vector<uint8_t> pending;
};

struct WorldA {
    event::Loop *loop = nullptr;
    Terminal *term = nullptr;
    RecConn conn[4];
    bool opened[4] = {false, false, false, false};
    int cur = 0;
    std::vector<NodeToken> nodes;      // harness index -> token (0 = root)
    Telnetd::Impl *tel = nullptr;
    TcpRpc::Impl *rpc = nullptr;
    Client cli[3];
    size_t ct_gen = 0;
    Stdio::Impl *stdio = nullptr;
    int stdio_state = 0;               // 0 not started, 1 running, 3 stopped
    int in_w = -1, out_r = -1;         // our ends of the pipes behind fd 0 / fd 1
    // the services listen on Unix sockets nobody connects to (the real initialize() + start(): callbacks, state); the
    // clients connect to two acceptors of the harness - real TcpAcceptor objects whose read event is delivered by a direct
    // call, so that a connection is accepted inside its op - which hand the accepted TcpConnection to the service's
    // TcpServer exactly as the server's own acceptor does
    network::TcpAcceptor *acc[2] = {nullptr, nullptr};
    std::string sock_path[2];
    network::TcpConnection *last_conn = nullptr;
    WorldA() {
        sys_reset();
        loop = event::Loop::New();
        term = new Terminal(loop);
        term->setWelcomeText("Welcome\r\n");
        nodes.push_back(term->rootNode());
        for (int i = 0; i < 4; ++i) conn[i].slot = i;
        tel = new Telnetd::Impl(loop, term);
        rpc = new TcpRpc::Impl(loop, term);
        std::string base = "/tmp/C13-sock-" + std::to_string((long)getpid());
        if (!tel->initialize(base + "-t0") || !tel->start() || !rpc->initialize(base + "-r0") || !rpc->start()) { fprintf(stderr, "harness: service start failed\n"); _exit(7); }
        // (the connected callbacks are wrapped to learn the connection token; everything else is what initialize() installed)
        tel->sp_tcp_->setConnectedCallback([this](const network::TcpServer::ConnToken &ct) { last_ct = ct; tel->onTcpConnected(ct); });
        rpc->sp_tcp_->setConnectedCallback([this](const network::TcpServer::ConnToken &ct) { last_ct = ct; rpc->onTcpConnected(ct); });
        // (the receive callbacks are wrapped to note what the front end left unconsumed, right after the delivery)
        tel->sp_tcp_->setReceiveCallback([this](const network::TcpServer::ConnToken &ct, util::Buffer &b) { tel->onTcpReceived(ct, b); note_rest(ct, b.readableSize(), 0); }, 1);
        rpc->sp_tcp_->setReceiveCallback([this](const network::TcpServer::ConnToken &ct, util::Buffer &b) { rpc->onTcpReceived(ct, b); note_rest(ct, b.readableSize(), 2); }, 1);
        for (int j = 0; j < 2; ++j) {
            sock_path[j] = base + (j == 0 ? "-t" : "-r");
            acc[j] = new network::TcpAcceptor(loop);
            if (!acc[j]->initialize(network::SockAddr::FromString(sock_path[j]), 8)) { fprintf(stderr, "harness: acceptor failed\n"); _exit(7); }
            g_listen_fd[j] = acc[j]->sock_fd_.get();
            network::TcpServer *srv = (j == 0) ? tel->sp_tcp_ : rpc->sp_tcp_;
            acc[j]->setNewConnectionCallback([this, srv](network::TcpConnection *c) { last_conn = c; srv->onTcpConnected(c); });
        }
    }
    network::TcpServer::ConnToken last_ct;
    bool got_rest[3] = {false, false, false};
    size_t last_rest[3] = {0, 0, 0};
    void note_rest(const network::TcpServer::ConnToken &ct, size_t n, int first) {
        for (int k = first; k < (first == 0 ? 2 : 3); ++k) if (cli[k].state == 1 && cli[k].ct == ct && g_rdbytes[k] > 0) { got_rest[k] = true; last_rest[k] = n; }   // (the repeated hand-over of an unconsumed rest at end of file is no delivery)
    }
    int client_connect(size_t slot) {
        int cfd = socket(AF_UNIX, SOCK_STREAM, 0);
        if (cfd < 0) return -1;
        struct sockaddr_un sa; memset(&sa, 0, sizeof sa); sa.sun_family = AF_UNIX;
        const std::string &pth = sock_path[slot < 6 ? 0 : 1];
        strncpy(sa.sun_path, pth.c_str(), sizeof(sa.sun_path) - 1);
        if (connect(cfd, (struct sockaddr *)&sa, sizeof sa) != 0) { ::close(cfd); return -1; }
        fcntl(cfd, F_SETFL, fcntl(cfd, F_GETFL) | O_NONBLOCK);
        return cfd;
    }
    // the unconsumed bytes of a connection live in its BufferedFd's receive buffer (where the real read path keeps them)
    void take_pending(Client &c) {
        c.pending.clear();
        if (!c.conn || !c.conn->sp_buffered_fd_) return;
        util::Buffer &b = c.conn->sp_buffered_fd_->recv_buff_;
        c.pending.assign(b.readableBegin(), b.readableBegin() + b.readableSize());
        b.hasReadAll();
    }
    void put_pending(Client &c) {
        if (!c.conn || !c.conn->sp_buffered_fd_ || c.pending.empty()) return;
        c.conn->sp_buffered_fd_->recv_buff_.append(c.pending.data(), c.pending.size());
    }
    size_t rest_of(Client &c) { return (c.conn && c.conn->sp_buffered_fd_) ? c.conn->sp_buffered_fd_->recv_buff_.readableSize() : 0; }
    // which slot a command handler's session belongs to
    int slot_of(const Session &s) {
        for (int i = 0; i < 4; ++i) if (s.wp_conn_ == &conn[i]) return i;
        if (s.wp_conn_ == (Connection *)rpc) return 6;
        if (stdio && s.wp_conn_ == (Connection *)stdio) return 7;
        if (s.wp_conn_ == (Connection *)tel) {
            auto it = tel->session_to_client_.find(s.st_);
            if (it != tel->session_to_client_.end()) for (int k = 0; k < 2; ++k) if (cli[k].state == 1 && cli[k].ct == it->second) return 4 + k;
        }
        return g_op_slot_fallback;
    }
    int g_op_slot_fallback = kNoSlot;
    // after a loop pass / a read event: connections the service has ended by itself (end of file, read error)
    void reap_closed() {
        for (int k = 0; k < 3; ++k) {
            Client &c = cli[k];
            if (c.state == 1 && !c.gone && !server_of(4 + k)->isClientValid(c.ct) && c.ended_by_read) {
                if (c.fd >= 0) { ::close(c.fd); c.fd = -1; }
                c.state = 2; c.conn = nullptr; c.pending.clear(); c.ended_by_read = false;
                if (c.sfd >= 0) g_wmode[c.sfd] = 0;
            }
        }
    }
    network::TcpServer *server_of(size_t slot) { return slot < 6 ? tel->sp_tcp_ : rpc->sp_tcp_; }
    // what the real Telnetd / TcpRpc -> TcpServer -> TcpConnection wrote to the clients' sockets, and who was disconnected
    // what the loop's write event would do for data BufferedFd had to queue (short counts, EAGAIN): one call
    bool pump_one(int k) {
        Client &c = cli[k];
        if (c.state != 1 || c.gone || !c.conn || !server_of(4 + k)->isClientValid(c.ct)) return false;
        if (c.sfd >= 0 && g_wmode[c.sfd] == 3) return false;
        network::BufferedFd *b = c.conn->sp_buffered_fd_;
        if (!b || b->send_buff_.readableSize() == 0) return false;
        b->onWriteCallback(0);
        return true;
    }
    // the service noticed (in a loop pass) that a client had closed its end
    void reap_gone() {
        for (int k = 0; k < 3; ++k) {
            Client &c = cli[k];
            if (c.state == 1 && c.gone && !server_of(4 + k)->isClientValid(c.ct)) {
                c.state = 2; c.gone = false; c.conn = nullptr; c.pending.clear();
                if (c.sfd >= 0) g_wmode[c.sfd] = 0;
            }
        }
    }
    void drain_clients() {
        char buf[4096];
        for (int k = 0; k < 3; ++k) {
            Client &c = cli[k];
            for (int guard = 0; guard < 1000000 && pump_one(k); ++guard) {      // (many small writes fill the socket: read in between)
                ssize_t n;
                while (c.fd >= 0 && (n = ::read(c.fd, buf, sizeof buf)) > 0) tx(4 + k, buf, (size_t)n);
            }
            while (c.fd >= 0) {
                ssize_t n = ::read(c.fd, buf, sizeof buf);
                if (n > 0) { tx(4 + k, buf, (size_t)n); continue; }
                if (n == 0) {
                    ev(4 + k, "P closed " + std::to_string(4 + k));
                    ::close(c.fd); c.fd = -1; c.conn = nullptr; c.state = 2; c.pending.clear();
                    if (c.sfd >= 0) g_wmode[c.sfd] = 0;
                }
                break;
            }
        }
    }
    bool any_gone() const { for (auto &c : cli) if (c.gone) return true; return false; }
    // bytes a client wrote that its service has not read yet
    bool any_queued() const {
        for (auto &c : cli) { int nb = 0; if (c.state == 1 && c.sfd >= 0 && ioctl(c.sfd, FIONREAD, &nb) == 0 && nb > 0) return true; }
        return false;
    }
    void close_clients() { for (auto &c : cli) { if (c.fd >= 0) { ::close(c.fd); c.fd = -1; } if (c.sfd >= 0) g_wmode[c.sfd] = 0; c.gone = false; } }
    int front_end_pending = 0;         // endSession tasks of Telnetd/TcpRpc queued by command handlers
    void pass() { loop->runNext([] {}, "verif-pass"); loop->runLoop(event::Loop::Mode::kOnce); front_end_pending = 0; reap_gone(); }
    // a loop pass as an op: the read events of the sockets with queued bytes are real (epoll); what they delivered is reported
    void pass_op() {
        for (int k = 0; k < 3; ++k) { got_rest[k] = false; g_rdbytes[k] = 0; }
        // while the pass runs the kernel takes every write in full (short counts / EAGAIN are scheduled between passes only: what a
        // command delivered by this pass's read event leaves queued in BufferedFd would be lost when a task of the same pass
        // disconnects the client - the transport's business, not the shell's)
        int saved[3];
        for (int k = 0; k < 3; ++k) { saved[k] = 0; int f = cli[k].sfd; if (cli[k].state == 1 && f >= 0 && f < 4096 && (g_wmode[f] == 1 || g_wmode[f] == 2)) { saved[k] = g_wmode[f]; g_wmode[f] = 0; } }
        loop->runNext([] {}, "verif-pass"); loop->runLoop(event::Loop::Mode::kOnce); front_end_pending = 0;
        for (int k = 0; k < 3; ++k) { int f = cli[k].sfd; if (saved[k] && cli[k].state == 1 && f >= 0 && f < 4096 && server_of(4 + k)->isClientValid(cli[k].ct)) g_wmode[f] = saved[k]; }
        bool got[3]; for (int k = 0; k < 3; ++k) got[k] = got_rest[k];
        drain_stdout();
        for (int k = 0; k < 3; ++k) if (got[k]) ev("M rest=" + std::to_string(last_rest[k]));
        reap_gone();
    }
    void drain_stdout() {
        drain_clients();
        if (out_r < 0) return;
        char buf[4096];
        for (;;) { ssize_t n = ::read(out_r, buf, sizeof buf); if (n <= 0) break; tx(7, buf, (size_t)n); }
    }
    // the host destroys the services and the terminal (the loop stays)
    void destroy_services() {
        g_sys_on = false;                // (the model says nothing about the descriptors of a destroyed service)
        for (int i = 0; i < 4096; ++i) g_fdslot[i] = -1;
        for (int j = 0; j < 2; ++j) { g_listen_fd[j] = -1; delete acc[j]; acc[j] = nullptr; }
        bool had_stdio = stdio != nullptr;
        delete stdio; stdio = nullptr;
        if (in_w >= 0) { ::close(in_w); ::close(out_r); in_w = out_r = -1; }
        if (had_stdio) park_std_fds();
        delete tel; delete rpc; tel = nullptr; rpc = nullptr;
        close_clients();                 // (silently: the model says nothing about clients of a destroyed service)
        delete term; term = nullptr;
    }
    void destroy(bool drain) {
        if (drain) { pass(); drain_stdout(); clear_events(); }
        destroy_services();
        delete loop; loop = nullptr;        // runs / drops whatever is still queued
        g_sys_on = true;
    }
    // one loop pass in which, after the tasks queued so far, the host destroys the services and the terminal;
    // what those tasks queued (the front ends' disconnect tasks) is still in the loop when they die
    void pass_and_destroy() {
        loop->runNext([this] { drain_stdout(); destroy_services(); }, "verif-teardown-in-pass");
        loop->runLoop(event::Loop::Mode::kOnce);
        delete loop; loop = nullptr;
        g_sys_on = true;
    }
    // the order a host program should keep (drain, then destroy), silently
    ~WorldA() { if (loop) destroy(true); }
};

static WorldA *g_A = nullptr;
static int g_depth = 0, g_max_depth = 2;       // nesting of command handlers that act on their own session
struct Act { char kind; std::string data; size_t a = 0, b = 0; };   // 's' send text, 'f' feed bytes to the own session, 'e' end the session, 'd' delete it,
                                                // 'r' deleteNode(nodes[a]), 'm' mountNode(nodes[a], nodes[b], data), 'u' umountNode(nodes[a], data)
// keep fd 0 and fd 1 occupied (by /dev/null) whenever the stdio service does not own them, so that pipe()
// never hands them out
static void park_std_fds() {
    int nul = open("/dev/null", O_RDWR);
    if (nul < 0) return;
    if (nul != 0) dup2(nul, 0);
    if (nul != 1) dup2(nul, 1);
    if (nul > 1) ::close(nul);
}

// ------------------------------------------------------------------ world B
struct MockTerm : public TerminalInteract {
    size_t next_id = 0;
    std::map<SessionToken, uint32_t> opts;
    virtual SessionToken newSession(Connection *) override { ++next_id; SessionToken t(next_id, next_id); opts[t] = 0; ev("P new"); return t; }
    virtual bool deleteSession(const SessionToken &st) override { ev("P del"); return opts.erase(st) > 0; }
    virtual uint32_t getOptions(const SessionToken &st) const override { auto it = opts.find(st); return it == opts.end() ? 0 : it->second; }
    virtual void setOptions(const SessionToken &st, uint32_t o) override { opts[st] = o; ev("P setopt " + std::to_string(o)); }
    virtual bool onBegin(const SessionToken &) override { ev("P begin"); return true; }
    virtual bool onExit(const SessionToken &) override { ev("P exit"); return true; }
    virtual bool onRecvString(const SessionToken &, const std::string &s) override { ev("P str " + vh::hex(s)); return true; }
    virtual bool onRecvWindowSize(const SessionToken &, uint16_t w, uint16_t h) override {
        ev("P win " + std::to_string(w) + " " + std::to_string(h)); return true; }
    virtual ~MockTerm() {}
};

template <class ImplT>
struct Front {
    ImplT impl;
    network::TcpServer::ConnToken ct;
    SessionToken st;
    int state = 0;               // 0 = never connected, 1 = connected, 2 = ended/disconnected
    std::vector<uint8_t> pending;
    Front(event::Loop *l, MockTerm *t) : impl(l, t), ct(77, 3) {}
};

struct WorldB {
    event::Loop *loop = nullptr;
    MockTerm term;
    std::unique_ptr<Front<Telnetd::Impl>> tel;
    std::unique_ptr<Front<TcpRpc::Impl>> rpc;
    WorldB() {
        loop = event::Loop::New();
        tel.reset(new Front<Telnetd::Impl>(loop, &term));
        rpc.reset(new Front<TcpRpc::Impl>(loop, &term));
    }
    void pass() { loop->runNext([] {}, "verif-pass"); loop->runLoop(event::Loop::Mode::kOnce); }
    ~WorldB() { pass(); clear_events(); tel.reset(); rpc.reset(); delete loop; }
};

// what TcpConnection does: append to the accumulating receive buffer, call back; here the buffer
// holds exactly the unconsumed bytes + the new segment (no slack)
template <class ImplT>
static void feed(ImplT &impl, const network::TcpServer::ConnToken &ct, std::vector<uint8_t> &pending, const std::vector<uint8_t> &d) {
    size_t n = pending.size() + d.size();
    util::Buffer buf(n);
    if (!pending.empty()) buf.append(pending.data(), pending.size());
    if (!d.empty()) buf.append(d.data(), d.size());
    if (n > 0) impl.onTcpReceived(ct, buf);
    pending.assign(buf.readableBegin(), buf.readableBegin() + buf.readableSize());
}

template <class F>
static bool front_op(WorldB &b, F &f, const std::string &op, const std::vector<std::string> &w) {
    if (op == "conn" && w.size() == 1 && f.state == 0) {
        f.impl.onTcpConnected(f.ct);
        f.st = f.impl.client_to_session_.at(f.ct);
        f.state = 1;
        return true;
    }
    std::vector<uint8_t> d;
    if (op == "recv" && w.size() == 2 && f.state == 1 && vh::unhex(w[1], d)) {
        feed(f.impl, f.ct, f.pending, d);
        ev("M rest=" + std::to_string(f.pending.size()));
        return true;
    }
    if (op == "disc" && w.size() == 1 && f.state == 1) {
        f.impl.onTcpDisconnected(f.ct);
        f.state = 2;
        return true;
    }
    if (op == "end" && w.size() == 1 && f.state >= 1) {
        bool r = f.impl.endSession(f.st);
        b.pass();
        f.state = 2;
        ev(std::string("P ret=") + (r ? "1" : "0"));
        return true;
    }
    if (op == "send" && w.size() == 1 && f.state >= 1) {
        // a command node that kept its Session replies later (maybe after the client went away)
        bool r1 = f.impl.send(f.st, std::string("late"));
        bool r2 = f.impl.send(f.st, 'x');
        bool v = f.impl.isValid(f.st);
        ev(std::string("P ret=") + (r1 ? "1" : "0") + (r2 ? "1" : "0") + " valid=" + (v ? "1" : "0"));
        return true;
    }
    return false;
}

// ------------------------------------------------------------------ scanner dump
static const char *kResultNames[] = {
    "none", "printable", "tab", "backspace", "esc", "enter", "altplus", "ctrlaltplus",
    "up", "down", "left", "right", "home", "insert", "delete", "end", "pageup", "pagedown",
    "f1", "f2", "f3", "f4", "f5", "f6", "f7", "f8", "f9", "f10", "f11", "f12" };

static int dump_scanner() {
    typedef KeyEventScanner::Step Step;
    std::vector<int> order;              // BFS order of raw step values; index = model state id
    std::map<int, int> id;
    KeyEventScanner probe; probe.start();
    order.push_back((int)probe.step_); id[(int)probe.step_] = 0;
    std::ostringstream rows;
    for (size_t k = 0; k < order.size(); ++k) {
        if (order.size() > 200) { std::cerr << "scanner state space unexpectedly large\n"; return 2; }
        for (int b = 0; b < 256; ++b) {
            KeyEventScanner s; s.start(); s.step_ = (Step)order[k];
            auto st = s.next((uint8_t)b);
            int raw = (int)s.step_;
            if (st == KeyEventScanner::Status::kUnsure || st == KeyEventScanner::Status::kFail) {
                if (!id.count(raw)) { id[raw] = (int)order.size(); order.push_back(raw); }
            }
            if (st == KeyEventScanner::Status::kUnsure) rows << "t " << k << " " << b << " u " << id[raw] << "\n";
            else if (st == KeyEventScanner::Status::kEnsure) {
                int r = (int)s.result();
                if (r < 0 || r >= (int)(sizeof(kResultNames) / sizeof(*kResultNames))) return 3;
                rows << "t " << k << " " << b << " e " << kResultNames[r] << "\n";
            } else if (id[raw] != 0) rows << "t " << k << " " << b << " f " << id[raw] << "\n";   // fail not going to state 0
            // plain fail (-> state 0) is the default and not listed
        }
    }
    std::ostringstream o;
    o << "states " << order.size() << "\n" << rows.str();
    for (size_t k = 0; k < order.size(); ++k) {
        KeyEventScanner s; s.start(); s.step_ = (Step)order[k];
        auto st = s.stop();
        if (st == KeyEventScanner::Status::kEnsure) o << "s " << k << " e " << kResultNames[(int)s.result()] << "\n";
        else o << "s " << k << " f\n";
    }
    o << "end";
    outln(o.str());
    return 0;
}

// ------------------------------------------------------------------ main loop
static bool idx(const std::string &s, size_t lim, size_t &out) {
    uint64_t v; if (!vh::to_u64(s, v) || v >= lim) return false; out = v; return true;
}
// mkfunc [s:<hex> | f:<hex> | e]...
static bool parse_script(const std::vector<std::string> &w, std::vector<Act> &out) {
    for (size_t k = 1; k < w.size(); ++k) {
        const std::string &t = w[k];
        std::vector<uint8_t> d;
        if (t == "e") { Act x; x.kind = 'e'; out.push_back(x); continue; }
        if (t == "d") { Act x; x.kind = 'd'; out.push_back(x); continue; }
        if (t.size() >= 3 && t[1] == ':' && (t[0] == 'r' || t[0] == 'm' || t[0] == 'u')) {
            // r:<i> | m:<p>:<c>:<hex> | u:<p>:<hex>   (node indices are looked up when the handler runs)
            std::vector<std::string> f; size_t pos = 2;
            while (true) { size_t e = t.find(':', pos); if (e == std::string::npos) { f.push_back(t.substr(pos)); break; } f.push_back(t.substr(pos, e - pos)); pos = e + 1; }
            Act x; x.kind = t[0]; uint64_t v = 0, v2 = 0;
            if (t[0] == 'r' && f.size() == 1 && vh::to_u64(f[0], v)) { x.a = v; }
            else if (t[0] == 'm' && f.size() == 3 && vh::to_u64(f[0], v) && vh::to_u64(f[1], v2) && vh::unhex(f[2], d)) { x.a = v; x.b = v2; x.data.assign(d.begin(), d.end()); }
            else if (t[0] == 'u' && f.size() == 2 && vh::to_u64(f[0], v) && vh::unhex(f[1], d)) { x.a = v; x.data.assign(d.begin(), d.end()); }
            else return false;
            out.push_back(x); continue;
        }
        if (t.size() < 3 || t[1] != ':' || (t[0] != 's' && t[0] != 'f') || !vh::unhex(t.substr(2), d)) return false;
        { Act x; x.kind = t[0]; x.data.assign(d.begin(), d.end()); out.push_back(x); }
    }
    return true;
}
static std::string ret(bool r) { return std::string("P ret=") + (r ? "1" : "0"); }
// `-` | n,n,...[,a|z|r|i|o]
static bool parse_answers(const std::string &t, std::deque<RAns> &out) {
    if (t == "-") return true;
    size_t pos = 0, cnt = 0;
    while (pos <= t.size()) {
        size_t e = t.find(',', pos); if (e == std::string::npos) e = t.size();
        std::string it = t.substr(pos, e - pos);
        bool last = e == t.size();
        if (it.empty()) return false;
        if (last && it.size() == 1 && std::string("azrio").find(it[0]) != std::string::npos) {
            int en = it[0] == 'a' ? EAGAIN : it[0] == 'z' ? 0 : it[0] == 'r' ? ECONNRESET : it[0] == 'i' ? EINTR : EIO;
            out.push_back(RAns{'t', (size_t)en});
        } else {
            uint64_t v; if (!vh::to_u64(it, v) || v < 1 || v > 1024 || ++cnt > 8) return false;
            out.push_back(RAns{'c', (size_t)v});
        }
        pos = e + 1;
        if (last) break;
    }
    return true;
}

int main(int argc, char **argv) {
    signal(SIGPIPE, SIG_IGN);
    g_in = fdopen(dup(0), "r");
    g_out = fdopen(dup(1), "w");
    park_std_fds();
    LogOutput_Disable();
    if (argc > 1 && std::string(argv[1]) == "dump") return dump_scanner();
    std::unique_ptr<WorldA> A; std::unique_ptr<WorldB> B;
    char *lbuf = nullptr; size_t lcap = 0; ssize_t llen;
    while ((llen = getline(&lbuf, &lcap, g_in)) >= 0) {
        std::string line(lbuf, (size_t)llen);
        while (!line.empty() && (line.back() == '\n' || line.back() == '\r')) line.pop_back();
        auto w = vh::words(line);
        if (w.empty()) continue;
        if (w[0] == "case") {
            A.reset(); B.reset();
            g_depth = 0; g_max_depth = 2;
            for (auto &v : g_vt) v = Vt();
            A.reset(new WorldA());
            outln(line);
            continue;
        }
        if (!A) A.reset(new WorldA());
        const std::string &op = w[0];
        bool ok = true;
        std::vector<uint8_t> d, d2; uint64_t n = 0, m = 0; size_t i = 0, j = 0;
        std::vector<Act> script;
        std::deque<RAns> rq;
        int c = A->cur;
        g_A = A.get();
        g_op_slot = c;
        if (op == "xrecv" && w.size() >= 2 && idx(w[1], 7, i)) g_op_slot = (int)i;
        if (op == "srecv") g_op_slot = 7;
        if (op == "sel" && w.size() == 2 && idx(w[1], 4, i)) {
            A->cur = (int)i; ev("P sel");
        } else if (op == "open" && w.size() == 2 && vh::to_u64(w[1], n) && n < 4 &&
                   (!A->opened[c] || A->term->impl_->sessions_.at(A->conn[c].tok) == nullptr)) {
            A->conn[c].tok = A->term->newSession(&A->conn[c]);
            A->opened[c] = true;
            A->term->setOptions(A->conn[c].tok, (uint32_t)n);
            ev(ret(A->term->onBegin(A->conn[c].tok)));
        } else if (op == "recv" && w.size() == 2 && vh::unhex(w[1], d) && A->opened[c]) {
            ev(ret(A->term->onRecvString(A->conn[c].tok, std::string(d.begin(), d.end()))));
        } else if (op == "pass" && w.size() == 1) {
            A->pass_op();
            ev("P pass");
        } else if (op == "teardown" && w.size() == 1) {
            A->destroy(false);
            for (int k = 0; k < 3; ++k) g_sys[k].clear();
            A.reset(new WorldA());
            g_A = A.get();
            ev("P teardown");
        } else if (op == "passdown" && w.size() == 1 && !A->any_queued()) {
            A->pass_and_destroy();
            for (int k = 0; k < 3; ++k) g_sys[k].clear();
            A.reset(new WorldA());
            g_A = A.get();
            ev("P passdown");
        } else if (op == "opt" && w.size() == 2 && vh::to_u64(w[1], n) && n < 4 && A->opened[c]) {
            A->term->setOptions(A->conn[c].tok, (uint32_t)n);
            ev("P opt=" + std::to_string(A->term->getOptions(A->conn[c].tok)));
        } else if (op == "winsz" && w.size() == 3 && vh::to_u64(w[1], n) && vh::to_u64(w[2], m) && n < 65536 && m < 65536 && A->opened[c]) {
            ev(ret(A->term->onRecvWindowSize(A->conn[c].tok, (uint16_t)n, (uint16_t)m)));
        } else if (op == "close" && w.size() == 1 && A->opened[c]) {
            ev(ret(A->term->deleteSession(A->conn[c].tok)));
        } else if (op == "xconn" && w.size() == 2 && idx(w[1], 7, i) && i >= 4 && A->cli[i - 4].state != 1) {
            Client &cl = A->cli[i - 4];
            int cfd = A->client_connect(i);
            if (cfd < 0) return 6;
            A->last_conn = nullptr;
            g_accept_slot = (int)i; g_accept_err = 0;
            A->acc[i < 6 ? 0 : 1]->onSocketRead(event::FdEvent::kReadEvent);      // what the loop does when the listening socket is readable
            g_accept_slot = -1;
            if (!A->last_conn) return 6;
            cl.fd = cfd; cl.conn = A->last_conn; cl.ct = A->last_ct; cl.gone = false; cl.ended_by_read = false; cl.pending.clear(); cl.state = 1;
            cl.sfd = cl.conn->sp_buffered_fd_->fd_.get();
            if (cl.sfd >= 0 && cl.sfd < 4096) g_wmode[cl.sfd] = 0;
            ev("P conn");
        } else if (op == "xconnf" && w.size() == 3 && idx(w[1], 7, i) && i >= 4 && A->cli[i - 4].state != 1 && vh::to_u64(w[2], n) && n >= 1 && n <= 4) {
            static const int errs[5] = {0, EAGAIN, EMFILE, ECONNABORTED, EINTR};
            int cfd = A->client_connect(i);
            if (cfd < 0) return 6;
            A->last_conn = nullptr;
            g_accept_slot = (int)i; g_accept_err = errs[n];
            A->acc[i < 6 ? 0 : 1]->onSocketRead(event::FdEvent::kReadEvent);
            g_accept_slot = -1; g_accept_err = 0;
            ::close(cfd);
            if (A->last_conn) return 6;
            ev("P conn-fail");
        } else if (op == "xrecv" && w.size() == 3 && idx(w[1], 7, i) && i >= 4 && A->cli[i - 4].state == 1 && vh::unhex(w[2], d)) {
            Client &cl = A->cli[i - 4];
            A->take_pending(cl);
            if (i < 6) feed(*A->tel, cl.ct, cl.pending, d); else feed(*A->rpc, cl.ct, cl.pending, d);
            ev("M rest=" + std::to_string(cl.pending.size()));
            if (A->server_of(i)->isClientValid(cl.ct)) A->put_pending(cl);
            cl.pending.clear();
        } else if (op == "xsock" && w.size() == 4 && idx(w[1], 7, i) && i >= 4 && A->cli[i - 4].state == 1 && !A->cli[i - 4].gone &&
                   (A->stdio_state == 0 || A->stdio_state == 3) && vh::unhex(w[2], d) && d.size() <= 60000 && parse_answers(w[3], rq)) {
            Client &cl = A->cli[i - 4];
            // the client writes; then ONE read event of the service's socket, the kernel answering as scripted
            size_t off = 0;
            while (off < d.size()) { ssize_t r = ::write(cl.fd, d.data() + off, d.size() - off); if (r <= 0) return 8; off += (size_t)r; }
            g_rq[i - 4] = rq; g_rdbytes[i - 4] = 0; A->got_rest[i - 4] = false;
            if (cl.conn && cl.conn->sp_buffered_fd_) cl.conn->sp_buffered_fd_->onReadCallback(event::FdEvent::kReadEvent);
            g_rq[i - 4].clear();
            if (A->got_rest[i - 4]) ev("M rest=" + std::to_string(A->last_rest[i - 4]));
            if (!A->server_of(i)->isClientValid(cl.ct)) { cl.ended_by_read = true; A->drain_clients(); A->reap_closed(); }
            ev("P xsock");
        } else if (op == "xdisc" && w.size() == 2 && idx(w[1], 7, i) && i >= 4 && A->cli[i - 4].state == 1) {
            Client &cl = A->cli[i - 4];
            A->drain_clients();
            if (cl.state == 1) {
                // the client went away: what TcpConnection does when its read event finds end-of-file
                cl.conn->onSocketClosed();
                if (cl.fd >= 0) ::close(cl.fd);
                cl.fd = -1; cl.conn = nullptr; cl.gone = false;
                cl.state = 2; cl.pending.clear();
                if (cl.sfd >= 0) g_wmode[cl.sfd] = 0;
            }
            ev("P disc");
        } else if (op == "wfault" && w.size() == 3 && idx(w[1], 7, i) && i >= 4 && vh::to_u64(w[2], n) && n < 4 &&
                   A->cli[i - 4].state == 1 && !A->cli[i - 4].gone) {
            Client &cl = A->cli[i - 4];
            A->drain_clients();
            if (cl.state != 1) ok = false;
            else { if (cl.sfd >= 0 && cl.sfd < 4096) g_wmode[cl.sfd] = (int)n; ev("P wfault"); }
        } else if (op == "xclose" && w.size() == 2 && idx(w[1], 7, i) && i >= 4 && A->cli[i - 4].state == 1 && !A->cli[i - 4].gone &&
                   (A->stdio_state == 0 || A->stdio_state == 3)) {
            Client &cl = A->cli[i - 4];
            A->drain_clients();          // (what was sent so far is reported, nothing is left unread)
            if (cl.state != 1) ok = false;
            else { ::close(cl.fd); cl.fd = -1; cl.gone = true; ev("P xclose"); }
        } else if (op == "sstart" && w.size() == 1 && A->stdio_state == 0 && !A->any_gone() && !A->any_queued()) {
            int pi[2], po[2];
            if (pipe(pi) != 0 || pipe(po) != 0) return 4;
            dup2(pi[0], 0); ::close(pi[0]); dup2(po[1], 1); ::close(po[1]);
            A->in_w = pi[1]; A->out_r = po[0];
            fcntl(A->out_r, F_SETFL, fcntl(A->out_r, F_GETFL) | O_NONBLOCK);
            A->stdio = new Stdio::Impl(A->loop, A->term);
            A->stdio->initialize();
            bool r = A->stdio->start();
            A->stdio_state = 1;
            A->pass(); A->drain_stdout();
            ev(ret(r));
        } else if (op == "srecv" && w.size() == 2 && A->stdio_state == 1 && vh::unhex(w[1], d) && d.size() <= 512) {
            if (!d.empty() && ::write(A->in_w, d.data(), d.size()) != (ssize_t)d.size()) return 5;
            A->pass(); A->pass(); A->drain_stdout();
            ev("P srecv");
        } else if (op == "sstop" && w.size() == 1 && A->stdio_state == 1) {
            A->stdio->stop();
            A->stdio_state = 3;
            A->pass(); A->drain_stdout();
            ev("P sstop");
        } else if (op == "mkdir" && w.size() == 1 && A->nodes.size() < 16) {
            size_t id = A->nodes.size();
            A->nodes.push_back(A->term->createDirNode("help-" + std::to_string(id)));
            ev("P node=" + std::to_string(id));
        } else if (op == "depth" && w.size() == 2 && vh::to_u64(w[1], n) && n <= 3) {
            g_max_depth = (int)n; ev("P depth");
        } else if (op == "mkfunc" && w.size() <= 7 && A->nodes.size() < 16 && parse_script(w, script)) {
            size_t id = A->nodes.size();
            A->nodes.push_back(A->term->createFuncNode(
                [id, script](const Session &s, const Args &a) {
                    if (g_A) g_A->g_op_slot_fallback = g_op_slot;
                    std::string l = "P probe " + std::to_string(id) + " " + std::to_string(a.size());
                    for (auto &x : a) l += " " + vh::hex(x);
                    int slot = g_A ? g_A->slot_of(s) : g_op_slot;
                    if (slot >= 4 && g_A) g_A->drain_stdout();   // what the service wrote so far comes first
                    ev(slot, l);
                    // the handler acts on its own session, synchronously, while the command is executing
                    if (g_depth < g_max_depth && g_A) {
                        ++g_depth;
                        for (auto &act : script) {
                            if (act.kind == 's') s.send(act.data);
                            else if (act.kind == 'f') g_A->term->onRecvString(s.st_, act.data);
                            else if (act.kind == 'd') {
                                // the session this command runs in is deleted, synchronously: the stdio shell's service is
                                // stopped (Stdio::stop() deletes its session); elsewhere by the handler itself, which holds
                                // the Terminal (a host-written Connection knows its tokens)
                                if (slot == 7 && g_A->stdio && g_A->stdio_state == 1) { g_A->stdio->stop(); g_A->stdio_state = 3; }
                                else g_A->term->deleteSession(s.st_);
                            } else if (act.kind == 'r') {
                                // the node tree changes under the command line that is being executed
                                if (act.a < g_A->nodes.size()) g_A->term->deleteNode(g_A->nodes[act.a]);
                            } else if (act.kind == 'm') {
                                if (act.a < g_A->nodes.size() && act.b < g_A->nodes.size())
                                    g_A->term->mountNode(g_A->nodes[act.a], g_A->nodes[act.b], act.data);
                            } else if (act.kind == 'u') {
                                if (act.a < g_A->nodes.size()) g_A->term->umountNode(g_A->nodes[act.a], act.data);
                            } else {
                                g_A->drain_stdout();
                                s.endSession();
                                if (slot >= 4 && slot < 7) ++g_A->front_end_pending;
                            }
                        }
                        --g_depth;
                    }
                    s.send("<" + std::to_string(id) + ">\r\n");
                }, "help-" + std::to_string(id)));
            ev("P node=" + std::to_string(id));
        } else if (op == "mount" && w.size() == 4 && idx(w[1], A->nodes.size(), i) && idx(w[2], A->nodes.size(), j) && vh::unhex(w[3], d)) {
            ev(ret(A->term->mountNode(A->nodes[i], A->nodes[j], std::string(d.begin(), d.end()))));
        } else if (op == "umount" && w.size() == 3 && idx(w[1], A->nodes.size(), i) && vh::unhex(w[2], d)) {
            ev(ret(A->term->umountNode(A->nodes[i], std::string(d.begin(), d.end()))));
        } else if (op == "rmnode" && w.size() == 2 && idx(w[1], A->nodes.size(), i)) {
            ev(ret(A->term->deleteNode(A->nodes[i])));
        } else if (op == "split" && w.size() == 2 && vh::unhex(w[1], d)) {
            std::vector<std::string> args;
            if (util::SplitCmdline(std::string(d.begin(), d.end()), args)) {
                std::string l = "P split ok " + std::to_string(args.size());
                for (auto &x : args) l += " " + vh::hex(x);
                ev(l);
            } else ev("P split fail");
        } else if (op == "ssplit" && w.size() == 3 && vh::unhex(w[1], d) && !d.empty() && vh::unhex(w[2], d2)) {
            std::vector<std::string> chips;
            size_t cnt = util::string::Split(std::string(d2.begin(), d2.end()), std::string(d.begin(), d.end()), chips);
            std::string l = "P split ok " + std::to_string(cnt);
            for (auto &x : chips) l += " " + vh::hex(x);
            ev(l);
        } else if (op == "hexstr" && w.size() == 5 && vh::unhex(w[1], d) && vh::to_u64(w[2], n) && vh::to_u64(w[3], m) && m <= 1 && vh::unhex(w[4], d2) &&
                   n % 65536 <= d.size()) {
            // the data at every alignment 0..7, in a heap block that ends exactly where the data ends (a read past it is a
            // heap-buffer-overflow for ASan), the length passed as a size_t (narrowed to the function's uint16_t parameter)
            std::string delim(d2.begin(), d2.end()), first; bool same = true;
            for (size_t off = 0; off < 8; ++off) {
                char *blk = (char *)malloc(off + d.size() + (d.empty() && off == 0 ? 1 : 0));
                if (!d.empty()) memcpy(blk + off, d.data(), d.size());
                size_t len = (size_t)n;
                std::string r = util::string::RawDataToHexStr(blk + off, len, m == 1, delim);
                free(blk);
                if (off == 0) first = r; else if (r != first) same = false;
            }
            ev(same ? "P split ok 1 " + vh::hex(first) : std::string("P hexstr-depends-on-alignment"));
        } else if (op == "scrw" && w.size() == 2 && vh::to_u64(w[1], n) && n >= 4 && n <= 1000) {
            for (auto &v : g_vt) v.w = (size_t)n;
            ev("P scrw");
        } else if (op.size() > 1 && (op[0] == 't' || op[0] == 'r') &&
                   (op.substr(1) == "conn" || op.substr(1) == "recv" || op.substr(1) == "disc" || op.substr(1) == "end" || op.substr(1) == "send")) {
            if (!B) B.reset(new WorldB());
            ok = (op[0] == 't') ? front_op(*B, *B->tel, op.substr(1), w) : front_op(*B, *B->rpc, op.substr(1), w);
        } else ok = false;
        if (!ok) { clear_events(); outln("bad-op"); continue; }
        if (A && A->loop) A->drain_stdout();
        emit();
        // the editor state of the session the input was for (internal: M)
        int edk = (op == "recv") ? c : (op == "xrecv" || op == "xsock") ? (int)i : (op == "srecv") ? 7 : -1;
        if (edk >= 0 && A && A->term) {
            SessionToken tok; bool have = false;
            if (edk < 4) { tok = A->conn[edk].tok; have = A->opened[edk]; }
            else if (edk < 6) { auto it = A->tel->client_to_session_.find(A->cli[edk - 4].ct); if (A->cli[edk - 4].state == 1 && it != A->tel->client_to_session_.end()) { tok = it->second; have = true; } }
            else if (edk == 6) { auto it = A->rpc->client_to_session_.find(A->cli[2].ct); if (A->cli[2].state == 1 && it != A->rpc->client_to_session_.end()) { tok = it->second; have = true; } }
            else if (A->stdio && A->stdio_state == 1) { tok = A->stdio->session_token_; have = !tok.isNull(); }
            SessionContext *sc = have ? A->term->impl_->sessions_.at(tok) : nullptr;
            if (sc) outln("M ed " + std::to_string(edk) + " " + std::to_string(sc->cursor) + " " + std::to_string(sc->history_index) + " " + vh::hex(sc->curr_input));
        }
    }
    free(lbuf);
    return 0;
}
