// C13 harness.
//  world A: ONE real tbox::terminal::Terminal (one node tree) shared by eight session slots:
//           slots 0-3  sessions on a recording Connection (ops sel/open/recv/opt/winsz/close),
//           slots 4,5  two telnet clients of one real Telnetd::Impl, slot 6 a client of the real
//                      TcpRpc::Impl (ops xconn/xrecv/xdisc): each client is a socketpair whose server
//                      end is handed to the real TcpServer as a TcpConnection, so what the services send
//                      (telnet negotiation included) and whom they disconnect goes through the real
//                      Telnetd/TcpRpc -> TcpServer -> TcpConnection -> socket path and is read back from
//                      the client end; received bytes are handed to Impl::onTcpReceived in an exactly
//                      sized Buffer (a read past the received bytes is a heap-buffer-overflow for ASan),
//           slot 7     the real Stdio::Impl over the real StdioStream/BufferedFd with fds 0 and 1
//                      redirected to pipes (ops sstart/srecv/sstop; the op protocol itself runs
//                      on duplicates of the original fds);
//           pass = one drained loop pass; teardown = destroy services, Terminal, then the Loop
//           WITHOUT draining first (a host shutting down while an exit task is queued); passdown = one loop
//           pass whose last task destroys services and Terminal (shutdown in the same pass as a client's exit);
//           probe command nodes, node-tree ops, split (util::SplitCmdline directly).
//  world B: Telnetd::Impl / TcpRpc::Impl against a recording TerminalInteract (framing events).
//  mode `dump`: the key scanner's complete transition table (BFS over reachable step_ values
//           x 256 bytes) in the text format props/C13/plugin.py turns into Gen.lean.
// Lines of one op are grouped by connection: sessions on the recording connection (slots 0-3) form one
// group in chronological order, every socket / pipe client is a group (separate connections have no mutual order); every line is flushed at once: a crash must be attributed to the right case.
#include "vh.h"
#include <fcntl.h>
#include <signal.h>
#include <unistd.h>
#include <algorithm>
#include <cstring>
#include <deque>
#include <functional>
#include <map>
#include <memory>
#include <set>
#include <sstream>
#include <string>
#include <vector>
#include <tbox/base/log.h>
#include <tbox/base/log_output.h>
#include <tbox/base/cabinet.hpp>
#include <tbox/base/object_pool.hpp>
#include <tbox/event/loop.h>
#include <sys/socket.h>
#include <dlfcn.h>
#include <errno.h>
#include <tbox/util/buffer.h>
#include <tbox/util/split_cmdline.h>

// the scanner's step_, and the services' Impl classes, are private: open them for the harness
#define private public
#define protected public
#include <tbox/network/buffered_fd.h>
#include <tbox/network/stdio_stream.h>
#include <tbox/network/tcp_server.h>
#include <tbox/network/tcp_connection.h>
#include <tbox/terminal/impl/key_event_scanner.h>
#include <tbox/terminal/terminal.h>
#include <tbox/terminal/session.h>
#include <tbox/terminal/connection.h>
#include <tbox/terminal/service/telnetd.h>
#include <tbox/terminal/service/tcp_rpc.h>
#include <tbox/terminal/service/stdio.h>
#include <tbox/terminal/impl/service/telnetd.h>
#include <tbox/terminal/impl/service/tcp_rpc.h>
#include <tbox/terminal/impl/service/stdio.h>
#include <tbox/terminal/impl/terminal.h>
#undef private
#undef protected

using namespace tbox;
using namespace tbox::terminal;

// ------------------------------------------------------------------ protocol I/O (not on fd 0/1)
static FILE *g_in = nullptr, *g_out = nullptr;
static void outln(const std::string &s) { fputs(s.c_str(), g_out); fputc('\n', g_out); fflush(g_out); }

// ------------------------------------------------------------------ the kernel's answers to write() on the clients' sockets
// mode per server-side fd (op `wfault k m`): 0 everything is taken, 1 short counts (1..3 bytes), 2 EAGAIN on every
// other call, 3 EPIPE (BufferedFd::send logs and drops the data). What BufferedFd queues is flushed at the end of the
// op by the calls the loop's write event would make (pump_clients), so the client sees the same bytes in the same order.
static int g_wmode[4096];
static unsigned g_wcalls = 0;
typedef ssize_t (*write_t)(int, const void *, size_t);
static write_t real_write() { static write_t f = (write_t)dlsym(RTLD_NEXT, "write"); return f; }
extern "C" ssize_t write(int fd, const void *p, size_t n) {
    int m = (fd >= 0 && fd < 4096) ? g_wmode[fd] : 0;
    if (m == 0 || n == 0) return real_write()(fd, p, n);
    ++g_wcalls;
    if (m == 3) { errno = EPIPE; return -1; }
    if (m == 2 && (g_wcalls & 1)) { errno = EAGAIN; return -1; }
    size_t k = (m == 1) ? 1 + g_wcalls % 3 : n;
    return real_write()(fd, p, k < n ? k : n);
}

// ------------------------------------------------------------------ event recording, per slot
static const int kSlots = 8, kNoSlot = 8;          // index 8: lines of the op itself / world B
static std::vector<std::string> g_ev[kSlots + 1];
static std::string g_tx[kSlots + 1];
static int g_op_slot = kNoSlot;
// sessions on the recording connection (slots 0-3) share one group, in the order things happened (the order in
// which sessions are ended in a loop pass is compared); each socket / pipe client is a group of its own
static int grp(int k) { return k < 4 ? 0 : k; }
static void flush_tx(int k) {
    if (!g_tx[k].empty()) {
        g_ev[grp(k)].push_back((k == kNoSlot ? "P tx " : "P tx " + std::to_string(k) + " ") + vh::hex(g_tx[k]));
        g_tx[k].clear();
    }
}
static void flush_other_direct(int k) { if (k < 4) for (int j = 0; j < 4; ++j) if (j != k) flush_tx(j); }
static void ev(int k, const std::string &s) { flush_other_direct(k); flush_tx(k); g_ev[grp(k)].push_back(s); }
static void ev(const std::string &s) { ev(kNoSlot, s); }
static void tx(int k, const void *p, size_t n) { flush_other_direct(k); g_tx[k].append((const char *)p, n); }
static void clear_events() { for (int k = 0; k <= kSlots; ++k) { g_ev[k].clear(); g_tx[k].clear(); } }
static void emit() {
    for (int k = 0; k <= kSlots; ++k) flush_tx(k);
    for (int k = 0; k <= kSlots; ++k) for (auto &l : g_ev[k]) outln(l);
    clear_events();
}

// ------------------------------------------------------------------ world A
static void park_std_fds();
struct RecConn : public Connection {
    int slot = 0;
    SessionToken tok;
    virtual bool send(const SessionToken &st, char ch) override {
        if (st != tok) { ev(slot, "P tx-other"); return false; }
        tx(slot, &ch, 1); return true;
    }
    virtual bool send(const SessionToken &st, const std::string &str) override {
        if (st != tok) { ev(slot, "P tx-other"); return false; }
        tx(slot, str.data(), str.size()); return true;
    }
    virtual bool endSession(const SessionToken &st) override {
        ev(slot, (st == tok ? "P end " : "P end-other ") + std::to_string(slot)); return true; }
    virtual bool isValid(const SessionToken &) const override { return true; }
    virtual ~RecConn() {}
};

struct Client {                 // a telnet / raw-TCP client (slots 4..6): the client end of a socketpair
    network::TcpServer::ConnToken ct;
    network::TcpConnection *conn = nullptr;   // (owned by the TcpServer)
    int fd = -1;
    int sfd = -1;               // the server's end (for the write() answers)
    bool gone = false;          // the client closed its end; the service has not noticed yet
    int state = 0;              // 0 never connected, 1 connected, 2 gone
    std::vector<uint8_t> pending;
};

struct WorldA {
    event::Loop *loop = nullptr;
    Terminal *term = nullptr;
    RecConn conn[4];
    bool opened[4] = {false, false, false, false};
    int cur = 0;
    std::vector<NodeToken> nodes;      // harness index -> token (0 = root)
    Telnetd::Impl *tel = nullptr;
    TcpRpc::Impl *rpc = nullptr;
    Client cli[3];
    size_t ct_gen = 0;
    Stdio::Impl *stdio = nullptr;
    int stdio_state = 0;               // 0 not started, 1 running, 3 stopped
    int in_w = -1, out_r = -1;         // our ends of the pipes behind fd 0 / fd 1
    WorldA() {
        loop = event::Loop::New();
        term = new Terminal(loop);
        term->setWelcomeText("Welcome\r\n");
        nodes.push_back(term->rootNode());
        for (int i = 0; i < 4; ++i) conn[i].slot = i;
        tel = new Telnetd::Impl(loop, term);
        rpc = new TcpRpc::Impl(loop, term);
        // what Impl::initialize() does, without binding a listening socket (connections are socketpairs
        // handed to the real TcpServer as the acceptor would)
        tel->sp_tcp_->setConnectedCallback([this](const network::TcpServer::ConnToken &ct) { last_ct = ct; tel->onTcpConnected(ct); });
        tel->sp_tcp_->setDisconnectedCallback([this](const network::TcpServer::ConnToken &ct) { tel->onTcpDisconnected(ct); });
        rpc->sp_tcp_->setConnectedCallback([this](const network::TcpServer::ConnToken &ct) { last_ct = ct; rpc->onTcpConnected(ct); });
        rpc->sp_tcp_->setDisconnectedCallback([this](const network::TcpServer::ConnToken &ct) { rpc->onTcpDisconnected(ct); });
    }
    network::TcpServer::ConnToken last_ct;
    network::TcpServer *server_of(size_t slot) { return slot < 6 ? tel->sp_tcp_ : rpc->sp_tcp_; }
    // what the real Telnetd / TcpRpc -> TcpServer -> TcpConnection wrote to the clients' sockets, and who was disconnected
    // what the loop's write event would do for data BufferedFd had to queue (short counts, EAGAIN): one call
    bool pump_one(int k) {
        Client &c = cli[k];
        if (c.state != 1 || c.gone || !c.conn || !server_of(4 + k)->isClientValid(c.ct)) return false;
        if (c.sfd >= 0 && g_wmode[c.sfd] == 3) return false;
        network::BufferedFd *b = c.conn->sp_buffered_fd_;
        if (!b || b->send_buff_.readableSize() == 0) return false;
        b->onWriteCallback(0);
        return true;
    }
    // the service noticed (in a loop pass) that a client had closed its end
    void reap_gone() {
        for (int k = 0; k < 3; ++k) {
            Client &c = cli[k];
            if (c.state == 1 && c.gone && !server_of(4 + k)->isClientValid(c.ct)) {
                c.state = 2; c.gone = false; c.conn = nullptr; c.pending.clear();
                if (c.sfd >= 0) g_wmode[c.sfd] = 0;
            }
        }
    }
    void drain_clients() {
        char buf[4096];
        for (int k = 0; k < 3; ++k) {
            Client &c = cli[k];
            for (int guard = 0; guard < 1000000 && pump_one(k); ++guard) {      // (many small writes fill the socket: read in between)
                ssize_t n;
                while (c.fd >= 0 && (n = ::read(c.fd, buf, sizeof buf)) > 0) tx(4 + k, buf, (size_t)n);
            }
            while (c.fd >= 0) {
                ssize_t n = ::read(c.fd, buf, sizeof buf);
                if (n > 0) { tx(4 + k, buf, (size_t)n); continue; }
                if (n == 0) {
                    ev(4 + k, "P closed " + std::to_string(4 + k));
                    ::close(c.fd); c.fd = -1; c.conn = nullptr; c.state = 2; c.pending.clear();
                    if (c.sfd >= 0) g_wmode[c.sfd] = 0;
                }
                break;
            }
        }
    }
    bool any_gone() const { for (auto &c : cli) if (c.gone) return true; return false; }
    void close_clients() { for (auto &c : cli) { if (c.fd >= 0) { ::close(c.fd); c.fd = -1; } if (c.sfd >= 0) g_wmode[c.sfd] = 0; c.gone = false; } }
    int front_end_pending = 0;         // endSession tasks of Telnetd/TcpRpc queued by command handlers
    void pass() { loop->runNext([] {}, "verif-pass"); loop->runLoop(event::Loop::Mode::kOnce); front_end_pending = 0; reap_gone(); }
    void drain_stdout() {
        drain_clients();
        if (out_r < 0) return;
        char buf[4096];
        for (;;) { ssize_t n = ::read(out_r, buf, sizeof buf); if (n <= 0) break; tx(7, buf, (size_t)n); }
    }
    // the host destroys the services and the terminal (the loop stays)
    void destroy_services() {
        bool had_stdio = stdio != nullptr;
        delete stdio; stdio = nullptr;
        if (in_w >= 0) { ::close(in_w); ::close(out_r); in_w = out_r = -1; }
        if (had_stdio) park_std_fds();
        delete tel; delete rpc; tel = nullptr; rpc = nullptr;
        close_clients();                 // (silently: the model says nothing about clients of a destroyed service)
        delete term; term = nullptr;
    }
    void destroy(bool drain) {
        if (drain) { pass(); drain_stdout(); clear_events(); }
        destroy_services();
        delete loop; loop = nullptr;        // runs / drops whatever is still queued
    }
    // one loop pass in which, after the tasks queued so far, the host destroys the services and the terminal;
    // what those tasks queued (the front ends' disconnect tasks) is still in the loop when they die
    void pass_and_destroy() {
        loop->runNext([this] { drain_stdout(); destroy_services(); }, "verif-teardown-in-pass");
        loop->runLoop(event::Loop::Mode::kOnce);
        delete loop; loop = nullptr;
    }
    // the order a host program should keep (drain, then destroy), silently
    ~WorldA() { if (loop) destroy(true); }
};

static WorldA *g_A = nullptr;
static int g_depth = 0, g_max_depth = 2;       // nesting of command handlers that act on their own session
struct Act { char kind; std::string data; };   // 's' send text, 'f' feed bytes to the own session, 'e' end the session
// keep fd 0 and fd 1 occupied (by /dev/null) whenever the stdio service does not own them, so that pipe()
// never hands them out
static void park_std_fds() {
    int nul = open("/dev/null", O_RDWR);
    if (nul < 0) return;
    if (nul != 0) dup2(nul, 0);
    if (nul != 1) dup2(nul, 1);
    if (nul > 1) ::close(nul);
}

// ------------------------------------------------------------------ world B
struct MockTerm : public TerminalInteract {
    size_t next_id = 0;
    std::map<SessionToken, uint32_t> opts;
    virtual SessionToken newSession(Connection *) override { ++next_id; SessionToken t(next_id, next_id); opts[t] = 0; ev("P new"); return t; }
    virtual bool deleteSession(const SessionToken &st) override { ev("P del"); return opts.erase(st) > 0; }
    virtual uint32_t getOptions(const SessionToken &st) const override { auto it = opts.find(st); return it == opts.end() ? 0 : it->second; }
    virtual void setOptions(const SessionToken &st, uint32_t o) override { opts[st] = o; ev("P setopt " + std::to_string(o)); }
    virtual bool onBegin(const SessionToken &) override { ev("P begin"); return true; }
    virtual bool onExit(const SessionToken &) override { ev("P exit"); return true; }
    virtual bool onRecvString(const SessionToken &, const std::string &s) override { ev("P str " + vh::hex(s)); return true; }
    virtual bool onRecvWindowSize(const SessionToken &, uint16_t w, uint16_t h) override {
        ev("P win " + std::to_string(w) + " " + std::to_string(h)); return true; }
    virtual ~MockTerm() {}
};

template <class ImplT>
struct Front {
    ImplT impl;
    network::TcpServer::ConnToken ct;
    SessionToken st;
    int state = 0;               // 0 = never connected, 1 = connected, 2 = ended/disconnected
    std::vector<uint8_t> pending;
    Front(event::Loop *l, MockTerm *t) : impl(l, t), ct(77, 3) {}
};

struct WorldB {
    event::Loop *loop = nullptr;
    MockTerm term;
    std::unique_ptr<Front<Telnetd::Impl>> tel;
    std::unique_ptr<Front<TcpRpc::Impl>> rpc;
    WorldB() {
        loop = event::Loop::New();
        tel.reset(new Front<Telnetd::Impl>(loop, &term));
        rpc.reset(new Front<TcpRpc::Impl>(loop, &term));
    }
    void pass() { loop->runNext([] {}, "verif-pass"); loop->runLoop(event::Loop::Mode::kOnce); }
    ~WorldB() { pass(); clear_events(); tel.reset(); rpc.reset(); delete loop; }
};

// what TcpConnection does: append to the accumulating receive buffer, call back; here the buffer
// holds exactly the unconsumed bytes + the new segment (no slack)
template <class ImplT>
static void feed(ImplT &impl, const network::TcpServer::ConnToken &ct, std::vector<uint8_t> &pending, const std::vector<uint8_t> &d) {
    size_t n = pending.size() + d.size();
    util::Buffer buf(n);
    if (!pending.empty()) buf.append(pending.data(), pending.size());
    if (!d.empty()) buf.append(d.data(), d.size());
    if (n > 0) impl.onTcpReceived(ct, buf);
    pending.assign(buf.readableBegin(), buf.readableBegin() + buf.readableSize());
}

template <class F>
static bool front_op(WorldB &b, F &f, const std::string &op, const std::vector<std::string> &w) {
    if (op == "conn" && w.size() == 1 && f.state == 0) {
        f.impl.onTcpConnected(f.ct);
        f.st = f.impl.client_to_session_.at(f.ct);
        f.state = 1;
        return true;
    }
    std::vector<uint8_t> d;
    if (op == "recv" && w.size() == 2 && f.state == 1 && vh::unhex(w[1], d)) {
        feed(f.impl, f.ct, f.pending, d);
        ev("M rest=" + std::to_string(f.pending.size()));
        return true;
    }
    if (op == "disc" && w.size() == 1 && f.state == 1) {
        f.impl.onTcpDisconnected(f.ct);
        f.state = 2;
        return true;
    }
    if (op == "end" && w.size() == 1 && f.state >= 1) {
        bool r = f.impl.endSession(f.st);
        b.pass();
        f.state = 2;
        ev(std::string("P ret=") + (r ? "1" : "0"));
        return true;
    }
    if (op == "send" && w.size() == 1 && f.state >= 1) {
        // a command node that kept its Session replies later (maybe after the client went away)
        bool r1 = f.impl.send(f.st, std::string("late"));
        bool r2 = f.impl.send(f.st, 'x');
        bool v = f.impl.isValid(f.st);
        ev(std::string("P ret=") + (r1 ? "1" : "0") + (r2 ? "1" : "0") + " valid=" + (v ? "1" : "0"));
        return true;
    }
    return false;
}

// ------------------------------------------------------------------ scanner dump
static const char *kResultNames[] = {
    "none", "printable", "tab", "backspace", "esc", "enter", "altplus", "ctrlaltplus",
    "up", "down", "left", "right", "home", "insert", "delete", "end", "pageup", "pagedown",
    "f1", "f2", "f3", "f4", "f5", "f6", "f7", "f8", "f9", "f10", "f11", "f12" };

static int dump_scanner() {
    typedef KeyEventScanner::Step Step;
    std::vector<int> order;              // BFS order of raw step values; index = model state id
    std::map<int, int> id;
    KeyEventScanner probe; probe.start();
    order.push_back((int)probe.step_); id[(int)probe.step_] = 0;
    std::ostringstream rows;
    for (size_t k = 0; k < order.size(); ++k) {
        if (order.size() > 200) { std::cerr << "scanner state space unexpectedly large\n"; return 2; }
        for (int b = 0; b < 256; ++b) {
            KeyEventScanner s; s.start(); s.step_ = (Step)order[k];
            auto st = s.next((uint8_t)b);
            int raw = (int)s.step_;
            if (st == KeyEventScanner::Status::kUnsure || st == KeyEventScanner::Status::kFail) {
                if (!id.count(raw)) { id[raw] = (int)order.size(); order.push_back(raw); }
            }
            if (st == KeyEventScanner::Status::kUnsure) rows << "t " << k << " " << b << " u " << id[raw] << "\n";
            else if (st == KeyEventScanner::Status::kEnsure) {
                int r = (int)s.result();
                if (r < 0 || r >= (int)(sizeof(kResultNames) / sizeof(*kResultNames))) return 3;
                rows << "t " << k << " " << b << " e " << kResultNames[r] << "\n";
            } else if (id[raw] != 0) rows << "t " << k << " " << b << " f " << id[raw] << "\n";   // fail not going to state 0
            // plain fail (-> state 0) is the default and not listed
        }
    }
    std::ostringstream o;
    o << "states " << order.size() << "\n" << rows.str();
    for (size_t k = 0; k < order.size(); ++k) {
        KeyEventScanner s; s.start(); s.step_ = (Step)order[k];
        auto st = s.stop();
        if (st == KeyEventScanner::Status::kEnsure) o << "s " << k << " e " << kResultNames[(int)s.result()] << "\n";
        else o << "s " << k << " f\n";
    }
    o << "end";
    outln(o.str());
    return 0;
}

// ------------------------------------------------------------------ main loop
static bool idx(const std::string &s, size_t lim, size_t &out) {
    uint64_t v; if (!vh::to_u64(s, v) || v >= lim) return false; out = v; return true;
}
// mkfunc [s:<hex> | f:<hex> | e]...
static bool parse_script(const std::vector<std::string> &w, std::vector<Act> &out) {
    for (size_t k = 1; k < w.size(); ++k) {
        const std::string &t = w[k];
        std::vector<uint8_t> d;
        if (t == "e") { out.push_back(Act{'e', ""}); continue; }
        if (t.size() < 3 || t[1] != ':' || (t[0] != 's' && t[0] != 'f') || !vh::unhex(t.substr(2), d)) return false;
        out.push_back(Act{t[0], std::string(d.begin(), d.end())});
    }
    return true;
}
static std::string ret(bool r) { return std::string("P ret=") + (r ? "1" : "0"); }

int main(int argc, char **argv) {
    signal(SIGPIPE, SIG_IGN);
    g_in = fdopen(dup(0), "r");
    g_out = fdopen(dup(1), "w");
    park_std_fds();
    LogOutput_Disable();
    if (argc > 1 && std::string(argv[1]) == "dump") return dump_scanner();
    std::unique_ptr<WorldA> A; std::unique_ptr<WorldB> B;
    char *lbuf = nullptr; size_t lcap = 0; ssize_t llen;
    while ((llen = getline(&lbuf, &lcap, g_in)) >= 0) {
        std::string line(lbuf, (size_t)llen);
        while (!line.empty() && (line.back() == '\n' || line.back() == '\r')) line.pop_back();
        auto w = vh::words(line);
        if (w.empty()) continue;
        if (w[0] == "case") {
            A.reset(); B.reset();
            g_depth = 0; g_max_depth = 2;
            A.reset(new WorldA());
            outln(line);
            continue;
        }
        if (!A) A.reset(new WorldA());
        const std::string &op = w[0];
        bool ok = true;
        std::vector<uint8_t> d; uint64_t n = 0, m = 0; size_t i = 0, j = 0;
        std::vector<Act> script;
        int c = A->cur;
        g_A = A.get();
        g_op_slot = c;
        if (op == "xrecv" && w.size() >= 2 && idx(w[1], 7, i)) g_op_slot = (int)i;
        if (op == "srecv") g_op_slot = 7;
        if (op == "sel" && w.size() == 2 && idx(w[1], 4, i)) {
            A->cur = (int)i; ev("P sel");
        } else if (op == "open" && w.size() == 2 && vh::to_u64(w[1], n) && n < 4 &&
                   (!A->opened[c] || A->term->impl_->sessions_.at(A->conn[c].tok) == nullptr)) {
            A->conn[c].tok = A->term->newSession(&A->conn[c]);
            A->opened[c] = true;
            A->term->setOptions(A->conn[c].tok, (uint32_t)n);
            ev(ret(A->term->onBegin(A->conn[c].tok)));
        } else if (op == "recv" && w.size() == 2 && vh::unhex(w[1], d) && A->opened[c]) {
            ev(ret(A->term->onRecvString(A->conn[c].tok, std::string(d.begin(), d.end()))));
        } else if (op == "pass" && w.size() == 1) {
            A->pass(); A->drain_stdout();
            ev("P pass");
        } else if (op == "teardown" && w.size() == 1) {
            A->destroy(false);
            A.reset(new WorldA());
            g_A = A.get();
            ev("P teardown");
        } else if (op == "passdown" && w.size() == 1) {
            A->pass_and_destroy();
            A.reset(new WorldA());
            g_A = A.get();
            ev("P passdown");
        } else if (op == "opt" && w.size() == 2 && vh::to_u64(w[1], n) && n < 4 && A->opened[c]) {
            A->term->setOptions(A->conn[c].tok, (uint32_t)n);
            ev("P opt=" + std::to_string(A->term->getOptions(A->conn[c].tok)));
        } else if (op == "winsz" && w.size() == 3 && vh::to_u64(w[1], n) && vh::to_u64(w[2], m) && n < 65536 && m < 65536 && A->opened[c]) {
            ev(ret(A->term->onRecvWindowSize(A->conn[c].tok, (uint16_t)n, (uint16_t)m)));
        } else if (op == "close" && w.size() == 1 && A->opened[c]) {
            ev(ret(A->term->deleteSession(A->conn[c].tok)));
        } else if (op == "xconn" && w.size() == 2 && idx(w[1], 7, i) && i >= 4 && A->cli[i - 4].state != 1) {
            Client &cl = A->cli[i - 4];
            int sv[2];
            if (socketpair(AF_UNIX, SOCK_STREAM, 0, sv) != 0) return 6;
            fcntl(sv[1], F_SETFL, fcntl(sv[1], F_GETFL) | O_NONBLOCK);
            cl.fd = sv[1]; cl.sfd = sv[0]; cl.gone = false; cl.pending.clear(); cl.state = 1;
            if (sv[0] < 4096) g_wmode[sv[0]] = 0;
            // as TcpAcceptor does for an accepted socket
            auto *conn = new network::TcpConnection(A->loop, network::SocketFd(sv[0]), network::SockAddr());
            A->server_of(i)->onTcpConnected(conn);
            cl.ct = A->last_ct; cl.conn = conn;
            ev("P conn");
        } else if (op == "xrecv" && w.size() == 3 && idx(w[1], 7, i) && i >= 4 && A->cli[i - 4].state == 1 && vh::unhex(w[2], d)) {
            Client &cl = A->cli[i - 4];
            if (i < 6) feed(*A->tel, cl.ct, cl.pending, d); else feed(*A->rpc, cl.ct, cl.pending, d);
            ev("M rest=" + std::to_string(cl.pending.size()));
        } else if (op == "xdisc" && w.size() == 2 && idx(w[1], 7, i) && i >= 4 && A->cli[i - 4].state == 1) {
            Client &cl = A->cli[i - 4];
            A->drain_clients();
            if (cl.state == 1) {
                // the client went away: what TcpConnection does when its read event finds end-of-file
                cl.conn->onSocketClosed();
                if (cl.fd >= 0) ::close(cl.fd);
                cl.fd = -1; cl.conn = nullptr; cl.gone = false;
                cl.state = 2; cl.pending.clear();
                if (cl.sfd >= 0) g_wmode[cl.sfd] = 0;
            }
            ev("P disc");
        } else if (op == "wfault" && w.size() == 3 && idx(w[1], 7, i) && i >= 4 && vh::to_u64(w[2], n) && n < 4 &&
                   A->cli[i - 4].state == 1 && !A->cli[i - 4].gone) {
            Client &cl = A->cli[i - 4];
            A->drain_clients();
            if (cl.state != 1) ok = false;
            else { if (cl.sfd >= 0 && cl.sfd < 4096) g_wmode[cl.sfd] = (int)n; ev("P wfault"); }
        } else if (op == "xclose" && w.size() == 2 && idx(w[1], 7, i) && i >= 4 && A->cli[i - 4].state == 1 && !A->cli[i - 4].gone &&
                   (A->stdio_state == 0 || A->stdio_state == 3)) {
            Client &cl = A->cli[i - 4];
            A->drain_clients();          // (what was sent so far is reported, nothing is left unread)
            if (cl.state != 1) ok = false;
            else { ::close(cl.fd); cl.fd = -1; cl.gone = true; ev("P xclose"); }
        } else if (op == "sstart" && w.size() == 1 && A->stdio_state == 0 && !A->any_gone()) {
            int pi[2], po[2];
            if (pipe(pi) != 0 || pipe(po) != 0) return 4;
            dup2(pi[0], 0); ::close(pi[0]); dup2(po[1], 1); ::close(po[1]);
            A->in_w = pi[1]; A->out_r = po[0];
            fcntl(A->out_r, F_SETFL, fcntl(A->out_r, F_GETFL) | O_NONBLOCK);
            A->stdio = new Stdio::Impl(A->loop, A->term);
            A->stdio->initialize();
            bool r = A->stdio->start();
            A->stdio_state = 1;
            A->pass(); A->drain_stdout();
            ev(ret(r));
        } else if (op == "srecv" && w.size() == 2 && A->stdio_state == 1 && vh::unhex(w[1], d) && d.size() <= 512) {
            if (!d.empty() && ::write(A->in_w, d.data(), d.size()) != (ssize_t)d.size()) return 5;
            A->pass(); A->pass(); A->drain_stdout();
            ev("P srecv");
        } else if (op == "sstop" && w.size() == 1 && A->stdio_state == 1) {
            A->stdio->stop();
            A->stdio_state = 3;
            A->pass(); A->drain_stdout();
            ev("P sstop");
        } else if (op == "mkdir" && w.size() == 1 && A->nodes.size() < 16) {
            size_t id = A->nodes.size();
            A->nodes.push_back(A->term->createDirNode("help-" + std::to_string(id)));
            ev("P node=" + std::to_string(id));
        } else if (op == "depth" && w.size() == 2 && vh::to_u64(w[1], n) && n <= 3) {
            g_max_depth = (int)n; ev("P depth");
        } else if (op == "mkfunc" && w.size() <= 7 && A->nodes.size() < 16 && parse_script(w, script)) {
            size_t id = A->nodes.size();
            A->nodes.push_back(A->term->createFuncNode(
                [id, script](const Session &s, const Args &a) {
                    std::string l = "P probe " + std::to_string(id) + " " + std::to_string(a.size());
                    for (auto &x : a) l += " " + vh::hex(x);
                    if (g_op_slot >= 4 && g_A) g_A->drain_stdout();   // what the service wrote so far comes first
                    ev(g_op_slot, l);
                    // the handler acts on its own session, synchronously, while the command is executing
                    if (g_depth < g_max_depth && g_A) {
                        ++g_depth;
                        for (auto &act : script) {
                            if (act.kind == 's') s.send(act.data);
                            else if (act.kind == 'f') g_A->term->onRecvString(s.st_, act.data);
                            else {
                                g_A->drain_stdout();
                                s.endSession();
                                if (g_op_slot >= 4 && g_op_slot < 7) ++g_A->front_end_pending;
                            }
                        }
                        --g_depth;
                    }
                    s.send("<" + std::to_string(id) + ">\r\n");
                }, "help-" + std::to_string(id)));
            ev("P node=" + std::to_string(id));
        } else if (op == "mount" && w.size() == 4 && idx(w[1], A->nodes.size(), i) && idx(w[2], A->nodes.size(), j) && vh::unhex(w[3], d)) {
            ev(ret(A->term->mountNode(A->nodes[i], A->nodes[j], std::string(d.begin(), d.end()))));
        } else if (op == "umount" && w.size() == 3 && idx(w[1], A->nodes.size(), i) && vh::unhex(w[2], d)) {
            ev(ret(A->term->umountNode(A->nodes[i], std::string(d.begin(), d.end()))));
        } else if (op == "rmnode" && w.size() == 2 && idx(w[1], A->nodes.size(), i) && i != 0) {
            ev(ret(A->term->deleteNode(A->nodes[i])));
        } else if (op == "split" && w.size() == 2 && vh::unhex(w[1], d)) {
            std::vector<std::string> args;
            if (util::SplitCmdline(std::string(d.begin(), d.end()), args)) {
                std::string l = "P split ok " + std::to_string(args.size());
                for (auto &x : args) l += " " + vh::hex(x);
                ev(l);
            } else ev("P split fail");
        } else if (op.size() > 1 && (op[0] == 't' || op[0] == 'r') &&
                   (op.substr(1) == "conn" || op.substr(1) == "recv" || op.substr(1) == "disc" || op.substr(1) == "end" || op.substr(1) == "send")) {
            if (!B) B.reset(new WorldB());
            ok = (op[0] == 't') ? front_op(*B, *B->tel, op.substr(1), w) : front_op(*B, *B->rpc, op.substr(1), w);
        } else ok = false;
        if (!ok) { clear_events(); outln("bad-op"); continue; }
        if (A && A->loop) A->drain_stdout();
        emit();
    }
    free(lbuf);
    return 0;
}
