"""C13 — terminal shell: hostile input is harmless; line editing matches a reference editor."""
import os, subprocess
import vlib

ID = 'C13'
LEAN_MODULES = ['TboxModel.C13.Props']
EXE = 'c13'
THEOREMS = ['Tbox.C13.' + t for t in [
    'C13_scanner_table', 'C13_scanner_decodes',
    'C13_scanner_chars_plain',
    'C13_editor_refines', 'C13_cursor_in_line', 'C13_screen_matches_editor',
    'C13_one_prompt_per_enter',
    'C13_history', 'C13_history_never_stored', 'C13_history_rerun',
    'C13_total', 'C13_total_legacy_counterexample',
    'C13_sessions_independent', 'C13_teardown_drops_queued',
    'C13_telnet_resumable', 'C13_telnet_in_bounds', 'C13_telnet_legacy_counterexample',
    'C13_split_unbalanced', 'C13_split_words', 'C13_split_quoted', 'C13_split_roundtrip',
    'C13_delete_in_handler',
    'C13_tree_in_handler', 'C13_tree_legacy_counterexample', 'C13_no_stale_tree',
    'C13_sock_stream_conserved', 'C13_sock_close_rule', 'C13_sock_eintr_as_found',
    'C13_wrap_agrees_below_width', 'C13_screen_in_window_partial', 'C13_screen_in_window_counterexample',
    'C13_strsplit_single', 'C13_hexstr_width',
]]

SOURCES = [
    'modules/terminal/terminal.cpp', 'modules/terminal/session.cpp',
    'modules/terminal/impl/terminal.cpp', 'modules/terminal/impl/terminal_key_events.cpp',
    'modules/terminal/impl/terminal_commands.cpp', 'modules/terminal/impl/key_event_scanner.cpp',
    'modules/terminal/impl/terminal_nodes.cpp', 'modules/terminal/impl/dir_node.cpp', 'modules/terminal/impl/func_node.cpp',
    'modules/terminal/impl/service/telnetd.cpp', 'modules/terminal/impl/service/tcp_rpc.cpp',
    'modules/terminal/impl/service/stdio.cpp',
    'modules/util/split_cmdline.cpp', 'modules/util/string.cpp', 'modules/util/buffer.cpp', 'modules/util/fd.cpp', 'modules/util/fs.cpp',
    # network: the real TcpServer/TcpConnection (clients are socketpairs); the stdio service runs on the real
    # StdioStream / BufferedFd over redirected fds
    'modules/network/tcp_server.cpp', 'modules/network/tcp_acceptor.cpp', 'modules/network/tcp_connection.cpp',
    'modules/network/socket_fd.cpp',
    'modules/network/buffered_fd.cpp', 'modules/network/stdio_stream.cpp', 'modules/network/ip_address.cpp',
    'modules/network/sockaddr.cpp'] + vlib.EVENT_SOURCES + vlib.BASE_SOURCES
SOURCES = list(dict.fromkeys(SOURCES))      # BASE_SOURCES may already contain some of them
FLAVOUR = 'asan'
LIBS = ['-ldl']
BATCH = 100
BATCH_TIMEOUT = 120

# ----------------------------------------------------------------------------- generated Lean: the scanner table

RES = {'none': 'noKey', 'printable': 'printable', 'tab': 'tab', 'backspace': 'backspace', 'esc': 'esc', 'enter': 'enter',
       'altplus': 'altplus', 'ctrlaltplus': 'ctrlaltplus', 'up': 'up', 'down': 'down', 'left': 'left', 'right': 'right',
       'home': 'home', 'insert': 'insert', 'delete': 'delete', 'end': 'endKey', 'pageup': 'pageup', 'pagedown': 'pagedown'}
RES.update({'f%d' % i: 'f%d' % i for i in range(1, 13)})


def scanner_lean(dump):
    lines = [l.split() for l in dump.splitlines() if l.strip()]
    if not lines or lines[0][0] != 'states' or lines[-1] != ['end']:
        raise RuntimeError('scanner dump malformed')
    n = int(lines[0][1])
    rows = [[] for _ in range(n)]
    stops = [None] * n
    for w in lines[1:-1]:
        if w[0] == 't':
            st, b, kind, arg = int(w[1]), int(w[2]), w[3], w[4]
            tr = {'u': '.unsure %s', 'f': '.fail %s', 'e': '.ensure .%s'}[kind] % (RES[arg] if kind == 'e' else int(arg))
            rows[st].append('(%d, %s)' % (b, tr))
        elif w[0] == 's':
            stops[int(w[1])] = 'some .%s' % RES[w[3]] if w[2] == 'e' else 'none'
        else:
            raise RuntimeError('scanner dump: unknown line %r' % (w,))
    if any(s is None for s in stops):
        raise RuntimeError('scanner dump: missing stop() row')
    out = ['/- GENERATED on every check run by props/C13/plugin.py (pre_lean) from the RUNNING key scanner',
           '   (harness mode `dump`: BFS over the reachable values of step_ x all 256 bytes). Do not edit.',
           '   State 0 is the state after start(); entries not listed are `Status::kFail` back to state 0. -/',
           'import TboxModel.C13.Keys', 'namespace Tbox.C13.Gen', '',
           'def nStates : Nat := %d' % n, '',
           '/-- per state: the (byte, transition) pairs of every transition that is not "fail, back to state 0" -/',
           'def rows : List (List (Nat × Tr)) := [']
    out.append(',\n'.join('  [' + ', '.join(r) + ']' for r in rows))
    out += [']', '', '/-- `stop()` per state: `some r` = kEnsure with result r, `none` = kFail -/',
            'def stops : List (Option Res) := [' + ', '.join(stops) + ']', '', 'end Tbox.C13.Gen', '']
    return '\n'.join(out)


def pre_lean(repo, lean):
    exe, log = vlib.build_harness(ID, SOURCES, os.path.join(vlib.VERIF, 'props', ID, 'harness.cpp'), FLAVOUR,
                                  out_name='harness')
    if exe is None:
        raise RuntimeError('harness (scanner dump) does not build: ' + log[-1500:])
    rc, so, se = vlib.run_proc([exe, 'dump'], '', 60)
    if rc != 0:
        raise RuntimeError('scanner dump failed rc=%s %s' % (rc, se[-800:]))
    text = scanner_lean(so)
    path = os.path.join(lean, 'TboxModel', ID, 'Gen.lean')
    old = open(path).read() if os.path.exists(path) else None
    if old != text:
        with open(path, 'w') as fh:
            fh.write(text)


# ----------------------------------------------------------------------------- generators

def hx(b):
    if isinstance(b, str): b = b.encode('latin1')
    return b.hex() or '-'

ENTERS = [b'\r\n', b'\n', b'\r\0', b'\r\n', b'\r\n']
KEYS = {'bs': [b'\x7f', b'\x08'], 'up': [b'\x1b[A'], 'down': [b'\x1b[B'], 'right': [b'\x1b[C'], 'left': [b'\x1b[D'],
        'home': [b'\x1b[1~'], 'end': [b'\x1b[4~'], 'del': [b'\x1b[3~'], 'tab': [b'\t'],
        'noise': [b'\x1b[2~', b'\x1b[5~', b'\x1b[6~', b'\x1bOP', b'\x1b[15~', b'\x1b[24~', b'\x1bx', b'\xc2\x81', b'\x00', b'\x01', b'\xfe']}
NAMES = ['a', 'b', 'foo', 'd1', 'd2', 'x y', 'zz', 'ls2', 'f', '..x', 'A']
INT_TEXTS = ['0', '1', '2', '5', '19', '20', '21', '-1', '-2', '-20', '-21', '-0', '+1', '007', '99999999999', '-99999999999',
             '2147483647', '2147483648', '-2147483648', '-2147483649', '9223372036854775807', '9223372036854775808',
             '', '-', '+', 'x', '1x', '0x1', '!', '!!', '!1', ' 3', '1 ', '--1', '+-1', '3;', '18446744073709551616',
             # both sides of 2^15 / 2^16 / 2^31 / 2^32 / 2^63 / 2^64 (the index is an int, compared as size_t, negated in 64 bits)
             '32767', '32768', '-32768', '-32769', '65535', '65536', '-65536', '2147483646', '-2147483647', '4294967295', '4294967296',
             '4294967297', '-4294967295', '-4294967296', '4294967315', '-4294967297', '-9223372036854775808', '-9223372036854775809',
             '18446744073709551615', '18446744073709551617', '-18446744073709551615', '00000000000000000000000000000000000001', '-00000000000000000000019']


def type_text(rng, text, edits):
    """keystrokes that leave `text` (bytes) on the line, with detours that exercise mid-line editing"""
    out = []
    if not edits or not text:
        out.append(text)
        return out
    mode = rng.randrange(5)
    if mode == 0:      # type a prefix+suffix, go back, insert the middle
        k = rng.randrange(len(text) + 1); j = rng.randrange(k, len(text) + 1)
        out.append(text[:k] + text[j:])
        out += [KEYS['left'][0]] * (len(text) - j)
        out.append(text[k:j])
        if rng.random() < 0.5: out.append(KEYS['end'][0])
    elif mode == 1:    # type with typos removed by backspace / delete
        for ch in text:
            if rng.random() < 0.25:
                out.append(bytes([rng.randrange(0x20, 0x7f)]))
                if rng.random() < 0.5: out.append(rng.choice(KEYS['bs']))
                else: out += [KEYS['left'][0], KEYS['del'][0]]
            out.append(bytes([ch]))
    elif mode == 2:    # type reversed halves using home
        k = rng.randrange(len(text) + 1)
        out += [text[k:], KEYS['home'][0], text[:k]]
        if rng.random() < 0.3: out += [KEYS['right'][0]] * rng.randrange(4)
    elif mode == 3:    # wander around the (possibly empty) history, then clear and type
        out += [rng.choice([KEYS['up'][0], KEYS['down'][0]]) for _ in range(rng.randrange(1, 6))]
        out += [KEYS['end'][0]] + [rng.choice(KEYS['bs'])] * rng.choice([0, 3, 80])
        if rng.random() < 0.7:
            out += [KEYS['down'][0]] * 25       # back to the empty line at the bottom
            out += [rng.choice(KEYS['bs'])] * 60
            out.append(text)
    else:
        out.append(text)
        out += [rng.choice(sum(KEYS.values(), [])) for _ in range(rng.randrange(3))]
    return out


def rand_cmd(rng, names):
    r = rng.random()
    nm = lambda: rng.choice(names + ['nope', '/', '..', '.', '../..', '/a/b', 'a/../a', ''])
    q = lambda t: ('"%s"' % t) if (' ' in t or t == '' or rng.random() < 0.1) else t
    if r < 0.10: return 'ls' + rng.choice(['', ' ' + q(nm())])
    if r < 0.16: return 'pwd'
    if r < 0.26: return 'cd' + rng.choice(['', ' ' + q(nm())])
    if r < 0.31: return 'help' + rng.choice(['', ' ' + q(nm())])
    if r < 0.37: return 'history'
    if r < 0.43: return 'tree' + rng.choice(['', '', ' ' + q(nm())])
    if r < 0.47: return rng.choice(['exit', 'quit'])
    if r < 0.67:
        t = rng.choice(INT_TEXTS) if rng.random() < 0.8 else str(rng.randrange(-25, 25))
        if rng.random() < 0.08: return '"!%s"' % t
        return '!' + t
    if r < 0.70: return '!!'
    if r < 0.90:
        args = [rng.choice(['1', 'x', '"a b"', "'q'", '--k="v w"z', 'a"b"c', '-n']) for _ in range(rng.randrange(4))]
        return ' '.join([q(nm())] + args)
    if r < 0.94: return rng.choice(['"unterminated', "a 'b", '   ', '\t', '"" x', "''", 'a"b'])
    return ''.join(chr(rng.randrange(0x20, 0x7f)) for _ in range(rng.randrange(1, 12)))


def rand_line(rng, names):
    n = rng.choice([1, 1, 1, 1, 2, 2, 3])
    return rng.choice([';', ' ; ', ';;', ';']).join(rand_cmd(rng, names) for _ in range(n)) if n > 1 else rand_cmd(rng, names)


def gen_tree(rng):
    """node-tree ops: directories, command nodes, mounts (also cycles, duplicates, deleted nodes)"""
    ops, kinds = [], ['d']          # index 0 = root
    for _ in range(rng.randrange(0, 8)):
        if rng.random() < 0.45: ops.append('mkdir'); kinds.append('d')
        else: ops.append('mkfunc'); kinds.append('f')
    names = []
    for _ in range(rng.randrange(0, 12)):
        p = rng.randrange(len(kinds)) if rng.random() < 0.25 else rng.choice([i for i, k in enumerate(kinds) if k == 'd'])
        c = rng.randrange(len(kinds))
        nm = rng.choice(NAMES) if rng.random() < 0.95 else rng.choice(['', '!x'])
        ops.append('mount %d %d %s' % (p, c, hx(nm)))
        if nm: names.append(nm)
    for _ in range(rng.randrange(0, 3)):
        r = rng.random()
        if r < 0.4 and len(kinds) > 1: ops.append('rmnode %d' % rng.randrange(1, len(kinds)))
        elif r < 0.8 and names: ops.append('umount %d %s' % (rng.randrange(len(kinds)), hx(rng.choice(names))))
    return ops, (names or ['a'])


def segments(rng, pieces):
    """group whole key encodings into received segments (an encoding is never split)"""
    segs, cur = [], b''
    for pc in pieces:
        cur += pc
        if rng.random() < 0.3:
            segs.append(cur); cur = b''
    if cur: segs.append(cur)
    return segs


def gen_shell(rng, nlines, hostile=False):
    ops, names = gen_tree(rng)
    ops.append('open %d' % rng.choice([0, 1, 1, 1, 2, 3]))
    for _ in range(nlines):
        line = rand_line(rng, names).encode('latin1')
        pieces = []
        for chunk in type_text(rng, line, rng.random() < 0.5):
            # a run of printable characters is a sequence of one-byte keys; an escape sequence is one key
            if chunk[:1] in (b'\x1b', b'\xc2') or len(chunk) == 1: pieces.append(chunk)
            else: pieces += [bytes([c]) for c in chunk]
        pieces.append(rng.choice(ENTERS))
        segs = segments(rng, pieces)
        if rng.random() < 0.1: segs.append(b'\r')        # a bare CR ends a segment: Enter on an empty line
        for sg in segs:
            ops.append('recv ' + hx(sg))
        r = rng.random()
        if r < 0.12: ops.append('pass')
        elif r < 0.16: ops.append('opt %d' % rng.randrange(4))
        elif r < 0.18: ops.append('winsz %d %d' % (rng.randrange(65536), rng.randrange(300)))
        elif r < 0.19: ops.append('close')
        if hostile and rng.random() < 0.3:
            ops.append('recv ' + hx(hostile_bytes(rng, rng.randrange(1, 40))))
    ops.append('pass')
    ops.append('recv ' + hx(b'pwd\r\n'))
    return ops


def gen_history(rng):
    """directed: fill the history to around its limit, then address it with every kind of integer text"""
    ops = ['mkfunc', 'mount 0 1 ' + hx('p'), 'open %d' % rng.choice([0, 1])]
    n = rng.choice([0, 1, 2, 19, 20, 21, 23])
    for i in range(n):
        ops.append('recv ' + hx(('p %d\r\n' % i)))
    for _ in range(rng.randrange(2, 7)):
        t = rng.choice(INT_TEXTS + ['-%d' % n, str(n), str(n - 1), '-%d' % (n + 1)])
        ops.append('recv ' + hx(rng.choice(['!%s\r\n', '!%s;p z\r\n', 'p y;!%s\r\n', '!%s;!%s\r\n' if False else '!%s\r\n']) % t))
        if rng.random() < 0.3: ops.append('recv ' + hx('!!\r\n'))
        if rng.random() < 0.3: ops.append('recv ' + hx('history\r\n'))
    ops.append('recv ' + hx('history\r\n'))
    return ops


def gen_exit(rng):
    ops = ['open %d' % rng.choice([0, 1, 2])]
    ops.append('recv ' + hx(rng.choice(['exit;exit\r\n', 'exit\r\nexit\r\n', 'quit;pwd;exit\r\n', 'exit\r\n', 'exit;exit;exit\r\n'])))
    if rng.random() < 0.3: ops.append('recv ' + hx('pwd\r\nexit\r\n'))
    if rng.random() < 0.3: ops.append('close')
    ops += ['pass', 'recv ' + hx('pwd\r\n'), 'pass', 'opt 1', 'winsz 80 24', 'close']
    return ops


def hostile_bytes(rng, n):
    frag = [b'\xff\xfd\x01', b'\xff\xfb\x1f', b'\xff\xfa\x1f\x00\x50\x00\x18\xff\xf0', b'\xff\xfa\x1f\x01\xff\xf0', b'\xff\xff', b'\xff',
            b'\x1b', b'\x1b[', b'\x1b[1', b'\x1b[1~', b'\x1b[A', b'\x1bO', b'\r', b'\r\n', b'\n', b'\x00', b'\x7f', b'\x08', b'\t', b'\xc2',
            b'!!', b'!-2147483648', b'!9999999999', b';', b'exit', b'history', b'"', b"'", b'!0']
    out = b''
    while len(out) < n:
        r = rng.random()
        if r < 0.45: out += rng.choice(frag)
        elif r < 0.75: out += bytes([rng.randrange(256)])
        else: out += bytes([rng.randrange(0x20, 0x7f)])
    return out


def gen_hostile(rng):
    ops, _ = gen_tree(rng)
    ops.append('open %d' % rng.randrange(4))
    for _ in range(rng.randrange(1, 12)):
        ops.append('recv ' + hx(hostile_bytes(rng, rng.choice([0, 1, 2, 5, 20, 80]))))
        if rng.random() < 0.15: ops.append('pass')
    return ops


def telnet_stream(rng):
    parts = []
    for _ in range(rng.randrange(1, 10)):
        r = rng.random()
        if r < 0.35: parts.append(bytes(rng.randrange(0, 255) for _ in range(rng.randrange(1, 12))))
        elif r < 0.50: parts.append(bytes([255, rng.choice([251, 252, 253, 254]), rng.choice([1, 1, 3, 24, 31, 32, 255, 0])]))
        elif r < 0.56: parts.append(bytes([255, 250, 31, rng.randrange(256), rng.randrange(255), rng.randrange(256), rng.randrange(255), 255, 240]))
        elif r < 0.62:   # window sizes on both sides of 2^8 / 2^15 / 2^16 (uint16_t from two bytes)
            wv, hv = rng.choice(NAWS_EDGE), rng.choice(NAWS_EDGE)
            parts.append(bytes([255, 250, 31, wv >> 8, wv & 255, hv >> 8, hv & 255, 255, 240]))
        elif r < 0.78:   # short / odd sub-negotiations
            pl = bytes(rng.randrange(255) for _ in range(rng.choice([0, 1, 2, 3, 5])))
            parts.append(bytes([255, 250, rng.choice([31, 31, 24, 32])]) + pl + bytes([255, rng.choice([240, 240, 0, 255])]))
        elif r < 0.90: parts.append(bytes([255, rng.choice([241, 236, 240, 249, 255, 0, 65])]))
        else: parts.append(rng.choice([b'\xff', b'\xff\xfa', b'\xff\xfa\x1f', b'\xff\xfd', b'\xff\xfa\x1f\x00\x50']))
    return b''.join(parts)


NAWS_EDGE = [0, 1, 127, 128, 254, 256, 257, 32766, 32767, 32768, 32769, 65278, 65024]      # (no byte 0xff: that ends the sub-negotiation)


def cut(rng, data):
    """a random segmentation of data (sometimes byte by byte, sometimes whole)"""
    r = rng.random()
    if r < 0.15 or not data: return [data]
    if r < 0.30: return [data[i:i + 1] for i in range(len(data))]
    cuts = sorted(set(rng.randrange(0, len(data) + 1) for _ in range(rng.randrange(1, 6))))
    segs, last = [], 0
    for c in cuts + [len(data)]:
        segs.append(data[last:c]); last = c
    return segs


def gen_telnet(rng):
    f = rng.choice(['t', 't', 't', 'r'])
    ops = [f + 'conn']
    for sg in cut(rng, telnet_stream(rng)):
        ops.append('%srecv %s' % (f, hx(sg)))
    tail = rng.random()
    if tail < 0.25: ops += [f + 'send', f + 'end', f + 'send', f + 'end']
    elif tail < 0.5: ops += [f + 'disc', f + 'send', f + 'end']
    elif tail < 0.6: ops += [f + 'send']
    if rng.random() < 0.3:
        g = 'r' if f == 't' else 't'
        ops += [g + 'conn', g + 'recv ' + hx(telnet_stream(rng)), g + 'send']
    return ops


def session_line(rng, names, who, i):
    """a command line that leaves a trace of who typed it (so histories of different sessions differ)"""
    r = rng.random()
    if r < 0.45: return 'p %s-%d' % (who, i)
    if r < 0.55: return 'history'
    if r < 0.62: return '!!'
    if r < 0.72: return '!' + rng.choice(['0', '1', '-1', '-2', '5', '99999999999', 'x'])
    if r < 0.80: return rng.choice(['exit', 'quit', 'pwd;exit', 'exit;exit'])
    if r < 0.86: return 'cd ' + rng.choice(names + ['/', '..'])
    if r < 0.90: return rng.choice(['pwd', 'ls', 'tree', 'help'])
    return rand_line(rng, names)


def gen_multi(rng, nsteps):
    """several sessions on one terminal, interleaved: direct slots 0-3, telnet clients 4 and 5, raw-TCP client 6, stdio 7"""
    ops, names = gen_tree(rng)
    ops += ['mkfunc']
    nfunc = sum(1 for o in ops if o in ('mkdir', 'mkfunc'))
    ops += ['mount 0 %d %s' % (nfunc, hx('p'))]
    active = []
    count = {}
    for _ in range(nsteps):
        r = rng.random()
        if r < 0.12 or not active:
            k = rng.choice([0, 1, 2, 3, 4, 4, 5, 5, 6, 6, 7])
            if k < 4: ops += ['sel %d' % k, 'open %d' % rng.choice([0, 1, 1, 2, 3])]
            elif k < 7: ops.append('xconn %d' % k)
            else: ops.append('sstart')
            if k not in active: active.append(k)
            continue
        k = rng.choice(active)
        count[k] = count.get(k, 0) + 1
        data = session_line(rng, names, 's%d' % k, count[k]).encode('latin1') + rng.choice(ENTERS)
        if rng.random() < 0.15:      # an edit in the middle of the line
            data = data[:2] + b'\x1b[D' + b'Z' + b'\x7f' + b'\x1b[C' + data[2:]
        if k < 4:
            ops += ['sel %d' % k] + ['recv ' + hx(sg) for sg in segments(rng, [bytes([c]) for c in data])]
        elif k < 6:
            if rng.random() < 0.3:
                data = rng.choice([b'\xff\xfd\x01', b'\xff\xfe\x03', b'\xff\xf1', b'\xff\xfa\x1f\x00\x50\x00\x18\xff\xf0', b'\xff\xfa\x1f\x01\xff\xf0', b'\xff\xff']) + data
            ops += ['xrecv %d %s' % (k, hx(sg)) for sg in cut(rng, data)]
        elif k == 6:
            ops += ['xrecv 6 %s' % hx(sg) for sg in (cut(rng, data) if rng.random() < 0.3 else [data])]
        else:
            ops += ['srecv ' + hx(sg) for sg in (segments(rng, [bytes([c]) for c in data]) if rng.random() < 0.3 else [data])]
        r = rng.random()
        if r < 0.15: ops.append('pass')
        elif r < 0.20 and 4 <= k < 7: ops.append('xdisc %d' % k)
        elif r < 0.26 and 4 <= k < 7: ops.append('wfault %d %d' % (k, rng.choice([0, 1, 1, 2, 2, 3])))
        elif r < 0.29 and 4 <= k < 7 and 7 not in active: ops.append('xclose %d' % k)
        elif r < 0.32 and k < 4: ops += ['sel %d' % k, 'close'] + (['open %d' % rng.randrange(4)] if rng.random() < 0.6 else [])
        elif r < 0.34 and k == 7: ops.append('sstop')
        elif r < 0.36: ops.append(rng.choice(['teardown', 'passdown', 'passdown'])); active = []
    ops.append('pass')
    for k in active:      # every session shows its own history at the end
        h = hx('history\r\n')
        ops += (['sel %d' % k, 'recv ' + h] if k < 4 else ['xrecv %d %s' % (k, h)] if k < 7 else ['srecv ' + h])
    return ops


def gen_builtin(rng):
    """directed: cycles, a mount of the root below itself, deleted directories and functions still mounted;
    every built-in command is pointed at them"""
    ops = ['mkdir', 'mkdir', 'mkdir', 'mkfunc', 'mkfunc',
           'mount 0 1 ' + hx('a'), 'mount 1 2 ' + hx('b'), 'mount 2 1 ' + hx('c'), 'mount 2 0 ' + hx('r'),
           'mount 2 3 ' + hx('d'), 'mount 0 4 ' + hx('f'), 'mount 3 5 ' + hx('g'), 'mount 1 4 ' + hx('f2')]
    if rng.random() < 0.7: ops.append('rmnode %d' % rng.choice([3, 4, 5, 2]))
    if rng.random() < 0.3: ops.append('umount %d %s' % (rng.choice([1, 2]), hx(rng.choice(['b', 'c', 'f2']))))
    ops.append('open %d' % rng.choice([0, 1]))
    paths = ['a', 'a/b', 'a/b/c', 'a/b/c/b', 'a/b/r', 'a/b/r/a', 'a/b/d', 'a/b/d/g', 'f', 'a/f2', '/a/b/../b/c/./b', '..', 'a/..', 'a/b/d/..',
             '/', '.', '', 'a//b', 'nope', 'a/nope', 'f/x', 'a/b/c/b/c/b/c/b']
    for _ in range(rng.randrange(4, 14)):
        c = rng.choice(['cd', 'cd', 'ls', 'ls', 'tree', 'tree', 'help', 'pwd', ''])
        pth = rng.choice(paths)
        line = (c + ' ' + pth).strip() if c else pth
        if c == 'pwd': line = 'pwd'
        ops.append('recv ' + hx(line + '\r\n'))
        if rng.random() < 0.1: ops.append('rmnode %d' % rng.randrange(1, 6))
    ops.append('recv ' + hx('pwd;tree;ls\r\n'))
    return ops


def gen_reuse(rng):
    """many sessions created and destroyed on few slots: the pooled SessionContext and the cabinet cell are reused, exit tasks
    and handlers' endSession tasks of dead sessions are still queued when the successor is opened (stale tokens)"""
    ops = ['mkfunc e', 'mkfunc', 'mount 0 1 ' + hx('e'), 'mount 0 2 ' + hx('p')]
    for rnd in range(rng.choice([3, 6, 12, 30])):
        k = rng.choice([0, 0, 1, 4, 4, 5, 6])
        line = rng.choice(['exit', 'exit;exit', 'p %d;exit' % rnd, 'e', 'e;exit', 'quit'])
        if k < 4:
            ops += ['sel %d' % k, 'open %d' % rng.choice([0, 1, 2]), 'recv ' + hx('p %d\r\n' % rnd), 'recv ' + hx(line + '\r\n')]
            how = rng.random()
            if how < 0.4: ops += ['close', 'open %d' % rng.choice([0, 1]), 'recv ' + hx('p new%d\r\n' % rnd), 'pass', 'recv ' + hx('history\r\n'), 'close']
            elif how < 0.8: ops += ['pass']
            else: ops += ['close', 'pass']
        else:
            ops += ['xconn %d' % k]
            if rng.random() < 0.3: ops.append('wfault %d %d' % (k, rng.choice([1, 2, 3])))
            ops += ['xrecv %d %s' % (k, hx('p %d\r\n' % rnd)), 'xrecv %d %s' % (k, hx(line + '\r\n'))]
            how = rng.random()
            if how < 0.3: ops += ['xdisc %d' % k, 'xconn %d' % k, 'xrecv %d %s' % (k, hx('p new%d\r\n' % rnd)), 'pass', 'xrecv %d %s' % (k, hx('history\r\n')), 'xdisc %d' % k]
            elif how < 0.5: ops += ['xclose %d' % k, 'xrecv %d %s' % (k, hx('p late\r\n')), 'pass', 'xconn %d' % k, 'xrecv %d %s' % (k, hx('history\r\n')), 'xdisc %d' % k]
            elif how < 0.6: ops += ['xclose %d' % k, 'xconn %d' % k] + ['pass', 'xdisc %d' % k]     # (xconn refused: still connected for the service)
            else: ops += ['pass'] + (['xdisc %d' % k] if rng.random() < 0.3 else [])
    ops += ['pass', 'sel 0', 'open 1', 'recv ' + hx('history\r\n')]
    return ops


def gen_faults(rng):
    """the socket of a telnet / raw-TCP client takes the service's output in short counts, answers EAGAIN, or fails hard
    (EPIPE) while commands with long outputs run; the client closes its end while output is pending"""
    k = rng.choice([4, 5, 6])
    ops = ['mkdir', 'mkfunc s:' + hx('x' * 40), 'mount 0 1 ' + hx('dir'), 'mount 1 2 ' + hx('f'), 'mount 0 2 ' + hx('p'), 'xconn %d' % k]
    if k < 6: ops.append('xrecv %d %s' % (k, 'fffd01'))
    for _ in range(rng.randrange(3, 10)):
        r = rng.random()
        if r < 0.35: ops.append('wfault %d %d' % (k, rng.choice([0, 1, 1, 2, 2, 3])))
        line = rng.choice(['help', 'tree', 'ls', 'p a b', 'history', 'help;tree;ls;p', 'abc\x1b[D\x1b[Dx\x7f', '!!', 'exit'])
        data = line.encode('latin1') + b'\r\n'
        ops += ['xrecv %d %s' % (k, hx(sg)) for sg in (cut(rng, data) if rng.random() < 0.3 else [data])]
        r = rng.random()
        if r < 0.12: ops.append('pass')
        elif r < 0.18:
            ops += ['xclose %d' % k, 'xrecv %d %s' % (k, hx('tree;exit\r\n')), 'pass', 'xconn %d' % k]
    ops += ['wfault %d 0' % k, 'xrecv %d %s' % (k, hx('history\r\n')), 'pass']
    return ops


SPLIT_ALPHA = ['a', 'b', ' ', ' ', '\t', '"', "'", '=', '-', 'x y', '""', "''", '"a b"', "'c\"d'", 'k="v w"', 'a"b c"d', "e'f g'"]


def gen_split(rng):
    ops = []
    for _ in range(rng.randrange(3, 12)):
        t = ''.join(rng.choice(SPLIT_ALPHA) for _ in range(rng.randrange(0, 9)))
        if rng.random() < 0.1: t = ''.join(chr(rng.randrange(0x20, 0x7f)) for _ in range(rng.randrange(0, 20)))
        ops.append('split ' + hx(t))
    return ops


FEEDS = [b'pwd\r\n', b'\x7f\x7f\x7f\x7f\x7f\x7fpwd\r\n', b'x', b'!!\r\n', b'!0\r\n', b'!-1\r\n', b'exit\r\n', b'\r\n!!', b'\r\n!0', b'\x1b[A',
         b'\x1b[A\r\n', b'history\r\n', b'q z\r\n', b'p w\r\n', b'\x1b[D\x1b[Dab', b'\x1b[1~k\x1b[4~', b';pwd\r\n', b'\r', b'\n', b'\x7f',
         b'ls;!!\r\n', b'"', b' y\r\nz']


def rand_script(rng, pdel=0.04):
    acts = []
    for _ in range(rng.choice([1, 1, 2, 2, 3, 5])):
        r = rng.random()
        if r < pdel: acts.append('d')
        elif r < 0.65: acts.append('f:' + hx(rng.choice(FEEDS)))
        elif r < 0.9: acts.append('s:' + hx(rng.choice(['hi', '[s]\r\n', ''])))
        else: acts.append('e')
    return acts


def rand_answers(rng, nbytes):
    """the kernel's answers to the readv calls of one read event: sizes of the successful calls, then how it ends"""
    r = rng.random()
    if r < 0.25: return '-'
    items = []
    if r < 0.9:
        left = max(nbytes, 1)
        for _ in range(rng.randrange(1, 5)):
            c = rng.choice([1, 1, 2, 3, 5, 8, 64, 1023, 1024, left, max(1, left - 1), left + 1])
            c = max(1, min(1024, c)); items.append(str(c)); left = max(1, left - c)
    t = rng.random()
    if t < 0.45: items.append('a')
    elif t < 0.55: items.append('z')
    elif t < 0.63: items.append('r')
    elif t < 0.70: items.append('i')
    elif t < 0.74: items.append('o')
    return ','.join(items) if items else '-'


def gen_sock(rng):
    """telnet / raw-TCP sessions driven through the REAL socket read path: the client writes, the service's read event runs with
    scripted kernel answers (segment sizes, EAGAIN, end of file, ECONNRESET, EINTR, EIO at every point), bytes left in the
    kernel queue are picked up by later events or by the real epoll pass, clients close with bytes queued, accept() fails"""
    ops = ['mkfunc ' + ' '.join(rand_script(rng, 0.0)), 'mkfunc', 'mount 0 1 ' + hx('q'), 'mount 0 2 ' + hx('p')]
    ops = [o.strip() for o in ops]
    live = []
    for _ in range(rng.randrange(2, 9)):
        if not live or rng.random() < 0.15:
            k = rng.choice([4, 4, 5, 6, 6])
            if rng.random() < 0.2: ops.append('xconnf %d %d' % (k, rng.randrange(1, 5)))
            ops.append('xconn %d' % k)
            if k not in live: live.append(k)
            if k < 6 and rng.random() < 0.6: ops.append('xsock %d fffd01 -' % k)
            continue
        k = rng.choice(live)
        line = rng.choice(['p a', 'q', 'pwd', 'ls', 'help', 'history', '!!', '!0', 'exit', 'p;q', 'abc\x1b[D\x1b[Dx\x7f', 'tree', 'p \x1b[1~z\x1b[4~', ''])
        data = line.encode('latin1') + rng.choice(ENTERS)
        if k < 6 and rng.random() < 0.3:
            data = rng.choice([b'\xff\xfd\x01', b'\xff\xfe\x03', b'\xff\xf1', b'\xff\xfa\x1f\x00\x50\x00\x18\xff\xf0', b'\xff\xfa\x1f\x01\xff\xf0', b'\xff\xff', b'\xff\xfa\x18']) + data
        for sg in (cut(rng, data) if rng.random() < 0.4 else [data]):
            ops.append('xsock %d %s %s' % (k, hx(sg), rand_answers(rng, len(sg))))
        r = rng.random()
        if r < 0.25: ops.append('xsock %d - -' % k)          # the rest of the queue
        elif r < 0.40: ops.append('pass')                    # ... or the real epoll pass finds it
        elif r < 0.50: ops += ['xclose %d' % k, 'pass'] + (['pass'] if rng.random() < 0.7 else []) + ['xconn %d' % k]
        elif r < 0.56: ops.append('xrecv %d %s' % (k, hx(rng.choice([b'pwd\r\n', b'\xff', b'\xff\xfa\x1f\x00']))))     # both entry points on one connection
        elif r < 0.62: ops.append('wfault %d %d' % (k, rng.choice([0, 1, 2, 3])))
        elif r < 0.66: ops += ['xdisc %d' % k, 'xconn %d' % k]
        elif r < 0.70: ops.append(rng.choice(['teardown', 'passdown'])); live = []
    ops += ['pass']
    for k in live: ops.append('xsock %d %s -' % (k, hx('history\r\n')))
    ops += ['pass', 'pass']
    return ops


def gen_delete(rng):
    """Terminal::deleteSession reached from a command handler on the session it runs in (a handler holding the Terminal, the stdio
    shell's Stdio::stop()), alone and mixed with feeds, sends, endSession, exit, on every kind of connection; then more input,
    loop passes, a successor session in the same pooled context"""
    scr = lambda: ' '.join(rng.choice([['d'], ['d', 's:' + hx('bye')], ['s:' + hx('x'), 'd', 'f:' + hx('pwd\r\n')], ['d', 'e'], ['e', 'd'], ['d', 'd'],
                                       ['f:' + hx('exit\r\n'), 'd'], ['d', 'f:' + hx('q\r\n')], ['f:' + hx('p'), 'd']]))
    ops = ['mkfunc ' + scr(), 'mkfunc ' + scr(), 'mkfunc', 'mount 0 1 ' + hx('p'), 'mount 0 2 ' + hx('q'), 'mount 0 3 ' + hx('n')]
    where = rng.choice(['d', 'd', 't', 't', 'r', 's', 'k'])
    send = {'d': lambda b: 'recv ' + hx(b), 't': lambda b: 'xrecv 4 ' + hx(b), 'r': lambda b: 'xrecv 6 ' + hx(b), 's': lambda b: 'srecv ' + hx(b),
            'k': lambda b: 'xsock 5 %s %s' % (hx(b), rand_answers(rng, len(b)))}[where]
    opn = {'d': 'open %d' % rng.choice([0, 1, 1]), 't': 'xconn 4', 'r': 'xconn 6', 's': 'sstart', 'k': 'xconn 5'}[where]
    ops += [opn, 'depth %d' % rng.choice([1, 1, 2, 3])]
    for i in range(rng.choice([0, 1, 19])): ops.append(send(('n %d\r\n' % i).encode()))
    for _ in range(rng.randrange(1, 4)):
        line = rng.choice(['p', 'q', 'p;pwd', 'n;p;n', 'p;exit', 'exit;p', 'p;!!', '!!', 'q;q', 'p \x1b[D\x1b[D', 'n'])
        ops.append(send(line.encode('latin1') + rng.choice(ENTERS) + rng.choice([b'', b'', b'pwd\r\n', b'x'])))
        r = rng.random()
        if r < 0.3: ops.append('pass')
        elif r < 0.4 and where == 'd': ops += ['open %d' % rng.choice([0, 1]), send(b'n again\r\n')]
        elif r < 0.5 and where in 'trk': ops += ['xdisc %d' % {'t': 4, 'r': 6, 'k': 5}[where], opn]
        elif r < 0.55 and where == 's': ops.append('sstop')
    ops += ['pass', send(b'history\r\n'), rng.choice(['pass', 'teardown', 'passdown'])]
    if where == 'd': ops += ['open 1', send(b'history\r\n')]
    return ops


def gen_screen(rng):
    """what the client SEES: an echoing session in a window of 8..40 (or 80) columns; lines shorter than, exactly as long as and
    longer than the window (wrapping), edited in the middle, history walks over long and short lines"""
    w = rng.choice([8, 10, 12, 16, 20, 40, 80])
    ops = ['scrw %d' % w, 'mkfunc', 'mount 0 1 ' + hx('p')]
    where = rng.choice(['d', 'd', 't', 's'])
    send = {'d': lambda b: 'recv ' + hx(b), 't': lambda b: 'xrecv 4 ' + hx(b), 's': lambda b: 'srecv ' + hx(b)}[where]
    ops += {'d': ['open 1'], 't': ['xconn 4', 'xrecv 4 fffd01'], 's': ['sstart']}[where]
    for _ in range(rng.randrange(2, 7)):
        ln = rng.choice([0, 1, 3, w - 4, w - 3, w - 2, w - 1, w, w + 1, 2 * w, 2 * w + 3])
        text = bytes(rng.choice(b'abcdefghij XYZ01"') for _ in range(max(0, ln)))
        keys = [text]
        for _ in range(rng.randrange(0, 6)):
            keys.append(rng.choice([KEYS['left'][0] * rng.randrange(1, w + 3), KEYS['right'][0] * rng.randrange(1, 5), KEYS['home'][0], KEYS['end'][0],
                                    rng.choice(KEYS['bs']) * rng.randrange(1, 4), KEYS['del'][0], b'Q', b'zz', KEYS['up'][0], KEYS['down'][0], KEYS['up'][0] * 2]))
        for kx in keys:
            if kx: ops.append(send(kx))
        ops.append(send(rng.choice(ENTERS)))
        if rng.random() < 0.15: ops.append('scrw %d' % rng.choice([8, 12, 80]))
    return ops


BUILTINS = ['ls', 'cd', 'pwd', 'help', 'history', 'exit', 'quit', 'tree']


def gen_state(rng):
    """inputs EQUAL TO or DERIVED FROM what the session has cached: the line just stored typed again / recalled with Up and sent /
    its prefix; !n addressing the entry that its own store pushes out of the 20-line window; nodes named like built-ins;
    the prompt string pasted as a command; the same option word / window size / width set again"""
    ops = ['mkfunc', 'mkdir', 'mkfunc', 'mount 0 1 ' + hx('p')]
    for nm in rng.sample(BUILTINS, rng.randrange(1, 5)): ops.append('mount 0 %d %s' % (rng.choice([2, 3]), hx(nm)))
    ops.append('mount 2 3 ' + hx(rng.choice(BUILTINS)))
    opt = rng.choice([0, 1, 1])
    ops.append('open %d' % opt)
    rc = lambda t: 'recv ' + hx(t)
    n = rng.choice([0, 3, 18, 19, 20, 22])
    for i in range(n): ops.append(rc('p %d\r\n' % i))
    for _ in range(rng.randrange(3, 9)):
        r = rng.random()
        if r < 0.15:      # the same line twice, then !! and !-1 and !-2 (equal entries next to each other)
            l = rng.choice(['p same', 'pwd', 'ls', 'p 0', 'p %d' % max(0, n - 1)])
            ops += [rc(l + '\r\n'), rc(l + '\r\n'), rc(rng.choice(['!!', '!-1', '!-2', '!19', '!0']) + '\r\n')]
        elif r < 0.30:    # recall with Up (1..3 times), send unchanged / with a prefix removed / extended
            ops.append(rc(b'\x1b[A' * rng.randrange(1, 4) + rng.choice([b'', b'\x7f', b' z', b'\x1b[1~\x1b[3~', b'\x1b[B']) + b'\r\n'))
        elif r < 0.50:    # !n for the entry its own store pushes out (oldest of a full history), for its neighbours, repeated
            t = rng.choice(['!0', '!0', '!1', '!19', '!-20', '!-19', '!-1', '!20'])
            ops += [rc(t + '\r\n')] * rng.choice([1, 2, 3]) + ([rc('history\r\n')] if rng.random() < 0.5 else [])
        elif r < 0.65:    # built-in names that are also node names
            b = rng.choice(BUILTINS)
            ops.append(rc(rng.choice(['%s', './%s', '/%s', 'cd %s', 'ls %s', 'help %s', 'tree %s', '%s %s', '"%s"', "%s;./%s"]).replace('%s', b) + '\r\n'))
        elif r < 0.75:    # the prompt string / what the shell itself printed, pasted back
            ops.append(rc(rng.choice(['# ', '# # ', '# pwd', 'Bye!', '<1>', '/', ' 0  p 0', 'Welcome']) + '\r\n'))
        elif r < 0.85:    # the same option word / window size again
            ops += ['opt %d' % opt, 'opt %d' % opt, 'winsz 80 24', 'winsz 80 24']
        else:
            ops.append(rc(rand_line(rng, ['p', 'ls', 'cd']) + '\r\n'))
        if rng.random() < 0.1: ops.append('pass')
    ops += [rc('history\r\n'), rc('pwd\r\n')]
    return ops


def gen_strings(rng):
    """util::string::Split and RawDataToHexStr called directly: separators of 1-3 bytes (also overlapping, at both ends, adjacent),
    data lengths 0..3 and around 4/8/16/64-byte boundaries (each at every alignment 0..7 against an ASan redzone), length
    arguments on both sides of 2^16"""
    ops = []
    for _ in range(rng.randrange(3, 10)):
        if rng.random() < 0.5:
            sep = rng.choice([b';', b'/', b'ab', b'aa', b'aba', b'\x00', b';;'])
            alpha = sep + b'axb;'
            src = bytes(rng.choice(alpha) for _ in range(rng.choice([0, 1, 2, 3, 5, 9, 17])))
            if rng.random() < 0.3: src = sep * rng.randrange(0, 4) + src + sep * rng.randrange(0, 3)
            ops.append('ssplit %s %s' % (hx(sep), hx(src)))
        else:
            ln = rng.choice([0, 1, 2, 3, 4, 5, 7, 8, 9, 15, 16, 17, 63, 64, 65])
            data = bytes(rng.randrange(256) for _ in range(ln))
            n = rng.choice([ln, ln, max(0, ln - 1), 0, 65536 + ln, 65536, 131072 + min(ln, 1), 65536 * 3 + ln])
            if n % 65536 > ln: n = ln
            ops.append('hexstr %s %d %d %s' % (hx(data), n, rng.randrange(2), hx(rng.choice([b'', b'', b' ', b':', b', ', b'\x00']))))
    return ops


def gen_nested(rng):
    """command handlers that act on their own session while the command is executing (re-entrant use)"""
    ops = ['mkfunc ' + ' '.join(rand_script(rng)), 'mkfunc ' + ' '.join(rand_script(rng)), 'mkfunc',
           'mount 0 1 ' + hx('p'), 'mount 0 2 ' + hx('q'), 'mount 0 3 ' + hx('n')]
    ops = [o.strip() for o in ops]
    where = rng.choice(['d', 'd', 'd', 't', 'r', 's'])
    send = {'d': lambda b: 'recv ' + hx(b), 't': lambda b: 'xrecv 4 ' + hx(b), 'r': lambda b: 'xrecv 6 ' + hx(b), 's': lambda b: 'srecv ' + hx(b)}[where]
    ops.append({'d': 'open %d' % rng.choice([0, 1, 1]), 't': 'xconn 4', 'r': 'xconn 6', 's': 'sstart'}[where])
    # a flat prefix (handlers only record): brings the history near its limit in part of the cases
    ops.append('depth 0')
    for i in range(rng.choice([0, 1, 2, 3, 17, 18, 19, 19, 20, 21])):
        ops.append(send(('n %d\r\n' % i).encode()))
    ops.append('depth %d' % rng.choice([1, 1, 2, 2, 3]))
    for _ in range(rng.randrange(1, 6)):
        line = rng.choice(['p', 'q', 'p a', 'q;p', 'p;history', '!!', '!!      ', '!0', '!-1    ', 'n;p', 'pwd', 'history', 'p;exit', 'exit;q', '!19', '!20', '!!;q'])
        data = line.encode() + rng.choice(ENTERS)
        if rng.random() < 0.2: data = line.encode() + KEYS['left'][0] * rng.randrange(1, 4) + rng.choice(ENTERS)
        ops.append(send(data))
        r = rng.random()
        if r < 0.15: ops.append('pass')
        elif r < 0.25: ops.append('depth %d' % rng.randrange(4))
    if rng.random() < 0.25:       # the host shuts down with whatever the handlers and the client's exit queued
        ops.append(rng.choice(['teardown', 'passdown']))
        return ops
    ops.append('pass')
    if where in 'dr' or rng.random() < 0.5:
        ops.append(send(b'history\r\n'))
        ops.append(send(b'!20\r\n'))
    return ops


TREE_NAMES = ['d', 'e', 'f', 'g', 'p', 'x', 'ls', '!x', '', 'tree']


def rand_tree_script(rng, own):
    """a handler that changes the node tree under the command line that called it (own = index of its own node)"""
    acts = []
    for _ in range(rng.choice([1, 1, 2, 2, 3, 4])):
        r = rng.random()
        if r < 0.4: acts.append('r:%d' % rng.choice([own, own, 0, 0, 1, 1, 2, 5, 6, 7, 9, 15, 40]))
        elif r < 0.58: acts.append('u:%d:%s' % (rng.choice([0, 0, 1, 1, 2, own, 9]), hx(rng.choice(TREE_NAMES))))
        elif r < 0.76: acts.append('m:%d:%d:%s' % (rng.choice([0, 0, 1, 2, 6, own, 9]), rng.choice([0, 1, 2, 5, 6, own, 3, 4, 9]), hx(rng.choice(TREE_NAMES))))
        elif r < 0.9: acts.append('f:' + hx(rng.choice([b'ls\r\n', b'tree\r\n', b'cd ..\r\n', b'pwd\r\n', b'tree /\r\n', b'f\r\n', b'g\r\n', b'cd /d/e;tree ..\r\n', b'l'])))
        elif r < 0.95: acts.append('s:' + hx('[h]'))
        elif r < 0.975: acts.append('d')
        else: acts.append('e')
    return acts


TREE_LINES = ['f;ls', 'f;tree', 'f;cd ..', 'f;cd x', 'f;pwd;ls /', 'f;f', 'f;f;f', '/f;tree /', 'f;help .', 'g;ls;tree', 'g;cd ..;tree', 'g;g', 'f;g;tree /',
              'tree', 'ls', 'tree /', 'cd /', 'cd d/e', 'cd d', 'cd ..', 'pwd', '!!', '!0', 'ls ..', 'tree ..', 'help /', 'help f', 'help ..', 'cd /;tree', 'ls /d/e',
              '../f;ls', '/d/g;tree', 'e/f;ls e', 'x;ls', 'x/p', 'p;f;p', 'history', 'f;exit', 'tree d', 'ls d/e/f', 'cd .;tree .']


def gen_treeact(rng):
    """command handlers that delete / mount / umount nodes (their own node, the directory they are in, the session's current
    directory, the root) while the rest of the same input line is still to be executed; one or two sessions on the same tree"""
    ops = ['mkdir', 'mkdir', 'mkfunc ' + ' '.join(rand_tree_script(rng, 3)), 'mkfunc ' + ' '.join(rand_tree_script(rng, 4)), 'mkfunc', 'mkdir',
           'mount 0 1 ' + hx('d'), 'mount 1 2 ' + hx('e'), 'mount 0 3 ' + hx('f'), 'mount 1 4 ' + hx('g'), 'mount 2 3 ' + hx('f'),
           'mount 0 5 ' + hx('p'), 'mount 2 5 ' + hx('p'), 'mount 1 3 ' + hx('f')]
    if rng.random() < 0.3: ops.append('mount 2 1 ' + hx('x'))          # a cycle d/e/x -> d
    if rng.random() < 0.15: ops.append('rmnode %d' % rng.choice([0, 1, 2, 3]))
    if rng.random() < 0.2: ops.append('depth %d' % rng.choice([0, 1, 3]))
    where = rng.choice(['d', 'd', 'd', 't', 'r', 's'])
    send = {'d': lambda b: 'recv ' + hx(b), 't': lambda b: 'xrecv 4 ' + hx(b), 'r': lambda b: 'xrecv 6 ' + hx(b), 's': lambda b: 'srecv ' + hx(b)}[where]
    ops.append({'d': 'open %d' % rng.choice([0, 1, 1]), 't': 'xconn 4', 'r': 'xconn 6', 's': 'sstart'}[where])
    two = where == 'd' and rng.random() < 0.4
    if two: ops += ['sel 1', 'open 1', 'recv ' + hx('cd d/e\r\n'), 'sel 0']
    if rng.random() < 0.7: ops.append(send(('cd ' + rng.choice(['d', 'd/e', 'd/e', '/d/e/x', 'd/..'])).encode() + b'\r\n'))
    for _ in range(rng.choice([2, 3, 5, 8])):
        r = rng.random()
        if r < 0.75:
            line = rng.choice(TREE_LINES)
            if rng.random() < 0.2: line += ';' + rng.choice(TREE_LINES)
            ops.append(send(line.encode() + b'\r\n'))
        elif r < 0.8 and two: ops += ['sel 1', 'recv ' + hx(rng.choice(TREE_LINES) + '\r\n'), 'sel 0']
        elif r < 0.86: ops.append(rng.choice(['mount 0 3 ' + hx('f'), 'mount 0 1 ' + hx('d'), 'umount 0 ' + hx('d'), 'rmnode 3', 'rmnode 0', 'mkdir', 'mount 0 6 ' + hx('d')]))
        elif r < 0.92: ops.append(send(b'\x1b[A\r\n'))
        else: ops.append('pass')
    if two: ops += ['sel 1', 'recv ' + hx('pwd;ls;tree;cd ..;tree\r\n')]
    ops.append('pass')
    return ops


# handlers that change the node tree (minimal cases; also corpus 24-29)
TREE_CASES = [
    # patch 12: `tree` of the root directory after deleteNode(rootNode()) - as found: back() of the empty path
    ['rmnode 0', 'open 1', 'recv ' + hx('tree\r\n'), 'recv ' + hx('ls;cd /;help /;pwd;tree /\r\n'), 'rmnode 0', 'mkdir', 'mount 0 1 ' + hx('d')],
    # patch 13: a handler deletes its own node; the rest of its script and of the line go on
    ['mkfunc r:1 s:' + hx('[still here]') + ' f:' + hx('pwd\r\n'), 'mount 0 1 ' + hx('f'), 'open 1', 'recv ' + hx('f;f;ls;tree;help f\r\n'), 'recv ' + hx('!!\r\n')],
    # a handler deletes the session's current directory, then the root; the line goes on with cd / ls / tree / pwd
    ['mkdir', 'mkfunc r:1 r:0', 'mount 0 1 ' + hx('d'), 'mount 1 2 ' + hx('f'), 'open 1', 'recv ' + hx('cd d\r\n'),
     'recv ' + hx('f;ls;tree;cd ..;pwd;tree;ls /;cd /\r\n'), 'recv ' + hx('tree\r\n')],
    # a handler umounts itself and mounts itself elsewhere under a built-in's name; a second session stands in the directory
    ['mkdir', 'mkfunc u:1:' + hx('f') + ' m:0:2:' + hx('ls') + ' m:1:1:' + hx('loop'), 'mount 0 1 ' + hx('d'), 'mount 1 2 ' + hx('f'), 'open 1', 'sel 1', 'open 1',
     'recv ' + hx('cd d\r\n'), 'sel 0', 'recv ' + hx('d/f;d/f;/ls;ls;tree\r\n'), 'sel 1', 'recv ' + hx('f;ls;tree;loop/loop/../..\r\n')],
    # through the real telnet read path: the handler deletes its parent directory and ends the session; the stdio shell likewise
    ['mkdir', 'mkfunc r:1 e', 'mount 0 1 ' + hx('d'), 'mount 1 2 ' + hx('f'), 'xconn 4', 'xsock 4 ' + hx('cd d\r\nf;tree;ls ..\r\n') + ' 3,2,a', 'xsock 4 - -', 'pass', 'pass'],
    ['mkdir', 'mkfunc r:2 r:1 d', 'mount 0 1 ' + hx('d'), 'mount 1 2 ' + hx('f'), 'sstart', 'srecv ' + hx('d/f;tree\r\n'), 'pass'],
    # nested: the handler feeds a line that calls the handler again (its node is gone by then), depth 3
    ['depth 3', 'mkfunc f:' + hx('f\r\n') + ' r:1 f:' + hx('f;tree\r\n'), 'mount 0 1 ' + hx('f'), 'open 1', 'recv ' + hx('f;f\r\n')],
]


def gen(rng, tier):
    n = 120 if tier == 'quick' else 8000
    # a malformed op stream: both sides must answer bad-op
    yield ['recv 00', 'open 4', 'open 1', 'open 1', 'recv 0g', 'opt 9', 'mount 0 7 61', 'rmnode 0', 'frob', 'trecv 00', 'tconn', 'tconn',
           'tdisc x', 'rsend', 'winsz 70000 1', 'umount 3 61', 'recv', 'sel 4', 'sel 1', 'recv 00', 'xconn 3', 'xconn 7', 'xrecv 4 00',
           'xconn 4', 'xconn 4', 'xdisc 5', 'srecv 00', 'sstop', 'split', 'split 0', 'sstart', 'sstart', 'teardown', 'xrecv 4 00',
           'wfault 4 1', 'xclose 4', 'wfault 3 1', 'xconn 5', 'wfault 5 4', 'wfault 5 3', 'xclose 5', 'xclose 5', 'wfault 5 0', 'sstart', 'pass', 'xconn 5',
           'depth 4', 'depth 1', 'mkfunc x', 'mkfunc f:0g', 'mkfunc e e e e e e e', 'mkfunc s:- e f:61', 'mkfunc d d', 'mkfunc dd', 'mkfunc r:', 'mkfunc r:1:2', 'mkfunc m:0:1', 'mkfunc u:x:61', 'mkfunc m:0:1:0g', 'mkfunc r:1 u:0:61 m:0:1:61',
           'xsock 4 00 x', 'xsock 4 00 0', 'xsock 4 00 1025', 'xsock 3 00 -', 'xsock 5 00 1,,2', 'xsock 5 00 a,1', 'xsock 5 00 1,1,1,1,1,1,1,1,1',
           'xsock 5 00', 'xconnf 4 0', 'xconnf 4 5', 'xconnf 3 1', 'xconnf 5 2', 'xconnf 6 3', 'xsock 5 70770d0a 2,a', 'xsock 5 - z', 'xsock 5 00 -', 'pass',
           'ssplit - 00', 'ssplit 3b', 'ssplit 3b -', 'hexstr 00 5 0 -', 'hexstr 00 1 2 -', 'hexstr - 0 0 -', 'hexstr 00 65536 1 2c',
           'scrw 3', 'scrw 1001', 'scrw x', 'scrw 20']
    # the repaired defects, minimal (also in corpus/C13)
    yield ['open 0', 'recv ' + hx('exit;exit\r\n'), 'pass']
    yield ['open 0', 'recv ' + hx('!!\r\n')]
    yield ['open 0', 'recv ' + hx('!99999999999\r\n')]
    yield ['open 0', 'recv ' + hx('!-2147483648\r\n')]
    yield ['tconn', 'trecv fffa1f01fff0']
    yield ['tconn', 'tend', 'tsend']
    yield ['open 0', 'recv ' + hx('exit\r\n'), 'teardown', 'open 0', 'recv ' + hx('pwd\r\n')]
    yield ['xconn 4', 'xrecv 4 ' + hx('exit\r\n'), 'teardown']
    # a client's exit / a handler's endSession(), then the services are destroyed before the disconnect task ran
    yield ['xconn 4', 'xrecv 4 ' + hx('exit\r\n'), 'passdown', 'open 0']
    yield ['xconn 6', 'xconn 5', 'open 1', 'recv ' + hx('exit\r\n'), 'xrecv 6 ' + hx('exit\r\n'), 'xrecv 5 ' + hx('pwd\r\n'), 'passdown', 'xconn 6']
    yield ['mkfunc e', 'mount 0 1 ' + hx('p'), 'xconn 6', 'xrecv 6 ' + hx('p\r\n'), 'teardown', 'open 0']
    yield ['mkfunc e', 'mount 0 1 ' + hx('p'), 'xconn 4', 'xrecv 4 ' + hx('p;exit\r\n'), 'passdown']
    # a stale exit task and the successor of its session in the same pooled SessionContext
    yield ['open 0', 'recv ' + hx('exit\r\n'), 'close', 'open 1', 'recv ' + hx('pwd\r\n'), 'pass', 'recv ' + hx('history\r\n'), 'recv ' + hx('exit\r\n'), 'pass', 'open 0', 'pass']
    # several sessions ended in one pass: in the order their exit tasks were queued
    yield ['open 0', 'sel 1', 'open 1', 'sel 2', 'open 0', 'recv ' + hx('exit\r\n'), 'sel 0', 'recv ' + hx('exit\r\n'), 'sel 1', 'recv ' + hx('pwd;exit\r\n'), 'pass']
    # re-entrant use: '!!' re-run of a shorter line while a handler feeds a key; a stored '!!' line
    yield ['depth 0', 'mkfunc f:' + hx('x'), 'mount 0 1 ' + hx('p'), 'open 0', 'recv ' + hx('p\r\n'), 'depth 1', 'recv ' + hx('!!     \r\n')]
    yield ['depth 1', 'mkfunc f:' + hx('\r\n!!'), 'mount 0 1 ' + hx('p'), 'open 0', 'recv ' + hx('p\r\n'), 'recv ' + hx('history\r\n'), 'recv ' + hx('!!\r\n')]
    # patch 11: a handler deletes the session it runs in (direct, telnet through the real read path, the stdio shell's stop())
    yield ['mkfunc d', 'mount 0 1 ' + hx('p'), 'open 1', 'recv ' + hx('p;pwd\r\nls'), 'recv ' + hx('\r\n'), 'open 0', 'recv ' + hx('history\r\n')]
    yield ['mkfunc d f:' + hx('pwd\r\n') + ' e', 'mount 0 1 ' + hx('p'), 'xconn 4', 'xsock 4 ' + hx('p;exit\r\n') + ' 3,a', 'xsock 4 - -', 'pass', 'xrecv 4 ' + hx('pwd\r\n'), 'xdisc 4', 'pass']
    yield ['mkfunc d', 'mount 0 1 ' + hx('p'), 'sstart', 'srecv ' + hx('p\r\n'), 'srecv ' + hx('p\r\n'), 'sstop', 'pass']
    # fix 1c1abc6: EINTR as the first readv answer is not the end of the connection (as found: read-error callback, the session
    # deleted with the client's bytes unread); the queued line is read by the next event / the real epoll pass, the session lives on
    yield ['xconn 4', 'xsock 4 ' + hx('help\n') + ' i', 'xsock 4 - -', 'xsock 4 ' + hx('pwd\r\n') + ' i', 'pass', 'xsock 4 - i', 'xsock 4 ' + hx('ls\r\n') + ' 2,i', 'pass']
    yield ['xconn 6', 'xsock 6 ' + hx('pwd\r\n') + ' i', 'xsock 6 - i', 'xclose 6', 'pass', 'pass']
    # the window is narrower than prompt + line: Home, then a character (C13_screen_in_window_counterexample on the real shell)
    yield ['scrw 8', 'open 1', 'recv ' + hx('abcdefgh'), 'recv ' + hx(b'\x1b[1~'), 'recv ' + hx('X'), 'recv ' + hx('\r\n')]
    # a sub-negotiation whose payload length is on both sides of 2^16 (onRecvSub passes it to a uint16_t parameter of the
    # trace helper): nothing may be read or consumed differently
    for ln in ([65532, 65536] if tier == 'quick' else [65531, 65532, 65533, 65535, 65536, 65537, 70000, 131072]):
        yield ['tconn', 'trecv ' + hx(b'\xff\xfa\x18' + b'a' * ln + b'\xff\xf0' + b'xy'), 'trecv ' + hx(b'\xff\xfa\x1f\x00\x50\x00\x18' + b'b' * ln), 'trecv fff07a']
    if tier != 'quick':
        # an edit line longer than 2^16 characters with cursor movement (cursor / sizes are size_t; the model is quadratic: thorough only)
        yield ['open 0', 'recv ' + hx(b'a' * 65600 + b'\x1b[1~b\x1b[4~c\x1b[D\x7f\r\n'), 'recv ' + hx('history\r\n')]
    for c in TREE_CASES:
        yield list(c)
    for _ in range(n):
        yield gen_treeact(rng)
    for _ in range(n):
        yield gen_shell(rng, rng.choice([2, 4, 8, 14]))
    for _ in range(n // 2):
        yield gen_shell(rng, rng.choice([3, 6]), hostile=True)
    for _ in range(n // 2):
        yield gen_history(rng)
    for _ in range(n // 6):
        yield gen_exit(rng)
    for _ in range(n // 2):
        yield gen_hostile(rng)
    for _ in range(n):
        yield gen_telnet(rng)
    for _ in range(n):
        yield gen_multi(rng, rng.choice([6, 12, 25]))
    for _ in range(n // 2):
        yield gen_builtin(rng)
    for _ in range(n // 3):
        yield gen_split(rng)
    for _ in range(n):
        yield gen_nested(rng)
    for _ in range(n // 2):
        yield gen_reuse(rng)
    for _ in range(n // 2):
        yield gen_faults(rng)
    for _ in range(n):
        yield gen_sock(rng)
    for _ in range(n // 2):
        yield gen_delete(rng)
    for _ in range(n // 2):
        yield gen_screen(rng)
    for _ in range(n // 2):
        yield gen_state(rng)
    for _ in range(n // 4):
        yield gen_strings(rng)


def nontrivial(ops, model_lines):
    tags = set(' '.join(l[2:] for l in model_lines if l.startswith('B ')).split())
    if tags & {'char-mid', 'bs-mid', 'del', 'up', 'down', 'bang-n', 'bang-neg', 'bang-oob', 'bang-range', 'bang-invalid',
               'bangbang', 'bangbang-empty', 'store-full', 'cmd-tree', 'cmd-user', 'cmd-exit'}:
        return 1
    if any(l.startswith(('P win', 'P setopt', 'P str')) for l in model_lines) and sum(1 for o in ops if o[1:5] == 'recv') >= 2:
        return 1
    if tags & {'nested-feed', 'bang-recursive', 'h-rm', 'h-mount', 'h-umount'}:
        return 1
    if tags & {'tree-cycle', 'child-deleted', 'node-deleted', 'tree-node-deleted', 'cd-func', 'ls-func', 'tree-func', 'tree-depth2'}:
        return 1
    if len({l.split()[2] for l in model_lines if l.startswith('P tx ') and len(l.split()) == 4}) >= 2:
        return 1          # at least two sessions produced output
    if any(l.startswith('P split ok') and int(l.split()[3]) >= 2 for l in model_lines) or any(l == 'P split fail' for l in model_lines):
        return 1
    if any(l.startswith('M sys') and 'readv=' in l for l in model_lines) or any(o.startswith('hexstr') for o in ops):
        return 1
    return None


RULE = ('op files from props/C13/plugin.py gen(): shell sessions over random node trees (typed command lines with mid-line edits, '
        'history walks, history references with boundary/huge/negative/malformed integers, exit sequences, loop passes), '
        'hostile byte streams, telnet/raw-TCP byte streams in random segmentations, several interleaved sessions on one terminal '
        '(4 recording connections, 2 telnet clients, 1 raw-TCP client, the stdio service; connects/disconnects/reconnects, exit, '
        'teardown without draining, teardown inside the loop pass that runs the exit tasks; telnet/raw-TCP input through the real socket read path with scripted readv answers (segment sizes, EAGAIN, EOF, ECONNRESET, EINTR, EIO), bytes left queued for the real epoll pass, accept failures; handlers deleting the session they run in; windows of 8-80 columns with lines longer than the window; history entries equal to the line typed, !n pushing itself out, nodes named like built-ins, the prompt pasted back; util::string::Split / RawDataToHexStr called directly at every alignment; slots re-opened after close/exit so that pooled '
        'session contexts and cabinet cells are reused while stale exit / disconnect tasks are queued; the kernel answering write() on a '
        'telnet/raw-TCP client socket with short counts, EAGAIN or EPIPE; clients closing their end unannounced with output pending), command handlers that act on their own session while the command executes (send, feed keys/lines incl. Enter, '
        '!!, !n, exit into the same session to nesting depth 0-3, end the session; delete / mount / umount nodes - their own node, their directory, the current directory, the root - with the rest of the line (cd, ls, tree, the handler again) still to run; histories near the 20-line limit), directed built-in command cases over cyclic trees and deleted nodes, direct SplitCmdline calls; non-trivial = '
        'the model run takes a mid-line edit, a history walk, a history reference, a full-history store, tree/user/exit command, '
        'a cycle/deleted-node branch of a built-in, output from at least two sessions, a split with >= 2 arguments or a failure, '
        'or a telnet case delivers events over at least two segments; distinct = distinct op text')
TRUSTED = ['model lean/TboxModel/C13/Model.lean is hand-written from modules/terminal/impl/*.cpp (incl. service/telnetd, tcp_rpc, stdio), '
           'util/split_cmdline.cpp, util/string.cpp; tied by differential runs (ASan+UBSan build of the working tree)',
           'lean/TboxModel/C13/Gen.lean (key scanner table) is dumped from the running implementation on every run; the dump code is in props/C13/harness.cpp',
           'telnet / raw-TCP clients connect over Unix sockets to real TcpAcceptor objects of the harness whose read event is delivered by a '
           'direct call (accept(2) interposed: success or EAGAIN/EMFILE/ECONNABORTED/EINTR with the pending connection gone); the accepted '
           'TcpConnection is handed to the service\'s real TcpServer as its own acceptor does; the services themselves run their real '
           'initialize()+start() on sockets nobody connects to. What Telnetd/TcpRpc send and whom they disconnect goes through the real '
           'TcpServer/TcpConnection/BufferedFd/socket path and is read back from the client end. RECEIVED bytes take two routes: op xrecv hands '
           'them to Impl::onTcpReceived in an exactly sized Buffer (overreads visible to ASan); op xsock writes them into the client socket and '
           'runs ONE read event of the real BufferedFd::onReadCallback (direct call, or the real epoll pass for what stays queued) with readv(2)/'
           'read(2) interposed: sizes of the successful calls, EAGAIN, end of file, ECONNRESET, EINTR, EIO at any call index chosen by the op '
           'file (EINTR is transient like EAGAIN since fix 1c1abc6: nothing delivered, the connection stays, the queue is read by the next event); the unconsumed rest lives in the connection\'s receive buffer for both routes. close/shutdown/setsockopt/accept/readv on the '
           'service\'s descriptors are recorded as M sys lines which the model predicts (deferred close of a finished connection included). '
           'The stdio service runs on the real StdioStream/BufferedFd with fds 0/1 redirected to pipes (termios calls fail harmlessly on a pipe)',
           'every byte a client receives is also fed to an independently written VT100-style emulator in the harness (grid of rows, right margin, '
           'immediate autowrap, BS/CR/LF, ESC [ C / ESC [ D); its current row + cursor are printed as P scr lines and compared with the Lean '
           'terminal ScrW run by the driver on the bytes the model sends (C13_wrap_agrees_below_width ties ScrW to the Scr of the screen theorem); '
           'M ed lines compare the real SessionContext (cursor, history index, line) with the model after every input op',
           'write faults (wfault 1/2) are scheduled between loop passes only: while a pass runs the kernel takes every write in full',
           'output lines of one op are grouped by connection: sessions on the recording connection are compared in chronological order '
           '(e.g. the order in which a loop pass ends them); different socket/pipe clients have no mutual order',
           'string constants (lean/TboxModel/C13/Msgs.lean) are transcribed by hand; a changed message text shows up as a P-divergence',
           'write() on the server end of a client socket is interposed in the harness (op wfault: short counts 1-3 bytes, EAGAIN on every other '
           'call, EPIPE); what BufferedFd queues is flushed at the end of the op by the calls its write event would make; an unannounced close '
           '(op xclose) is found by the real read event of the next real loop pass (epoll)',
           'the reference terminal of C13_screen_matches_editor (Spec.lean Scr: one unbounded row, BS/CR/LF, ESC [ C, ESC [ D) is a model of a '
           'VT100-style terminal without wrapping; the theorem bounds the columns used so that the no-wrap assumption is a hypothesis on the window width']
ASSUMPTIONS = ['command handlers act on their own session through Session::send/endSession, Terminal::onRecvString and '
               'Terminal::deleteSession / Stdio::stop(), and on the node tree through Terminal::deleteNode / mountNode / umountNode (any node: their '
               'own, their directory, the session\'s current directory, the root) - all scripted in the harness; they nest to a bounded depth, create '
               'no nodes and do not destroy the Terminal or a service object; a handler that deletes its own node relies on FuncNode::execute '
               'running a copy of the callback (patch 13)',
               'isprint/islower behave as in the C locale (the scanner table is dumped under the harness locale)',
               'stdio segments are at most 512 bytes (one read per loop pass); pipe writes of the service never block',
               'a client that closed its end unannounced is noticed in the next loop pass (not while the stdio service is running in the harness: kept apart)',
               'C13_screen_matches_editor / C13_screen_in_window_partial: echo mode on, window wider than prompt + longest line; beyond the margin '
               'the screen does NOT show the editor (C13_screen_in_window_counterexample, replayed on the real shell: corpus 22); terminal as '
               'modelled by Scr / ScrW (immediate autowrap, no reverse wrap)',
               'passdown is used only while no client has unread bytes queued; read events of several sockets in one pass are modelled in slot order '
               '(different clients have no observable mutual order)',
               'memory safety below index logic is observed by ASan/UBSan on the implementation only']
LEVEL_TEXT = ('Lean 4 theorems over a hand-written model of the terminal shell (line editor refines a zipper reference editor for every key '
              'sequence; one prompt per Enter; history = last 20 stored lines; !n/!-n/!! address exactly the specified entry for every '
              'integer text; no op/byte sequence over any number of interleaved sessions reaches a crash/exception/invalid-access outcome; '
              'sessions are independent and stale session tokens never alias; telnet IAC framing is segmentation independent; SplitCmdline '
              'contract) plus the key scanner table dumped from the running code and checked by decide; model tied to the code on every run by '
              'differential execution (ASan+UBSan) through recording connections, the real telnet/raw-TCP/stdio services and direct calls')
LEVEL_NOTE = ('trusted: Lean kernel, hand-written model + differential tie (coverage bounded by the generator, measured in evidence); the model '
              'describes the tree with patches/C13-01..13 applied - on a tree without 11 the check reports the crash of a command handler '
              'through which Terminal::deleteSession is called on its own session (corpus 19, 20); without 12 `tree` after deleteNode(rootNode()) '
              '(corpus 24); without 13 a handler that deletes its own node (corpus 25)')
TECHNIQUE = 'Lean 4 refinement/invariant proofs over an executable model + generated scanner table + model/implementation correspondence check'
DESIGN_REF = 'DESIGN.md §6 C13'


def fingerprint(ops, d):
    """class of the failure: crash kind or first diverging observable kind + the op kinds involved"""
    import hashlib
    impl = (d[1] if d else '')
    kind = impl.split(':')[0] + ':' + impl.split(':')[1][:24] if impl.startswith('CRASH') and ':' in impl else impl.split(' ')[0:2]
    key = '%s|%s' % (kind, ' '.join(sorted(set(o.split()[0] for o in ops))))
    return hashlib.sha1(key.encode()).hexdigest()[:12]
