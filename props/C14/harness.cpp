// C14 harness: executes framing / Rpc op files against the real jsonrpc protos and the real
// tbox::jsonrpc::Rpc (virtual time by libc interposition, 1-s ticks driven through a real Loop)
// and prints one line per op (format: see lean/Driver/C14.lean).
#include "vh.h"
#include "vtime.h"
#include "loopdrv.h"
#include <cstring>
#include <memory>
#include <tbox/base/json.hpp>
#include <tbox/event/loop.h>
#include <tbox/jsonrpc/proto.h>
#include <tbox/jsonrpc/protos/header_stream_proto.h>
#include <tbox/jsonrpc/protos/raw_stream_proto.h>
#include <tbox/jsonrpc/protos/packet_proto.h>
#include <tbox/jsonrpc/rpc.h>

using tbox::Json;
using namespace tbox::jsonrpc;

static void say(const std::string &s) { std::cout << s << "\n" << std::flush; }

struct Kind { char k = 0; uint16_t magic = 0; };

// Proto has no virtual destructor: keep the concrete type's deleter (shared_ptr does)
static std::shared_ptr<Proto> newProto(const Kind &k) {
    switch (k.k) {
        case 'H': return std::shared_ptr<Proto>(new HeaderStreamProto(k.magic));
        case 'R': return std::shared_ptr<Proto>(new RawStreamProto);
        default:  return std::shared_ptr<Proto>(new PacketProto);
    }
}

// one onRecvData call on an exact-size heap copy: any read past data_size is seen by ASan
static ssize_t recvExact(Proto *p, const std::string &buf) {
    size_t n = buf.size();
    std::unique_ptr<char[]> mem(new char[n ? n : 1]);
    if (n) memcpy(mem.get(), buf.data(), n);
    return p->onRecvData(mem.get(), n);
}

static std::string dumpHex(const Json &j) { return vh::hex(j.dump()); }

struct Stream {
    Kind kind;
    std::shared_ptr<Proto> proto;
    std::string buf;
    bool dead = false;
    std::vector<std::string> cbs;       // callback tokens of the current onRecvData call
    std::string last_sent;              // bytes handed to the send callback

    explicit Stream(const Kind &k) : kind(k), proto(newProto(k)) {
        proto->setRecvCallback(
            [this](int id, const std::string &m, const Json &params) {
                cbs.push_back("q:" + std::to_string(id) + ":" + vh::hex(m) + ":" + dumpHex(params));
            },
            [this](int id, int ec, const Json &res) {
                cbs.push_back("s:" + std::to_string(id) + ":" + std::to_string(ec) + ":" + dumpHex(res));
            });
        proto->setSendCallback([this](const void *p, size_t n) { last_sent.append((const char *)p, n); });
    }

    // the receive loop every user of a stream framing runs (examples/jsonrpc)
    void feedSeg(const std::string &seg, std::string &out) {
        out += " seg";
        if (kind.k == 'P') {            // one datagram = one call
            cbs.clear();
            ssize_t r = recvExact(proto.get(), seg);
            out += " r=" + std::to_string(r);
            for (auto &c : cbs) out += " " + c;
            return;
        }
        buf += seg;
        for (;;) {
            cbs.clear();
            ssize_t r = recvExact(proto.get(), buf);
            out += " r=" + std::to_string(r);
            for (auto &c : cbs) out += " " + c;
            if (r > 0) {
                if ((size_t)r > buf.size()) { out += " CONSUMED-BEYOND-INPUT"; dead = true; return; }
                buf.erase(0, r);
            } else if (r < 0) { dead = true; return; }
            else return;
        }
    }
    void feed(const std::vector<std::string> &segs) {
        if (dead) { say("P feed dead"); return; }
        std::string out = "P feed";
        for (auto &s : segs) { if (dead) break; feedSeg(s, out); }
        say(out);
    }
};

static bool slot(const std::string &w, size_t &i) { uint64_t v; if (!vh::to_u64(w, v) || v >= 4) return false; i = v; return true; }
static bool i32(const std::string &w, int &o) {
    int64_t v; if (!vh::to_i64(w, v) || v < -2147483648LL || v > 2147483647LL) return false; o = (int)v; return true;
}
// a JSON integer literal of any size: optional '-', digits, no leading zero, not "-0", <= 25 digits
static bool jsonInt(const std::string &w) {
    size_t i = (!w.empty() && w[0] == '-') ? 1 : 0;
    size_t nd = w.size() - i;
    if (nd == 0 || nd > 25) return false;
    for (size_t j = i; j < w.size(); ++j) if (w[j] < '0' || w[j] > '9') return false;
    if (nd > 1 && w[i] == '0') return false;
    if (i == 1 && nd == 1 && w[1] == '0') return false;
    return true;
}
static bool hexstr(const std::string &w, std::string &o) {
    std::vector<uint8_t> d; if (!vh::unhex(w, d)) return false; o.assign(d.begin(), d.end()); return true;
}

struct Framing {
    std::unique_ptr<Stream> st[4];
    std::vector<std::string> sent;

    // decode `bytes` with a fresh proto of the same kind; report what came out
    struct Got { int n = 0; char type = 0; int id = 0, ec = 0; std::string method; Json js; ssize_t ret = 0; };
    static Got decodeFresh(const Kind &k, const std::string &bytes) {
        Got g; std::shared_ptr<Proto> p = newProto(k);
        p->setRecvCallback(
            [&g](int id, const std::string &m, const Json &params) { ++g.n; g.type = 'q'; g.id = id; g.method = m; g.js = params; },
            [&g](int id, int ec, const Json &res) { ++g.n; g.type = 's'; g.id = id; g.ec = ec; g.js = res; });
        g.ret = recvExact(p.get(), bytes);
        return g;
    }

    bool op(const std::vector<std::string> &w) {
        size_t s = 0; int id = 0, code = 0; std::string a, b; uint64_t n = 0;
        if (w[0] == "open" && w.size() >= 3 && slot(w[1], s)) {
            Kind k;
            if (w[2] == "H" && w.size() == 4 && vh::to_u64(w[3], n) && n < 65536) { k.k = 'H'; k.magic = (uint16_t)n; }
            else if (w[2] == "R" && w.size() == 3) k.k = 'R';
            else if (w[2] == "P" && w.size() == 3) k.k = 'P';
            else return false;
            st[s].reset(new Stream(k));
            say("P open");
            return true;
        }
        bool isq = w[0] == "sendq" && w.size() == 5 && slot(w[1], s) && i32(w[2], id) && hexstr(w[3], a) && hexstr(w[4], b);
        bool isr = w[0] == "sendr" && w.size() == 4 && slot(w[1], s) && i32(w[2], id) && hexstr(w[3], b);
        bool ise = w[0] == "sende" && w.size() == 4 && slot(w[1], s) && i32(w[2], id) && i32(w[3], code);
        if (isq || isr || ise) {
            if (!st[s]) return false;
            Stream &S = *st[s];
            Json js;
            bool has = !(isq && w[4] == "-") && !ise;
            if (has) {
                try { js = Json::parse(b); } catch (const std::exception &) { say("P send invalid-json"); return true; }
            }
            S.last_sent.clear();
            if (isq) { if (has) S.proto->sendRequest(id, a, js); else S.proto->sendRequest(id, a); }
            else if (isr) S.proto->sendResult(id, js);
            else S.proto->sendError(id, code);
            std::string bytes = S.last_sent;
            Got g = decodeFresh(S.kind, bytes);
            bool rt = g.n == 1 && g.ret == (ssize_t)bytes.size() && g.id == id;
            if (isq) rt = rt && g.type == 'q' && g.method == a && g.js == js;
            else if (isr) rt = rt && g.type == 's' && g.ec == 0 && g.js == js;
            else rt = rt && g.type == 's' && g.ec == code && g.js.is_null();
            sent.push_back(bytes);
            say("P send " + vh::hex(bytes) + " rt=" + (rt ? "1" : "0"));
            return true;
        }
        if (w[0] == "feed" && w.size() == 3 && slot(w[1], s) && hexstr(w[2], a)) {
            if (!st[s]) return false;
            st[s]->feed({a});
            return true;
        }
        if (w[0] == "feedsent" && w.size() == 4 && slot(w[1], s)) {
            if (!st[s]) return false;
            std::string bytes;      // k1+k2+…: concatenation of earlier encoder outputs
            {
                if (w[2].empty() || w[2].back() == '+' || w[2].find("++") != std::string::npos) return false;
                std::string t; std::istringstream is(w[2]);
                while (std::getline(is, t, '+')) {
                    if (!vh::to_u64(t, n) || n >= sent.size()) return false;
                    bytes += sent[n];
                }
            }
            std::vector<size_t> cuts;
            if (w[3] != "-") {
                std::string t; std::istringstream is(w[3]); size_t prev = 0;
                while (std::getline(is, t, ',')) {
                    uint64_t c; if (!vh::to_u64(t, c) || c <= prev || c >= bytes.size()) return false;
                    cuts.push_back(c); prev = c;
                }
                if (cuts.empty() || w[3].back() == ',' || w[3].find(",,") != std::string::npos) return false;
            }
            std::vector<std::string> segs; size_t off = 0;
            for (size_t c : cuts) { segs.push_back(bytes.substr(off, c - off)); off = c; }
            segs.push_back(bytes.substr(off));
            st[s]->feed(segs);
            return true;
        }
        if (w[0] == "deep" && w.size() == 3 && slot(w[1], s) && vh::to_u64(w[2], n) && n <= 2000000) {
            if (!st[s]) return false;
            std::string text = std::string(n, '[') + "{\"jsonrpc\":\"2.0\",\"method\":\"m\"}" + std::string(n, ']');
            std::string bytes;
            if (st[s]->kind.k == 'H') {
                uint16_t m = st[s]->kind.magic; uint32_t l = (uint32_t)text.size();
                bytes.push_back((char)(m >> 8)); bytes.push_back((char)(m & 0xff));
                bytes.push_back((char)(l >> 24)); bytes.push_back((char)(l >> 16)); bytes.push_back((char)(l >> 8)); bytes.push_back((char)l);
            }
            bytes += text;
            st[s]->feed({bytes});
            return true;
        }
        return false;
    }
};

// ---------------------------------------------------------------------------------- Rpc
struct RpcCase {
    Kind kind;
    tbox::event::Loop *loop = nullptr;
    std::shared_ptr<Proto> proto, peer;
    std::unique_ptr<Rpc> rpc;
    std::vector<std::string> evs;
    int n_tag = 0;

    static void pump(Proto *p, const std::string &bytes) {   // whole messages: one frame per call
        std::string buf = bytes;
        for (;;) {
            if (buf.empty()) return;
            ssize_t r = recvExact(p, buf);
            if (r <= 0 || (size_t)r > buf.size()) return;
            buf.erase(0, r);
        }
    }
    RpcCase(const Kind &k, int n) : kind(k) {
        loop = tbox::event::Loop::New();
        proto = newProto(k); peer = newProto(k);
        rpc.reset(new Rpc(loop));
        rpc->initialize(proto.get(), n);
        proto->setSendCallback([this](const void *p, size_t sz) { pump(peer.get(), std::string((const char *)p, sz)); });
        peer->setSendCallback([this](const void *p, size_t sz) { pump(proto.get(), std::string((const char *)p, sz)); });
        peer->setRecvCallback(
            [this](int id, const std::string &, const Json &) { evs.push_back("s" + std::to_string(id)); },
            [this](int, int, const Json &) { evs.push_back("peer-got-response"); });
    }
    ~RpcCase() {
        rpc->cleanup(); rpc.reset(); proto.reset(); peer.reset();
        delete loop;
    }
    void request(bool chain) {
        int tag = n_tag++;
        rpc->request("m", Json::array({1, "x"}), [this, tag, chain](int ec, const Json &) {
            evs.push_back("f" + std::to_string(tag) + ":" + std::to_string(ec));
            if (chain) request(false);
        });
    }
    // returns false for an ill-typed op
    bool act(const std::vector<std::string> &w) {
        int code = 0; uint64_t ms = 0;
        if (w[0] == "req" && w.size() == 2 && (w[1] == "0" || w[1] == "1")) { request(w[1] == "1"); return true; }
        if (w[0] == "note" && w.size() == 1) { rpc->notify("n"); return true; }
        if (w[0] == "rsp" && w.size() == 3 && jsonInt(w[1]) && i32(w[2], code)) {
            // the peer's response as text (the id literal may be beyond int), framed by hand
            std::string text = code == 0
                ? "{\"id\":" + w[1] + ",\"jsonrpc\":\"2.0\",\"result\":7}"
                : "{\"error\":{\"code\":" + std::to_string(code) + "},\"id\":" + w[1] + ",\"jsonrpc\":\"2.0\"}";
            std::string bytes;
            if (kind.k == 'H') {
                uint16_t m = kind.magic; uint32_t l = (uint32_t)text.size();
                bytes.push_back((char)(m >> 8)); bytes.push_back((char)(m & 0xff));
                bytes.push_back((char)(l >> 24)); bytes.push_back((char)(l >> 16)); bytes.push_back((char)(l >> 8)); bytes.push_back((char)l);
            }
            bytes += text;
            pump(proto.get(), bytes);
            return true;
        }
        if (w[0] == "adv" && w.size() == 2 && vh::to_u64(w[1], ms) && ms <= 100000) { vt::advance_ms((int64_t)ms); return true; }
        return false;
    }
    void flush() {
        std::string out = "P ev";
        if (evs.empty()) out += " -";
        for (auto &e : evs) out += " " + e;
        evs.clear();
        say(out);
    }
};

// ------------------------------------------------------------------ two Rpc peers, scripted pipe
struct WorldCase {
    Kind kind;
    tbox::event::Loop *loop = nullptr;
    std::shared_ptr<Proto> pa, pb;
    std::unique_ptr<Rpc> A, B;              // A: client peer, B: server peer
    std::vector<std::string> cs, sc;        // frames in flight
    std::vector<std::string> cev, sev;
    int n_tag = 0, n_srsp = 0;

    WorldCase(const Kind &k, int nc, int ns) : kind(k) {
        loop = tbox::event::Loop::New();
        pa = newProto(k); pb = newProto(k);
        A.reset(new Rpc(loop)); B.reset(new Rpc(loop));
        A->initialize(pa.get(), nc); B->initialize(pb.get(), ns);
        pa->setSendCallback([this](const void *p, size_t sz) {
            std::string bytes((const char *)p, sz);
            auto g = Framing::decodeFresh(kind, bytes);
            cev.push_back(g.n == 1 && g.type == 'q' ? "s" + std::to_string(g.id) + ":" + g.method : "s?");
            cs.push_back(bytes);
        });
        pb->setSendCallback([this](const void *p, size_t sz) {
            std::string bytes((const char *)p, sz);
            auto g = Framing::decodeFresh(kind, bytes);
            sev.push_back(g.n == 1 && g.type == 's' ? "r" + std::to_string(g.id) + ":" + std::to_string(g.ec) : "r?");
            sc.push_back(bytes);
        });
        auto svc = [this](int code, bool sync) {
            return [this, code, sync](int id, const Json &, int &errcode, Json &result) {
                sev.push_back("c" + std::to_string(id));
                errcode = code; result = 7;
                return sync;
            };
        };
        B->addService("s0", svc(0, true));
        B->addService("s5", svc(5, true));
        B->addService("as", svc(0, false));
    }
    ~WorldCase() {
        A->cleanup(); B->cleanup(); A.reset(); B.reset(); pa.reset(); pb.reset();
        delete loop;
    }
    void request(bool chain, const std::string &method) {
        int tag = n_tag++;
        A->request(method, Json::array({1}), [this, tag, chain](int ec, const Json &) {
            cev.push_back("f" + std::to_string(tag) + ":" + std::to_string(ec));
            if (chain) request(false, "s0");
        });
    }
    static bool svcTok(const std::string &m) { return m == "s0" || m == "s5" || m == "as" || m == "no"; }
    bool act(const std::vector<std::string> &w) {
        int id = 0, code = 0; uint64_t n = 0;
        if (w[0] == "req" && w.size() == 3 && (w[1] == "0" || w[1] == "1") && svcTok(w[2])) { request(w[1] == "1", w[2]); return true; }
        if (w[0] == "note" && w.size() == 2 && svcTok(w[1])) { A->notify(w[1]); return true; }
        if ((w[0] == "dlv" || w[0] == "drop" || w[0] == "dup") && w.size() == 3 && (w[1] == "cs" || w[1] == "sc") && vh::to_u64(w[2], n)) {
            bool to_server = w[1] == "cs";
            auto &q = to_server ? cs : sc;
            if (n >= q.size()) return true;       // nothing there: no-op
            if (w[0] == "dup") { q.push_back(q[n]); return true; }
            std::string bytes = q[n];
            q.erase(q.begin() + n);
            if (w[0] == "dlv") RpcCase::pump(to_server ? pb.get() : pa.get(), bytes);
            return true;
        }
        if (w[0] == "srsp" && w.size() == 3 && i32(w[1], id) && i32(w[2], code)) {
            // all three overloads of respond(): (id, errcode, result), (id, result), (id, errcode)
            bool three = (n_srsp++ % 2) == 0;
            if (code == 0) { if (three) B->respond(id, 0, Json(7)); else B->respond(id, Json(7)); }
            else { if (three) B->respond(id, code, Json()); else B->respond(id, code); }
            return true;
        }
        if (w[0] == "adv" && w.size() == 2 && vh::to_u64(w[1], n) && n <= 100000) { vt::advance_ms((int64_t)n); return true; }
        return false;
    }
    void flush() {
        std::string out = "P ev";
        if (cev.empty()) out += " -";
        for (auto &e : cev) out += " " + e;
        out += " |";
        if (sev.empty()) out += " -";
        for (auto &e : sev) out += " " + e;
        cev.clear(); sev.clear();
        say(out);
    }
};

static void runWorldCase(const Kind &k, int nc, int ns, const std::vector<std::string> &ops) {
    WorldCase wc(k, nc, ns);
    say("P world");
    if (ops.empty()) return;
    size_t idx = 0; int phase = 0;
    vh::LoopDriver drv(wc.loop);
    drv.step = [&]() -> bool {
        if (phase == 0) {
            auto w = vh::words(ops[idx]);
            if (w.empty() || !wc.act(w)) { say("bad-op"); ++idx; return idx < ops.size(); }
            phase = 1; return true;
        }
        wc.flush(); phase = 0; ++idx;
        return idx < ops.size();
    };
    drv.run();
}

static void runRpcCase(const Kind &k, int n, const std::vector<std::string> &ops) {
    RpcCase rc(k, n);
    say("P rpc");
    if (ops.empty()) return;
    size_t idx = 0; int phase = 0;
    vh::LoopDriver drv(rc.loop);
    drv.step = [&]() -> bool {
        // phase 0: perform op idx; the loop then makes one full pass (expired timers run);
        // phase 1: print what happened
        if (phase == 0) {
            auto w = vh::words(ops[idx]);
            if (w.empty() || !rc.act(w)) { say("bad-op"); ++idx; return idx < ops.size(); }
            phase = 1; return true;
        }
        rc.flush(); phase = 0; ++idx;
        return idx < ops.size();
    };
    drv.run();
}

static void runCase(const std::vector<std::string> &lines) {
    size_t i = 0;
    Framing fr;
    bool fresh = true;      // no framing op accepted yet: `rpc` may still start an Rpc case
    for (; i < lines.size(); ++i) {
        auto w = vh::words(lines[i]);
        if (w.empty()) continue;
        uint64_t n = 0;
        if (fresh && w[0] == "rpc" && w.size() == 3 && (w[1] == "H" || w[1] == "R" || w[1] == "P") &&
            vh::to_u64(w[2], n) && n >= 1 && n <= 8) {
            Kind k; k.k = w[1][0]; k.magic = 0x3e5a;
            std::vector<std::string> rest;
            for (size_t j = i + 1; j < lines.size(); ++j) if (!vh::words(lines[j]).empty()) rest.push_back(lines[j]);
            runRpcCase(k, (int)n, rest);
            return;
        }
        uint64_t nc = 0, ns = 0;
        if (fresh && w[0] == "world" && w.size() == 4 && (w[1] == "H" || w[1] == "R" || w[1] == "P") &&
            vh::to_u64(w[2], nc) && nc >= 1 && nc <= 8 && vh::to_u64(w[3], ns) && ns >= 1 && ns <= 8) {
            Kind k; k.k = w[1][0]; k.magic = 0x3e5a;
            std::vector<std::string> rest;
            for (size_t j = i + 1; j < lines.size(); ++j) if (!vh::words(lines[j]).empty()) rest.push_back(lines[j]);
            runWorldCase(k, (int)nc, (int)ns, rest);
            return;
        }
        if (!fr.op(w)) say("bad-op"); else fresh = false;
    }
}

int main() {
    vt::enable(1000000, 1700000000000LL);
    std::string line; std::vector<std::string> cur; bool have = false;
    while (std::getline(std::cin, line)) {
        auto w = vh::words(line);
        if (!w.empty() && w[0] == "case") {
            if (have) runCase(cur);
            cur.clear(); have = true;
            say(line);
            continue;
        }
        if (w.empty()) continue;
        if (!have) { have = true; }
        cur.push_back(line);
    }
    if (have) runCase(cur);
    return 0;
}
