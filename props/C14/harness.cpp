// C14 harness: executes framing / Rpc op files against the real jsonrpc protos and the real
// tbox::jsonrpc::Rpc (virtual time by libc interposition, 1-s ticks driven through a real Loop)
// and prints one line per op (format: see lean/Driver/C14.lean).
#include "vh.h"
#include "vtime.h"
#include "loopdrv.h"
#include <cstring>
#include <memory>
#include <tbox/base/json.hpp>
#include <tbox/event/loop.h>
#include <tbox/jsonrpc/proto.h>
#include <tbox/jsonrpc/protos/header_stream_proto.h>
#include <tbox/jsonrpc/protos/raw_stream_proto.h>
#include <tbox/jsonrpc/protos/packet_proto.h>
#include <tbox/jsonrpc/rpc.h>
#include <tbox/util/json.h>
#include <climits>

using tbox::Json;
using namespace tbox::jsonrpc;

static void say(const std::string &s) { std::cout << s << "\n" << std::flush; }

struct Kind { char k = 0; uint16_t magic = 0; };

// Proto has no virtual destructor: keep the concrete type's deleter (shared_ptr does)
static std::shared_ptr<Proto> newProto(const Kind &k) {
    switch (k.k) {
        case 'H': return std::shared_ptr<Proto>(new HeaderStreamProto(k.magic));
        case 'R': return std::shared_ptr<Proto>(new RawStreamProto);
        default:  return std::shared_ptr<Proto>(new PacketProto);
    }
}

// one onRecvData call on a heap copy that ends exactly at the end of its block (any read past
// data_size is seen by ASan) and starts at every alignment 0..7 in turn
static ssize_t recvExact(Proto *p, const std::string &buf) {
    static unsigned turn = 0;
    size_t off = (turn++) & 7;
    size_t n = buf.size();
    std::unique_ptr<char[]> mem(new char[off + n ? off + n : 1]);
    if (n) memcpy(mem.get() + off, buf.data(), n);
    return p->onRecvData(mem.get() + off, n);
}

// Rpc::id_alloc_ is private; an explicit instantiation may name it (test-only: the `jump` op)
template <typename Tag, typename Tag::type M> struct Rob { friend typename Tag::type robGet(Tag) { return M; } };
struct RpcIdAlloc { typedef int Rpc::*type; friend type robGet(RpcIdAlloc); };
template struct Rob<RpcIdAlloc, &Rpc::id_alloc_>;
static int &idAllocOf(Rpc &r) { return r.*robGet(RpcIdAlloc()); }

// ------------------------------------------------------------------ JSON value descriptions (no spaces)
//  n t f | d (1.5) D (1.0) | i<int literal> | s<hex of printable ASCII> | [v,v,…] | {<hexkey>:v,…}
struct Desc {
    const std::string &src; size_t pos = 0; bool ok = true; std::string text;
    explicit Desc(const std::string &s) : src(s) {}
    static bool printable(const std::string &b) { for (unsigned char c : b) if (c < 0x20 || c > 0x7e) return false; return true; }
    static std::string quote(const std::string &b) {
        std::string o = "\"";
        for (char c : b) { if (c == '"' || c == '\\') o.push_back('\\'); o.push_back(c); }
        return o + "\"";
    }
    std::string hexrun() { size_t b = pos; while (pos < src.size() && ((src[pos] >= '0' && src[pos] <= '9') || (src[pos] >= 'a' && src[pos] <= 'f'))) ++pos; return src.substr(b, pos - b); }
    bool str(std::string &out) { std::vector<uint8_t> d; std::string h = hexrun(); if (h.size() % 2 || !vh::unhex(h.empty() ? "-" : h, d)) return false;
        out.assign(d.begin(), d.end()); return printable(out); }
    void value(int depth) {
        if (!ok) return;
        if (depth > 16 || pos >= src.size()) { ok = false; return; }
        char c = src[pos++];
        switch (c) {
            case 'n': text += "null"; return;
            case 't': text += "true"; return;
            case 'f': text += "false"; return;
            case 'd': text += "1.5"; return;
            case 'D': text += "1.0"; return;
            case 'i': { size_t b = pos; if (pos < src.size() && src[pos] == '-') ++pos;
                        while (pos < src.size() && src[pos] >= '0' && src[pos] <= '9') ++pos;
                        std::string lit = src.substr(b, pos - b);
                        if (!jsonIntLit(lit)) { ok = false; return; } text += lit; return; }
            case 's': { std::string b; if (!str(b)) { ok = false; return; } text += quote(b); return; }
            case '[': { text += "[";
                        if (pos < src.size() && src[pos] == ']') { ++pos; text += "]"; return; }
                        for (;;) { value(depth + 1); if (!ok) return;
                                   if (pos < src.size() && src[pos] == ',') { ++pos; text += ","; continue; }
                                   if (pos < src.size() && src[pos] == ']') { ++pos; text += "]"; return; }
                                   ok = false; return; } }
            case '{': { text += "{"; std::vector<std::string> keys;
                        if (pos < src.size() && src[pos] == '}') { ++pos; text += "}"; return; }
                        for (;;) { std::string k; if (!str(k)) { ok = false; return; }
                                   for (auto &o : keys) if (o == k) { ok = false; return; }
                                   keys.push_back(k);
                                   if (pos >= src.size() || src[pos] != ':') { ok = false; return; }
                                   ++pos; text += quote(k) + ":"; value(depth + 1); if (!ok) return;
                                   if (pos < src.size() && src[pos] == ',') { ++pos; text += ","; continue; }
                                   if (pos < src.size() && src[pos] == '}') { ++pos; text += "}"; return; }
                                   ok = false; return; } }
            default: ok = false; return;
        }
    }
    static bool jsonIntLit(const std::string &w) {
        size_t i = (!w.empty() && w[0] == '-') ? 1 : 0; size_t nd = w.size() - i;
        if (nd == 0 || nd > 25) return false;
        if (nd > 1 && w[i] == '0') return false;
        if (i == 1 && nd == 1 && w[1] == '0') return false;
        return true;
    }
    // whole string must be one value
    static bool parse(const std::string &s, std::string &text) {
        if (s.size() > 4000) return false;
        Desc d(s); d.value(0);
        if (!d.ok || d.pos != s.size()) return false;
        text = d.text; return true;
    }
};
static std::string hexk(const std::string &k) { return k.empty() ? std::string() : vh::hex(k); }
// canonical rendering of a parsed value, same grammar (floats: d; object keys in std::map order)
static std::string canon(const Json &j) {
    switch (j.type()) {
        case Json::value_t::null: return "n";
        case Json::value_t::boolean: return j.get<bool>() ? "t" : "f";
        case Json::value_t::number_unsigned: return "i" + std::to_string(j.get<uint64_t>());
        case Json::value_t::number_integer: return "i" + std::to_string(j.get<int64_t>());
        case Json::value_t::number_float: return "d";
        case Json::value_t::string: return "s" + hexk(j.get<std::string>());
        case Json::value_t::array: { std::string o = "["; bool first = true;
            for (auto &x : j) { if (!first) o += ","; first = false; o += canon(x); } return o + "]"; }
        case Json::value_t::object: { std::string o = "{"; bool first = true;
            for (auto it = j.begin(); it != j.end(); ++it) { if (!first) o += ","; first = false; o += hexk(it.key()) + ":" + canon(it.value()); }
            return o + "}"; }
        default: return "?";
    }
}

static std::string dumpHex(const Json &j) { return vh::hex(j.dump()); }

struct Stream {
    Kind kind;
    std::shared_ptr<Proto> proto;
    std::string buf;
    bool dead = false;
    std::vector<std::string> cbs;       // callback tokens of the current onRecvData call
    std::string last_sent;              // bytes handed to the send callback

    explicit Stream(const Kind &k) : kind(k), proto(newProto(k)) {
        proto->setRecvCallback(
            [this](int id, const std::string &m, const Json &params) {
                cbs.push_back("q:" + std::to_string(id) + ":" + vh::hex(m) + ":" + dumpHex(params));
            },
            [this](int id, int ec, const Json &res) {
                cbs.push_back("s:" + std::to_string(id) + ":" + std::to_string(ec) + ":" + dumpHex(res));
            });
        proto->setSendCallback([this](const void *p, size_t n) { last_sent.append((const char *)p, n); });
    }

    // the receive loop every user of a stream framing runs (examples/jsonrpc)
    void feedSeg(const std::string &seg, std::string &out) {
        out += " seg";
        if (kind.k == 'P') {            // one datagram = one call
            cbs.clear();
            ssize_t r = recvExact(proto.get(), seg);
            out += " r=" + std::to_string(r);
            for (auto &c : cbs) out += " " + c;
            return;
        }
        buf += seg;
        for (;;) {
            cbs.clear();
            ssize_t r = recvExact(proto.get(), buf);
            out += " r=" + std::to_string(r);
            for (auto &c : cbs) out += " " + c;
            if (r > 0) {
                if ((size_t)r > buf.size()) { out += " CONSUMED-BEYOND-INPUT"; dead = true; return; }
                buf.erase(0, r);
            } else if (r < 0) { dead = true; return; }
            else return;
        }
    }
    void feed(const std::vector<std::string> &segs) {
        if (dead) { say("P feed dead"); return; }
        std::string out = "P feed";
        for (auto &s : segs) { if (dead) break; feedSeg(s, out); }
        say(out);
    }
};

static bool slot(const std::string &w, size_t &i) { uint64_t v; if (!vh::to_u64(w, v) || v >= 4) return false; i = v; return true; }
static bool i32(const std::string &w, int &o) {
    int64_t v; if (!vh::to_i64(w, v) || v < -2147483648LL || v > 2147483647LL) return false; o = (int)v; return true;
}
// a JSON integer literal of any size: optional '-', digits, no leading zero, not "-0", <= 25 digits
static bool jsonInt(const std::string &w) {
    size_t i = (!w.empty() && w[0] == '-') ? 1 : 0;
    size_t nd = w.size() - i;
    if (nd == 0 || nd > 25) return false;
    for (size_t j = i; j < w.size(); ++j) if (w[j] < '0' || w[j] > '9') return false;
    if (nd > 1 && w[i] == '0') return false;
    if (i == 1 && nd == 1 && w[1] == '0') return false;
    return true;
}
static bool hexstr(const std::string &w, std::string &o) {
    std::vector<uint8_t> d; if (!vh::unhex(w, d)) return false; o.assign(d.begin(), d.end()); return true;
}

struct Framing {
    std::unique_ptr<Stream> st[4];
    std::vector<std::string> sent;

    // decode `bytes` with a fresh proto of the same kind; report what came out
    struct Got { int n = 0; char type = 0; int id = 0, ec = 0; std::string method; Json js; ssize_t ret = 0; };
    static Got decodeFresh(const Kind &k, const std::string &bytes) {
        Got g; std::shared_ptr<Proto> p = newProto(k);
        p->setRecvCallback(
            [&g](int id, const std::string &m, const Json &params) { ++g.n; g.type = 'q'; g.id = id; g.method = m; g.js = params; },
            [&g](int id, int ec, const Json &res) { ++g.n; g.type = 's'; g.id = id; g.ec = ec; g.js = res; });
        g.ret = recvExact(p.get(), bytes);
        return g;
    }

    static std::string frameOfKind(const Kind &kind, const std::string &text) {
        std::string bytes;
        if (kind.k == 'H') {
            uint16_t m = kind.magic; uint32_t l = (uint32_t)text.size();
            bytes.push_back((char)(m >> 8)); bytes.push_back((char)(m & 0xff));
            bytes.push_back((char)(l >> 24)); bytes.push_back((char)(l >> 16)); bytes.push_back((char)(l >> 8)); bytes.push_back((char)l);
        }
        return bytes + text;
    }
    // encoder -> decoder round trip on the real code for every text length lo..hi, three message kinds each
    // (request / result / error whose variable part is a padded string), every message followed by a small
    // second one so that a desynchronised stream shows
    static void lenSweep(const Kind &k, size_t lo, size_t hi) {
        std::shared_ptr<Proto> tx = newProto(k);
        std::vector<std::string> outs;
        tx->setSendCallback([&outs](const void *p, size_t n) { outs.push_back(std::string((const char *)p, n)); });
        const size_t over = k.k == 'H' ? 6 : 0;
        size_t count = 0; std::string bad = "-";
        const size_t base[3] = { Json({{"jsonrpc", "2.0"}, {"method", "m"}, {"id", 1}, {"params", ""}}).dump().size(),
                                 Json({{"jsonrpc", "2.0"}, {"id", 1}, {"result", ""}}).dump().size(),
                                 Json({{"jsonrpc", "2.0"}, {"id", 1}, {"error", {{"code", 5}, {"message", "x"}}}}).dump().size() - 1 };
        for (size_t L = lo; L <= hi && bad == "-"; ++L) {
            for (int kind = 0; kind < 3 && bad == "-"; ++kind) {
                ++count;
                size_t padn = L > base[kind] ? L - base[kind] : 0;
                if (kind == 2 && padn == 0) padn = 1;        // sendError omits an empty message
                std::string pad(padn, 'a');
                if (padn > 2) { pad[padn / 2] = '}'; pad[padn - 1] = ']'; }     // brackets inside the string
                outs.clear();
                if (kind == 0) { tx->sendRequest(1, "m", Json(pad)); tx->sendRequest(2, "n"); }
                else if (kind == 1) { tx->sendResult(1, Json(pad)); tx->sendResult(2, Json(7)); }
                else { tx->sendError(1, 5, pad); tx->sendError(2, 6); }
                std::string why;
                size_t want = std::max(L, base[kind] + (kind == 2 ? 1 : 0));
                if (outs.size() != 2) why = "frames=" + std::to_string(outs.size());
                else if (outs[0].size() != over + want) why = "frame-size=" + std::to_string(outs[0].size());
                else {
                    struct G { int n = 0; char type = 0; int id = 0, ec = 0; std::string method; Json js; } g[2]; int gi = 0;
                    std::shared_ptr<Proto> rx = newProto(k);
                    rx->setRecvCallback(
                        [&](int id, const std::string &m, const Json &params) { if (gi < 2) { g[gi].n++; g[gi].type = 'q'; g[gi].id = id; g[gi].method = m; g[gi].js = params; } ++gi; },
                        [&](int id, int ec, const Json &res) { if (gi < 2) { g[gi].n++; g[gi].type = 's'; g[gi].id = id; g[gi].ec = ec; g[gi].js = res; } ++gi; });
                    if (k.k == 'P') {
                        for (int i = 0; i < 2 && why.empty(); ++i) {
                            ssize_t r = recvExact(rx.get(), outs[i]);
                            if (r != (ssize_t)outs[i].size()) why = "ret" + std::to_string(i) + "=" + std::to_string(r);
                        }
                    } else {
                        std::string buf = outs[0] + outs[1];
                        for (int i = 0; i < 2 && why.empty(); ++i) {
                            ssize_t r = recvExact(rx.get(), buf);
                            if (r != (ssize_t)outs[i].size()) why = "ret" + std::to_string(i) + "=" + std::to_string(r);
                            else buf.erase(0, r);
                        }
                        if (why.empty() && !buf.empty()) why = "left=" + std::to_string(buf.size());
                    }
                    if (why.empty()) {
                        bool ok = gi == 2 && g[0].id == 1 && g[1].id == 2;
                        if (kind == 0) ok = ok && g[0].type == 'q' && g[0].method == "m" && g[0].js == Json(pad) && g[1].type == 'q' && g[1].method == "n";
                        else if (kind == 1) ok = ok && g[0].type == 's' && g[0].ec == 0 && g[0].js == Json(pad) && g[1].js == Json(7);
                        else ok = ok && g[0].type == 's' && g[0].ec == 5 && g[1].ec == 6;
                        if (!ok) why = "decoded=" + std::to_string(gi);
                    }
                }
                if (!why.empty()) bad = std::to_string(L) + ":" + "qre"[kind] + ":" + why;
            }
        }
        say("P lensweep n=" + std::to_string(count) + " bad=" + bad);
    }

    bool op(const std::vector<std::string> &w) {
        size_t s = 0; int id = 0, code = 0; std::string a, b; uint64_t n = 0;
        if (w[0] == "open" && w.size() >= 3 && slot(w[1], s)) {
            Kind k;
            if (w[2] == "H" && w.size() == 4 && vh::to_u64(w[3], n) && n < 65536) { k.k = 'H'; k.magic = (uint16_t)n; }
            else if (w[2] == "R" && w.size() == 3) k.k = 'R';
            else if (w[2] == "P" && w.size() == 3) k.k = 'P';
            else return false;
            st[s].reset(new Stream(k));
            say("P open");
            return true;
        }
        bool isq = w[0] == "sendq" && w.size() == 5 && slot(w[1], s) && i32(w[2], id) && hexstr(w[3], a) && hexstr(w[4], b);
        bool isr = w[0] == "sendr" && w.size() == 4 && slot(w[1], s) && i32(w[2], id) && hexstr(w[3], b);
        bool ise = w[0] == "sende" && w.size() == 4 && slot(w[1], s) && i32(w[2], id) && i32(w[3], code);
        if (isq || isr || ise) {
            if (!st[s]) return false;
            Stream &S = *st[s];
            Json js;
            bool has = !(isq && w[4] == "-") && !ise;
            if (has) {
                try { js = Json::parse(b); } catch (const std::exception &) { say("P send invalid-json"); return true; }
            }
            S.last_sent.clear();
            if (isq) { if (has) S.proto->sendRequest(id, a, js); else S.proto->sendRequest(id, a); }
            else if (isr) S.proto->sendResult(id, js);
            else S.proto->sendError(id, code);
            std::string bytes = S.last_sent;
            Got g = decodeFresh(S.kind, bytes);
            bool rt = g.n == 1 && g.ret == (ssize_t)bytes.size() && g.id == id;
            if (isq) rt = rt && g.type == 'q' && g.method == a && g.js == js;
            else if (isr) rt = rt && g.type == 's' && g.ec == 0 && g.js == js;
            else rt = rt && g.type == 's' && g.ec == code && g.js.is_null();
            sent.push_back(bytes);
            say("P send " + vh::hex(bytes) + " rt=" + (rt ? "1" : "0"));
            return true;
        }
        if (w[0] == "feed" && w.size() == 3 && slot(w[1], s) && hexstr(w[2], a)) {
            if (!st[s]) return false;
            st[s]->feed({a});
            return true;
        }
        if (w[0] == "feedsent" && w.size() == 4 && slot(w[1], s)) {
            if (!st[s]) return false;
            std::string bytes;      // k1+k2+…: concatenation of earlier encoder outputs
            {
                if (w[2].empty() || w[2].back() == '+' || w[2].find("++") != std::string::npos) return false;
                std::string t; std::istringstream is(w[2]);
                while (std::getline(is, t, '+')) {
                    if (!vh::to_u64(t, n) || n >= sent.size()) return false;
                    bytes += sent[n];
                }
            }
            std::vector<size_t> cuts;
            if (w[3] != "-") {
                std::string t; std::istringstream is(w[3]); size_t prev = 0;
                while (std::getline(is, t, ',')) {
                    uint64_t c; if (!vh::to_u64(t, c) || c <= prev || c >= bytes.size()) return false;
                    cuts.push_back(c); prev = c;
                }
                if (cuts.empty() || w[3].back() == ',' || w[3].find(",,") != std::string::npos) return false;
            }
            std::vector<std::string> segs; size_t off = 0;
            for (size_t c : cuts) { segs.push_back(bytes.substr(off, c - off)); off = c; }
            segs.push_back(bytes.substr(off));
            st[s]->feed(segs);
            return true;
        }
        if (w[0] == "deep" && w.size() == 3 && slot(w[1], s) && vh::to_u64(w[2], n) && n <= 2000000) {
            if (!st[s]) return false;
            std::string text = std::string(n, '[') + "{\"jsonrpc\":\"2.0\",\"method\":\"m\"}" + std::string(n, ']');
            std::string bytes;
            if (st[s]->kind.k == 'H') {
                uint16_t m = st[s]->kind.magic; uint32_t l = (uint32_t)text.size();
                bytes.push_back((char)(m >> 8)); bytes.push_back((char)(m & 0xff));
                bytes.push_back((char)(l >> 24)); bytes.push_back((char)(l >> 16)); bytes.push_back((char)(l >> 8)); bytes.push_back((char)l);
            }
            bytes += text;
            st[s]->feed({bytes});
            return true;
        }
        if (w[0] == "lensweep" && w.size() == 4 && slot(w[1], s)) {
            uint64_t lo = 0, hi = 0;
            if (!st[s] || !vh::to_u64(w[2], lo) || !vh::to_u64(w[3], hi) || lo > hi || hi > 20000000 || hi - lo > 100000) return false;
            lenSweep(st[s]->kind, (size_t)lo, (size_t)hi);
            return true;
        }
        if (w[0] == "pj" && w.size() == 3 && slot(w[1], s)) {
            std::string text;
            if (!st[s] || !Desc::parse(w[2], text) || (text[0] != '[' && text[0] != '{')) return false;
            std::vector<std::string> cbs;
            std::shared_ptr<Proto> p = newProto(st[s]->kind);
            p->setRecvCallback(
                [&cbs](int id, const std::string &m, const Json &params) {
                    cbs.push_back("q:" + std::to_string(id) + ":" + vh::hex(m) + ":" + canon(params)); },
                [&cbs](int id, int ec, const Json &res) {
                    cbs.push_back("s:" + std::to_string(id) + ":" + std::to_string(ec) + ":" + canon(res)); });
            std::string bytes = frameOfKind(st[s]->kind, text);
            ssize_t r = recvExact(p.get(), bytes);
            std::string out = "P pj " + (r == (ssize_t)bytes.size() ? std::string("ok") : "r=" + std::to_string(r));
            for (auto &c : cbs) out += " " + c;
            say(out);
            return true;
        }
        if ((w[0] == "gf" || w[0] == "hf") && w.size() == 4 && w[1].size() == 1) {
            std::string text, key; Desc kd(w[3]);
            if (!Desc::parse(w[2], text)) return false;
            if (w[3] != "-" && (!kd.str(key) || kd.pos != w[3].size())) return false;
            Json js = Json::parse(text);
            using namespace tbox::util::json;
            if (w[0] == "hf") {
                bool r;
                switch (w[1][0]) {
                    case 'o': r = HasObjectField(js, key); break;
                    case 'a': r = HasArrayField(js, key); break;
                    case 'b': r = HasBooleanField(js, key); break;
                    case 'n': r = HasNumberField(js, key); break;
                    case 'f': r = HasFloatField(js, key); break;
                    case 'i': r = HasIntegerField(js, key); break;
                    case 'u': r = HasUnsignedField(js, key); break;
                    case 's': r = HasStringField(js, key); break;
                    default: return false;
                }
                say(std::string("P hf ") + (r ? "1" : "0"));
                return true;
            }
            switch (w[1][0]) {
                case 'b': { bool v = true; bool r = GetField(js, key, v); say(std::string("P gf ") + (r ? "1 " : "0 ") + (v ? "t" : "f")); return true; }
                case 'u': { unsigned int v = 7; bool r = GetField(js, key, v); say(std::string("P gf ") + (r ? "1 " : "0 ") + std::to_string(v)); return true; }
                case 'i': { int v = -7; bool r = GetField(js, key, v); say(std::string("P gf ") + (r ? "1 " : "0 ") + std::to_string(v)); return true; }
                case 'd': { double v = 7.25; bool r = GetField(js, key, v); say(std::string("P gf ") + (r ? "1 " : "0 ") + (v == 7.25 ? "old" : "d")); return true; }
                case 's': { std::string v = "old"; bool r = GetField(js, key, v); say(std::string("P gf ") + (r ? "1 s" : "0 s") + hexk(v)); return true; }
                default: return false;
            }
        }
        return false;
    }
};

// ---------------------------------------------------------------------------------- user code = scripts
// Act: q a=script b=method | n a=method | r a=id b=code | c a=code | i lit b=code | v a=method b=handler (none: empty) | x
struct Act { char k = 0; int a = 0, b = 0; std::string lit; bool none = false; };
struct Handler { bool sync = true; int code = 0; std::vector<Act> acts; };

static bool natLe(const std::string &w, uint64_t max, int &o) {
    uint64_t v; if (w.size() > 9 || !vh::to_u64(w, v) || v > max) return false; o = (int)v; return true;
}
static bool parseAct(const std::string &t, Act &a) {
    if (t.empty()) return false;
    a.k = t[0];
    std::string r = t.substr(1);
    size_t p = r.find(t[0] == 'q' ? '.' : ':');
    switch (t[0]) {
        case 'q': return p != std::string::npos && natLe(r.substr(0, p), 99, a.a) && natLe(r.substr(p + 1), 7, a.b);
        case 'n': return natLe(r, 7, a.a);
        case 'r': return p != std::string::npos && i32(r.substr(0, p), a.a) && i32(r.substr(p + 1), a.b);
        case 'c': return i32(r, a.a);
        case 'i': if (p == std::string::npos) return false;
                  a.lit = r.substr(0, p);
                  return jsonInt(a.lit) && i32(r.substr(p + 1), a.b);
        case 'v': if (p == std::string::npos || !natLe(r.substr(0, p), 7, a.a)) return false;
                  if (r.substr(p + 1) == "-") { a.none = true; return true; }
                  return natLe(r.substr(p + 1), 99, a.b);
        case 'x': return r.empty();
        default:  return false;
    }
}

struct Prog {
    std::vector<std::vector<Act>> cbs;
    std::vector<Handler> hds;
    bool started = false;       // a non-definition op was accepted: no more definitions

    static bool isDef(const std::vector<std::string> &w) { return w[0] == "cb" || w[0] == "hd"; }
    // a definition line; false = bad-op (nothing changes)
    bool define(const std::vector<std::string> &w) {
        if (started) return false;
        size_t from = 1;
        Handler h;
        if (w[0] == "hd") {
            if (w.size() < 2 || hds.size() >= 16) return false;
            if (w[1] == "as") { h.sync = false; h.code = 0; }
            else if (w[1].size() >= 2 && w[1][0] == 's' && i32(w[1].substr(1), h.code)) h.sync = true;
            else return false;
            from = 2;
        } else if (cbs.size() >= 16) return false;
        std::vector<Act> acts;
        for (size_t i = from; i < w.size(); ++i) {
            Act a; if (!parseAct(w[i], a)) return false;
            acts.push_back(a);
        }
        if (w[0] == "hd") { h.acts = acts; hds.push_back(h); } else cbs.push_back(acts);
        return true;
    }
};

static std::string frameOf(const Kind &kind, const std::string &text) {
    std::string bytes;
    if (kind.k == 'H') {
        uint16_t m = kind.magic; uint32_t l = (uint32_t)text.size();
        bytes.push_back((char)(m >> 8)); bytes.push_back((char)(m & 0xff));
        bytes.push_back((char)(l >> 24)); bytes.push_back((char)(l >> 16)); bytes.push_back((char)(l >> 8)); bytes.push_back((char)l);
    }
    return bytes + text;
}
// the peer's response as text (the id literal may be beyond int), framed by hand
static std::string rspFrame(const Kind &kind, const std::string &idlit, int code) {
    return frameOf(kind, code == 0
        ? "{\"id\":" + idlit + ",\"jsonrpc\":\"2.0\",\"result\":7}"
        : "{\"error\":{\"code\":" + std::to_string(code) + "},\"id\":" + idlit + ",\"jsonrpc\":\"2.0\"}");
}
static std::string reqFrame(const Kind &kind, int id, int m) {
    std::string text = "{\"jsonrpc\":\"2.0\",\"method\":\"m" + std::to_string(m) + "\",\"params\":[1]";
    if (id != 0) text += ",\"id\":" + std::to_string(id);
    return frameOf(kind, text + "}");
}
static void pump(Proto *p, const std::string &bytes) {   // whole messages: one frame per call
    std::string buf = bytes;
    for (;;) {
        if (buf.empty()) return;
        ssize_t r = recvExact(p, buf);
        if (r <= 0 || (size_t)r > buf.size()) return;
        buf.erase(0, r);
    }
}

// Makes a closure too big for std::function's in-place storage: it lives in its own heap block, so a
// callback object destroyed by the Rpc while it is executing is seen by ASan when the callback goes on.
struct Pad { long long v[3]; };

// ---------------------------------------------------------------------------------- one Rpc object + its user code
struct Peer {
    Kind kind;
    const Prog *prog;
    std::shared_ptr<Proto> proto;
    std::unique_ptr<Rpc> rpc;
    std::vector<std::string> evs;       // everything that happened at this object, in program order
    std::vector<std::string> outq;      // frames written (world: in flight to the other peer)
    bool keep_out = false;
    int n_tag = 0, n_rsp = 0;
    bool dead = false;                  // cleanup() was called
    bool sync_armed = false; int sync_code = 0;   // reqsync: the transport answers the next request frame from inside the send callback

    Peer(const Kind &k, tbox::event::Loop *loop, int n, const Prog *pg, bool keep) : kind(k), prog(pg), keep_out(keep) {
        proto = newProto(k);
        rpc.reset(new Rpc(loop));
        rpc->initialize(proto.get(), n);
        installSend();
    }
    void installSend() {
        proto->setSendCallback([this](const void *p, size_t sz) {
            std::string bytes((const char *)p, sz);
            evs.push_back(describe(bytes));
            if (keep_out) outq.push_back(bytes);
            if (sync_armed) {
                auto g = Framing::decodeFresh(kind, bytes);
                if (g.n == 1 && g.type == 'q' && g.id != 0) {
                    sync_armed = false;
                    feed(rspFrame(kind, std::to_string(g.id), sync_code));      // re-enters the Rpc below request()
                }
            }
        });
    }
    // transport down: no send callback at all (the protos then drop what they are asked to send)
    void tx(bool on) { if (on) installSend(); else proto->setSendCallback(nullptr); }
    Peer(const Peer &) = delete;
    ~Peer() {
        if (!dead) rpc->cleanup();
        rpc.reset(); proto.reset();
    }
    std::string describe(const std::string &bytes) const {
        auto g = Framing::decodeFresh(kind, bytes);
        if (g.n != 1) return "s?";
        if (g.type == 's') return "a" + std::to_string(g.id) + ":" + std::to_string(g.ec);
        if (g.type == 'q' && g.method.size() == 2 && g.method[0] == 'm' && g.method[1] >= '0' && g.method[1] <= '7')
            return "s" + std::to_string(g.id) + ":" + g.method.substr(1);
        return "s?";
    }
    void misuse() { evs.push_back("misuse"); }

    void request(int script, int m) {
        if (dead) { misuse(); return; }    // null proto_: never executed
        int tag = n_tag++;
        Peer *self = this; Pad pad = {{0, 0, 0}};
        rpc->request("m" + std::to_string(m), Json::array({1}), [self, tag, script, pad](int ec, const Json &) {
            self->evs.push_back("f" + std::to_string(tag) + ":" + std::to_string(ec));
            if (script < (int)self->prog->cbs.size())
                for (size_t i = 0; i < self->prog->cbs[script].size(); ++i)
                    self->doAct(self->prog->cbs[script][i], 0);
            (void)*(volatile const long long *)&pad.v[2];       // the callback object is still alive
        });
    }
    void notify(int m) {
        if (dead) { misuse(); return; }
        rpc->notify("m" + std::to_string(m));
    }
    // all three overloads of respond(): (id, errcode, result), (id, result), (id, errcode)
    void respond(int id, int code) {
        if (dead && id != 0) { misuse(); return; }
        bool three = (n_rsp++ % 2) == 0;
        if (code == 0) { if (three) rpc->respond(id, 0, Json(7)); else rpc->respond(id, Json(7)); }
        else { if (three) rpc->respond(id, code, Json()); else rpc->respond(id, code); }
    }
    void addService(int m, int h) {     // h < 0 or not defined: an empty function
        Rpc::ServiceCallback cb;
        if (h >= 0 && h < (int)prog->hds.size()) {
            Peer *self = this; Pad pad = {{0, 0, 0}};
            cb = [self, h, pad](int id, const Json &, int &errcode, Json &result) -> bool {
                self->evs.push_back("c" + std::to_string(id) + ":" + std::to_string(h));
                for (size_t i = 0; i < self->prog->hds[h].acts.size(); ++i)
                    self->doAct(self->prog->hds[h].acts[i], id);
                (void)*(volatile const long long *)&pad.v[2];   // the handler object is still alive
                const Handler &hd = self->prog->hds[h];
                errcode = hd.code; result = 7;
                return hd.sync;
            };
        }
        rpc->addService("m" + std::to_string(m), std::move(cb));
    }
    void cleanup() {
        if (dead) { misuse(); return; }
        dead = true;
        rpc->cleanup();
    }
    void feed(const std::string &bytes) { pump(proto.get(), bytes); }

    void doAct(const Act &a, int cur_id) {
        switch (a.k) {
            case 'q': request(a.a, a.b); break;
            case 'n': notify(a.a); break;
            case 'r': respond(a.a, a.b); break;
            case 'c': respond(cur_id, a.a); break;
            case 'i': feed(rspFrame(kind, a.lit, a.b)); break;
            case 'v': addService(a.a, a.none ? -1 : a.b); break;
            case 'x': cleanup(); break;
        }
    }

    // one of req/note/rsp/inreq/srsp/svc/cleanup, words from w[o]; false for an ill-typed op
    bool op(const std::vector<std::string> &w, size_t o) {
        if (w.size() <= o) return false;
        size_t n = w.size() - o; const std::string &c = w[o];
        int a = 0, b = 0;
        if (c == "req" && n == 3 && natLe(w[o + 1], 99, a) && natLe(w[o + 2], 7, b)) { request(a, b); return true; }
        if (c == "note" && n == 2 && natLe(w[o + 1], 7, a)) { notify(a); return true; }
        if (c == "rsp" && n == 3 && jsonInt(w[o + 1]) && i32(w[o + 2], b)) { feed(rspFrame(kind, w[o + 1], b)); return true; }
        if (c == "rspb" && n == 3 && !keep_out && i32(w[o + 2], b)) {       // one frame: a batch array of responses
            std::vector<std::string> ids; std::string t; std::istringstream is(w[o + 1]);
            if (w[o + 1].empty() || w[o + 1].back() == ',') return false;
            while (std::getline(is, t, ',')) { if (!jsonInt(t)) return false; ids.push_back(t); }
            if (ids.empty() || ids.size() > 8) return false;
            std::string text = "[";
            for (size_t i = 0; i < ids.size(); ++i) {
                if (i) text += ",";
                text += b == 0 ? "{\"id\":" + ids[i] + ",\"jsonrpc\":\"2.0\",\"result\":7}"
                               : "{\"error\":{\"code\":" + std::to_string(b) + "},\"id\":" + ids[i] + ",\"jsonrpc\":\"2.0\"}";
            }
            feed(frameOf(kind, text + "]"));
            return true;
        }
        if (c == "inreq" && n == 3 && i32(w[o + 1], a) && natLe(w[o + 2], 7, b)) { feed(reqFrame(kind, a, b)); return true; }
        if (c == "srsp" && n == 3 && i32(w[o + 1], a) && i32(w[o + 2], b)) { respond(a, b); return true; }
        if (c == "svc" && n == 3 && natLe(w[o + 1], 7, a)) {
            if (w[o + 2] == "-") { addService(a, -1); return true; }
            if (natLe(w[o + 2], 99, b)) { addService(a, b); return true; }
            return false;
        }
        if (c == "cleanup" && n == 1) { cleanup(); return true; }
        if (c == "jump" && n == 2 && !keep_out) {
            uint64_t v; if (w[o + 1].size() > 10 || !vh::to_u64(w[o + 1], v) || v > (uint64_t)INT_MAX) return false;
            idAllocOf(*rpc) = (int)v; return true;
        }
        if (c == "tx" && n == 2 && !keep_out && (w[o + 1] == "on" || w[o + 1] == "off")) { if (!dead) tx(w[o + 1] == "on"); return true; }
        if (c == "reqsync" && n == 4 && !keep_out && natLe(w[o + 1], 99, a) && natLe(w[o + 2], 7, b)) {
            int code; if (!i32(w[o + 3], code)) return false;
            sync_armed = true; sync_code = code;
            request(a, b);
            sync_armed = false;
            return true;
        }
        return false;
    }
    std::string take() {
        std::string out;
        if (evs.empty()) out = " -";
        for (auto &e : evs) out += " " + e;
        evs.clear();
        return out;
    }
};

static bool advOp(const std::vector<std::string> &w) {
    uint64_t ms = 0;
    if (w[0] == "adv" && w.size() == 2 && w[1].size() <= 10 && vh::to_u64(w[1], ms) && ms <= 5000000000ULL) { vt::advance_ms((int64_t)ms); return true; }
    return false;
}

// ---------------------------------------------------------------------------------- Rpc
struct RpcCase {
    Prog prog;
    tbox::event::Loop *loop = nullptr;
    std::unique_ptr<Peer> p;

    RpcCase(const Kind &k, int n) {
        loop = tbox::event::Loop::New();
        p.reset(new Peer(k, loop, n, &prog, false));
    }
    ~RpcCase() { p.reset(); delete loop; }
    // returns false for an ill-typed op
    bool act(const std::vector<std::string> &w) { return advOp(w) || p->op(w, 0); }
    void flush() { say("P ev" + p->take()); }
};

// ------------------------------------------------------------------ two Rpc peers, scripted pipe
struct WorldCase {
    Prog prog;
    tbox::event::Loop *loop = nullptr;
    std::unique_ptr<Peer> a, b;

    WorldCase(const Kind &k, int na, int nb) {
        loop = tbox::event::Loop::New();
        a.reset(new Peer(k, loop, na, &prog, true));
        b.reset(new Peer(k, loop, nb, &prog, true));
    }
    ~WorldCase() { a.reset(); b.reset(); delete loop; }
    bool act(const std::vector<std::string> &w) {
        uint64_t n = 0;
        if (w[0] == "a") return a->op(w, 1);
        if (w[0] == "b") return b->op(w, 1);
        if ((w[0] == "dlv" || w[0] == "drop" || w[0] == "dup") && w.size() == 3 && (w[1] == "ab" || w[1] == "ba") &&
            w[2].size() <= 9 && vh::to_u64(w[2], n)) {
            bool ab = w[1] == "ab";
            auto &q = ab ? a->outq : b->outq;
            if (n >= q.size()) return true;       // nothing there: no-op
            if (w[0] == "dup") { q.push_back(q[n]); return true; }
            std::string bytes = q[n];
            q.erase(q.begin() + n);
            if (w[0] == "dlv") (ab ? b : a)->feed(bytes);
            return true;
        }
        return advOp(w);
    }
    void flush() { std::string out = "P ev" + a->take(); out += " |" + b->take(); say(out); }
};

// Definition lines first (no loop pass), then one op per loop pass:
// phase 0: perform op idx; the loop then makes one full pass (expired timers run); phase 1: print what happened
template <class Case>
static void runScripted(Case &c, const std::vector<std::string> &ops) {
    if (ops.empty()) return;
    size_t idx = 0; int phase = 0;
    vh::LoopDriver drv(c.loop);
    drv.step = [&]() -> bool {
        if (phase == 0) {
            auto w = vh::words(ops[idx]);
            if (!w.empty() && Prog::isDef(w)) { say(c.prog.define(w) ? "P def" : "bad-op"); ++idx; return idx < ops.size(); }
            if (w.empty() || !c.act(w)) { say("bad-op"); ++idx; return idx < ops.size(); }
            c.prog.started = true;
            phase = 1; return true;
        }
        c.flush(); phase = 0; ++idx;
        return idx < ops.size();
    };
    drv.run();
}

static void runWorldCase(const Kind &k, int na, int nb, const std::vector<std::string> &ops) {
    WorldCase wc(k, na, nb);
    say("P world");
    runScripted(wc, ops);
}

static void runRpcCase(const Kind &k, int n, const std::vector<std::string> &ops) {
    RpcCase rc(k, n);
    say("P rpc");
    runScripted(rc, ops);
}

// Two real Rpc objects joined by byte streams (datagrams for the packet framing): for every text length lo..hi+40 a
// request of that size is answered by an echo service (so the response has about that size too), followed by a small
// request; each completion callback must run exactly once with the echoed value.
static void runRpcSweep(const Kind &k, size_t lo, size_t hi) {
    tbox::event::Loop *loop = tbox::event::Loop::New();
    {
        std::shared_ptr<Proto> pa = newProto(k), pb = newProto(k);
        Rpc a(loop), b(loop);
        a.initialize(pa.get(), 3); b.initialize(pb.get(), 3);
        std::vector<std::string> ab, ba;
        pa->setSendCallback([&ab](const void *p, size_t n) { ab.push_back(std::string((const char *)p, n)); });
        pb->setSendCallback([&ba](const void *p, size_t n) { ba.push_back(std::string((const char *)p, n)); });
        b.addService("m0", [](int, const Json &params, int &, Json &result) -> bool { result = params; return true; });
        auto deliver = [&k](Proto *p, std::vector<std::string> &q) -> bool {
            bool ok = true;
            if (k.k == 'P') { for (auto &d : q) ok = ok && recvExact(p, d) == (ssize_t)d.size(); }
            else {
                std::string buf; for (auto &d : q) buf += d;
                while (!buf.empty()) { ssize_t r = recvExact(p, buf); if (r <= 0 || (size_t)r > buf.size()) { ok = false; break; } buf.erase(0, r); }
            }
            q.clear();
            return ok;
        };
        size_t count = 0; std::string bad = "-";
        const size_t over = k.k == 'H' ? 6 : 0;
        for (size_t L = lo; L <= hi + 40 && bad == "-"; ++L) {
            ++count;
            int id = idAllocOf(a) + 1;
            size_t base = Json({{"jsonrpc", "2.0"}, {"method", "m0"}, {"id", id}, {"params", ""}}).dump().size();
            std::string pad(L > base ? L - base : 0, 'a');
            int f1 = 0, f2 = 0; bool ok1 = false, ok2 = false;
            a.request("m0", Json(pad), [&](int ec, const Json &r) { ++f1; ok1 = ec == 0 && r == Json(pad); });
            a.request("m0", Json("x"), [&](int ec, const Json &r) { ++f2; ok2 = ec == 0 && r == Json("x"); });
            std::string why;
            if (ab.size() != 2) why = "frames=" + std::to_string(ab.size());
            else if (ab[0].size() != over + std::max(L, base)) why = "frame-size=" + std::to_string(ab[0].size());
            else if (!deliver(pb.get(), ab)) why = "request-stream";
            else if (ba.size() != 2) why = "answers=" + std::to_string(ba.size());
            else if (!deliver(pa.get(), ba)) why = "response-stream";
            else if (f1 != 1 || f2 != 1 || !ok1 || !ok2) why = "fired=" + std::to_string(f1) + "," + std::to_string(f2);
            if (!why.empty()) bad = std::to_string(L) + ":" + why;
        }
        say("P rpcsweep n=" + std::to_string(count) + " bad=" + bad);
        a.cleanup(); b.cleanup();
    }
    delete loop;
}

static void runCase(const std::vector<std::string> &lines) {
    size_t i = 0;
    Framing fr;
    bool fresh = true;      // no framing op accepted yet: `rpc` may still start an Rpc case
    for (; i < lines.size(); ++i) {
        auto w = vh::words(lines[i]);
        if (w.empty()) continue;
        uint64_t n = 0;
        int64_t tn = 0;
        if (fresh && w[0] == "rpc" && w.size() == 3 && (w[1] == "H" || w[1] == "R" || w[1] == "P") &&
            vh::to_i64(w[2], tn) && tn >= -512 && tn <= 0) {
            // initialize(proto, timeout_sec < 1) must refuse; if it claims success the case goes on as an Rpc case
            Kind k; k.k = w[1][0]; k.magic = 0x3e5a;
            bool ok;
            {
                tbox::event::Loop *loop = tbox::event::Loop::New();
                { std::shared_ptr<Proto> proto = newProto(k); Rpc rpc(loop); ok = rpc.initialize(proto.get(), (int)tn); if (ok) rpc.cleanup(); }
                delete loop;
            }
            if (!ok) { say("P rpc init=0"); continue; }
            std::vector<std::string> rest;
            for (size_t j = i + 1; j < lines.size(); ++j) if (!vh::words(lines[j]).empty()) rest.push_back(lines[j]);
            runRpcCase(k, (int)tn, rest);
            return;
        }
        if (fresh && w[0] == "rpc" && w.size() == 3 && (w[1] == "H" || w[1] == "R" || w[1] == "P") &&
            vh::to_u64(w[2], n) && n >= 1 && n <= 512) {
            Kind k; k.k = w[1][0]; k.magic = 0x3e5a;
            std::vector<std::string> rest;
            for (size_t j = i + 1; j < lines.size(); ++j) if (!vh::words(lines[j]).empty()) rest.push_back(lines[j]);
            runRpcCase(k, (int)n, rest);
            return;
        }
        uint64_t lo = 0, hi = 0;
        if (fresh && w[0] == "rpcsweep" && w.size() == 4 && (w[1] == "H" || w[1] == "R" || w[1] == "P") &&
            vh::to_u64(w[2], lo) && vh::to_u64(w[3], hi) && lo <= hi && hi <= 2000000 && hi - lo <= 100000) {
            Kind k; k.k = w[1][0]; k.magic = 0x3e5a;
            runRpcSweep(k, (size_t)lo, (size_t)hi);
            fresh = false;
            continue;
        }
        uint64_t nc = 0, ns = 0;
        if (fresh && w[0] == "world" && w.size() == 4 && (w[1] == "H" || w[1] == "R" || w[1] == "P") &&
            vh::to_u64(w[2], nc) && nc >= 1 && nc <= 8 && vh::to_u64(w[3], ns) && ns >= 1 && ns <= 8) {
            Kind k; k.k = w[1][0]; k.magic = 0x3e5a;
            std::vector<std::string> rest;
            for (size_t j = i + 1; j < lines.size(); ++j) if (!vh::words(lines[j]).empty()) rest.push_back(lines[j]);
            runWorldCase(k, (int)nc, (int)ns, rest);
            return;
        }
        if (!fr.op(w)) say("bad-op"); else fresh = false;
    }
}

int main() {
    vt::enable(1000000, 1700000000000LL);
    std::string line; std::vector<std::string> cur; bool have = false;
    while (std::getline(std::cin, line)) {
        auto w = vh::words(line);
        if (!w.empty() && w[0] == "case") {
            if (have) runCase(cur);
            cur.clear(); have = true;
            say(line);
            continue;
        }
        if (w.empty()) continue;
        if (!have) { have = true; }
        cur.push_back(line);
    }
    if (have) runCase(cur);
    return 0;
}
