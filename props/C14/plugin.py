"""C14 — JSON-RPC: framing is total and resumable; each request completes once."""
import hashlib, json, re
import vlib

ID = 'C14'
LEAN_MODULES = ['TboxModel.C14.Props']
EXE = 'c14'
MODE = 'trace'
THEOREMS = ['Tbox.C14.' + t for t in [
    'C14_header_roundtrip', 'C14_header_resumable', 'C14_header_total', 'C14_header_total_counterexample',
    'C14_raw_end', 'C14_raw_prefix', 'C14_raw_resumable', 'C14_raw_total', 'C14_raw_roundtrip',
    'C14_raw_scalar_counterexample', 'C14_raw_unbalanced_counterexample', 'C14_raw_backscan_in_bounds',
    'C14_packet_roundtrip',
    'C14_stream_segmentation', 'C14_header_segmentation', 'C14_raw_segmentation',
    'C14_message_roundtrip', 'C14_encoder_roundtrip',
    'C14_callback_once', 'C14_callback_once_counterexample', 'C14_callback_code', 'C14_callback_ignored', 'C14_tick_slot',
    'C14_response_id_range', 'C14_response_id_counterexample',
    'C14_ring_expiry', 'C14_callback_timeout', 'C14_callback_exactly_once', 'C14_callback_response',
    'C14_pending_timer_on', 'C14_pending_timer_on_counterexample',
    'C14_cleanup_in_callback', 'C14_cleanup_final', 'C14_timeout_cleanup_counterexample',
    'C14_server_request_answer', 'C14_handler_cleanup_counterexample', 'C14_server_respond_unchecked',
    'C14_world_peer_simulation', 'C14_world_callback_once', 'C14_world_callback_exactly_once',
    'C14_timer_phase', 'C14_deadline_ms', 'C14_deadline_reached',
    'C14_id_width', 'C14_callback_once_any_ids', 'C14_id_wrap_counterexample',
    'C14_alloc_total', 'C14_alloc_next', 'C14_wrap_exactly_once', 'C14_stale_token_ignored', 'C14_initialize_checked',
    'C14_dispatch_batch', 'C14_dispatch_ids', 'C14_response_id_total',
    'C14_getfield_untouched', 'C14_getfield_unsigned_truncates',
]]
SOURCES = ['modules/jsonrpc/proto.cpp', 'modules/jsonrpc/rpc.cpp',
           'modules/jsonrpc/protos/header_stream_proto.cpp', 'modules/jsonrpc/protos/raw_stream_proto.cpp',
           'modules/jsonrpc/protos/packet_proto.cpp', 'modules/util/json.cpp', 'modules/util/serializer.cpp',
           'modules/event/common_loop.cpp', 'modules/event/common_loop_run.cpp', 'modules/event/common_loop_signal.cpp',
           'modules/event/common_loop_timer.cpp', 'modules/event/loop.cpp', 'modules/event/misc.cpp',
           'modules/event/signal_event_impl.cpp', 'modules/event/stat.cpp', 'modules/event/timer_event_impl.cpp',
           'modules/event/engines/epoll/fd_event.cpp', 'modules/event/engines/epoll/loop.cpp',
           'modules/event/engines/select/fd_event.cpp', 'modules/event/engines/select/loop.cpp',
           ] + vlib.BASE_SOURCES
FLAVOUR = 'asan'
LIBS = ['-ldl']
BATCH = 100
BATCH_TIMEOUT = 900     # a watchdog for hangs only: under 16 busy cores a batch of 70 000-byte length sweeps (ASan) needs several minutes
SHRINK_TESTS = 80
TRUSTED = [
    'model lean/TboxModel/C14/Model.lean is hand-written from header_stream_proto.cpp, raw_stream_proto.cpp, packet_proto.cpp, '
    'util/json.cpp FindEndPos, util/serializer.cpp, rpc.cpp, timeout_monitor_impl.hpp; tied by trace acceptance on every run',
    'nlohmann::json parse/dump is abstract: the acceptor takes the implementation\'s parse outcome per frame text as an oracle '
    '(must be a function of the text within a case; texts written by the real encoder must parse); Proto::onRecvJson dispatch and the '
    'util::json GetField/Has*Field family are modelled on an abstract JSON value (`recvJson`, `getField`) and compared on generated value '
    'descriptions (`pj`, `gf`, `hf` ops: every message kind, batches, ids/codes of every JSON type and width)',
    'length sweeps (`lensweep`, `rpcsweep`) are self-checking harness ops: the harness runs the real encoder -> real decoder (and two real '
    'Rpc objects with an echo service) at every text length and reports the first length that does not round-trip; the acceptor demands '
    'none, which is what C14_header_roundtrip / C14_raw_roundtrip / C14_packet_roundtrip / C14_callback_response state for every length',
    'Rpc::id_alloc_ is set by the harness through a private-member pointer obtained by explicit template instantiation (`jump`, test-only); '
    'requests across the wrap of the counter (INT_MAX -> 1, pending ids skipped) are executed on the real code under UBSan',
    'the payload of the request timeout ring is RequestToken{id, seq}; the model keeps the seq component and looks the pending entry up '
    'by it (entries are immutable: the entry carrying seq has the id of the token); seq is a uint64_t counter, the model an unbounded Nat',
    'the receive loop around onRecvData (consume ret while ret>0, stop on 0, give up on ret<0) is the harness\'s, as in examples/jsonrpc',
    'isgraph() is modelled for the "C" locale; FindEndPos levels are unbounded integers (input < 2^31 bytes)',
    'virtual time by libc interposition (harness/vtime.h); the 1-s timer is the real event loop\'s',
    'user callbacks are scripts built by the harness from the op file; calling request/notify/respond/cleanup on an Rpc that has been '
    'cleaned up (null proto_: a precondition violation) is refused by a guard on both sides (event `misuse`), never executed; '
    'the nesting budget of the model (32 levels) is never reached by generated programs (the acceptor rejects `overflow`)',
]
ASSUMPTIONS = ['message text shorter than 2^32 bytes (the encoder truncates the length field otherwise)',
               'stack depth of Proto::onRecvJson is exercised by the harness only (deep op), not expressible in the model',
               'fewer than 2^31 - 1 requests pending at once per Rpc object (C14_alloc_total: then the id allocation loop returns; a table holding '
               'every id would make it spin) and fewer than 2^64 requests with a callback per object (the uint64_t sequence number of the timeout '
               'tokens does not wrap); an id is handed out again only after the counter has gone round: a response that arrives for the earlier '
               'use of a re-used id after that is indistinguishable from the new request\'s (inherent in a finite id space)']
RULE = ('framing cases: messages generated as JSON (nested, quotes/backslashes/brackets in strings, non-ASCII) through the real '
        'encoder, fed back unsegmented, at every 2-way split, byte-wise and at random cuts, concatenated; literal streams with '
        'hand-built headers incl. extreme length fields and wrong magic; hostile bracket/quote-heavy bytes; deep arrays. '
        'rpc cases: a random program of callback scripts (completion/timeout callbacks and service handlers that call request, notify, '
        'respond, feed a response frame to the object\'s own proto, addService, cleanup on the same real Rpc, nested) + requests/'
        'notifications/responses (known, duplicate, late, unknown, beyond-int ids)/inbound requests/respond()/addService/cleanup/clock '
        'advances; world cases: two real Rpc peers running the same program over a scripted dropping/duplicating/reordering pipe. '
        'round 6: real encoder -> real decoder at every text length 0..4200 (thorough: ..70000) and around 2^13..2^16, 2^16+6, 2^20 for all three '
        'framings and three message kinds, each followed by a small message; the same through two real Rpc objects; padded requests of chosen '
        'exact lengths compared byte for byte with the model; ids at INT_MAX through a test-only counter jump, backward jumps (id reuse); '
        'round 7: requests across the wrap INT_MAX -> 1 with pending ids in the way (skipped), ids re-used while the token of their answered first use is '
        'still in the ring (must not be timed out early), re-use from inside the timeout / completion callback of the same id, the transport answering '
        'the id that is being allocated, batch arrays of responses with duplicate ids, initialize(proto, timeout_sec <= 0); '
        'onRecvJson on described JSON values (every kind/defect, batches); GetField/Has*Field; transport down, transport answering inside the '
        'send callback, 512 slots, clock jumps beyond 2^31 ms; receive buffers at every alignment 0..7. '
        'non-trivial = the model run resumes a frame across segments, decodes several frames from one segment, meets an extreme '
        'length field / unbalanced text / parse failure, fires a timeout, ignores a late/duplicate/unknown response, or a callback '
        're-enters the object (nested completion, request/respond/cleanup/service change from inside a callback); distinct = distinct op text')


def hx(b):
    if isinstance(b, str): b = b.encode('utf-8')
    return b.hex() or '-'


STRS = ['', 'a', 'x"y', 'back\\slash', '\\', '\\\\', '"', '\\"', 'br{ace', '}', '[', ']', '{"a":1}', 'é', '日本語', '😀',
        'tab\there', 'nl\nx', 'q\\"q', 'end\\', '\\u0041', ' ', '[]{}""\\\\', '\x7f', 'a"]}', '\\"]']


def rjson(rng, depth=0):
    r = rng.random()
    if depth >= 4 or r < 0.30:
        k = rng.randrange(7)
        if k == 0: return rng.choice([0, 1, -1, 7, 123456789, -2147483648, 4294967296, 1 << 53])
        if k == 1: return rng.choice([0.5, -1.25, 1e10, 3.14159, 1e-7])
        if k == 2: return rng.choice([True, False, None])
        return rng.choice(STRS) + (rng.choice(STRS) if rng.random() < 0.3 else '')
    if r < 0.65:
        return [rjson(rng, depth + 1) for _ in range(rng.choice([0, 1, 1, 2, 3]))]
    return {rng.choice(STRS) + str(i): rjson(rng, depth + 1) for i in range(rng.choice([0, 1, 2, 3]))}


def jtext(rng, v):
    ea = rng.random() < 0.5
    seps = rng.choice([(',', ':'), (', ', ': '), (' ,\n', ' :\t')])
    return json.dumps(v, ensure_ascii=ea, separators=seps)


def kind_open(rng, s, k, magic=None):
    if k == 'H':
        return 'open %d H %d' % (s, magic)
    return 'open %d %s' % (s, k)


def send_op(rng, s):
    r = rng.random()
    idv = rng.choice([0, 1, 2, 7, -1, 2147483647, -2147483648, rng.randrange(1, 1000)])
    if r < 0.6:
        m = rng.choice(['m', 'ping', 'a.b', 'x"y', 'é', 'm{'])
        p = '-' if rng.random() < 0.15 else hx(jtext(rng, rjson(rng)))
        return 'sendq %d %d %s %s' % (s, idv, hx(m), p)
    if r < 0.85:
        return 'sendr %d %d %s' % (s, idv, hx(jtext(rng, rjson(rng))))
    return 'sende %d %d %d' % (s, idv, rng.choice([0, 1, -1, -32601, -32000, 2147483647]))


def gen_roundtrip(rng, exhaustive):
    """real encoder -> every segmentation -> real decoder"""
    k = rng.choice('HHRRP')
    magic = rng.choice([0x3e5a, 0, 0xffff, 0x5b7b, 0x2222, rng.randrange(65536)])
    ops = [kind_open(rng, s, k, magic) for s in range(4)]
    nmsg = rng.choice([1, 2, 3])
    for _ in range(nmsg):
        ops.append(send_op(rng, 0))
    for i in range(nmsg):
        ops.append('feedsent 1 %d -' % i)                       # unsegmented
    # lengths are unknown to the generator (the encoder decides): cut positions are small numbers, ill-typed
    # ones (beyond the message) are answered bad-op by both sides
    if exhaustive:
        for c in range(1, 70):
            ops.append('feedsent 2 0 %d' % c)                   # every 2-way split of message 0 (short ones)
    else:
        for i in range(nmsg):
            cuts = sorted(set(rng.randrange(1, 60) for _ in range(rng.choice([1, 2, 3, 6]))))
            ops.append('feedsent 2 %d %s' % (i, ','.join(map(str, cuts))))
    allk = '+'.join(str(i) for i in range(nmsg))
    ops.append('feedsent 3 %s -' % allk)                        # concatenated, one segment
    cuts = sorted(set(rng.randrange(1, 40 * nmsg) for _ in range(rng.choice([1, 3, 8]))))
    ops.append('feedsent 3 %s %s' % (allk, ','.join(map(str, cuts))))
    if rng.random() < 0.3:
        ops.append('feedsent 1 0 %s' % ','.join(str(c) for c in range(1, rng.choice([8, 20, 45]))))   # byte-wise prefix
    return ops


def header(magic, n, body):
    return bytes([magic >> 8, magic & 255, (n >> 24) & 255, (n >> 16) & 255, (n >> 8) & 255, n & 255]) + body


def rpc_msg(rng):
    """JSON-RPC shaped texts (requests, responses, errors, batches, nested arrays, near misses)"""
    idv = rng.choice([1, 2, 0, -5, 77])
    c = rng.randrange(9)
    if c == 0: v = {'jsonrpc': '2.0', 'method': 'm', 'id': idv, 'params': rjson(rng)}
    elif c == 1: v = {'jsonrpc': '2.0', 'method': 'n'}
    elif c == 2: v = {'jsonrpc': '2.0', 'id': idv, 'result': rjson(rng)}
    elif c == 3: v = {'jsonrpc': '2.0', 'id': idv, 'error': {'code': rng.choice([1, -32000]), 'message': 'x'}}
    elif c == 4: v = [{'jsonrpc': '2.0', 'method': 'a', 'id': 1}, {'jsonrpc': '2.0', 'method': 'b'}, [{'jsonrpc': '2.0', 'id': 3, 'result': 1}]]
    elif c == 5: v = {'jsonrpc': '1.0', 'method': 'm'}
    elif c == 6: v = {'jsonrpc': '2.0', 'method': 5, 'id': 'str'}
    elif c == 7: v = {'jsonrpc': '2.0', 'id': 1, 'error': 'notobj'} if rng.random() < 0.5 else {'jsonrpc': '2.0', 'id': 1.5, 'result': 1}
    else: v = rjson(rng)
    return v


BAD_TEXTS = [b'{"a":}', b'[1,]', b'{x}', b'[}', b'{]', b'{"a" 1}', b'["\xff"]', b'["\\x"]', b'{"a":1}}', b'[[]', b'"abc"', b'12',
             b'true', b'[1 2]', b'{"k":"v"', b'[\x00]', b'{"a":"\n"}', b'\xef\xbb\xbf[]', b'[]', b'{}', b'[[[[[[[[]]]]]]]]', b'""', b'"\\""']


def segs_of(rng, data, mode):
    if mode == 'whole' or len(data) < 2: return [data]
    if mode == 'bytes': return [data[i:i + 1] for i in range(len(data))]
    n = rng.choice([1, 2, 3, 6])
    cuts = sorted(set(rng.randrange(1, len(data)) for _ in range(n)))
    out, o = [], 0
    for c in cuts: out.append(data[o:c]); o = c
    out.append(data[o:])
    return out


def gen_literal(rng):
    """decoder only, literal bytes: valid and malformed texts, hand-built headers"""
    k = rng.choice('HHRRRP')
    magic = rng.choice([0x3e5a, 0x5b5d, 0x7b7d])
    ops = [kind_open(rng, s, k, magic) for s in range(3)]
    stream = b''
    pieces = []
    for _ in range(rng.choice([1, 2, 3, 4])):
        bad = rng.random() < 0.15
        t = rng.choice(BAD_TEXTS) if bad else jtext(rng, rpc_msg(rng)).encode('utf-8')
        if k == 'H':
            r = rng.random()
            n = len(t)
            if r < 0.08: n = rng.choice([0xffffffff, 0xfffffffa, 0xfffffff9, 0x80000000, 0x7fffffff, 0xfffffffb, 0xffffffff - len(t)])
            elif r < 0.12: n = len(t) + rng.choice([1, -1, 2]) if len(t) > 1 else 0
            elif r < 0.14: n = 0
            m = magic if rng.random() < 0.95 else magic ^ rng.choice([1, 0x100, 0xffff])
            piece = header(m, n & 0xffffffff, t)
        else:
            ws = rng.choice([b'', b'', b' ', b'\n', b'\r\n\t ', b'\x00', b'\xc2\xa0']) if k == 'R' else b''
            piece = ws + t
        pieces.append(piece)
        stream += piece
    if rng.random() < 0.2:
        stream = stream[:rng.randrange(1, len(stream) + 1)]
    if k == 'P':
        for p in pieces:
            ops.append('feed 0 %s' % hx(p))
        return ops
    ops.append('feed 0 %s' % hx(stream))
    for sg in segs_of(rng, stream, 'rand'):
        ops.append('feed 1 %s' % hx(sg))
    if len(stream) <= 80:
        for sg in segs_of(rng, stream, 'bytes'):
            ops.append('feed 2 %s' % hx(sg))
    return ops


HOSTILE = b'[]{}""\\\\,:x1 \n[{"\\' + bytes([0x80, 0xff, 0xc3, 0xa9, 0x00, 0x7f])


def gen_hostile(rng):
    k = rng.choice('HRRP')
    magic = 0x5b22
    ops = [kind_open(rng, s, k, magic) for s in range(2)]
    for _ in range(rng.choice([1, 2, 4])):
        n = rng.choice([1, 2, 3, 5, 8, 13, 30])
        body = bytes(rng.choice(HOSTILE) for _ in range(n))
        if k == 'H' and rng.random() < 0.8:
            ln = rng.choice([n, n, n - 1, 0, 1, 0xffffffff, 0xfffffffa, 0xfffffffe, 0x100000000 - 6 + n, rng.randrange(1 << 32)]) & 0xffffffff
            body = header(magic, ln, body)
        ops.append('feed 0 %s' % hx(body))
        for sg in segs_of(rng, body, 'rand'):
            ops.append('feed 1 %s' % hx(sg))
    return ops


BIG_IDS = [2147483648, (1 << 32) + 1, (1 << 32) + 2, -(1 << 32) + 1, (1 << 63), (1 << 64) + 1, (1 << 64) - (1 << 32) + 1,
           -(1 << 63) - 1, 10 ** 24 + 1]
CODES = [0, 0, 0, 5, -1, -32000]


def gen_prog(rng):
    """definition lines of a random Prog -> (lines, number of scripts, number of handlers).
    At most one `q` act per completion script (so the number of pending requests cannot multiply from tick to tick);
    inject id literals come from a pool of <= 6 per Prog (static literals: every one can complete one request only,
    so callbacks nest at most that deep)."""
    ncb, nhd = rng.choice([0, 1, 2, 2, 3, 4]), rng.choice([0, 1, 2, 2, 3])
    pool = [rng.choice([1, 1, 1, 2, 2, 3, 3, 4, 5, 6]) for _ in range(rng.choice([1, 2, 3, 4]))]
    if rng.random() < 0.4: pool.append(rng.choice([0, -1, 9, 50, 2147483647, -2147483648]))
    if rng.random() < 0.3: pool.append(rng.choice(BIG_IDS))

    def sidx(n):        # a script / handler index: mostly defined, sometimes not
        return rng.randrange(n) if n and rng.random() < 0.9 else rng.choice([n, n + 1, 7, 99])

    def act(handler, may_q):
        for _ in range(20):
            r = rng.random()
            if r < 0.24:
                if may_q[0] > 0:
                    may_q[0] -= 1
                    return 'q%d.%d' % (sidx(ncb), rng.choice([0, 0, 1, 2, 3, 7]))
            elif r < 0.32: return 'n%d' % rng.choice([0, 1, 2, 3])
            elif r < 0.46: return 'r%d:%d' % (rng.choice([0, 1, 1, 2, 2, 3, 4, -1, 2147483647]), rng.choice(CODES))
            elif r < 0.58: return 'c%d' % rng.choice(CODES + [7, -32601, 2147483647, -2147483648])
            elif r < 0.86: return 'i%d:%d' % (rng.choice(pool), rng.choice(CODES))
            else: return 'v%d:%s' % (rng.choice([0, 0, 1, 2, 3]), '-' if rng.random() < 0.3 else str(sidx(nhd)))
        return 'n0'

    def acts(handler):
        may_q = [2 if handler else 1]
        a = [act(handler, may_q) for _ in range(rng.choice([0, 1, 1, 2, 2, 3, 4]))]
        if rng.random() < 0.08:
            if a and rng.random() < 0.6: a[-1] = 'x'
            elif len(a) < 4 and rng.random() < 0.5: a.append('x')
            elif len(a) >= 4: a[rng.randrange(4)] = 'x'
            else: a.insert(rng.randrange(len(a) + 1), 'x')
        return a

    lines = []
    for _ in range(ncb):
        lines.append(' '.join(['cb'] + acts(False)))
    for _ in range(nhd):
        ret = rng.choice(['s0', 's0', 's5', 'as', 'as', 's-32000', 's2147483647'])
        lines.append(' '.join(['hd', ret] + acts(True)))
    rng.shuffle(lines)
    return lines, ncb, nhd


def peer_ops(rng, st, ncb, nhd):
    """one random op at an Rpc object; st = {'req': requests issued so far (estimate), 'in': inbound ids used}"""
    def sidx(n):
        return rng.randrange(n) if n and rng.random() < 0.9 else rng.choice([n, n + 2, 99])
    r = rng.random()
    if r < 0.30:
        st['req'] += 1
        return 'req %d %d' % (sidx(ncb), rng.choice([0, 0, 1, 2, 3]))
    if r < 0.34:
        return 'note %d' % rng.choice([0, 1, 2, 3])
    if r < 0.58:
        k = st['req']
        if k and rng.random() < 0.8: idv = rng.randrange(1, k + 3)
        else: idv = rng.choice([0, -1, k + 1, k + 5, 2147483647, -2147483648, (1 << 32) + max(k, 1), (1 << 32) + rng.randrange(1, k + 2)] + BIG_IDS)
        return 'rsp %d %d' % (idv, rng.choice(CODES))
    if r < 0.78:
        if st['in'] and rng.random() < 0.15: idv = rng.choice(st['in'])            # an id served before / being served
        elif rng.random() < 0.85: idv = len(st['in']) + 1
        else: idv = rng.choice([0, 0, -1, 2147483647, -2147483648])
        st['in'].append(idv)
        return 'inreq %d %d' % (idv, rng.choice([0, 0, 1, 1, 2, 2, 3]))
    if r < 0.90:
        idv = rng.choice(st['in']) if st['in'] and rng.random() < 0.7 else rng.choice([0, 1, 2, 3, 6, -1])
        return 'srsp %d %d' % (idv, rng.choice([0, 0, 5, -32000]))
    if r < 0.985:
        return 'svc %d %s' % (rng.choice([0, 1, 2, 3]), '-' if rng.random() < 0.3 else str(sidx(nhd)))
    return 'cleanup'


def early_svc(rng, nhd):
    out = []
    for m in range(3):
        r = rng.random()
        if r < 0.75 and nhd: out.append('svc %d %d' % (m, rng.randrange(nhd)))
        elif r < 0.82: out.append('svc %d %s' % (m, rng.choice(['-', str(nhd), '99'])))
    return out


def gen_rpc(rng):
    n = rng.choice([1, 1, 2, 3, 4])
    defs, ncb, nhd = gen_prog(rng)
    ops = ['rpc %s %d' % (rng.choice('HRP'), n)] + defs + early_svc(rng, nhd)
    st = {'req': 0, 'in': []}
    advs = [0, 1, 500, 999, 1000, 1000, 1001, 1500, 2000, 3000, n * 1000, n * 1000 - 1, n * 1000 + 1, 10000]
    for _ in range(rng.choice([4, 8, 16, 30])):
        if rng.random() < 0.30:
            ops.append('adv %d' % rng.choice(advs))
        else:
            ops.append(peer_ops(rng, st, ncb, nhd))
    ops.append('adv %d' % ((n + 1) * 1000))
    ops.append('adv 5000')
    return ops


def gen_reent(rng):
    """several requests pending at once; completion / timeout callbacks and a handler feed responses for the
    other pending ids (and for their own id: a duplicate from inside the callback), retry, clean up"""
    n = rng.choice([1, 2, 3]); k = rng.choice([2, 3, 4, 5]); ncb = rng.choice([2, 3, 4])
    defs = []
    for _ in range(ncb):
        out, seen = [], False
        for _ in range(rng.choice([1, 2, 3])):
            r = rng.random()
            if r < 0.6: out.append('i%d:%d' % (rng.randrange(1, k + 3), rng.choice(CODES)))
            elif r < 0.75:
                if not seen: out.append('q%d.%d' % (rng.randrange(ncb), rng.choice([0, 1]))); seen = True
            elif r < 0.85: out.append('n1')
            elif r < 0.93: out.append('r%d:0' % rng.randrange(1, 4))
            else: out.append('x')
        defs.append(' '.join(['cb'] + out))
    nh = rng.choice([0, 1])
    if nh: defs.append('hd %s i%d:0 c5' % (rng.choice(['s0', 'as']), rng.randrange(1, k + 1)))
    ops = ['rpc %s %d' % (rng.choice('HRP'), n)] + defs
    if nh: ops.append('svc 0 0')
    for _ in range(k): ops.append('req %d 0' % rng.randrange(ncb))
    for _ in range(rng.choice([2, 4, 6])):
        r = rng.random()
        if r < 0.45: ops.append('rsp %d %d' % (rng.randrange(1, k + 2), rng.choice(CODES)))
        elif r < 0.6 and nh: ops.append('inreq %d 0' % rng.randrange(1, 5))
        elif r < 0.8: ops.append('adv %d' % rng.choice([500, 1000, n * 1000]))
        else: ops.append('req %d 0' % rng.randrange(ncb))
    ops += ['adv %d' % ((n + 1) * 1000), 'adv 5000']
    return ops


def gen_world(rng):
    """two real Rpc peers (same user code) over a scripted lossy / reordering / duplicating pipe"""
    na, nb = rng.choice([1, 1, 2, 3]), rng.choice([1, 2, 3])
    defs, ncb, nhd = gen_prog(rng)
    ops = ['world %s %d %d' % (rng.choice('HRP'), na, nb)] + defs
    ops += ['b ' + o for o in early_svc(rng, nhd)]
    if rng.random() < 0.5: ops += ['a ' + o for o in early_svc(rng, nhd)][:2]
    st = {'a': {'req': 0, 'in': []}, 'b': {'req': 0, 'in': []}}
    for _ in range(rng.choice([6, 12, 18, 22])):
        r = rng.random()
        if r < 0.34:
            p = rng.choice('aaab')
            for _ in range(10):
                o = peer_ops(rng, st[p], ncb, nhd)
                # mostly requests / notifications / respond(); frames by hand and cleanup rarely
                if o.split()[0] in ('req', 'note', 'srsp', 'svc') or rng.random() < 0.2: break
            ops.append(p + ' ' + o)
        elif r < 0.56:
            ops.append('dlv ab %d' % rng.choice([0, 0, 0, 1, 2, 5]))
        elif r < 0.76:
            ops.append('dlv ba %d' % rng.choice([0, 0, 0, 1, 2, 5]))
        elif r < 0.80:
            ops.append('drop %s %d' % (rng.choice(['ab', 'ba']), rng.choice([0, 0, 1])))
        elif r < 0.88:
            ops.append('dup %s %d' % (rng.choice(['ab', 'ba']), rng.choice([0, 0, 1])))
        else:
            ops.append('adv %d' % rng.choice([0, 500, 999, 1000, 1000, 1500, 2000, 3000]))
    for _ in range(3):
        ops += ['dlv ab 0', 'dlv ba 0']
    ops += ['adv %d' % ((max(na, nb) + 1) * 1000), 'dlv ab 0', 'dlv ba 0', 'adv 4000']
    return ops



# ------------------------------------------------------------------ round 6: lengths, ids, dispatch, getters, faults

INT_MAX = 2147483647
WINDOWS = [1 << 13, 1 << 14, 1 << 15, 1 << 16, (1 << 16) + 6, 1 << 20]


def gen_lensweeps(tier):
    """encoder -> decoder round trip on the real code at EVERY text length (all three framings, three message kinds,
    each followed by a small message), plus windows around the powers of two; the same through two real Rpc objects"""
    q = tier == 'quick'
    for k in ('H 15962', 'R', 'P'):
        ops = ['open 0 %s' % k, 'lensweep 0 0 4200']
        for w in WINDOWS:
            ops.append('lensweep 0 %d %d' % (w - 8, w + 8))
        yield ops
    for k in 'HRP':
        yield ['rpcsweep %s 0 4200' % k]
        yield ['rpcsweep %s %d %d' % (k, (1 << 16) - 60, (1 << 16) + 20), 'open 0 R', 'feed 0 5b5d']
    if not q:
        step = 2500
        for lo in range(4201, 70001, step):
            yield ['open 0 H 15962', 'lensweep 0 %d %d' % (lo, min(lo + step - 1, 70000))]
        for k in ('R', 'P'):
            for lo in range(4201, 20001, step):
                yield ['open 0 %s' % k, 'lensweep 0 %d %d' % (lo, min(lo + step - 1, 20000))]
        for k in 'HRP':
            for lo in range(4201, 20001, step):
                yield ['rpcsweep %s %d %d' % (k, lo, min(lo + step - 1, 20000))]
        for k in 'HRP':
            yield ['rpcsweep %s %d %d' % (k, (1 << 20) - 50, (1 << 20) + 10)]
        yield ['open 0 H 15962', 'lensweep 0 %d %d' % ((1 << 24) - 7, (1 << 24) - 5), 'lensweep 0 %d %d' % ((1 << 24) - 1, (1 << 24) + 1)]   # top byte of the length field


def padded_text_len(idv, pad):
    return len('{"id":%d,"jsonrpc":"2.0","method":"m","params":"%s"}' % (idv, 'a' * pad))


def gen_padded(rng):
    """the same through the model: a request whose text has exactly a chosen length is written by the real encoder, compared
    byte for byte with the model's `encodeHeader`, and fed back whole / split inside the header / split at the end"""
    k = rng.choice(['H', 'H', 'R', 'P'])
    L = rng.choice([1454, 1455, 1460, 1461, 1466, 255, 256, 257, 4095, 4096, 4097, (1 << 13) - 6, 1 << 13, (1 << 14) + 1,
                    (1 << 15) - 1, 1 << 15, (1 << 16) - 7, (1 << 16) - 6, (1 << 16) - 1, 1 << 16, (1 << 16) + 1, (1 << 16) + 6,
                    rng.randrange(60, 70000), rng.randrange(60, 9000)])
    base = padded_text_len(1, 0)
    pad = max(L - base, 0)
    ops = ['open %d %s' % (s, 'H 15962' if k == 'H' else k) for s in range(3)]
    ops.append('sendq 0 1 6d %s' % hx('"' + 'a' * pad + '"'))
    ops.append('sendq 0 2 6e -')
    if k == 'P':
        ops += ['feedsent 1 0 -', 'feedsent 1 1 -']
    else:
        ops += ['feedsent 1 0+1 -', 'feedsent 2 0+1 %s' % ','.join(map(str, sorted({3, 6, 7, base + pad - 1, base + pad + (6 if k == 'H' else 0)})))]
    return ops


def jdesc(rng, depth=0):
    r = rng.random()
    if depth >= 3 or r < 0.45:
        return rng.choice(['n', 't', 'f', 'd', 'D', 'i0', 'i1', 'i-1', 'i7', 'i2147483647', 'i2147483648', 'i-2147483648', 'i-2147483649',
                           'i4294967297', 'i18446744073709551615', 'i18446744073709551616', 'i-9223372036854775808',
                           'i-9223372036854775809', 's', 's61', 's' + hx('x"y\\'), 's' + hx('[{'), 's312e30'])
    if r < 0.7:
        return '[' + ','.join(jdesc(rng, depth + 1) for _ in range(rng.choice([0, 1, 2, 3]))) + ']'
    keys = rng.sample(['a', 'b', 'id', 'code', 'k"', ''], rng.choice([0, 1, 2, 3]))
    return '{' + ','.join((hx(k) if k else '') + ':' + jdesc(rng, depth + 1) for k in keys) + '}'


ID_DESCS = ['i1', 'i2', 'i0', 'i-5', 'i2147483647', 'i2147483648', 'i-2147483648', 'i-2147483649', 'i4294967297', 'i18446744073709551617',
            'd', 'D', 's31', 's', 'n', 't', '[i1]', '{' + hx('a') + ':i1}']


def jmsg(rng):
    """one JSON-RPC shaped object description: every message kind, with every kind of defect"""
    f = {}
    r = rng.random()
    if r < 0.72: f['jsonrpc'] = 's' + hx('2.0')
    elif r < 0.90: f['jsonrpc'] = rng.choice(['s' + hx('1.0'), 's' + hx('1.0'), 's' + hx('2'), 's' + hx('2.00'), 'i2', 'd', 'n', 's'])
    if rng.random() < 0.8: f['id'] = rng.choice(ID_DESCS)
    kind = rng.randrange(8)
    if kind in (0, 1, 6):
        f['method'] = rng.choice(['s' + hx('m'), 's' + hx('a.b'), 's', 'i5', 'n', '[]']) if rng.random() < 0.3 else 's' + hx('m')
        if rng.random() < 0.7: f['params'] = jdesc(rng, 1)
    if kind in (2, 6, 7):
        f['result'] = jdesc(rng, 1)
    if kind in (3, 4, 7):
        e = {}
        if rng.random() < 0.85: e['code'] = rng.choice(['i5', 'i-32000', 'i0', 'i2147483648', 'd', 's35', 'n'])
        if rng.random() < 0.5: e['message'] = 's' + hx('x')
        f['error'] = rng.choice(['s' + hx('e'), 'n', '[]', 'i1']) if rng.random() < 0.15 else \
            '{' + ','.join(hx(k) + ':' + v for k, v in e.items()) + '}'
    items = list(f.items())
    rng.shuffle(items)
    return '{' + ','.join(hx(k) + ':' + v for k, v in items) + '}'


def gen_dispatch(rng):
    """Proto::onRecvJson on every message kind / defect, batches with nested arrays and non-objects, through all three framings"""
    ops = ['open 0 H 15962', 'open 1 R', 'open 2 P']
    for _ in range(rng.choice([2, 4, 6])):
        r = rng.random()
        if r < 0.5: d = jmsg(rng)
        elif r < 0.92:
            def batch(depth):
                out = []
                for _ in range(rng.choice([1, 2, 3, 4])):
                    x = rng.random()
                    if x < 0.7: out.append(jmsg(rng))
                    elif x < 0.8 and depth < 3: out.append(batch(depth + 1))
                    else: out.append(jdesc(rng, 2))
                return '[' + ','.join(out) + ']'
            d = batch(0)
        else: d = jdesc(rng)
        if d[0] not in '[{': d = '[' + d + ']'
        ops.append('pj %d %s' % (rng.randrange(3), d))
    return ops


def gen_getters(rng):
    ops = []
    for _ in range(rng.choice([3, 6, 10])):
        v = jdesc(rng, 2)
        obj = rng.choice(['{%s:%s}' % (hx('k'), v), '{%s:%s}' % (hx('k'), v), '{%s:%s,%s:i3}' % (hx('k'), v, hx('z')), '[%s]' % v, v, '{}'])
        key = rng.choice([hx('k'), hx('k'), hx('k'), hx('k'), hx('z'), hx('q'), '-'])
        if rng.random() < 0.7:
            kind = rng.choice('buids')
            if rng.random() < 0.5:      # a value of the wanted type, in and out of range
                v = {'b': rng.choice(['t', 'f']), 'u': rng.choice(['i0', 'i7', 'i4294967295', 'i4294967296', 'i4294967297', 'i-1']),
                     'i': rng.choice(['i0', 'i-7', 'i2147483647', 'i2147483648', 'i-2147483648', 'i-2147483649']),
                     'd': rng.choice(['d', 'D', 'i3', 'i18446744073709551616']), 's': rng.choice(['s', 's' + hx('old'), 's' + hx('x')])}[kind]
                obj = '{%s:%s}' % (hx('k'), v); key = hx('k')
            ops.append('gf %s %s %s' % (kind, obj, key))
        else: ops.append('hf %s %s %s' % (rng.choice('oabnfius'), obj, key))
    return ops


def gen_ids(rng):
    """requests whose ids are at the top of the range of int and across the wrap INT_MAX -> 1 (counter set by the test-only
    `jump`), with low ids still pending (they are skipped), answered with ids on both sides of INT_MAX / 2^32; backward jumps
    re-use ids whose answered first use still has its token in the timeout ring (no early timeout) or that are still pending
    (skipped); re-use from inside the callbacks of the same id; state-derived follow-ups (the id just allocated, the id just
    completed, the id just timed out, the counter itself)"""
    n = rng.choice([1, 2, 3])
    ops = ['rpc %s %d' % (rng.choice('HRP'), n), 'cb', 'cb q0.0', 'cb i%d:0' % rng.choice([INT_MAX, INT_MAX - 1, 1, 2]), 'cb q2.0 i1:5']
    r0 = rng.random()
    if r0 < 0.45:
        low = rng.choice([0, 1, 2, 3])                      # ids 1..low stay pending while the counter wraps
        for _ in range(low): ops.append('req %d 0' % rng.choice([0, 0, 1]))
        if low and rng.random() < 0.4: ops.append('rsp %d 0' % rng.randrange(1, low + 1))      # answered: its token stays in the ring
        j = INT_MAX - rng.choice([0, 0, 1, 2, 3, 5])
        ops.append('jump %d' % j)
        for _ in range(rng.choice([2, 3, 4, 6, 8])):
            r = rng.random()
            if r < 0.5: ops.append('req %d 0' % rng.choice([0, 0, 1, 2, 3]))
            elif r < 0.6: ops.append('reqsync %d 0 %d' % (rng.choice([0, 1, 3]), rng.choice(CODES)))
            elif r < 0.88:
                ops.append('rsp %d %d' % (rng.choice([INT_MAX, INT_MAX - 1, INT_MAX - 2, INT_MAX + 1, -INT_MAX - 1, (1 << 32) + INT_MAX,
                                                        (1 << 32) - 1, (1 << 32) + 1, 1, 2, 3, 4, 0, -1]), rng.choice(CODES)))
            else: ops.append('adv %d' % rng.choice([1000, 500, n * 1000]))
    elif r0 < 0.8:
        k = rng.choice([1, 2, 3])
        for _ in range(k): ops.append('req %d 0' % rng.choice([0, 0, 1, 3]))
        for i in range(1, k + 1):
            if rng.random() < 0.6: ops.append('rsp %d %d' % (i, rng.choice(CODES)))
        if rng.random() < 0.6: ops.append('adv %d' % rng.choice([1000, 999, (n - 1) * 1000, 500]))
        ops.append('jump %d' % rng.choice([0, 0, 1, 2, k - 1, k]))         # the next request re-uses an id used before
        for _ in range(rng.choice([1, 2, 3, 5])):
            ops.append(rng.choice(['req 0 0', 'req 0 0', 'req 1 0', 'req 3 0', 'rsp 1 0', 'rsp 2 5', 'adv 1000', 'adv 500', 'jump 0', 'jump 7',
                                   'rspb 1,1 0', 'rspb 1,2,1 5', 'reqsync 0 0 0']))
    else:
        # the id that just timed out / completed is re-allocated from inside its own callback (script 1 / 3 issue a request)
        ops.append('req %d 0' % rng.choice([1, 3]))
        ops.append('jump 0')
        ops.append(rng.choice(['adv %d' % (n * 1000), 'rsp 1 0', 'rsp 1 5']))
        for _ in range(rng.choice([1, 2, 3])):
            ops.append(rng.choice(['rsp 1 0', 'adv 1000', 'req 1 0', 'jump 0', 'rspb 1,1 0']))
    ops += ['adv %d' % ((n + 1) * 1000), 'adv 4000']
    return ops


def gen_faults(rng):
    """transport down while requests are pending (they still complete by timeout, once); the transport answering from
    inside the send callback; many slots; clock jumps beyond 2^31 ms"""
    n = rng.choice([1, 2, 3, 3, 16, 100, 512])
    ops = ['rpc %s %d' % (rng.choice('HRP'), n), 'cb', 'cb n1', 'cb i1:0 i2:5', 'hd s0', 'hd as', 'svc 0 0', 'svc 1 1']
    big = [2147483647, 2147483648, 2147483649, 4294967296, 4294968296, 3000000000]
    for _ in range(rng.choice([4, 8, 12])):
        r = rng.random()
        if r < 0.15: ops.append('tx off')
        elif r < 0.25: ops.append('tx on')
        elif r < 0.45: ops.append('req %d %d' % (rng.randrange(3), rng.choice([0, 1])))
        elif r < 0.60: ops.append('reqsync %d 0 %d' % (rng.randrange(3), rng.choice(CODES)))
        elif r < 0.70: ops.append('inreq %d %d' % (rng.randrange(1, 5), rng.choice([0, 1, 2])))
        elif r < 0.78: ops.append('srsp %d 0' % rng.randrange(1, 5))
        elif r < 0.86: ops.append('rsp %d %d' % (rng.randrange(1, 6), rng.choice(CODES)))
        elif r < 0.95: ops.append('adv %d' % rng.choice([500, 1000, 1000, n * 1000, n * 1000 - 1]))
        else: ops.append('adv %d' % rng.choice(big))
    ops += ['adv %d' % ((n + 1) * 1000), 'adv %d' % rng.choice(big + [5000])]
    return ops


def gen_rawbig(rng):
    """a large raw-stream value (nested, strings full of brackets and escapes) arriving in chunks: the decoder rescans from the
    start on every call and must answer 0 until the last chunk"""
    depth = rng.choice([1, 3, 8])
    n = rng.choice([200, 2000, 12000])
    body = ','.join(json.dumps(rng.choice(STRS) * rng.choice([1, 3])) for _ in range(n // 8))
    text = '[' * depth + body + ']' * depth
    k = rng.choice(['R', 'R', 'H 15962'])
    ops = ['open 0 %s' % k, 'open 1 %s' % k, 'sendq 0 1 6d %s' % hx(text)]
    approx = len(text) + 60
    cuts = sorted(set(rng.randrange(1, approx) for _ in range(rng.choice([3, 10, 40]))))
    ops.append('feedsent 1 0 %s' % ','.join(map(str, cuts)))
    return ops


def gen(rng, tier):
    q = tier == 'quick'
    # malformed op stream: both sides answer bad-op
    yield ['frob 1', 'feed 0 00', 'open 9 R', 'open 0 H 70000', 'open 0 R', 'feed 0 0g', 'feedsent 0 0 -', 'rpc R 3', 'sendq 0 1 6d zz', 'deep 0 x']
    yield ['rpc R 0', 'rpc X 2', 'rpc P 2', 'cb q0.8', 'cb zz', 'cb i01:0', 'cb r1', 'cb v0', 'cb xx', 'hd', 'hd s', 'hd sx x', 'hd as q100.0',
           'req 0', 'req 0 8', 'req 100 0', 'rsp a 0', 'rsp 01 0', 'adv -1', 'adv 100001', 'open 0 R', 'note', 'note 8', 'inreq 1',
           'inreq 99999999999 0', 'srsp 1', 'svc 0', 'svc 8 0', 'svc 0 x', 'cleanup now', 'a req 0 0', 'dlv ab 0', 'req 0 0', 'cb', 'hd s0', 'adv 2000']
    yield ['world R 0 1', 'world R 2 2', 'hd as', 'req 0 0', 'a req 0', 'a adv 5', 'c req 0 0', 'dlv xx 0', 'dlv cs 0', 'a srsp 99999999999 0',
           'rsp 1 0', 'world R 1 1', 'a', 'b', 'a note', 'srsp 1 0', 'a dlv ab 0', 'a note 0', 'cb', 'a cb', 'hd s0', 'dlv ab 0', 'dlv ba 0']
    # at most 16 definitions of each kind
    yield ['rpc R 1'] + ['cb n0'] * 17 + ['req 15 0', 'rsp 1 0', 'req 16 0', 'rsp 2 0']
    yield ['rpc R 1'] + ['hd s0'] * 17 + ['svc 0 15', 'svc 1 16', 'inreq 1 0', 'inreq 2 1']
    # directed: the extreme length field (DESIGN §7 row 8) and its neighbours
    yield ['open 0 H 15962', 'feed 0 3e5affffffff7879']
    yield ['open 0 H 15962', 'feed 0 3e5afffffffa7b7d', 'feed 0 7b7d']
    yield ['open 0 H 15962', 'feed 0 3e5afffffff9', 'feed 0 5b5d']
    yield ['open 0 H 15962', 'feed 0 3e5a000000025b5d3e5a00000002', 'feed 0 7b7d', 'feed 0 3e5b00000000']
    yield ['open 0 H 15962', 'feed 0 3e5a00000000', 'feed 0 3e5a0000000131']
    # directed: raw stream — string-embedded brackets at a segment boundary, escaped quotes, scalars, stray closers
    yield ['open 0 R', 'feed 0 7b2261223a227d', 'feed 0 5c22', 'feed 0 5d227d', 'feed 0 5d', 'feed 0 7b7d']
    yield ['open 0 R', 'feed 0 313233', 'open 1 R', 'feed 1 20205b315d20', 'open 2 R', 'feed 2 5c22', 'feed 2 22']
    yield ['open 0 P', 'feed 0 5b', 'feed 0 5b5d', 'feed 0 5b5d5b5d', 'feed 0 7b7d20']
    # deep arrays (Proto::onRecvJson recursion)
    for k in 'RHP':
        yield ['open 0 %s' % ('H 15962' if k == 'H' else k), 'deep 0 1', 'deep 0 50', 'deep 0 %d' % (20000 if q else 150000)]
    # directed rpc: response before / at / after the deadline, duplicate, unknown; a callback that issues one more request
    yield ['rpc R 2', 'cb q1.0', 'cb', 'req 1 0', 'rsp 1 0', 'rsp 1 0', 'adv 2000', 'req 1 0', 'adv 1999', 'adv 1', 'rsp 2 0', 'rsp 9 0', 'req 0 0',
           'adv 2000', 'adv 2000']
    yield ['rpc H 1', 'cb q1.0', 'cb', 'req 0 0', 'adv 1000', 'adv 1000', 'adv 1000']
    yield ['rpc P 3', 'req 0 0', 'adv 500', 'req 0 0', 'adv 2500', 'adv 500', 'adv 1000']
    # directed: response ids outside int (must be ignored, not truncated onto a pending request)
    yield ['rpc R 3', 'req 0 0', 'rsp 4294967297 0', 'rsp 1 0']
    yield ['rpc H 3', 'req 0 0', 'req 0 0', 'rsp -4294967294 5', 'rsp 18446744069414584321 0', 'rsp 36893488147419103233 0', 'rsp 2 0', 'rsp 1 0']
    # directed: re-entrant user code (the replays of three repaired defects)
    yield ['rpc R 2', 'cb i1:0', 'req 0 0', 'rsp 1 0', 'rsp 1 0']                                  # D5a duplicate response inside the completion callback
    yield ['rpc R 2', 'cb x', 'req 0 0', 'rsp 1 0', 'rsp 1 0']                                    # D5b cleanup() inside the completion callback
    yield ['rpc H 1', 'cb q0.0', 'req 0 0', 'adv 1000', 'adv 1000', 'adv 1000']                   # D5c retry from the timeout callback
    yield ['rpc R 1', 'cb i1:5 q1.1', 'cb', 'req 0 0', 'adv 1000', 'adv 1000']                    # D5d duplicate response inside the timeout callback
    yield ['rpc R 1', 'cb x', 'cb', 'req 0 0', 'req 1 0', 'req 1 1', 'adv 1000', 'adv 1000']      # D6 cleanup() inside a timeout callback, more ids in the slot
    yield ['rpc R 2', 'hd s0 v0:1', 'hd s5', 'svc 0 0', 'inreq 1 0', 'inreq 2 0']                 # D7a handler replaces itself
    yield ['rpc R 2', 'hd s0 x', 'svc 0 0', 'inreq 1 0', 'inreq 2 0', 'rsp 1 0']                  # D7b handler calls cleanup(), sync
    yield ['rpc P 2', 'hd as x', 'svc 1 0', 'inreq 3 1', 'adv 3000']                              # D7c handler calls cleanup(), async
    yield ['rpc R 2', 'hd s0 v0:-', 'svc 0 0', 'inreq 1 0', 'inreq 2 0', 'inreq 0 0']             # D7d handler removes itself
    # directed: use after cleanup() is refused by the harness (misuse), the rest is dropped silently
    yield ['rpc R 2', 'cb x q0.0 n1 r5:0 x', 'req 0 0', 'rsp 1 0', 'req 0 0', 'note 0', 'srsp 4 0', 'srsp 0 0', 'cleanup', 'svc 0 0', 'inreq 1 0']
    # directed: the serving side of one Rpc: sync / error / async / unknown method / notifications / respond() twice, late, unawaited
    yield ['rpc R 2', 'hd s0', 'hd s5', 'hd as', 'svc 0 0', 'svc 1 1', 'svc 2 2', 'inreq 1 0', 'inreq 2 1', 'inreq 3 2', 'srsp 3 0', 'srsp 3 5',
           'inreq 4 3', 'inreq 0 0', 'inreq 0 3', 'inreq 5 2', 'adv 2000', 'srsp 5 0', 'srsp 0 0', 'srsp 9 5']
    yield ['rpc P 1', 'hd as c0', 'hd s0 c5', 'svc 0 0', 'svc 1 1', 'inreq 1 0', 'inreq 2 1', 'inreq 0 1', 'adv 1000']
    yield ['rpc R 2', 'cb n1 c5 r3:0 v0:0', 'hd s0 q0.2 q1.3', 'req 0 0', 'rsp 1 0', 'inreq 7 0', 'rsp 2 5', 'rsp 3 0', 'adv 2000']
    # directed world: an async service answering twice / late / never; unknown method; notifications; respond() misuse
    W = ['cb q1.0', 'cb', 'hd s0', 'hd s5', 'hd as', 'b svc 0 0', 'b svc 1 1', 'b svc 2 2']
    yield ['world R 2 2'] + W + ['a req 1 2', 'dlv ab 0', 'b srsp 1 0', 'b srsp 1 5', 'dlv ba 1', 'dlv ba 0', 'adv 2000', 'adv 2000']
    yield ['world H 1 3'] + W + ['a req 1 2', 'dlv ab 0', 'adv 1000', 'adv 1000', 'adv 1000', 'b srsp 1 0', 'dlv ba 0']
    yield ['world P 2 2'] + W + ['a note 3', 'dlv ab 0', 'dlv ba 0', 'a note 0', 'dlv ab 0', 'a note 2', 'dlv ab 0', 'a req 1 3', 'dlv ab 0',
           'dlv ba 0', 'b srsp 0 0', 'b srsp 9 5', 'dlv ba 0', 'a req 0 1', 'dup ab 0', 'dlv ab 0', 'dlv ab 0', 'dlv ba 1', 'dlv ba 0', 'dlv ab 0', 'dlv ba 0']
    yield ['world R 1 1'] + W + ['a req 0 2', 'adv 1000', 'dlv ab 1', 'dlv ba 0', 'dlv ab 0', 'adv 1000', 'b srsp 1 0', 'dlv ba 0']
    # directed world: a handler that itself issues a request back (answer overtakes it); cleanup() of b from its handler;
    # a completion callback that answers an inbound request and feeds itself a duplicate; both peers serve each other
    yield ['world R 2 2', 'cb', 'hd s0 q0.1', 'hd s5', 'b svc 0 0', 'a svc 1 1', 'a req 0 0', 'dlv ab 0', 'dlv ba 1', 'dlv ba 0', 'dlv ab 0', 'adv 3000']
    yield ['world R 1 1', 'hd s0 x', 'b svc 0 0', 'a req 0 0', 'dlv ab 0', 'adv 1000', 'b srsp 1 0', 'b req 0 0', 'dlv ba 0', 'a req 0 0', 'dlv ab 0', 'adv 1000']
    yield ['world H 2 3', 'cb r1:0 i1:5 x', 'hd as q0.0', 'a svc 0 0', 'b svc 0 0', 'b req 9 0', 'dlv ba 0', 'dlv ab 0', 'dlv ba 0', 'dlv ab 0',
           'a note 0', 'adv 3000', 'adv 3000']
    yield ['world P 1 1', 'cb q0.0', 'hd s5 c0 v0:1', 'hd as n3', 'a svc 0 0', 'b svc 0 0', 'a req 0 0', 'b req 0 0', 'dlv ab 0', 'dlv ba 0', 'dlv ba 0',
           'dlv ab 0', 'dlv ab 0', 'dlv ba 0', 'adv 1000', 'dlv ab 0', 'dlv ba 0', 'adv 2000']
    # round 6 directed: malformed forms of the new ops (bad-op on both sides)
    yield ['open 0 R', 'lensweep 0 5 4', 'lensweep 0 0 200001', 'lensweep 1 0 5', 'pj 0 i1', 'pj 0 [i01]', 'pj 0 {6b:i1,6b:i2}', 'pj 0 [s7f]',
           'pj 0 [sA1]', 'pj 0 [i1', 'pj 0 [i1]]', 'pj 9 []', 'pj 0 []', 'pj 0 {}', 'gf x {} 6b', 'gf i {6b:i1} 6B', 'gf i {6b:i1} 6', 'hf z {} 6b',
           'gf i {6b:i1} 6b', 'hf o {6b:{}} 6b', 'rpcsweep R 0 10']
    yield ['rpcsweep X 0 10', 'rpcsweep R 10 0', 'rpcsweep R 0 10', 'rpcsweep R 0 10', 'open 0 P', 'feed 0 5b5d']
    yield ['rpc R 513', 'rpc R 512', 'jump 2147483648', 'jump x', 'jump 99999999999', 'tx maybe', 'reqsync 0 0', 'reqsync 0 8 0', 'adv 5000000001',
           'adv 99999999999', 'jump 5', 'req 0 0', 'tx off', 'req 0 0', 'tx on', 'reqsync 0 0 5', 'adv 5000000000']
    yield ['world R 1 1', 'a jump 5', 'a tx off', 'a reqsync 0 0 0', 'a req 0 0', 'dlv ab 0', 'dlv ba 0']
    # round 7 directed: the wrap INT_MAX -> 1 on the real code (UBSan): nothing pending / 1 and 2 pending (skipped) / 1 answered (stale token)
    yield ['rpc R 2', 'cb', 'jump 2147483645', 'req 0 0', 'req 0 0', 'req 0 0', 'req 0 0', 'rsp 2147483647 0', 'rsp 2147483648 0', 'rsp 1 5', 'rsp 0 0',
           'adv 2000', 'adv 1000']
    yield ['rpc H 3', 'cb', 'req 0 0', 'req 0 0', 'jump 2147483646', 'req 0 0', 'req 0 0', 'req 0 0', 'rsp 3 0', 'rsp 2147483647 5', 'rsp 1 0', 'rsp 2 0',
           'rsp 4 0', 'adv 3000', 'adv 1000']
    yield ['rpc P 3', 'cb', 'req 0 0', 'rsp 1 0', 'adv 2000', 'jump 2147483647', 'req 0 0', 'adv 1000', 'adv 1000', 'adv 1000', 'rsp 1 0']
    yield ['rpc R 1', 'cb q0.0', 'req 0 0', 'jump 0', 'adv 1000', 'jump 0', 'adv 1000', 'rsp 1 0', 'adv 1000']          # re-use from the timeout callback of the same id
    yield ['rpc R 2', 'cb q1.0 i1:5', 'cb', 'req 0 0', 'jump 0', 'rsp 1 0', 'rsp 1 0', 'adv 2000']                       # re-use from the completion callback, then a duplicate
    yield ['rpc H 2', 'cb', 'jump 2147483647', 'reqsync 0 0 0', 'reqsync 0 0 5', 'jump 0', 'reqsync 0 0 0', 'adv 2000']     # the transport answers the id being allocated
    yield ['rpc R 2', 'cb', 'req 0 0', 'req 0 0', 'rspb 1,1 0', 'rspb 2,3,2 5', 'rspb 1 0', 'rspb 4294967297,2 0', 'rspb 1, 0', 'rspb 1,2,3,4,5,6,7,8,9 0', 'adv 2000']
    yield ['rpc R 2', 'hd s0 r9:0 r1:5', 'hd as r2:0', 'svc 0 0', 'svc 1 1', 'inreq 1 0', 'inreq 2 1', 'srsp 7 0', 'adv 2000']   # respond() for ids never asked
    # round 7 directed: initialize(proto, timeout_sec <= 0) is refused (the case stays fresh)
    yield ['rpc R 0', 'rpc H -1', 'rpc P -513', 'rpc R -', 'rpc R 2', 'cb', 'req 0 0', 'adv 2000']
    yield ['rpc P 0', 'open 0 R', 'feed 0 5b5d']
    # directed: ids at the top of int
    yield ['rpc R 2', 'cb', 'jump 2147483645', 'req 0 0', 'req 0 0', 'req 0 0', 'rsp 2147483648 0', 'rsp 2147483647 0', 'rsp 2147483646 5', 'rsp 6442450942 0',
           'rsp -2147483648 0', 'adv 2000', 'req 0 0', 'jump 0', 'req 0 0', 'rsp 1 0']
    yield ['rpc H 3', 'cb', 'req 0 0', 'jump 0', 'req 0 0', 'rsp 1 0', 'adv 3000', 'adv 1000']                     # id reused while pending: the first callback is lost
    yield ['rpc P 3', 'cb', 'req 0 0', 'rsp 1 0', 'adv 2000', 'jump 0', 'req 0 0', 'adv 1000', 'rsp 1 0']          # id reused while in the ring: early timeout
    # directed: response ids that are not int literals, through the real dispatch
    yield ['open 0 P', 'pj 0 {6a736f6e727063:s322e30,6964:s31,726573756c74:i7}', 'pj 0 {6a736f6e727063:s322e30,6964:D,726573756c74:i7}',
           'pj 0 {6a736f6e727063:s322e30,6964:s31,6572726f72:{636f6465:i5}}', 'pj 0 {6a736f6e727063:s322e30,6964:i4294967297,6572726f72:{636f6465:i5}}',
           'pj 0 {6a736f6e727063:s322e30,6964:s61,6d6574686f64:s6d}', 'pj 0 {6a736f6e727063:s322e30,6964:i1,726573756c74:i7,6572726f72:{636f6465:i5}}',
           'pj 0 {6a736f6e727063:s322e30,6964:i1}', 'pj 0 {6964:i1,726573756c74:i7}', 'pj 0 {6a736f6e727063:s312e30,6964:i1,726573756c74:i7}',
           'pj 0 {6a736f6e727063:s312e30,6d6574686f64:s6d}', 'pj 0 {6a736f6e727063:i2,6d6574686f64:s6d}', 'pj 0 [[{6a736f6e727063:s322e30,6d6574686f64:s61}],i1,[[]],{6a736f6e727063:s322e30,6d6574686f64:s62}]']
    # directed: transport down; the transport answering inside the send callback
    yield ['rpc R 2', 'cb', 'cb i1:0', 'tx off', 'req 0 0', 'req 0 0', 'adv 1000', 'tx on', 'req 0 0', 'adv 1000', 'adv 1000', 'rsp 1 0']
    yield ['rpc H 2', 'cb i1:0 q1.0', 'cb', 'reqsync 0 0 0', 'reqsync 1 1 5', 'rsp 1 0', 'rsp 2 0', 'adv 3000']
    yield ['rpc R 512', 'cb', 'req 0 0', 'adv 511000', 'adv 999', 'adv 1', 'req 0 0', 'adv 4294967296']
    for ops in gen_lensweeps(tier):
        yield ops
    n6 = 40 if q else 600
    for _ in range(n6): yield gen_padded(rng)
    for _ in range(n6): yield gen_dispatch(rng)
    for _ in range(n6): yield gen_getters(rng)
    for _ in range(n6): yield gen_ids(rng)
    for _ in range(n6): yield gen_faults(rng)
    for _ in range(12 if q else 100): yield gen_rawbig(rng)
    n = 120 if q else 2500
    for i in range(n):
        yield gen_roundtrip(rng, exhaustive=(i % 6 == 0))
    for _ in range(n):
        yield gen_literal(rng)
    for _ in range(n):
        yield gen_hostile(rng)
    for i in range(n):
        yield gen_reent(rng) if i % 3 == 0 else gen_rpc(rng)
    for _ in range(n):
        yield gen_world(rng)


NT = ('resumed-frame', 'multi-frame', 'hdr-need-body-extreme-len', 'raw-unbalanced-err', 'parse-fail', 'timeout-fired',
      'rsp-late-or-dup', 'rsp-unknown', 'rsp-id-beyond-int', 'deep', 'nested-fire', 'cb-request', 'cb-respond', 'cb-cleanup',
      'svc-changed-in-cb', 'misuse', 'respond-timeout', 'inreq-method-not-found', 'srsp-unawaited',
      'w-timeout-fired', 'w-rsp-late-or-dup', 'w-rsp-unknown', 'w-nested-fire', 'w-cb-request', 'w-cb-respond', 'w-cb-cleanup',
      'w-svc-changed-in-cb', 'w-misuse', 'w-respond-timeout', 'w-inreq-method-not-found', 'w-srsp-unawaited', 'w-dlv-reordered',
      'lensweep', 'rpcsweep', 'pj-ignored', 'pj-batch', 'pj-request', 'pj-response', 'gf-hit', 'gf-miss', 'hf', 'jump-back', 'jump-intmax',
      'id-wrapped', 'id-skip-pending', 'rpc-init-refused', 'rsp-batch', 'id-near-intmax', 'tx-off-dropped', 'tx-off-timeout', 'reqsync', 'adv-beyond-2^31', 'rpc-many-slots')


def nontrivial(ops, model_lines):
    tags = set()
    for l in model_lines:
        if l.startswith('B '): tags.update(l[2:].split())
    return 1 if any(t in tags for t in NT) else None


def fingerprint(ops, d):
    what = d[1] if d else ''
    m = re.search(r'CRASH (\S+)', what)
    if m:
        key = 'crash:' + m.group(1) + ':' + (ops[-1].split()[0] if ops else '')
    else:
        key = 'reject:' + ' '.join(o.split()[0] for o in ops)
    return hashlib.sha1(key.encode()).hexdigest()[:12]


LEVEL_TEXT = ('Lean 4 theorems over a hand-written model: header framing (32-bit length arithmetic) round trip, prefix stability and '
              'totality; FindEndPos bracket/quote/backslash scanner finds exactly the end of every well-shaped value text and returns '
              '0 on every proper prefix; segmentation independence of the receive loop for every prefix-stable decoder; pending map + '
              'timeout ring under arbitrary re-entrant callback scripts: every callback fires at most once; an unanswered request fires exactly '
              'once, at the N-th tick, with the timeout code; the first matching response before that fires it with its code; other ids '
              '(unknown, duplicate, late, beyond int — also fed from inside callbacks) are ignored; monitor invariant (timer on iff something '
              'monitored) for every program incl. cleanup() from callbacks; a cleaned-up object has nothing pending and never fires again. '
              'Ids: counter and pending ids are C++ ints in every reachable state; the cyclic allocation returns a free id in [1, INT_MAX] while fewer '
              'than INT_MAX requests are pending (pigeonhole) and exactly-once holds across the wrap (timeout tokens carry a never re-used sequence number: '
              'a stale token of a re-used id is ignored); counterexamples for the code as found; initialize() succeeds exactly for timeout_sec >= 1; onRecvJson dispatch total over every JSON value (ids/codes handed to callbacks '
              'are ints without narrowing, non-int response ids complete nothing); GetField leaves its output untouched on failure. '
              'Tied to the code on every run by trace acceptance of the real protos / real Rpc (ASan+UBSan) incl. a length sweep of the real encoders.')
LEVEL_NOTE = ('trusted: Lean kernel; hand-written model + trace-acceptance tie (coverage bounded by the generator, measured); '
              'nlohmann parse/dump abstract (oracle); stack depth outside the model; request ids carried at the width of int '
              '(C14_id_width), the wrap INT_MAX -> 1 is executed on the real code; the 64-bit token sequence number is an unbounded Nat in the model')
TECHNIQUE = 'Lean 4 proofs (induction over token grammars / op sequences, invariants) + trace acceptance of the implementation'
DESIGN_REF = 'DESIGN.md §6 C14, §7 row 8'
