// C15 harness: a real tbox::network::DnsRequest on a real event loop with a virtual clock.
// Lookups are real `request()` calls (the queries go to 127.0.0.x:53 and are never answered);
// replies are generated datagrams handed to the protected `onUdpRecv` through a probe subclass,
// each in a heap block of exactly its size (an over-read is an ASan report); `tick` advances the
// virtual monotonic clock by one second and lets the loop run the TimeoutMonitor's timer.
// One op per loop pass.  Output format = lean/Driver/C15.lean.
#include "vh.h"
#include "vtime.h"
#include "loopdrv.h"
#include <cstring>
#include <memory>
#include <tbox/event/loop.h>
#include <tbox/base/log_output.h>
#include <tbox/network/dns_request.h>

using tbox::network::DnsRequest;
using tbox::network::IPAddress;
using tbox::network::DomainName;
using tbox::network::SockAddr;

struct Probe : public DnsRequest {
    using DnsRequest::DnsRequest;
    void feed(const void *p, size_t n) { onUdpRecv(p, n, SockAddr()); }
};

static tbox::event::Loop *loop = nullptr;
static Probe *dns = nullptr;
static uint64_t serial = 0;

static DnsRequest::IPAddressVec servers(unsigned n) {
    DnsRequest::IPAddressVec v;
    for (unsigned i = 1; i <= n; ++i) v.push_back(IPAddress::FromString("127.0.0." + std::to_string(i)));
    return v;
}

static void reset_case() {
    delete dns;
    dns = new Probe(loop, servers(1));
    serial = 0;
}

static const char *status_str(DnsRequest::Result::Status s) {
    using S = DnsRequest::Result::Status;
    switch (s) {
        case S::kSuccess: return "success";
        case S::kDomainError: return "domain-error";
        case S::kAllDnsFail: return "all-dns-fail";
        case S::kTimeout: return "timeout";
        case S::kFail: return "fail";
    }
    return "?";
}

static void on_result(uint64_t id, const DnsRequest::Result &r) {
    std::string a, c;
    for (auto &x : r.a_vec) {
        uint32_t ip = x.ip;               // in-memory image = the four address bytes in datagram order
        if (!a.empty()) a += ",";
        a += std::to_string(x.ttl) + ":" + vh::hex((const uint8_t *)&ip, 4);
    }
    for (auto &x : r.cname_vec) {
        if (!c.empty()) c += ",";
        c += std::to_string(x.ttl) + ":" + vh::hex(x.cname.toString());
    }
    std::cout << "P cb " << id << " " << status_str(r.status) << " a=" << (a.empty() ? "-" : a)
              << " c=" << (c.empty() ? "-" : c) << std::endl;
}

int main() {
    LogOutput_Disable();
    vt::enable(1000, 1700000000000LL);
    loop = tbox::event::Loop::New("epoll");
    vh::LoopDriver drv(loop);
    reset_case();
    drv.step = [&]() -> bool {
        std::string line;
        if (!std::getline(std::cin, line)) { delete dns; dns = nullptr; return false; }
        auto w = vh::words(line);
        if (w.empty()) return true;
        if (w[0] == "case") { reset_case(); std::cout << line << std::endl; return true; }
        uint64_t n = 0; std::vector<uint8_t> d;
        if (w[0] == "servers" && w.size() == 2 && vh::to_u64(w[1], n) && n < 4) {
            dns->setDnsIPAddresses(servers((unsigned)n));
            std::cout << "P ret=0" << std::endl;
        } else if (w[0] == "lookup" && w.size() == 1) {
            uint64_t me = serial++;
            auto id = dns->request(DomainName("verif.example.com"), [me](const DnsRequest::Result &r) { on_result(me, r); });
            std::cout << "P ret=" << (unsigned)id << std::endl;
        } else if (w[0] == "cancel" && w.size() == 2 && vh::to_u64(w[1], n) && n < 65536) {
            std::cout << "P ret=" << (dns->cancel((DnsRequest::ReqId)n) ? 1 : 0) << std::endl;
        } else if (w[0] == "running" && w.size() == 2 && vh::to_u64(w[1], n) && n < 65536) {
            std::cout << "P ret=" << (dns->isRunning((DnsRequest::ReqId)n) ? 1 : 0) << std::endl;
        } else if (w[0] == "recv" && w.size() == 2 && vh::unhex(w[1], d)) {
            std::cout << "P ret=0" << std::endl;
            std::unique_ptr<uint8_t[]> blk(new uint8_t[d.size()]);
            if (!d.empty()) memcpy(blk.get(), d.data(), d.size());
            dns->feed(blk.get(), d.size());
        } else if (w[0] == "tick" && w.size() == 1) {
            std::cout << "P ret=0" << std::endl;
            vt::advance_ms(1000);            // the monitor's timer (if enabled) fires in the next pass
        } else {
            std::cout << "bad-op" << std::endl;
        }
        return true;
    };
    drv.run();
    delete loop;
    return 0;
}
