// C15 harness: a real tbox::network::DnsRequest on a real event loop with a virtual clock.
// Lookups are real `request()` calls (the queries go to 127.0.0.x:53 and are never answered);
// replies are generated datagrams handed to the protected `onUdpRecv` through a probe subclass,
// each in a heap block of exactly its size (an over-read is an ASan report); `tick` advances the
// virtual monotonic clock by one second and lets the loop run the TimeoutMonitor's timer.
// The callback of a lookup runs a script of API calls (new lookups with their own scripts, cancels)
// from INSIDE the callback — reply, error, all-servers-failed and timeout callbacks alike.
// One op per loop pass.  Output format = lean/Driver/C15.lean.
#include "vh.h"
#include "vtime.h"
#include "loopdrv.h"
#include <cstring>
#include <dlfcn.h>
#include <arpa/inet.h>
#include <netinet/in.h>
#include <sys/socket.h>
#include <memory>
#include <tbox/event/loop.h>
#include <tbox/base/log_output.h>
#include <tbox/network/dns_request.h>

using tbox::network::DnsRequest;
using tbox::network::IPAddress;
using tbox::network::DomainName;
using tbox::network::SockAddr;

// ---- the real receive path: the client's UDP socket is found by watching its queries (sendto … :53); `net <hex>`
// sends a datagram to that socket from another socket, the loop's next pass runs UdpSocket::onSocketEvent ->
// DnsRequest::onUdpRecv (so deleteRequest()'s udp_.disable() and a callback's request() -> udp_.enable() happen INSIDE
// the socket's own read callback).  A datagram that was not picked up (socket disabled: nothing outstanding) is
// discarded by the harness before the next op, which is what onUdpRecv would have done with it.
typedef ssize_t (*sendto_fn)(int, const void *, size_t, int, const struct sockaddr *, socklen_t);
static sendto_fn real_sendto() { static sendto_fn f = (sendto_fn)dlsym(RTLD_NEXT, "sendto"); return f; }
typedef ssize_t (*recvfrom_fn)(int, void *, size_t, int, struct sockaddr *, socklen_t *);
static recvfrom_fn real_recvfrom() { static recvfrom_fn f = (recvfrom_fn)dlsym(RTLD_NEXT, "recvfrom"); return f; }
static int g_dns_fd = -1, g_tx = -1;
static bool net_pending = false;
// fault schedules (lesson b): the kernel's answers to the client's next sendto / recvfrom calls, from the op file.
// 0 = pass through to the kernel, e > 0 = fail with errno e (sendto: nothing is sent; recvfrom: nothing is consumed).
#include <deque>
struct Sent { std::string bytes; long ret; };
static std::deque<int> g_send_sched, g_recv_sched;
static std::vector<Sent> g_sent;                     // the queries of the request() under way, as the kernel saw them
extern "C" ssize_t sendto(int fd, const void *buf, size_t len, int flags, const struct sockaddr *to, socklen_t tolen) {
    bool dns = to && to->sa_family == AF_INET && ((const struct sockaddr_in *)to)->sin_port == htons(53);
    if (!dns) return real_sendto()(fd, buf, len, flags, to, tolen);
    g_dns_fd = fd;
    int e = 0;
    if (!g_send_sched.empty()) { e = g_send_sched.front(); g_send_sched.pop_front(); }
    ssize_t r;
    if (e) { errno = e; r = -1; }
    else r = real_sendto()(fd, buf, len, flags, to, tolen);
    int saved = errno;
    g_sent.push_back(Sent{std::string((const char *)buf, len), r < 0 ? -(long)saved : (long)r});
    errno = saved;
    return r;
}
extern "C" ssize_t recvfrom(int fd, void *buf, size_t len, int flags, struct sockaddr *from, socklen_t *fromlen) {
    if (fd == g_dns_fd && g_dns_fd >= 0 && !g_recv_sched.empty()) {
        int e = g_recv_sched.front(); g_recv_sched.pop_front();
        if (e) { errno = e; return -1; }
    }
    return real_recvfrom()(fd, buf, len, flags, from, fromlen);
}
// ---- OS-level effects on the client's socket (lesson d), reported on `M` lines: the descriptor is learnt when the
// constructor calls socket(); epoll_ctl tells whether the loop is watching it for input (udp_.enable()/disable());
// close() tells that the destructor released it.
#include <sys/epoll.h>
#include <set>
static bool g_capture_socket = false;
static int g_sock_fd = -1;
static bool g_sock_watched = false;
static std::set<int> g_closed;
extern "C" int socket(int domain, int type, int protocol) {
    typedef int (*fn)(int, int, int);
    static fn real = (fn)dlsym(RTLD_NEXT, "socket");
    int fd = real(domain, type, protocol);
    if (g_capture_socket && fd >= 0) { g_sock_fd = fd; g_sock_watched = false; g_closed.erase(fd); }
    return fd;
}
extern "C" int epoll_ctl(int epfd, int op, int fd, struct epoll_event *ev) {
    typedef int (*fn)(int, int, int, struct epoll_event *);
    static fn real = (fn)dlsym(RTLD_NEXT, "epoll_ctl");
    int r = real(epfd, op, fd, ev);
    if (fd == g_sock_fd && r == 0) {
        if (op == EPOLL_CTL_DEL) g_sock_watched = false;
        else g_sock_watched = ev && (ev->events & EPOLLIN);
    }
    return r;
}
extern "C" int close(int fd) {
    typedef int (*fn)(int);
    static fn real = (fn)dlsym(RTLD_NEXT, "close");
    if (fd >= 0 && fd == g_sock_fd) g_closed.insert(fd);
    return real(fd);
}
// where datagrams for the client must be sent.  If every sendto of the client was failed by the fault schedule the kernel
// never auto-bound the socket: the harness binds it to an ephemeral loopback port itself (what the first successful
// sendto would have done) so that `net`/`sock` can still deliver.
static bool dns_addr(struct sockaddr_in &a) {
    socklen_t l = sizeof a; memset(&a, 0, sizeof a);
    if (g_dns_fd < 0) return false;
    if (getsockname(g_dns_fd, (struct sockaddr *)&a, &l) != 0) return false;
    if (a.sin_port == 0) {
        struct sockaddr_in b; memset(&b, 0, sizeof b); b.sin_family = AF_INET; b.sin_addr.s_addr = htonl(INADDR_ANY);
        if (bind(g_dns_fd, (struct sockaddr *)&b, sizeof b) != 0) return false;
        l = sizeof a;
        if (getsockname(g_dns_fd, (struct sockaddr *)&a, &l) != 0 || a.sin_port == 0) return false;
    }
    a.sin_family = AF_INET; a.sin_addr.s_addr = htonl(INADDR_LOOPBACK);
    return true;
}
static void drain_socket() {
    if (net_pending && g_dns_fd >= 0) { static char junk[70000]; while (recv(g_dns_fd, junk, sizeof junk, MSG_DONTWAIT) >= 0) {} }
    net_pending = false;
    g_recv_sched.clear();
}

struct Probe : public DnsRequest {
    using DnsRequest::DnsRequest;
    void feed(const void *p, size_t n) { onUdpRecv(p, n, SockAddr()); }
};

static tbox::event::Loop *loop = nullptr;
static Probe *dns = nullptr;
static uint64_t serial = 0;
struct ActT { char kind; uint64_t arg; };            // 'L' sid | 'C' id | 'S' | 'V' n (setDnsIPAddresses) | 'R' id (isRunning) | 'Q' (isRunning own id)
static std::vector<std::vector<ActT>> scripts;
static std::vector<unsigned> ids;                    // serial -> id returned by request()
static bool touch_captures = true;                   // the callback uses its captures after its API calls (`touch off` disables)
static const uint64_t kNoScript = 1000000;

static DnsRequest::IPAddressVec servers(unsigned n) {
    DnsRequest::IPAddressVec v;
    for (unsigned i = 1; i <= n; ++i) v.push_back(IPAddress::FromString("127.0.0." + std::to_string(i)));
    return v;
}

static bool udp_line_due = false;                    // the `M udp=` line of the previous op is printed after the pass that served it
// ~DnsRequest() with whatever is outstanding, then a fresh object (n servers; n = 0: the one-argument constructor).
// Returns whether the old object's socket was closed and no longer watched by the loop.
static bool renew(unsigned n) {
    int old_fd = g_sock_fd;
    delete dns;
    bool released = old_fd < 0 || (g_closed.count(old_fd) != 0 && !g_sock_watched);
    g_dns_fd = -1;
    g_capture_socket = true;
    dns = n ? new Probe(loop, servers(n)) : new Probe(loop);
    g_capture_socket = false;
    return released;
}

static void reset_case() {
    drain_socket();
    g_send_sched.clear(); g_sent.clear();
    renew(1);
    udp_line_due = false;
    serial = 0;
    scripts.clear(); ids.clear(); touch_captures = true;
}

static const char *status_str(DnsRequest::Result::Status s) {
    using S = DnsRequest::Result::Status;
    switch (s) {
        case S::kSuccess: return "success";
        case S::kDomainError: return "domain-error";
        case S::kAllDnsFail: return "all-dns-fail";
        case S::kTimeout: return "timeout";
        case S::kFail: return "fail";
    }
    return "?";
}

// ---- callback scripts: the callback of a lookup runs a small list of API calls (lean: Req.script)

static bool parse_acts(const std::string &w, std::vector<ActT> &out) {
    out.clear();
    if (w == "-") return true;
    std::stringstream ss(w); std::string t;
    while (std::getline(ss, t, ',')) {
        uint64_t v = 0;
        if (t == "S") { out.push_back({'S', 0}); continue; }
        if (t == "Q") { out.push_back({'Q', 0}); continue; }
        if (t.size() < 2 || (t[0] != 'L' && t[0] != 'C' && t[0] != 'V' && t[0] != 'R') || !vh::to_u64(t.substr(1), v)) return false;
        if (t[0] == 'L' ? v >= 64 : t[0] == 'V' ? v >= 4 : v >= 65536) return false;
        out.push_back({t[0], v});
    }
    return !w.empty() && w.back() != ',';
}

static unsigned do_lookup(uint64_t sid, bool top = false, const std::string *name = nullptr, bool quiet = false);

static void on_result(uint64_t me, std::vector<ActT> sc, const DnsRequest::Result &r) {
    std::string a, c;
    for (auto &x : r.a_vec) {
        uint32_t ip = x.ip;               // in-memory image = the four address bytes in datagram order
        if (!a.empty()) a += ",";
        a += std::to_string(x.ttl) + ":" + vh::hex((const uint8_t *)&ip, 4);
    }
    for (auto &x : r.cname_vec) {
        if (!c.empty()) c += ",";
        c += std::to_string(x.ttl) + ":" + vh::hex(x.cname.toString());
    }
    std::cout << "P cb " << me << " " << status_str(r.status) << " a=" << (a.empty() ? "-" : a)
              << " c=" << (c.empty() ? "-" : c) << std::endl;
    for (auto &act : sc) {                             // `sc` is a copy: the closure may be destroyed by a cancel below
        if (act.kind == 'L') {
            unsigned nid = do_lookup(act.arg);          // prints the query it sent first
            std::cout << "P act " << me << " L" << act.arg << " ret=" << nid << std::endl;
        } else if (act.kind == 'C') {
            std::cout << "P act " << me << " C" << act.arg << " ret=" << (dns->cancel((DnsRequest::ReqId)act.arg) ? 1 : 0) << std::endl;
        } else if (act.kind == 'V') {
            dns->setDnsIPAddresses(servers((unsigned)act.arg));
            std::cout << "P act " << me << " V" << act.arg << " ret=0" << std::endl;
        } else if (act.kind == 'R') {
            std::cout << "P act " << me << " R" << act.arg << " ret=" << (dns->isRunning((DnsRequest::ReqId)act.arg) ? 1 : 0) << std::endl;
        } else {
            unsigned own = me < ids.size() ? ids[me] : 0;
            if (act.kind == 'Q')
                std::cout << "P act " << me << " Q ret=" << (dns->isRunning((DnsRequest::ReqId)own) ? 1 : 0) << std::endl;
            else
                std::cout << "P act " << me << " S ret=" << (dns->cancel((DnsRequest::ReqId)own) ? 1 : 0) << std::endl;
        }
    }
}

struct Ctx { uint64_t me; std::vector<ActT> script; std::string tag; };

static const std::string kDefaultName = "verif.example.com";
static unsigned do_lookup(uint64_t sid, bool top, const std::string *name, bool quiet) {
    uint64_t me = serial++;
    g_sent.clear();
    if (ids.size() <= me) ids.resize(me + 1, 0);
    // the script is bound when the lookup is issued (lean: `st.scripts.getD sid []` in `lookup`)
    Ctx ctx{me, sid < scripts.size() ? scripts[sid] : std::vector<ActT>(), std::string(40, 'x')};
    auto id = dns->request(DomainName(name ? *name : kDefaultName), [ctx](const DnsRequest::Result &r) {
        on_result(ctx.me, ctx.script, r);
        if (touch_captures) {                         // like an ordinary callback it keeps using its captures after its API
                                                      // calls: a callable destroyed under its feet is an ASan report
            volatile char ch = ctx.tag[ctx.tag.size() - 1]; (void)ch;
        }
    });
    ids[me] = (unsigned)id;
    if (!quiet) {
        // the query as the kernel saw it: every server must have been sent the same bytes; a refused request() sends nothing
        if (id == 0) { if (!g_sent.empty()) std::cout << "P q-after-refusal" << std::endl; }
        else if (g_sent.empty()) std::cout << "P q-none" << std::endl;
        else {
            bool same = true;
            for (auto &x : g_sent) if (x.bytes != g_sent[0].bytes) same = false;
            std::cout << (same ? "P q " : "P q-differ ") << vh::hex(g_sent[0].bytes) << std::endl;
            if (top) {
                std::cout << "M sendto n=" << g_sent.size() << " len=" << g_sent[0].bytes.size() << " rets=";
                for (size_t i = 0; i < g_sent.size(); ++i) std::cout << (i ? "," : "") << g_sent[i].ret;
                std::cout << std::endl;
            }
        }
    }
    g_sent.clear();
    g_send_sched.clear();
    return (unsigned)id;
}

// `P ret=<id>` must come BEFORE the query lines of the same request (driver order): buffer them
static void lookup_top(uint64_t sid, const std::string *name) {
    std::ostringstream held;
    auto *old = std::cout.rdbuf(held.rdbuf());
    unsigned id = do_lookup(sid, true, name);
    std::cout.rdbuf(old);
    std::cout << "P ret=" << id << std::endl << held.str() << std::flush;
}

static bool parse_nats(const std::string &w, std::vector<int> &out) {
    out.clear();
    if (w == "-") return true;
    std::stringstream ss(w); std::string t;
    while (std::getline(ss, t, ',')) { uint64_t v = 0; if (!vh::to_u64(t, v) || v >= 4096) return false; out.push_back((int)v); }
    return !w.empty() && w.back() != ',';
}

struct KAnsT { int err; std::vector<uint8_t> data; };
static bool parse_kans(const std::string &w, std::vector<KAnsT> &out) {
    out.clear();
    if (w.empty() || w.back() == ',') return false;
    std::stringstream ss(w); std::string t;
    while (std::getline(ss, t, ',')) {
        KAnsT k{0, {}}; uint64_t v = 0;
        if (t == "Z") { out.push_back(k); continue; }
        if (t.size() >= 2 && t[0] == 'E') { if (!vh::to_u64(t.substr(1), v) || v >= 4096) return false; k.err = (int)v; out.push_back(k); continue; }
        if (t == "-" || !vh::unhex(t, k.data)) return false;
        out.push_back(k);
    }
    return !out.empty();
}

int main() {
    LogOutput_Disable();
    vt::enable(1000, 1700000000000LL);
    loop = tbox::event::Loop::New("epoll");
    g_tx = socket(AF_INET, SOCK_DGRAM, 0);
    vh::LoopDriver drv(loop);
    reset_case();
    unsigned idle_passes = 0;
    drv.step = [&]() -> bool {
        std::string line;
        if (idle_passes > 0) { --idle_passes; return true; }      // a `sock` op is still being served: one recvfrom per pass
        drain_socket();
        if (udp_line_due) { std::cout << "M udp=" << (g_sock_watched ? 1 : 0) << std::endl; udp_line_due = false; }
        if (!std::getline(std::cin, line)) { delete dns; dns = nullptr; return false; }
        auto w = vh::words(line);
        if (w.empty()) return true;
        if (w[0] == "case") { reset_case(); std::cout << line << std::endl; return true; }
        udp_line_due = true;
        uint64_t n = 0; std::vector<uint8_t> d; std::vector<ActT> acts; std::vector<int> nats; std::vector<KAnsT> kans;
        if (w[0] == "servers" && w.size() == 2 && vh::to_u64(w[1], n) && n < 4) {
            dns->setDnsIPAddresses(servers((unsigned)n));
            std::cout << "P ret=0" << std::endl;
        } else if (w[0] == "lookup" && w.size() == 1) {
            lookup_top(kNoScript, nullptr);
        } else if (w[0] == "lookup" && w.size() == 2 && vh::to_u64(w[1], n) && n < 64) {
            lookup_top(n, nullptr);
        } else if (w[0] == "lookupn" && w.size() == 4 && vh::unhex(w[1], d) && (w[2] == "-" || (vh::to_u64(w[2], n) && n < 64)) &&
                   parse_nats(w[3], nats)) {
            std::string name((const char *)d.data(), d.size());
            g_send_sched.assign(nats.begin(), nats.end());
            lookup_top(w[2] == "-" ? kNoScript : n, &name);
        } else if (w[0] == "sock" && w.size() == 2 && parse_kans(w[1], kans)) {
            std::cout << "P ret=0" << std::endl;
            struct sockaddr_in a;
            bool bound = dns_addr(a);
            g_recv_sched.clear();
            for (auto &k : kans) {
                g_recv_sched.push_back(k.err);
                if (k.err == 0 && bound) { real_sendto()(g_tx, k.data.data(), k.data.size(), 0, (struct sockaddr *)&a, sizeof a); net_pending = true; }
            }
            idle_passes = (unsigned)kans.size() - 1;       // one loop pass per kernel answer; the last one is the pass before the next op
        } else if (w[0] == "recva" && w.size() == 3 && vh::to_u64(w[1], n) && n < 8 && vh::unhex(w[2], d)) {
            std::cout << "P ret=0" << std::endl;
            // the datagram starts at an address = n (mod 8) and ends exactly at the end of its heap block (ASan redzone)
            std::unique_ptr<uint8_t[]> blk(new uint8_t[n + d.size()]);
            if (!d.empty()) memcpy(blk.get() + n, d.data(), d.size());
            dns->feed(blk.get() + n, d.size());
        } else if (w[0] == "defscript" && w.size() == 2 && parse_acts(w[1], acts)) {
            scripts.push_back(acts);
            std::cout << "P ret=" << scripts.size() - 1 << std::endl;
        } else if (w[0] == "churn" && w.size() == 2 && vh::to_u64(w[1], n) && n >= 1 && n <= 70000) {
            unsigned last = 0;                        // n times request(); cancel(id): moves the id counter, leaves nothing outstanding
            for (uint64_t i = 0; i < n; ++i) { last = do_lookup(kNoScript, false, nullptr, true); dns->cancel((DnsRequest::ReqId)last); }
            std::cout << "P ret=" << last << std::endl;
        } else if (w[0] == "burst" && w.size() == 2 && vh::to_u64(w[1], n) && n >= 1 && n <= 70000) {
            unsigned last = 0;
            for (uint64_t i = 0; i < n; ++i) last = do_lookup(kNoScript, false, nullptr, true);
            std::cout << "P ret=" << last << std::endl;
        } else if (w[0] == "touch" && w.size() == 2 && (w[1] == "on" || w[1] == "off")) {
            touch_captures = (w[1] == "on");
            std::cout << "P ret=0" << std::endl;
        } else if (w[0] == "cancel" && w.size() == 2 && vh::to_u64(w[1], n) && n < 65536) {
            std::cout << "P ret=" << (dns->cancel((DnsRequest::ReqId)n) ? 1 : 0) << std::endl;
        } else if (w[0] == "running" && w.size() == 2 && vh::to_u64(w[1], n) && n < 65536) {
            std::cout << "P ret=" << (dns->isRunning((DnsRequest::ReqId)n) ? 1 : 0) << std::endl;
        } else if (w[0] == "recv" && w.size() == 2 && vh::unhex(w[1], d)) {
            std::cout << "P ret=0" << std::endl;
            std::unique_ptr<uint8_t[]> blk(new uint8_t[d.size()]);
            if (!d.empty()) memcpy(blk.get(), d.data(), d.size());
            dns->feed(blk.get(), d.size());
        } else if (w[0] == "net" && w.size() == 2 && vh::unhex(w[1], d)) {
            std::cout << "P ret=0" << std::endl;
            struct sockaddr_in a;
            if (dns_addr(a)) {
                real_sendto()(g_tx, d.data(), d.size(), 0, (struct sockaddr *)&a, sizeof a);   // picked up in the next pass
                net_pending = true;
            }
        } else if (w[0] == "adv" && w.size() == 2 && vh::to_u64(w[1], n) && n < (1ULL << 34)) {
            std::cout << "P ret=0" << std::endl;
            vt::advance_ms((int64_t)n);      // any amount of time; the next pass catches the monitor's timer up
        } else if (w[0] == "destroy" && w.size() == 2 && vh::to_u64(w[1], n) && n < 4) {
            bool released = renew((unsigned)n);
            std::cout << "P ret=0" << std::endl << "M released=" << (released ? 1 : 0) << std::endl;
        } else if (w[0] == "tick" && w.size() == 1) {
            std::cout << "P ret=0" << std::endl;
            vt::advance_ms(1000);            // the monitor's timer (if enabled) fires in the next pass
        } else {
            std::cout << "bad-op" << std::endl;
            udp_line_due = false;
        }
        return true;
    };
    drv.run();
    delete loop;
    return 0;
}
