"""C15 — DNS client: reply parsing is total and bounded; each lookup completes once (tbox::network::DnsRequest)."""
ID = 'C15'
LEAN_MODULES = ['TboxModel.C15.Props']
EXE = 'c15'
THEOREMS = ['Tbox.C15.C15_terminates', 'Tbox.C15.C15_terminates_bound', 'Tbox.C15.C15_terminates_reply',
            'Tbox.C15.C15_no_uninit_no_oob', 'Tbox.C15.C15_only_encoded', 'Tbox.C15.C15_only_encoded_callbacks',
            'Tbox.C15.C15_unknown_ignored',
            'Tbox.C15.C15_callback_once', 'Tbox.C15.C15_callback_at_most_once', 'Tbox.C15.C15_cancelled_never_called',
            'Tbox.C15.C15_no_callback_once_dead', 'Tbox.C15.C15_called_log',
            'Tbox.C15.C15_outstanding_at_most_5_ticks', 'Tbox.C15.C15_timer_armed_while_outstanding',
            'Tbox.C15.C15_alloc_finds_free_id', 'Tbox.C15.C15_callback_after_erase',
            'Tbox.C15.C15_orig_idwrap_counterexample', 'Tbox.C15.C15_orig_timeout_early_counterexample',
            'Tbox.C15.C15_orig_selfcancel_counterexample',
            'Tbox.C15.C15_orig_terminates_counterexample', 'Tbox.C15.C15_orig_uninit_counterexample_short',
            'Tbox.C15.C15_orig_uninit_counterexample_label', 'Tbox.C15.C15_orig_only_encoded_counterexample']
import vlib
SOURCES = (['modules/network/dns_request.cpp', 'modules/network/udp_socket.cpp', 'modules/network/socket_fd.cpp',
            'modules/network/sockaddr.cpp', 'modules/network/ip_address.cpp',
            'modules/util/serializer.cpp', 'modules/util/string.cpp', 'modules/util/fs.cpp', 'modules/util/fd.cpp']
           + vlib.EVENT_SOURCES + vlib.BASE_SOURCES)
FLAVOUR = 'asan'
LIBS = ['-ldl']
BATCH = 150
MAX_REPORT = 6
SHRINK_TESTS = 60
TRUSTED = ['model lean/TboxModel/C15/{Deserializer,Model}.lean is hand-written from modules/network/dns_request.cpp, '
           'modules/util/serializer.cpp (Deserializer) and modules/eventx/timeout_monitor_impl.hpp with patches/C15-01..04 applied; '
           'tied by differential runs',
           'harness/vtime.h virtual clock (libc interposition) and harness/loopdrv.h; the loop, TimerEvent and UdpSocket are the real ones',
           'uninitialised reads are expressed in the model as reads of an unset destination; on the implementation side only '
           'ASan/UBSan observe memory errors (an uninitialised read that does not change an observable is not seen at run time)']
ASSUMPTIONS = ['no datagram arrives on the real UDP socket during a run (queries go to 127.0.0.1-3:53, nothing listens)',
               'the refusal when all 65 535 ids are outstanding is modelled and proved (C15_alloc_finds_free_id) but not generated (the list-based model is quadratic there); id wrap itself is generated (churn)',
               'the clock advances in whole seconds between operations (one timer firing per tick)']
RULE = ('op sequences (servers/defscript/lookup/cancel/running/recv/tick; a lookup\'s callback is a script of API calls — new lookups with their own scripts, cancels of other lookups and of the own one — executed inside the reply/error/all-servers-failed/timeout callback) from props/C15/plugin.py: replies built from a structured DNS '
        'encoder (A/CNAME/other records, compression pointers, chains of 1..18 pointers) then mutated (truncation at every '
        'offset, inflated counts, self/looping/out-of-range pointers, NUL and long labels, wrong rdlength, rcodes, QR bit, '
        'foreign ids, bit flips) plus a random-bytes stream; non-trivial = at least one callback ran and at least one datagram '
        'reached the parser for an outstanding lookup; distinct = distinct op text')

# ----------------------------------------------------------------------------- DNS encoder


def u16(v): return bytes([(v >> 8) & 255, v & 255])
def u32(v): return bytes([(v >> 24) & 255, (v >> 16) & 255, (v >> 8) & 255, v & 255])
def ptr(off): return bytes([0xC0 | ((off >> 8) & 0x3F), off & 255])


def labels(ls, end=b'\0'):
    return b''.join(bytes([len(l)]) + l for l in ls) + end


def rlabel(rng, nul=False):
    n = rng.choice([1, 2, 3, 5, 8, 12])
    b = bytes(rng.choice(b'abcdefghijklmnopqrstuvwxyz0123456789-') for _ in range(n))
    if nul and n > 1:
        k = rng.randrange(n)
        b = b[:k] + b'\0' + b[k + 1:]
    return b


class Reply:
    """builds a reply and remembers the interesting offsets"""
    def __init__(self, rng, rid, flags=0x8180):
        self.rng, self.id, self.flags = rng, rid, flags
        self.qname = [rlabel(rng) for _ in range(rng.choice([1, 2, 3]))]
        self.q = labels(self.qname) + u16(1) + u16(1)
        self.records = []          # bytes of each answer record
        self.tail = b''
        self.qd = 1
        self.an = None
        self.marks = []            # offsets of record boundaries (truncation points)

    def name_field(self, style):
        if style == 'ptr': return ptr(12)
        if style == 'root': return b'\0'
        if style == 'mixed': return labels([rlabel(self.rng)], end=ptr(12 + 1 + len(self.qname[0])) if len(self.qname) > 1 else ptr(12))
        return labels(self.qname)

    def add_a(self, style='ptr', ttl=None, ip=None, rdlen=4):
        rng = self.rng
        ttl = rng.choice([0, 1, 60, 300, 86400, 0xFFFFFFFF, rng.randrange(1 << 32)]) if ttl is None else ttl
        ip = bytes(rng.randrange(256) for _ in range(4)) if ip is None else ip
        self.records.append(self.name_field(style) + u16(1) + u16(1) + u32(ttl) + u16(rdlen) + ip)

    def add_cname(self, style='ptr', target=None):
        rng = self.rng
        if target is None:
            k = rng.random()
            if k < 0.4: target = labels([rlabel(rng), rlabel(rng)])
            elif k < 0.7: target = labels([rlabel(rng)], end=ptr(12))
            elif k < 0.8: target = ptr(12)
            elif k < 0.9: target = labels([rlabel(rng, nul=True), rlabel(rng)])
            else: target = labels([bytes(rng.randrange(1, 256) for _ in range(rng.choice([63, 64, 100, 191])))])
        self.records.append(self.name_field(style) + u16(5) + u16(1) + u32(rng.choice([5, 300, 70000])) + u16(len(target)) + target)

    def add_other(self, style='ptr', rdlen=None, data=None):
        rng = self.rng
        t = rng.choice([2, 6, 12, 15, 16, 28, 41, 255, 0, 65535])
        data = bytes(rng.randrange(256) for _ in range(rng.choice([0, 1, 4, 16, 40]))) if data is None else data
        rdlen = len(data) if rdlen is None else rdlen
        self.records.append(self.name_field(style) + u16(t) + u16(1) + u32(30) + u16(rdlen) + data)

    def build(self):
        an = len(self.records) if self.an is None else self.an
        out = u16(self.id) + u16(self.flags) + u16(self.qd) + u16(an) + u16(0) + u16(0)
        qs = self.q if self.qd >= 1 else b''
        out += qs
        self.marks = [len(out)]
        for r in self.records:
            out += r
            self.marks.append(len(out))
        return out + self.tail


def rand_reply(rng, rid):
    r = Reply(rng, rid)
    n = rng.choice([0, 1, 1, 1, 2, 2, 3, 5])
    for _ in range(n):
        k = rng.random()
        style = rng.choice(['ptr', 'ptr', 'ptr', 'full', 'root', 'mixed'])
        if k < 0.55: r.add_a(style)
        elif k < 0.8: r.add_cname(style)
        else: r.add_other(style)
    return r


def chain_reply(rng, rid, k, cyc=None):
    """answer name = a chain of k pointers living behind the records; the last one points at the
    question name (or back into the chain: cyc = index, a loop)"""
    r = Reply(rng, rid)
    r.records = []
    body_len = 12 + len(r.q)
    # record: name = ptr(chain0); A record
    rec_len = 2 + 10 + 4
    chain0 = body_len + rec_len + (2 + 10 + 2 if cyc is None else 0)
    rec = ptr(chain0) + u16(1) + u16(1) + u32(77) + u16(4) + bytes([10, 0, 0, k & 255])
    r.records.append(rec)
    if cyc is None:
        r.records.append(ptr(12) + u16(5) + u16(1) + u32(9) + u16(2) + ptr(chain0))   # a CNAME through the same chain
    chain = b''
    for i in range(k - 1):
        last = (i == k - 2)
        if last: tgt = 12 if cyc is None else chain0 + 2 * cyc
        else: tgt = chain0 + 2 * (i + 1)
        chain += ptr(tgt)
    r.tail = chain
    return r.build()


def mutate(rng, r):
    """one structural mutation of a built reply; returns bytes"""
    d = bytearray(r.build())
    k = rng.random()
    if k < 0.22:      # truncation (at a record boundary, just around it, or anywhere)
        cut = rng.choice(r.marks + [m - 1 for m in r.marks] + [m + 1 for m in r.marks] + [rng.randrange(len(d) + 1)] * 3 + [0, 1, 2, 3, 4, 11, 12])
        return bytes(d[:max(0, min(cut, len(d)))])
    if k < 0.40:      # inflated / deflated counts
        r.an = rng.choice([len(r.records) + 1, len(r.records) + 4, 5, 255, 65535, max(0, len(r.records) - 1)])
        if rng.random() < 0.3: r.qd = rng.choice([0, 2, 3, 65535])
        return r.build()
    if k < 0.58:      # pointer mutations: self, loop of two, out of range, forward, into the header
        offs = [i for i in range(12, len(d) - 1) if d[i] >= 0xC0]
        if offs:
            o = rng.choice(offs)
            how = rng.random()
            if how < 0.3: tgt = o                                   # self reference
            elif how < 0.45: tgt = max(12, o - 2)                     # likely a two-cycle / near reference
            elif how < 0.6: tgt = rng.choice([len(d), len(d) + 1, 0x3FFF, len(d) - 1])
            elif how < 0.8: tgt = rng.randrange(len(d))
            else: tgt = rng.choice([0, 2, 4, 10])
            d[o] = 0xC0 | ((tgt >> 8) & 0x3F); d[o + 1] = tgt & 255
            return bytes(d)
    if k < 0.66:      # a label length that runs out of the packet / reserved length bits
        o = rng.randrange(12, len(d))
        d[o] = rng.choice([0x3F, 0x40, 0x7F, 0x80, 0xBF, 0xC0, 0xFF, len(d) - o, len(d) - o - 1]) & 255
        return bytes(d)
    if k < 0.74:      # wrong rdlength on a record
        r.records = list(r.records)
        if r.records:
            if rng.random() < 0.5: r.add_other(rdlen=rng.choice([0, 1, 100, 65535]))
            else: r.add_a(rdlen=rng.choice([0, 3, 16]))
        return r.build()
    if k < 0.84:      # flags: rcode, QR bit
        r.flags = rng.choice([0x8181, 0x8182, 0x8183, 0x8184, 0x8185, 0x818F, 0x0100, 0x0180, 0x7FFF, 0x8000, 0xFFF0])
        return r.build()
    if k < 0.92:      # bit flips
        for _ in range(rng.choice([1, 1, 2, 4])):
            o = rng.randrange(len(d)); d[o] ^= 1 << rng.randrange(8)
        return bytes(d)
    return bytes(d) + bytes(rng.randrange(256) for _ in range(rng.choice([1, 2, 10])))   # trailing garbage


def hx(b): return b.hex() if b else '-'


def gen_scripts(rng, alloc_lb, nscripts_before):
    """defscript lines: new lookups (own script, other scripts, undefined script), cancels of any id around the
    ones issued so far (other lookups, the own one, unknown ones) and cancel-self."""
    out = []
    k = rng.choice([1, 1, 2, 3])
    total = nscripts_before + k
    for j in range(k):
        acts = []
        for _ in range(rng.choice([0, 1, 1, 1, 2, 3])):
            r = rng.random()
            if r < 0.5: acts.append('L%d' % rng.choice(list(range(total)) + [nscripts_before + j, 63]))
            elif r < 0.8: acts.append('C%d' % rng.choice(list(range(1, alloc_lb + 4)) + [0, 65535]))
            else: acts.append('S')
        out.append('defscript ' + (','.join(acts) or '-'))
    return out


def gen_case(rng, hostile, scripted=False):
    ops = []
    nserv = rng.choice([1, 1, 2, 3, 3])
    if nserv != 1 or rng.random() < 0.2: ops.append('servers %d' % nserv)
    alloc = 0          # lower bound of req_id_alloc_ (script-issued lookups push the real one higher)
    nscripts = 0
    issued = []

    def lookup_op():
        if scripted and nscripts and rng.random() < 0.8: return 'lookup %d' % rng.randrange(nscripts)
        return 'lookup'
    for _ in range(rng.choice([1, 1, 2, 3, 4])):
        if scripted and rng.random() < 0.5:
            sc = gen_scripts(rng, alloc, nscripts); ops += sc; nscripts += len(sc)
        ops.append(lookup_op()); alloc += 1; issued.append(alloc)
    for _ in range(rng.choice([2, 4, 8, 14])):
        k = rng.random()
        pool = issued + ([alloc + 1, alloc + 2, alloc + 3] if scripted else [])
        rid = rng.choice(pool) if rng.random() < 0.9 else rng.choice([0, alloc + 1, 65535, rng.randrange(65536)])
        if k < (0.35 if scripted else 0.55):
            r = rand_reply(rng, rid)
            h = rng.random()
            if hostile and h < 0.12:
                kk = rng.choice([1, 2, 3, 15, 16, 17, 18, 19, 40])
                d = chain_reply(rng, rid, kk, cyc=rng.choice([None, None, 0, max(0, kk - 2)]) if kk > 1 else None)
            elif hostile and h < 0.2:
                d = bytes(rng.randrange(256) for _ in range(rng.choice([0, 1, 2, 3, 4, 5, 11, 12, 13, 30, 200])))
                if len(d) >= 4 and rng.random() < 0.8: d = u16(rid) + u16(rng.choice([0x8180, 0x8000])) + d[4:]
            elif hostile and h < 0.85:
                d = mutate(rng, r)
            else:
                if rng.random() < (0.4 if scripted else 0.15): r.flags = rng.choice([0x8182, 0x8183, 0x8185, 0x8181])
                d = r.build()
            ops.append('recv ' + hx(d))
        elif k < 0.63:
            ops.append('cancel %d' % rid)
        elif k < 0.70:
            ops.append('running %d' % rid)
        elif k < 0.78 and nserv > 0:
            if scripted and rng.random() < 0.3:
                sc = gen_scripts(rng, alloc, nscripts); ops += sc; nscripts += len(sc)
            ops.append(lookup_op()); alloc += 1; issued.append(alloc)
        elif k < 0.81:
            ns = rng.choice([0, 1, 2, 3]); ops.append('servers %d' % ns)
            if ns == 0 and rng.random() < 0.7:
                ops.append(lookup_op()); ops.append('servers %d' % nserv)     # a refused lookup
            else: nserv = ns
        else:
            ops += ['tick'] * (rng.choice([1, 1, 2, 5]) if scripted else 1)
    # drain: every lookup completes by its fifth tick (retries issued from timeout callbacks by their own fifth tick)
    for i in issued: ops.append('running %d' % i)
    ops += ['tick'] * (rng.choice([5, 6, 10, 11, 16]) if scripted else rng.choice([5, 5, 6]))
    for i in range(1, alloc + (6 if scripted else 1)): ops.append('running %d' % i)
    return ops


def gen_wrap(rng):
    """the id counter wraps (65 535 silent lookup+cancel pairs) while lookups are outstanding / completed ones still
    have their entry in the timeout ring; then new lookups land on or next to those ids"""
    ops = []
    if rng.random() < 0.5: ops += ['defscript ' + rng.choice(['L0', 'L0,S', 'C1,L0', '-'])]
    for _ in range(rng.choice([1, 2, 3])): ops.append(rng.choice(['lookup', 'lookup 0']))
    if rng.random() < 0.5: ops.append('recv ' + hx(u16(rng.choice([1, 2])) + u16(rng.choice([0x8183, 0x8181])) + u16(1) + u16(0) + u16(0) + u16(0) + b'\x01a\x00' + u16(1) + u16(1)))
    if rng.random() < 0.4: ops.append('cancel %d' % rng.choice([1, 2, 3]))
    ops += ['tick'] * rng.choice([0, 0, 1, 2, 3])
    ops.append('churn %d' % rng.choice([65535, 65535, 65534, 65533, 65536, 65532]))
    for _ in range(rng.choice([1, 2, 4])): ops.append(rng.choice(['lookup', 'lookup 0', 'burst 2']))
    for i in range(1, 6): ops.append('running %d' % i)
    k = rng.choice([2, 3, 5])
    ops += ['tick'] * k
    for i in range(1, 6): ops.append('running %d' % i)
    ops += ['tick'] * rng.choice([5, 6, 11])
    for i in range(1, 8): ops.append('running %d' % i)
    return ops


def directed():
    q = b'\x03www\x07example\x03com\x00' + u16(1) + u16(1)
    hdr = lambda i, fl, qd, an: u16(i) + u16(fl) + u16(qd) + u16(an) + u16(0) + u16(0)
    a_rec = ptr(12) + u16(1) + u16(1) + u32(300) + u16(4) + bytes([93, 184, 216, 34])
    cn_rec = ptr(12) + u16(5) + u16(1) + u32(60) + u16(6) + b'\x03cdn' + ptr(16)
    good = hdr(1, 0x8180, 1, 2) + q + cn_rec + a_rec
    # malformed op lines: both sides must say bad-op
    yield ['lookup', 'recv 0g', 'recv', 'cancel x', 'cancel 65536', 'servers 4', 'frob', 'tick 1', 'running',
           'churn 0', 'churn 70001', 'churn x', 'burst 5001', 'burst', 'defscript', 'defscript L64', 'defscript C65536', 'defscript L1,', 'defscript X', 'lookup 64', 'lookup x', 'touch maybe', 'defscript S,L0,C7']
    # the well-formed reply, a duplicate, a late reply, then the ring drains
    yield ['lookup', 'recv ' + hx(good), 'recv ' + hx(good), 'running 1'] + ['tick'] * 6
    # every truncation offset of the well-formed reply, then the intact one
    ops = ['lookup']
    for i in range(len(good)): ops.append('recv ' + hx(good[:i]))
    yield ops + ['running 1', 'recv ' + hx(good), 'running 1']
    # DESIGN §7-12: one A record, an_count = 5
    yield ['lookup', 'recv ' + hx(hdr(1, 0x8180, 1, 5) + q + a_rec), 'running 1'] + ['tick'] * 5
    # self-referencing compression pointer in the answer name / in the question
    yield ['lookup', 'recv ' + hx(hdr(1, 0x8180, 1, 1) + q + ptr(12 + len(q)) + u16(1) + u16(1) + u32(1) + u16(4) + b'\x01\x02\x03\x04'), 'running 1'] + ['tick'] * 5
    yield ['lookup', 'recv ' + hx(hdr(1, 0x8180, 1, 0) + ptr(12) + u16(1) + u16(1)), 'running 1'] + ['tick'] * 5
    # two pointers referencing each other
    yield ['lookup', 'recv ' + hx(hdr(1, 0x8180, 1, 0) + ptr(14) + ptr(12) + u16(1) + u16(1)), 'running 1'] + ['tick'] * 5
    # datagrams shorter than the id+flags
    yield ['lookup', 'recv -', 'recv 00', 'recv 0001', 'recv 000181', 'recv 00018180', 'running 1'] + ['tick'] * 5
    # label running out of the packet inside a CNAME
    yield ['lookup', 'recv ' + hx(hdr(1, 0x8180, 1, 1) + q + ptr(12) + u16(5) + u16(1) + u32(9) + u16(9) + b'\x09ab'), 'running 1'] + ['tick'] * 5
    # out-of-range pointer
    yield ['lookup', 'recv ' + hx(hdr(1, 0x8180, 1, 1) + q + b'\xff\xff' + u16(1) + u16(1) + u32(1) + u16(4) + b'\x01\x02\x03\x04'), 'running 1'] + ['tick'] * 5
    # server failures: three servers, SERVFAIL x3; NXDOMAIN; FORMERR; timeout; cancel
    sf = lambda i, rc: hdr(i, 0x8180 | rc, 1, 0) + q
    yield ['servers 3', 'lookup', 'recv ' + hx(sf(1, 2)), 'running 1', 'recv ' + hx(sf(1, 5)), 'running 1', 'recv ' + hx(sf(1, 2)), 'running 1', 'recv ' + hx(sf(1, 2))] + ['tick'] * 6
    yield ['servers 2', 'lookup', 'lookup', 'recv ' + hx(sf(1, 2)), 'recv ' + hx(sf(2, 3)), 'recv ' + hx(sf(1, 1)), 'running 1', 'running 2'] + ['tick'] * 5
    yield ['lookup', 'tick', 'lookup', 'tick', 'tick', 'cancel 1', 'tick', 'tick', 'running 2', 'tick', 'running 2', 'tick', 'tick']
    yield ['lookup', 'cancel 1', 'recv ' + hx(good), 'cancel 1', 'lookup', 'recv ' + hx(u16(2) + good[2:]), 'recv ' + hx(good)] + ['tick'] * 6
    yield ['servers 0', 'lookup', 'running 0', 'recv ' + hx(u16(0) + good[2:]), 'tick', 'servers 1', 'lookup', 'recv ' + hx(good)] + ['tick'] * 6
    # callbacks that call back into the client: retry from a timeout callback (the retry must time out five ticks later),
    # from an all-servers-failed callback, from a reply callback; cancel of another lookup from a callback
    yield ['defscript L1', 'defscript -', 'lookup 0'] + ['tick'] * 5 + ['running 1', 'running 2'] + ['tick'] * 4 + ['running 2', 'tick', 'running 2', 'tick']
    yield ['defscript L0', 'lookup 0'] + ['tick'] * 16 + ['running 1', 'running 2', 'running 3', 'running 4', 'cancel 4'] + ['tick'] * 6
    yield ['defscript L0,L0', 'lookup 0', 'tick', 'tick', 'lookup 0'] + ['tick'] * 3 + ['running 3', 'running 4'] + ['tick'] * 5 + ['running 3', 'running 5']
    yield ['servers 2', 'defscript L1', 'defscript C1,L2', 'defscript -', 'lookup 0', 'lookup 1', 'recv ' + hx(sf(1, 2)), 'recv ' + hx(sf(1, 2)),
           'running 3', 'recv ' + hx(sf(2, 3)), 'running 3', 'running 4'] + ['tick'] * 6 + ['running 3', 'running 4']
    yield ['defscript L0', 'lookup', 'lookup 0', 'defscript C1,L63', 'lookup 1', 'recv ' + hx(u16(3) + good[2:]), 'running 1', 'running 4',
           'recv ' + hx(u16(2) + good[2:])] + ['tick'] * 5 + ['running 4', 'running 5'] + ['tick'] * 6
    yield ['lookup 0', 'defscript L1', 'lookup 0', 'defscript -', 'lookup 0'] + ['tick'] * 11 + ['running 4', 'running 5']   # scripts are bound when the lookup is issued
    yield ['servers 0', 'defscript L0', 'servers 1', 'lookup 0', 'servers 0'] + ['tick'] * 5 + ['servers 1'] + ['tick'] * 6   # the retry is refused
    # a callback that cancels its OWN lookup (by `S` and by id) and goes on using its captures, from a reply, an
    # all-servers-failed and a timeout callback; then retries (as-found tree: heap-use-after-free, patches/C15-03)
    yield ['defscript S', 'lookup 0', 'recv ' + hx(sf(1, 3)), 'running 1'] + ['tick'] * 5
    yield ['defscript C1,S,L1', 'defscript S,C2', 'lookup 0'] + ['tick'] * 5 + ['running 1', 'running 2'] + ['tick'] * 5 + ['running 2']
    yield ['servers 2', 'defscript S,L0', 'lookup 0', 'recv ' + hx(sf(1, 2)), 'recv ' + hx(sf(1, 5)), 'running 1', 'running 2', 'touch off',
           'recv ' + hx(sf(2, 2)), 'recv ' + hx(sf(2, 2)), 'running 3'] + ['tick'] * 6
    # the 16-bit id counter wraps onto an outstanding lookup (as found: overwritten, never called back) ...
    yield ['lookup', 'churn 65535', 'lookup', 'running 1', 'running 2'] + ['tick'] * 5 + ['running 1', 'tick']
    # ... and onto an id whose stale ring entry is still in the wheel (as found: the new lookup times out early)
    yield ['lookup', 'recv ' + hx(sf(1, 3)), 'tick', 'tick', 'churn 65535', 'lookup', 'tick', 'tick', 'tick', 'running 1', 'running 2', 'tick', 'tick', 'running 1', 'running 2', 'tick']
    yield ['defscript L0', 'lookup 0', 'lookup', 'tick', 'churn 65534', 'lookup 0', 'lookup', 'burst 3', 'running 1', 'running 2', 'running 3'] + ['tick'] * 11
    # hop limit boundary: chains of 15..18 pointers
    import random
    r0 = random.Random(15)
    for k in (1, 2, 15, 16, 17, 18):
        yield ['lookup', 'recv ' + hx(chain_reply(r0, 1, k)), 'running 1'] + ['tick'] * 5


def gen(rng, tier):
    for c in directed():
        yield c
    n = 500 if tier == 'quick' else 6000
    for i in range(n):
        yield gen_case(rng, hostile=(i % 4 != 0))
    for i in range(n):
        yield gen_case(rng, hostile=(i % 3 == 0), scripted=True)
    for i in range(6 if tier == 'quick' else 40):
        yield gen_wrap(rng)
    if tier == 'thorough':
        # every truncation offset and every single-byte overwrite (a few values) of two structured replies
        for _ in range(2):
            r = rand_reply(rng, 1)
            while len(r.records) < 2: r = rand_reply(rng, 1)
            good = r.build()
            ops = ['lookup'] + ['recv ' + hx(good[:i]) for i in range(len(good))] + ['running 1', 'recv ' + hx(good), 'running 1']
            yield ops
            for o in range(len(good)):
                for v in (0x00, 0x3F, 0xC0, 0xFF, o & 255):
                    d = bytearray(good); d[o] = v
                    yield ['lookup', 'recv ' + hx(bytes(d)), 'running 1', 'cancel 1']


def nontrivial(ops, model_lines):
    tags = ' '.join(l for l in model_lines if l.startswith('B '))
    reached = any(t in tags for t in ('answer', 'malformed', 'rcode', 'srvfail', 'short', 'not-response'))
    return 1 if (reached and any(l.startswith('P cb ') for l in model_lines)) else None


def fingerprint(ops, d):
    import hashlib
    what = ''
    if d:
        impl = d[1]
        if impl.startswith('CRASH'): what = impl.split(':')[0] + ':' + impl.split(':')[-1][:24]
        elif impl.startswith('P cb'): what = 'cb-' + impl.split()[3]
        else: what = impl.split(' ')[0]
    kinds = ' '.join(o.split()[0] for o in ops)
    recvs = [o.split()[1] for o in ops if o.startswith('recv ') and len(o.split()) == 2]
    size = ('short' if recvs and len(recvs[-1]) < 24 else 'full') if recvs else 'none'
    return hashlib.sha1((kinds + '|' + what + '|' + size).encode()).hexdigest()[:12]


LEVEL_TEXT = ('Lean 4 theorems over a hand-written model of the DNS client: name decoding needs fuel <= 17*(len+2) (hop limit), '
              'no parse outcome reads an unset destination and every dereferenced byte range lies inside the datagram, every reported '
              'address/name is decoded from in-bounds bytes of completely present records, each lookup\'s callback runs at most once, '
              'C15_callback_once at full strength: each lookup\'s callback runs exactly once — a reply/error before, or a timeout exactly at, its fifth tick — unless cancelled (then never) or refused, for every history incl. id wrap and callbacks that issue and cancel lookups (the id allocation provably finds a free id: pigeonhole); '
              'counterexample theorems for the unpatched parser; the model is tied to the code on every run by differential execution '
              '(ASan+UBSan build of the working tree, virtual clock)')
LEVEL_NOTE = ('trusted: Lean kernel, hand-written model + differential tie (coverage bounded by the generator, measured in evidence); '
              'counterexample theorems for the as-found parser, callback order and id allocation')
TECHNIQUE = 'Lean 4 invariant proofs (parser Hoare logic with explicit fuel, pending-map/timeout-ring invariant) + model/implementation correspondence check'
DESIGN_REF = 'DESIGN.md §6 C15, §7 row 12'
