"""C15 — DNS client: reply parsing is total and bounded; each lookup completes once (tbox::network::DnsRequest)."""
ID = 'C15'
LEAN_MODULES = ['TboxModel.C15.Props', 'TboxModel.C15.PropsNet', 'TboxModel.C15.PropsClock']
EXE = 'c15'
THEOREMS = ['Tbox.C15.C15_terminates', 'Tbox.C15.C15_terminates_bound', 'Tbox.C15.C15_terminates_reply',
            'Tbox.C15.C15_no_uninit_no_oob', 'Tbox.C15.C15_only_encoded', 'Tbox.C15.C15_only_encoded_callbacks',
            'Tbox.C15.C15_unknown_ignored',
            'Tbox.C15.C15_callback_once', 'Tbox.C15.C15_callback_at_most_once', 'Tbox.C15.C15_cancelled_never_called',
            'Tbox.C15.C15_no_callback_once_dead', 'Tbox.C15.C15_called_log',
            'Tbox.C15.C15_outstanding_at_most_5_ticks', 'Tbox.C15.C15_timer_armed_while_outstanding',
            'Tbox.C15.C15_alloc_finds_free_id', 'Tbox.C15.C15_socket_path', 'Tbox.C15.C15_callback_after_erase',
            'Tbox.C15.C15_orig_idwrap_counterexample', 'Tbox.C15.C15_orig_timeout_early_counterexample',
            'Tbox.C15.C15_orig_selfcancel_counterexample',
            'Tbox.C15.C15_orig_terminates_counterexample', 'Tbox.C15.C15_orig_uninit_counterexample_short',
            'Tbox.C15.C15_orig_uninit_counterexample_label', 'Tbox.C15.C15_orig_only_encoded_counterexample',
            # round 3 (PropsNet.lean)
            'Tbox.C15.C15_query_roundtrip_partial', 'Tbox.C15.C15_query_never_rejected', 'Tbox.C15.C15_accepted_lookup_pending',
            'Tbox.C15.C15_refused_lookup_nothing', 'Tbox.C15.C15_query_roundtrip_counterexample_empty_label',
            'Tbox.C15.C15_query_roundtrip_counterexample_trailing_dot', 'Tbox.C15.C15_query_roundtrip_counterexample_label192',
            'Tbox.C15.C15_query_roundtrip_counterexample_label256', 'Tbox.C15.C15_u16be_value', 'Tbox.C15.C15_query_id_field',
            'Tbox.C15.C15_recv_faults_harmless', 'Tbox.C15.C15_sock_delivers', 'Tbox.C15.C15_truncated_only_encoded',
            'Tbox.C15.C15_query_echo_ignored', 'Tbox.C15.C15_own_query_ignored', 'Tbox.C15.C15_question_not_compared',
            'Tbox.C15.C15_parse_cost_linear', 'Tbox.C15.C15_parse_cost_inflated_example', 'Tbox.C15.C15_inflated_counts_dropped',
            # round 4 (PropsClock.lean): arbitrary clock advances (late passes, jumps), destruction with lookups outstanding
            'Tbox.C15.C15_clock_callback_once', 'Tbox.C15.C15_destroyed_never_called', 'Tbox.C15.C15_destroy_quiesces',
            'Tbox.C15.C15_pass_is_ticks', 'Tbox.C15.C15_timer_phase', 'Tbox.C15.C15_outstanding_at_most_5_seconds', 'Tbox.C15.C15_reply_for_next_id_ignored',
            'Tbox.C15.C15_catchup_zero_delay_example']
import vlib
SOURCES = (['modules/network/dns_request.cpp', 'modules/network/udp_socket.cpp', 'modules/network/socket_fd.cpp',
            'modules/network/sockaddr.cpp', 'modules/network/ip_address.cpp',
            'modules/util/serializer.cpp', 'modules/util/string.cpp', 'modules/util/fs.cpp', 'modules/util/fd.cpp']
           + vlib.EVENT_SOURCES + vlib.BASE_SOURCES)
FLAVOUR = 'asan'
LIBS = ['-ldl']
BATCH = 150
MAX_REPORT = 6
SHRINK_TESTS = 60
TRUSTED = ['interposed socket/epoll_ctl/close in props/C15/harness.cpp only observe (which descriptor the client opened, whether the loop watches it, whether the destructor closed it: `M udp=`, `M released=` lines)', 'interposed sendto/recvfrom in props/C15/harness.cpp: the kernel\'s answers to the client\'s socket calls come from the op file (errno per call index); a sendto failed by the schedule sends nothing and leaves the socket unbound, the harness then binds it to an ephemeral port itself before delivering a datagram',
           'model lean/TboxModel/C15/{Deserializer,Model}.lean is hand-written from modules/network/dns_request.cpp, modules/network/udp_socket.cpp (onSocketEvent, send), modules/util/string.cpp (Split), '
           'modules/util/serializer.cpp (Deserializer) and modules/eventx/timeout_monitor_impl.hpp with patches/C15-01..04 applied; lean/TboxModel/C15/Clock.lean (when the monitor\'s timer fires: addTimer/handleExpiredTimers of modules/event/common_loop_timer.cpp restricted to that one timer; ~DnsRequest) likewise; '
           'tied by differential runs',
           'harness/vtime.h virtual clock (libc interposition) and harness/loopdrv.h; the loop, TimerEvent and UdpSocket are the real ones',
           'uninitialised reads are expressed in the model as reads of an unset destination; on the implementation side only '
           'ASan/UBSan observe memory errors (an uninitialised read that does not change an observable is not seen at run time)']
ASSUMPTIONS = ['no datagram arrives on the real UDP socket during a run (queries go to 127.0.0.1-3:53, nothing listens)',
               'the DnsRequest object is not destroyed from inside one of its callbacks (TimeoutMonitor/UdpSocket assert cb_level_ == 0 in their destructors); a datagram that reaches the UDP socket while nothing is outstanding (socket disabled) is discarded by the harness instead of waiting in the kernel queue for the next request() (onUdpRecv would drop it as unknown id unless the id is handed out again first)',
               'the steady clock only moves between loop passes (`adv <ms>`, any amount below 2^34 ms; `tick` = 1000 ms) and stands still inside a pass; the 64-bit millisecond clock does not wrap',
               'kernel semantics assumed for the UDP socket: recvfrom without MSG_TRUNC returns min(datagram, buffer) bytes and discards the rest; a failed recvfrom consumes nothing; sendto of more than 65 507 bytes fails with EMSGSIZE; datagrams sent over loopback from one socket are queued in order and are readable in the next loop pass']
RULE = ('op sequences (servers/defscript/lookup/lookupn/cancel/running/recv/recva/net/sock/tick/adv/destroy/churn/burst; `adv <ms>` = the virtual steady clock moves by any amount (1 ms .. 2^33 ms: sub-second steps, late passes, jumps of hours, across 2^31/2^32 ms) and the next loop pass catches the monitor\'s timer up; `destroy <n>` = ~DnsRequest() with whatever is outstanding followed by a fresh object with n servers (0: one-argument constructor); state-derived datagrams: the id the next request() will get, ids re-issued after the 16-bit counter wrapped or by the next object, the same datagram twice in one pass; `lookupn` = request() for an arbitrary byte string as name (labels of 63/64/191/192/255/256/257 bytes, names of 253..400 bytes, empty labels, trailing/leading dots, NUL and non-ASCII bytes, a 66 KB name) with the kernel\'s answer to every sendto taken from the op line (ENETUNREACH/EPERM/EAGAIN/ENOBUFS/EINTR, all or some servers); every query datagram seen by the interposed sendto is compared byte for byte with the model\'s encoder; `sock` = a schedule of recvfrom answers (EINTR/EAGAIN/ECONNREFUSED/ECONNRESET/EIO/ENOBUFS before, between and after queued datagrams, empty datagrams), one loop pass per answer; `recva k` = onUdpRecv with the datagram at address = k mod 8, flush against the end of its heap block; `net` sends the datagram to the client\'s real UDP socket; a lookup\'s callback is a script of API calls — new lookups with their own scripts, cancels of other lookups and of the own one — executed inside the reply/error/all-servers-failed/timeout callback) from props/C15/plugin.py: replies built from a structured DNS '
        'encoder (A/CNAME/other records, compression pointers, chains of 1..18 pointers) then mutated (truncation at every '
        'offset, inflated counts, self/looping/out-of-range pointers, NUL and long labels, wrong rdlength, rcodes, QR bit, '
        'foreign ids, bit flips) plus a random-bytes stream; non-trivial = at least one callback ran and at least one datagram '
        'reached the parser for an outstanding lookup; distinct = distinct op text')

# ----------------------------------------------------------------------------- DNS encoder


def u16(v): return bytes([(v >> 8) & 255, v & 255])
def u32(v): return bytes([(v >> 24) & 255, (v >> 16) & 255, (v >> 8) & 255, v & 255])
def ptr(off): return bytes([0xC0 | ((off >> 8) & 0x3F), off & 255])


def labels(ls, end=b'\0'):
    return b''.join(bytes([len(l)]) + l for l in ls) + end


def rlabel(rng, nul=False):
    n = rng.choice([1, 2, 3, 5, 8, 12])
    b = bytes(rng.choice(b'abcdefghijklmnopqrstuvwxyz0123456789-') for _ in range(n))
    if nul and n > 1:
        k = rng.randrange(n)
        b = b[:k] + b'\0' + b[k + 1:]
    return b


class Reply:
    """builds a reply and remembers the interesting offsets"""
    def __init__(self, rng, rid, flags=0x8180):
        self.rng, self.id, self.flags = rng, rid, flags
        self.qname = [rlabel(rng) for _ in range(rng.choice([1, 2, 3]))]
        self.q = labels(self.qname) + u16(1) + u16(1)
        self.records = []          # bytes of each answer record
        self.tail = b''
        self.qd = 1
        self.an = None
        self.marks = []            # offsets of record boundaries (truncation points)

    def name_field(self, style):
        if style == 'ptr': return ptr(12)
        if style == 'root': return b'\0'
        if style == 'mixed': return labels([rlabel(self.rng)], end=ptr(12 + 1 + len(self.qname[0])) if len(self.qname) > 1 else ptr(12))
        return labels(self.qname)

    def add_a(self, style='ptr', ttl=None, ip=None, rdlen=4):
        rng = self.rng
        ttl = rng.choice([0, 1, 60, 300, 86400, 0xFFFFFFFF, rng.randrange(1 << 32)]) if ttl is None else ttl
        ip = bytes(rng.randrange(256) for _ in range(4)) if ip is None else ip
        self.records.append(self.name_field(style) + u16(1) + u16(1) + u32(ttl) + u16(rdlen) + ip)

    def add_cname(self, style='ptr', target=None):
        rng = self.rng
        if target is None:
            k = rng.random()
            if k < 0.4: target = labels([rlabel(rng), rlabel(rng)])
            elif k < 0.7: target = labels([rlabel(rng)], end=ptr(12))
            elif k < 0.8: target = ptr(12)
            elif k < 0.9: target = labels([rlabel(rng, nul=True), rlabel(rng)])
            else: target = labels([bytes(rng.randrange(1, 256) for _ in range(rng.choice([63, 64, 100, 191])))])
        self.records.append(self.name_field(style) + u16(5) + u16(1) + u32(rng.choice([5, 300, 70000])) + u16(len(target)) + target)

    def add_other(self, style='ptr', rdlen=None, data=None):
        rng = self.rng
        t = rng.choice([2, 6, 12, 15, 16, 28, 41, 255, 0, 65535])
        data = bytes(rng.randrange(256) for _ in range(rng.choice([0, 1, 4, 16, 40]))) if data is None else data
        rdlen = len(data) if rdlen is None else rdlen
        self.records.append(self.name_field(style) + u16(t) + u16(1) + u32(30) + u16(rdlen) + data)

    def build(self):
        an = len(self.records) if self.an is None else self.an
        out = u16(self.id) + u16(self.flags) + u16(self.qd) + u16(an) + u16(0) + u16(0)
        qs = self.q if self.qd >= 1 else b''
        out += qs
        self.marks = [len(out)]
        for r in self.records:
            out += r
            self.marks.append(len(out))
        return out + self.tail


def rand_reply(rng, rid):
    r = Reply(rng, rid)
    n = rng.choice([0, 1, 1, 1, 2, 2, 3, 5])
    for _ in range(n):
        k = rng.random()
        style = rng.choice(['ptr', 'ptr', 'ptr', 'full', 'root', 'mixed'])
        if k < 0.55: r.add_a(style)
        elif k < 0.8: r.add_cname(style)
        else: r.add_other(style)
    return r


def chain_reply(rng, rid, k, cyc=None):
    """answer name = a chain of k pointers living behind the records; the last one points at the
    question name (or back into the chain: cyc = index, a loop)"""
    r = Reply(rng, rid)
    r.records = []
    body_len = 12 + len(r.q)
    # record: name = ptr(chain0); A record
    rec_len = 2 + 10 + 4
    chain0 = body_len + rec_len + (2 + 10 + 2 if cyc is None else 0)
    rec = ptr(chain0) + u16(1) + u16(1) + u32(77) + u16(4) + bytes([10, 0, 0, k & 255])
    r.records.append(rec)
    if cyc is None:
        r.records.append(ptr(12) + u16(5) + u16(1) + u32(9) + u16(2) + ptr(chain0))   # a CNAME through the same chain
    chain = b''
    for i in range(k - 1):
        last = (i == k - 2)
        if last: tgt = 12 if cyc is None else chain0 + 2 * cyc
        else: tgt = chain0 + 2 * (i + 1)
        chain += ptr(tgt)
    r.tail = chain
    return r.build()


def mutate(rng, r):
    """one structural mutation of a built reply; returns bytes"""
    d = bytearray(r.build())
    k = rng.random()
    if k < 0.22:      # truncation (at a record boundary, just around it, or anywhere)
        cut = rng.choice(r.marks + [m - 1 for m in r.marks] + [m + 1 for m in r.marks] + [rng.randrange(len(d) + 1)] * 3 + [0, 1, 2, 3, 4, 11, 12])
        return bytes(d[:max(0, min(cut, len(d)))])
    if k < 0.40:      # inflated / deflated counts
        r.an = rng.choice([len(r.records) + 1, len(r.records) + 4, 5, 255, 65535, max(0, len(r.records) - 1)])
        if rng.random() < 0.3: r.qd = rng.choice([0, 2, 3, 65535])
        return r.build()
    if k < 0.58:      # pointer mutations: self, loop of two, out of range, forward, into the header
        offs = [i for i in range(12, len(d) - 1) if d[i] >= 0xC0]
        if offs:
            o = rng.choice(offs)
            how = rng.random()
            if how < 0.3: tgt = o                                   # self reference
            elif how < 0.45: tgt = max(12, o - 2)                     # likely a two-cycle / near reference
            elif how < 0.6: tgt = rng.choice([len(d), len(d) + 1, 0x3FFF, len(d) - 1])
            elif how < 0.8: tgt = rng.randrange(len(d))
            else: tgt = rng.choice([0, 2, 4, 10])
            d[o] = 0xC0 | ((tgt >> 8) & 0x3F); d[o + 1] = tgt & 255
            return bytes(d)
    if k < 0.66:      # a label length that runs out of the packet / reserved length bits
        o = rng.randrange(12, len(d))
        d[o] = rng.choice([0x3F, 0x40, 0x7F, 0x80, 0xBF, 0xC0, 0xFF, len(d) - o, len(d) - o - 1]) & 255
        return bytes(d)
    if k < 0.74:      # wrong rdlength on a record
        r.records = list(r.records)
        if r.records:
            if rng.random() < 0.5: r.add_other(rdlen=rng.choice([0, 1, 100, 65535]))
            else: r.add_a(rdlen=rng.choice([0, 3, 16]))
        return r.build()
    if k < 0.84:      # flags: rcode, QR bit
        r.flags = rng.choice([0x8181, 0x8182, 0x8183, 0x8184, 0x8185, 0x818F, 0x0100, 0x0180, 0x7FFF, 0x8000, 0xFFF0])
        return r.build()
    if k < 0.92:      # bit flips
        for _ in range(rng.choice([1, 1, 2, 4])):
            o = rng.randrange(len(d)); d[o] ^= 1 << rng.randrange(8)
        return bytes(d)
    return bytes(d) + bytes(rng.randrange(256) for _ in range(rng.choice([1, 2, 10])))   # trailing garbage


def hx(b): return b.hex() if b else '-'


def hdr(i, fl, qd, an): return u16(i) + u16(fl) + u16(qd) + u16(an) + u16(0) + u16(0)


def long_name(total, end=b'\0'):
    """a name whose encoded length (labels + length bytes, without the terminator) is exactly `total`"""
    out = b''
    left = total
    k = 0
    while left > 0:
        n = min(63, left - 1)
        if n <= 0: break
        out += bytes([n]) + bytes([97 + (k + i) % 26 for i in range(n)])
        left -= n + 1; k += 1
    return out + end


BOUNDARY_FAMILIES = ['cname-self', 'cname-loop', 'cname-chain', 'owner-literal', 'ptr-last-byte', 'ptr-forward', 'ptr-header', 'ptr-hops', 'label-63', 'label-64', 'name-253', 'name-255',
                     'name-256', 'name-long', 'rdlen-over', 'rdlen-under', 'an-over', 'an-under', 'hdr-cut', 'qd0', 'qd2',
                     'qd2-short', 'flags', 'ttl', 'type-class', 'a-rdlen']


def boundary_reply(rng, rid, fam):
    """one structured boundary datagram of family `fam` (each family has a well-formed side and a broken side)"""
    qn = b'\x03www\x07example\x03com\x00'
    q = qn + u16(1) + u16(1)
    a_rec = lambda name, ttl=300, ip=b'\x5d\xb8\xd8\x22', rdlen=4: name + u16(1) + u16(1) + u32(ttl) + u16(rdlen) + ip
    cn_rec = lambda name, target, rdlen=None: name + u16(5) + u16(1) + u32(60) + u16(len(target) if rdlen is None else rdlen) + target
    body = hdr(rid, 0x8180, 1, 1) + q
    if fam == 'cname-self':         # the queried name is an alias of ITSELF (target = pointer to the question / a literal copy), with and without an address
        tgt = rng.choice([ptr(12), qn, b'\x03www' + ptr(16)])
        d = hdr(rid, 0x8180, 1, 2) + q + cn_rec(ptr(12), tgt) + a_rec(rng.choice([ptr(12), qn]))
        return d if rng.random() < 0.7 else hdr(rid, 0x8180, 1, 1) + q + cn_rec(qn, tgt)
    if fam == 'cname-loop':         # www -> cdn.www -> www: two aliases pointing at each other (records are reported, never followed)
        cdn = b'\x03cdn' + ptr(12)
        r1 = cn_rec(ptr(12), cdn)
        off_cdn = 12 + len(q) + 2 + 10
        return hdr(rid, 0x8180, 1, 2) + q + r1 + cn_rec(ptr(off_cdn), rng.choice([ptr(12), qn]))
    if fam == 'cname-chain':        # www -> a.www -> b.a.www -> address, owners given as pointers into the previous record's rdata
        d = hdr(rid, 0x8180, 1, 3) + q
        o1 = len(d) + 2 + 10; d += cn_rec(ptr(12), b'\x01a' + ptr(12))
        o2 = len(d) + 2 + 10; d += cn_rec(ptr(o1), b'\x01b' + ptr(o1))
        return d + a_rec(ptr(o2))
    if fam == 'owner-literal':      # the A record's owner as a pointer to the question, a literal copy, a partial copy + pointer, another name
        owner = rng.choice([ptr(12), qn, b'\x03www' + ptr(16), b'\x03www\x07example' + ptr(24), b'\x05other\x00', b'\x00'])
        return body + a_rec(owner)
    if fam == 'ptr-last-byte':      # the first byte of a compression pointer is the last byte of the datagram
        where = rng.choice(['owner', 'cname', 'question'])
        if where == 'owner': return body + b'\xc0'
        if where == 'cname': return body + ptr(12) + u16(5) + u16(1) + u32(1) + u16(2) + b'\xc0'
        return hdr(rid, 0x8180, 1, 0) + b'\x03www\xc0'
    if fam == 'ptr-forward':        # pointer to a name that lies BEHIND the record (accepted: only bounds and hops are checked)
        rec = a_rec(ptr(len(body) + 16))
        return body + rec + rng.choice([qn, b'\x01z\x00', b'\x00', b'\x01z', ptr(12)])
    if fam == 'ptr-header':         # pointer into the header / to offset 0 / to the last byte / one past the end
        d = body + a_rec(ptr(12))
        tgt = rng.choice([0, 2, 11, len(d) - 1, len(d), len(d) + 1, 0x3FFF])
        return body + a_rec(ptr(tgt))
    if fam == 'ptr-hops':           # chains exactly at / around the hop limit, through labels as well (seed C15-2's shape)
        k = rng.choice([15, 16, 17, 18])
        if rng.random() < 0.5: return chain_reply(rng, rid, k)
        # label + pointer back to itself: a cycle that passes through a label
        return hdr(rid, 0x8180, 1, 0) + b'\x01a' + ptr(12) + u16(1) + u16(1)
    if fam == 'label-63': return body + cn_rec(ptr(12), bytes([63]) + b'l' * 63 + b'\x00') + a_rec(ptr(12))
    if fam == 'label-64': return body + cn_rec(ptr(12), bytes([64]) + b'l' * 64 + b'\x00')   # 0x40: reserved bits, read as a 64-byte label
    if fam in ('name-253', 'name-255', 'name-256', 'name-long'):
        total = {'name-253': 253, 'name-255': 255, 'name-256': 256, 'name-long': rng.choice([300, 700, 2000])}[fam]
        t = long_name(total, end=rng.choice([b'\x00', ptr(12)]))
        return body + (cn_rec(ptr(12), t) if rng.random() < 0.7 else a_rec(t))
    if fam == 'rdlen-over':         # RDLENGTH larger than what is left
        rest = rng.choice([0, 1, 3, 10])
        kind = rng.choice(['other', 'other', 'a', 'cname'])
        if kind == 'a': return body + a_rec(ptr(12), rdlen=rng.choice([5, 100, 65535]))
        if kind == 'cname': return body + cn_rec(ptr(12), b'\x01c\x00', rdlen=rng.choice([4, 100, 65535]))
        return body + ptr(12) + u16(16) + u16(1) + u32(1) + u16(rest + rng.choice([1, 2, 1000, 65535 - rest])) + b'x' * rest
    if fam == 'rdlen-under':        # RDLENGTH exactly what is left / one less (then garbage is the next record)
        rest = rng.choice([1, 4, 20])
        return hdr(rid, 0x8180, 1, 2) + q + ptr(12) + u16(16) + u16(1) + u32(1) + u16(rest - rng.choice([0, 1])) + b'x' * rest + a_rec(ptr(12))
    if fam == 'an-over': return hdr(rid, 0x8180, 1, rng.choice([2, 3, 65535])) + q + a_rec(ptr(12))
    if fam == 'an-under': return hdr(rid, 0x8180, 1, rng.choice([0, 1])) + q + a_rec(ptr(12)) + a_rec(ptr(12), ip=b'\x01\x01\x01\x01')
    if fam == 'hdr-cut': return (body + a_rec(ptr(12)))[:rng.randrange(0, 13)]
    if fam == 'qd0': return hdr(rid, 0x8180, 0, 1) + a_rec(qn)
    if fam == 'qd2': return hdr(rid, 0x8180, 2, 1) + q + b'\x02aa\xc0\x10' + u16(28) + u16(1) + a_rec(ptr(12))
    if fam == 'qd2-short': return hdr(rid, 0x8180, 2, 1) + q + a_rec(ptr(12))       # second question missing: the A record is eaten as a question
    if fam == 'flags':              # TC, AA, RA off, Z bits, non-zero opcode: all ignored as long as QR=1, rcode=0
        fl = 0x8000 | rng.choice([0x0200, 0x0400, 0x0000, 0x0070, 0x7800, 0x0380, 0x7FF0])
        return hdr(rid, fl, 1, 1) + q + a_rec(ptr(12))
    if fam == 'ttl': return body + a_rec(ptr(12), ttl=rng.choice([0, 1, 0x7FFFFFFF, 0x80000000, 0xFFFFFFFF]))
    if fam == 'type-class':         # 16-bit type compare; class is not looked at
        t = rng.choice([0x0101, 0x0100, 0x0001, 0x0005, 0x0105, 0, 65535]); c = rng.choice([1, 3, 255, 0])
        return body + ptr(12) + u16(t) + u16(c) + u32(7) + u16(4) + b'\x0a\x00\x00\x01'
    if fam == 'a-rdlen':            # A record with RDLENGTH 0..3 / 5 at the very end (seed C15-3's shape) and followed by a record
        rl = rng.choice([0, 1, 2, 3, 5, 16])
        if rng.random() < 0.5: return body + a_rec(ptr(12), ip=b'\x09' * min(rl, 4), rdlen=rl)
        return hdr(rid, 0x8180, 1, 2) + q + a_rec(ptr(12), ip=b'\x09' * rl, rdlen=rl) + a_rec(ptr(12))
    raise ValueError(fam)


def gen_boundary(rng):
    """replies of the structured boundary families, each to its own outstanding lookup, then the ring drains"""
    ops = []
    k = rng.choice([3, 5, 8])
    for i in range(k): ops.append('lookup')
    for i in range(k):
        fam = rng.choice(BOUNDARY_FAMILIES)
        ops.append(('net ' if rng.random() < 0.3 else 'recv ') + hx(boundary_reply(rng, i + 1, fam)))
        if rng.random() < 0.3: ops.append('running %d' % (i + 1))
    for i in range(k): ops.append('running %d' % (i + 1))
    ops += ['tick'] * 5
    return ops


def gen_netbig(rng):
    """datagrams around UdpSocket's 4096-byte receive buffer through the real socket: a reply padded to 4095/4096/4097
    bytes, a reply whose last record straddles byte 4096 (cut off by the socket: dropped as malformed; the same bytes
    handed to onUdpRecv directly are accepted), each followed by the intact short reply"""
    q = b'\x03www\x07example\x03com\x00' + u16(1) + u16(1)
    a_rec = ptr(12) + u16(1) + u16(1) + u32(300) + u16(4) + bytes([93, 184, 216, 34])
    ops = ['lookup', 'lookup', 'lookup', 'lookup']
    rid = 1
    for size in rng.sample([4095, 4096, 4097, 4100, 6000, 20000], 3):
        base = hdr(rid, 0x8180, 1, 1) + q + a_rec
        ops.append(rng.choice(['net ', 'net ', 'recv ']) + hx(base + b'\x00' * (size - len(base))))
        ops.append('running %d' % rid); rid += 1
    # an "other" record whose rdata ends at 4090..4100, then an A record
    end = rng.choice([4085, 4092, 4096, 4100])
    head = hdr(rid, 0x8180, 1, 2) + q + ptr(12) + u16(16) + u16(1) + u32(1)
    rdlen = end - len(head) - 2
    d = head + u16(rdlen) + b'x' * rdlen + a_rec
    ops += ['net ' + hx(d), 'running %d' % rid, 'recv ' + hx(d), 'running %d' % rid]
    return ops + ['tick'] * 5


def gen_idedge(rng):
    """ids 65535, 0 (never handed out) and 1 around the wrap of the allocator with outstanding entries; replies
    addressed to them; a lookup cancelled and its id handed out again before the old ring entry expired"""
    ops = []
    pre = rng.choice([0, 1, 2])
    for _ in range(pre): ops.append('lookup')
    if pre and rng.random() < 0.5: ops.append('cancel 1')
    ops += ['tick'] * rng.choice([0, 1, 2])
    ops.append('churn %d' % (65534 - pre - rng.choice([0, 0, 1])))          # the counter stops just below 65535
    for _ in range(rng.choice([2, 3, 4])): ops.append('lookup')               # 65535, (0 skipped), 1 or the next free id, ...
    for i in (65535, 0, 1, 2, 3): ops.append('running %d' % i)
    good = lambda i: hdr(i, 0x8180, 1, 1) + b'\x01a\x00' + u16(1) + u16(1) + ptr(12) + u16(1) + u16(1) + u32(5) + u16(4) + bytes([10, 0, i & 255, i >> 8])
    for i in rng.sample([65535, 0, 1, 2, 3], 3): ops.append('recv ' + hx(good(i)))
    for i in (65535, 0, 1, 2, 3): ops.append('running %d' % i)
    ops += ['tick'] * rng.choice([3, 5, 6])
    for i in (65535, 0, 1, 2, 3): ops.append('running %d' % i)
    return ops


def gen_ring(rng):
    """a lookup in every second for longer than the ring is long (every slot occupied, the ring index wraps),
    some answered, some cancelled, some retried from their timeout callback"""
    ops = ['defscript L1', 'defscript -', 'defscript R1,Q']
    n = 0
    for t in range(rng.choice([6, 11, 13])):
        for _ in range(rng.choice([1, 1, 2])):
            ops.append(rng.choice(['lookup', 'lookup', 'lookup 0', 'lookup 2'])); n += 1
        r = rng.random()
        if r < 0.2 and n: ops.append('cancel %d' % rng.randrange(1, n + 1))
        elif r < 0.4 and n: ops.append('recv ' + hx(hdr(rng.randrange(1, n + 1), 0x8183, 1, 0) + b'\x01a\x00' + u16(1) + u16(1)))
        ops.append('tick')
    for i in range(1, n + 3): ops.append('running %d' % i)
    ops += ['tick'] * rng.choice([5, 10, 11])
    for i in range(1, n + 6): ops.append('running %d' % i)
    return ops


def gen_scripts(rng, alloc_lb, nscripts_before):
    """defscript lines: new lookups (own script, other scripts, undefined script), cancels of any id around the
    ones issued so far (other lookups, the own one, unknown ones), cancel-self, isRunning of those ids / of the own
    id, and setDnsIPAddresses — all made from inside the callback."""
    out = []
    k = rng.choice([1, 1, 2, 3])
    total = nscripts_before + k
    for j in range(k):
        acts = []
        for _ in range(rng.choice([0, 1, 1, 1, 2, 3])):
            r = rng.random()
            ids = list(range(1, alloc_lb + 4)) + [0, 65535]
            if r < 0.42: acts.append('L%d' % rng.choice(list(range(total)) + [nscripts_before + j, 63]))
            elif r < 0.64: acts.append('C%d' % rng.choice(ids))
            elif r < 0.76: acts.append('S')
            elif r < 0.86: acts.append('R%d' % rng.choice(ids))
            elif r < 0.92: acts.append('Q')
            else: acts.append('V%d' % rng.choice([0, 1, 2, 3]))
        out.append('defscript ' + (','.join(acts) or '-'))
    return out


def gen_case(rng, hostile, scripted=False):
    ops = []
    nserv = rng.choice([1, 1, 2, 3, 3])
    if nserv != 1 or rng.random() < 0.2: ops.append('servers %d' % nserv)
    alloc = 0          # lower bound of req_id_alloc_ (script-issued lookups push the real one higher)
    nscripts = 0
    issued = []

    def lookup_op():
        if scripted and nscripts and rng.random() < 0.8: return 'lookup %d' % rng.randrange(nscripts)
        return 'lookup'
    for _ in range(rng.choice([1, 1, 2, 3, 4])):
        if scripted and rng.random() < 0.5:
            sc = gen_scripts(rng, alloc, nscripts); ops += sc; nscripts += len(sc)
        ops.append(lookup_op()); alloc += 1; issued.append(alloc)
    for _ in range(rng.choice([2, 4, 8, 14])):
        k = rng.random()
        pool = issued + ([alloc + 1, alloc + 2, alloc + 3] if scripted else [])
        rid = rng.choice(pool) if rng.random() < 0.9 else rng.choice([0, alloc + 1, 65535, rng.randrange(65536)])
        if k < (0.35 if scripted else 0.55):
            r = rand_reply(rng, rid)
            h = rng.random()
            if hostile and h < 0.12:
                kk = rng.choice([1, 2, 3, 15, 16, 17, 18, 19, 40])
                d = chain_reply(rng, rid, kk, cyc=rng.choice([None, None, 0, max(0, kk - 2)]) if kk > 1 else None)
            elif hostile and h < 0.2:
                d = bytes(rng.randrange(256) for _ in range(rng.choice([0, 1, 2, 3, 4, 5, 11, 12, 13, 30, 200])))
                if len(d) >= 4 and rng.random() < 0.8: d = u16(rid) + u16(rng.choice([0x8180, 0x8000])) + d[4:]
            elif hostile and h < 0.85:
                d = mutate(rng, r)
            else:
                if rng.random() < (0.4 if scripted else 0.15): r.flags = rng.choice([0x8182, 0x8183, 0x8185, 0x8181])
                d = r.build()
            ops.append(('net ' if rng.random() < 0.3 else 'recv ') + hx(d))
        elif k < 0.63:
            ops.append('cancel %d' % rid)
        elif k < 0.70:
            ops.append('running %d' % rid)
        elif k < 0.78 and nserv > 0:
            if scripted and rng.random() < 0.3:
                sc = gen_scripts(rng, alloc, nscripts); ops += sc; nscripts += len(sc)
            ops.append(lookup_op()); alloc += 1; issued.append(alloc)
        elif k < 0.81:
            ns = rng.choice([0, 1, 2, 3]); ops.append('servers %d' % ns)
            if ns == 0 and rng.random() < 0.7:
                ops.append(lookup_op()); ops.append('servers %d' % nserv)     # a refused lookup
            else: nserv = ns
        else:
            ops += ['tick'] * (rng.choice([1, 1, 2, 5]) if scripted else 1)
    # drain: every lookup completes by its fifth tick (retries issued from timeout callbacks by their own fifth tick)
    for i in issued: ops.append('running %d' % i)
    ops += ['tick'] * (rng.choice([5, 6, 10, 11, 16]) if scripted else rng.choice([5, 5, 6]))
    for i in range(1, alloc + (6 if scripted else 1)): ops.append('running %d' % i)
    return ops


def gen_wrap(rng):
    """the id counter wraps (65 535 silent lookup+cancel pairs) while lookups are outstanding / completed ones still
    have their entry in the timeout ring; then new lookups land on or next to those ids"""
    ops = []
    if rng.random() < 0.5: ops += ['defscript ' + rng.choice(['L0', 'L0,S', 'C1,L0', '-'])]
    for _ in range(rng.choice([1, 2, 3])): ops.append(rng.choice(['lookup', 'lookup 0']))
    if rng.random() < 0.5: ops.append('recv ' + hx(u16(rng.choice([1, 2])) + u16(rng.choice([0x8183, 0x8181])) + u16(1) + u16(0) + u16(0) + u16(0) + b'\x01a\x00' + u16(1) + u16(1)))
    if rng.random() < 0.4: ops.append('cancel %d' % rng.choice([1, 2, 3]))
    ops += ['tick'] * rng.choice([0, 0, 1, 2, 3])
    ops.append('churn %d' % rng.choice([65535, 65535, 65534, 65533, 65536, 65532]))
    for _ in range(rng.choice([1, 2, 4])): ops.append(rng.choice(['lookup', 'lookup 0', 'burst 2']))
    if rng.random() < 0.6:      # a reply for an id that was completed/cancelled and handed out again in the same pass
        ops.append('recv ' + hx(u16(rng.choice([1, 2, 3, 4])) + u16(rng.choice([0x8183, 0x8182])) + u16(1) + u16(0) + u16(0) + u16(0) + b'\x01a\x00' + u16(1) + u16(1)))
    for i in range(1, 6): ops.append('running %d' % i)
    k = rng.choice([2, 3, 5])
    ops += ['tick'] * k
    for i in range(1, 6): ops.append('running %d' % i)
    ops += ['tick'] * rng.choice([5, 6, 11])
    for i in range(1, 8): ops.append('running %d' % i)
    return ops


def directed():
    q = b'\x03www\x07example\x03com\x00' + u16(1) + u16(1)
    hdr = lambda i, fl, qd, an: u16(i) + u16(fl) + u16(qd) + u16(an) + u16(0) + u16(0)
    a_rec = ptr(12) + u16(1) + u16(1) + u32(300) + u16(4) + bytes([93, 184, 216, 34])
    cn_rec = ptr(12) + u16(5) + u16(1) + u32(60) + u16(6) + b'\x03cdn' + ptr(16)
    good = hdr(1, 0x8180, 1, 2) + q + cn_rec + a_rec
    # malformed op lines: both sides must say bad-op
    yield ['lookup', 'recv 0g', 'recv', 'cancel x', 'cancel 65536', 'servers 4', 'frob', 'tick 1', 'running',
           'net', 'net 0g', 'churn 0', 'churn 70001', 'churn x', 'burst 70001', 'burst', 'defscript', 'defscript L64', 'defscript C65536', 'defscript L1,', 'defscript X', 'lookup 64', 'lookup x', 'touch maybe', 'defscript S,L0,C7', 'defscript V4', 'defscript R65536', 'defscript Q1', 'defscript V', 'defscript V1,R2,Q']
    # the well-formed reply, a duplicate, a late reply, then the ring drains
    yield ['lookup', 'recv ' + hx(good), 'recv ' + hx(good), 'running 1'] + ['tick'] * 6
    # every truncation offset of the well-formed reply, then the intact one
    ops = ['lookup']
    for i in range(len(good)): ops.append('recv ' + hx(good[:i]))
    yield ops + ['running 1', 'recv ' + hx(good), 'running 1']
    # DESIGN §7-12: one A record, an_count = 5
    yield ['lookup', 'recv ' + hx(hdr(1, 0x8180, 1, 5) + q + a_rec), 'running 1'] + ['tick'] * 5
    # self-referencing compression pointer in the answer name / in the question
    yield ['lookup', 'recv ' + hx(hdr(1, 0x8180, 1, 1) + q + ptr(12 + len(q)) + u16(1) + u16(1) + u32(1) + u16(4) + b'\x01\x02\x03\x04'), 'running 1'] + ['tick'] * 5
    yield ['lookup', 'recv ' + hx(hdr(1, 0x8180, 1, 0) + ptr(12) + u16(1) + u16(1)), 'running 1'] + ['tick'] * 5
    # two pointers referencing each other
    yield ['lookup', 'recv ' + hx(hdr(1, 0x8180, 1, 0) + ptr(14) + ptr(12) + u16(1) + u16(1)), 'running 1'] + ['tick'] * 5
    # datagrams shorter than the id+flags
    yield ['lookup', 'recv -', 'recv 00', 'recv 0001', 'recv 000181', 'recv 00018180', 'running 1'] + ['tick'] * 5
    # label running out of the packet inside a CNAME
    yield ['lookup', 'recv ' + hx(hdr(1, 0x8180, 1, 1) + q + ptr(12) + u16(5) + u16(1) + u32(9) + u16(9) + b'\x09ab'), 'running 1'] + ['tick'] * 5
    # out-of-range pointer
    yield ['lookup', 'recv ' + hx(hdr(1, 0x8180, 1, 1) + q + b'\xff\xff' + u16(1) + u16(1) + u32(1) + u16(4) + b'\x01\x02\x03\x04'), 'running 1'] + ['tick'] * 5
    # server failures: three servers, SERVFAIL x3; NXDOMAIN; FORMERR; timeout; cancel
    sf = lambda i, rc: hdr(i, 0x8180 | rc, 1, 0) + q
    yield ['servers 3', 'lookup', 'recv ' + hx(sf(1, 2)), 'running 1', 'recv ' + hx(sf(1, 5)), 'running 1', 'recv ' + hx(sf(1, 2)), 'running 1', 'recv ' + hx(sf(1, 2))] + ['tick'] * 6
    yield ['servers 2', 'lookup', 'lookup', 'recv ' + hx(sf(1, 2)), 'recv ' + hx(sf(2, 3)), 'recv ' + hx(sf(1, 1)), 'running 1', 'running 2'] + ['tick'] * 5
    yield ['lookup', 'tick', 'lookup', 'tick', 'tick', 'cancel 1', 'tick', 'tick', 'running 2', 'tick', 'running 2', 'tick', 'tick']
    yield ['lookup', 'cancel 1', 'recv ' + hx(good), 'cancel 1', 'lookup', 'recv ' + hx(u16(2) + good[2:]), 'recv ' + hx(good)] + ['tick'] * 6
    yield ['servers 0', 'lookup', 'running 0', 'recv ' + hx(u16(0) + good[2:]), 'tick', 'servers 1', 'lookup', 'recv ' + hx(good)] + ['tick'] * 6
    # callbacks that call back into the client: retry from a timeout callback (the retry must time out five ticks later),
    # from an all-servers-failed callback, from a reply callback; cancel of another lookup from a callback
    yield ['defscript L1', 'defscript -', 'lookup 0'] + ['tick'] * 5 + ['running 1', 'running 2'] + ['tick'] * 4 + ['running 2', 'tick', 'running 2', 'tick']
    yield ['defscript L0', 'lookup 0'] + ['tick'] * 16 + ['running 1', 'running 2', 'running 3', 'running 4', 'cancel 4'] + ['tick'] * 6
    yield ['defscript L0,L0', 'lookup 0', 'tick', 'tick', 'lookup 0'] + ['tick'] * 3 + ['running 3', 'running 4'] + ['tick'] * 5 + ['running 3', 'running 5']
    yield ['servers 2', 'defscript L1', 'defscript C1,L2', 'defscript -', 'lookup 0', 'lookup 1', 'recv ' + hx(sf(1, 2)), 'recv ' + hx(sf(1, 2)),
           'running 3', 'recv ' + hx(sf(2, 3)), 'running 3', 'running 4'] + ['tick'] * 6 + ['running 3', 'running 4']
    yield ['defscript L0', 'lookup', 'lookup 0', 'defscript C1,L63', 'lookup 1', 'recv ' + hx(u16(3) + good[2:]), 'running 1', 'running 4',
           'recv ' + hx(u16(2) + good[2:])] + ['tick'] * 5 + ['running 4', 'running 5'] + ['tick'] * 6
    yield ['lookup 0', 'defscript L1', 'lookup 0', 'defscript -', 'lookup 0'] + ['tick'] * 11 + ['running 4', 'running 5']   # scripts are bound when the lookup is issued
    yield ['servers 0', 'defscript L0', 'servers 1', 'lookup 0', 'servers 0'] + ['tick'] * 5 + ['servers 1'] + ['tick'] * 6   # the retry is refused
    # a callback that cancels its OWN lookup (by `S` and by id) and goes on using its captures, from a reply, an
    # all-servers-failed and a timeout callback; then retries (as-found tree: heap-use-after-free, patches/C15-03)
    yield ['defscript S', 'lookup 0', 'recv ' + hx(sf(1, 3)), 'running 1'] + ['tick'] * 5
    yield ['defscript C1,S,L1', 'defscript S,C2', 'lookup 0'] + ['tick'] * 5 + ['running 1', 'running 2'] + ['tick'] * 5 + ['running 2']
    yield ['servers 2', 'defscript S,L0', 'lookup 0', 'recv ' + hx(sf(1, 2)), 'recv ' + hx(sf(1, 5)), 'running 1', 'running 2', 'touch off',
           'recv ' + hx(sf(2, 2)), 'recv ' + hx(sf(2, 2)), 'running 3'] + ['tick'] * 6
    # replies through the real UDP socket: the last outstanding lookup completes (socket disabled inside its own read
    # callback), its callback retries (socket enabled again inside the same callback); empty datagram; nothing outstanding
    yield ['net ' + hx(good), 'defscript L0', 'lookup 0', 'net ' + hx(sf(1, 3)), 'running 1', 'running 2', 'net -', 'net ' + hx(u16(2) + good[2:]),
           'running 3', 'cancel 3', 'net ' + hx(u16(3) + good[2:]), 'lookup', 'net ' + hx(u16(4) + good[2:]), 'running 4'] + ['tick'] * 6
    # setDnsIPAddresses / isRunning from inside callbacks: the server count changes under a lookup that is waiting for
    # the other servers' failures; a retry issued after the callback emptied the server list is refused
    yield ['servers 3', 'defscript V1,R2,Q,L2', 'defscript -', 'defscript Q,R1', 'lookup 0', 'lookup 1', 'recv ' + hx(sf(2, 2)), 'recv ' + hx(sf(1, 3)),
           'recv ' + hx(sf(2, 2)), 'running 2', 'running 3'] + ['tick'] * 6
    yield ['defscript V0,L0,V1,L1', 'defscript Q', 'lookup 0'] + ['tick'] * 5 + ['running 1', 'running 2', 'running 3'] + ['tick'] * 5
    # a lookup cancelled, its id handed out again while the old ring entry is still in the wheel, a reply for that id
    yield ['lookup', 'tick', 'cancel 1', 'churn 65533', 'lookup', 'lookup', 'running 65535', 'running 1', 'recv ' + hx(sf(1, 3)), 'running 1'] + ['tick'] * 6
    # the 16-bit id counter wraps onto an outstanding lookup (as found: overwritten, never called back) ...
    yield ['lookup', 'churn 65535', 'lookup', 'running 1', 'running 2'] + ['tick'] * 5 + ['running 1', 'tick']
    # ... and onto an id whose stale ring entry is still in the wheel (as found: the new lookup times out early)
    yield ['lookup', 'recv ' + hx(sf(1, 3)), 'tick', 'tick', 'churn 65535', 'lookup', 'tick', 'tick', 'tick', 'running 1', 'running 2', 'tick', 'tick', 'running 1', 'running 2', 'tick']
    yield ['defscript L0', 'lookup 0', 'lookup', 'tick', 'churn 65534', 'lookup 0', 'lookup', 'burst 3', 'running 1', 'running 2', 'running 3'] + ['tick'] * 11
    # hop limit boundary: chains of 15..18 pointers
    import random
    r0 = random.Random(15)
    for k in (1, 2, 15, 16, 17, 18):
        yield ['lookup', 'recv ' + hx(chain_reply(r0, 1, k)), 'running 1'] + ['tick'] * 5



# ----------------------------------------------------------------------------- round 3: names, fault schedules, alignment

EINTR, EAGAIN, EPERM, ENETUNREACH, ECONNREFUSED, ECONNRESET, ENOBUFS, EIO = 4, 11, 1, 101, 111, 104, 105, 5
NAME_FAMILIES = ['plain', 'label-63', 'label-64', 'label-65', 'label-191', 'label-192', 'label-255', 'label-256', 'label-257',
                 'label-300', 'total-253', 'total-254', 'total-255', 'total-256', 'total-400', 'empty', 'dot', 'dotdot', 'a..b',
                 'lead-dot', 'trail-dot', 'nul', 'high', 'c0-bytes', 'digits', 'one']


def name_of(rng, fam):
    lab = lambda n, c=None: bytes((c if c is not None else rng.choice(b'abcdefghijklmnopqrstuvwxyz0123456789-')) for _ in range(n))
    if fam == 'plain': return b'.'.join(lab(rng.choice([1, 2, 3, 7, 12])) for _ in range(rng.choice([1, 2, 3, 4])))
    if fam.startswith('label-'):
        n = int(fam.split('-')[1])
        parts = [lab(rng.choice([1, 3])) for _ in range(rng.choice([0, 1, 2]))]
        parts.insert(rng.randrange(len(parts) + 1), lab(n))
        return b'.'.join(parts)
    if fam.startswith('total-'):
        total = int(fam.split('-')[1])          # length of the dotted string; the QNAME is total + 2 bytes
        out = b''
        while len(out) < total:
            n = min(63, total - len(out))
            out += lab(n)
            if len(out) < total: out += b'.'
        return out[:total] if not out[:total].endswith(b'.') else out[:total - 1] + b'x'
    if fam == 'empty': return b''
    if fam == 'dot': return b'.'
    if fam == 'dotdot': return b'..'
    if fam == 'a..b': return lab(2) + b'..' + lab(3)
    if fam == 'lead-dot': return b'.' + lab(3) + b'.com'
    if fam == 'trail-dot': return lab(3) + b'.com.'
    if fam == 'nul': return lab(2) + b'\x00' + lab(2) + b'.com'
    if fam == 'high': return bytes(rng.randrange(128, 256) for _ in range(rng.choice([1, 4, 9]))) + b'.' + lab(2)
    if fam == 'c0-bytes': return b'\xc0\x0c.' + lab(2) + b'.\xff\xff'
    if fam == 'digits': return b'10.0.0.1'
    if fam == 'one': return lab(1)
    raise ValueError(fam)


def qname_of(name):
    """AppendDomain as the code does it (reference encoder of the generator, used to build echoing replies)"""
    return b''.join(bytes([len(p) & 255]) + p for p in name.split(b'.')) + b'\x00'


def gen_names(rng, fam=None):
    """request() with names of every boundary family, kernel answers to the sendto calls from the op file (all fail /
    some fail / none), then a reply that echoes the question as it was sent (accepted only if the parser can walk it),
    then the ring drains: every accepted lookup completes exactly once"""
    ops = []
    ns = rng.choice([1, 1, 2, 3])
    if ns != 1: ops.append('servers %d' % ns)
    if rng.random() < 0.3: ops.append('defscript ' + rng.choice(['L0', 'S', 'Q,L0', '-']))
    k = rng.choice([1, 2, 3])
    for i in range(k):
        f = fam if fam and i == 0 else rng.choice(NAME_FAMILIES)
        name = name_of(rng, f)
        r = rng.random()
        if r < 0.4: send = '-'
        elif r < 0.6: send = ','.join(str(rng.choice([ENETUNREACH, EPERM, EAGAIN, ENOBUFS, EINTR])) for _ in range(ns))       # every send fails
        else: send = ','.join(str(rng.choice([0, 0, ENETUNREACH, EPERM, EAGAIN])) for _ in range(rng.choice([1, ns, ns + 1])))
        sid = '0' if ops and ops[-1].startswith('defscript') and rng.random() < 0.5 else '-'
        ops.append('lookupn %s %s %s' % (hx(name), sid, send))
        ops.append('running %d' % (i + 1))
        if rng.random() < 0.6:
            qn = qname_of(name)
            rep = hdr(i + 1, 0x8180, 1, 1) + qn + u16(1) + u16(1) + ptr(12) + u16(1) + u16(1) + u32(30) + u16(4) + bytes([10, 1, 2, i])
            if len(rep) < 9000: ops.append(rng.choice(['recv ', 'net ', 'recva %d ' % rng.randrange(8)]) + hx(rep))
        if rng.random() < 0.3: ops.append('tick')
    for i in range(k + 2): ops.append('running %d' % (i + 1))
    ops += ['tick'] * rng.choice([5, 6, 10])
    for i in range(k + 3): ops.append('running %d' % (i + 1))
    return ops


def good_reply(i, ip=None):
    return (hdr(i, 0x8180, 1, 1) + b'\x05verif\x07example\x03com\x00' + u16(1) + u16(1) + ptr(12) + u16(1) + u16(1) + u32(5) + u16(4)
            + (ip or bytes([10, 0, i & 255, i >> 8])))


def gen_sock(rng):
    """fault schedules on the client's recvfrom: EINTR / EAGAIN / ECONNREFUSED / ECONNRESET / EIO before, between and after
    datagrams; empty datagrams; several datagrams queued at once (a completion whose callback retries re-enables the
    socket inside its own read callback and the next queued datagram is for the retry)"""
    ops = []
    ns = rng.choice([1, 1, 2])
    if ns != 1: ops.append('servers %d' % ns)
    ops.append('defscript ' + rng.choice(['L1', 'L0', 'S,L1', 'C2,L1']))
    ops.append('defscript -')
    k = rng.choice([1, 2, 3])
    for i in range(k): ops.append(rng.choice(['lookup', 'lookup 0', 'lookup 1']))
    errs = [EINTR, EAGAIN, ECONNREFUSED, ECONNRESET, EIO, ENOBUFS]
    for _ in range(rng.choice([1, 2, 3])):
        toks = []
        for _ in range(rng.choice([1, 2, 3, 4, 5])):
            r = rng.random()
            if r < 0.4: toks.append('E%d' % rng.choice(errs))
            elif r < 0.5: toks.append('Z')
            else:
                rid = rng.choice(list(range(1, k + 3)) + [0, 65535])
                how = rng.random()
                if how < 0.6: d = good_reply(rid)
                elif how < 0.75: d = hdr(rid, 0x8180 | rng.choice([2, 3, 5]), 1, 0) + b'\x01a\x00' + u16(1) + u16(1)
                elif how < 0.85: d = good_reply(rid)[:rng.randrange(0, 40)]
                else: d = mutate(rng, rand_reply(rng, rid))
                toks.append(hx(d) if d else 'Z')
        ops.append('sock ' + ','.join(toks))
        for i in range(1, k + 3): ops.append('running %d' % i)
        if rng.random() < 0.4: ops.append('tick')
    ops += ['tick'] * rng.choice([5, 6, 11])
    for i in range(1, k + 5): ops.append('running %d' % i)
    return ops


def gen_align(rng):
    """onUdpRecv with the datagram at every alignment 0..7 of its start address, right against the end of its heap
    block; lengths 0..3 (shorter than id+flags), 4..13 (around the 12-byte header) and whole replies"""
    ops = ['lookup', 'lookup']
    base = good_reply(1)
    for k in range(8):
        n = rng.choice([0, 1, 2, 3, 4, 5, 8, 11, 12, 13, 16, 17, len(base) - 4, len(base) - 1])
        ops.append('recva %d %s' % (k, hx(base[:n])))
    ops.append('running 1')
    k = rng.randrange(8)
    ops.append('recva %d %s' % (k, hx(mutate(rng, rand_reply(rng, 1)))))
    ops.append('recva %d %s' % (rng.randrange(8), hx(good_reply(1))))
    ops.append('recva %d %s' % (rng.randrange(8), hx(boundary_reply(rng, 2, rng.choice(BOUNDARY_FAMILIES)))))
    ops += ['running 1', 'running 2'] + ['tick'] * 5
    return ops


def directed3():
    """round 3 directed cases: what the client accepts as a reply (header semantics), counts at 0xFFFF, id wrap with
    lookups outstanding at both ends, reconfiguration while lookups are pending, every send failing"""
    qn = b'\x05verif\x07example\x03com\x00'
    query = lambda i: hdr(i, 0x0100, 1, 0) + qn + u16(1) + u16(1)
    a_rec = ptr(12) + u16(1) + u16(1) + u32(300) + u16(4) + bytes([93, 184, 216, 34])
    # the query echoed back (QR = 0) must not complete the lookup; neither with an answer attached; then the real reply does
    yield ['lookup', 'recv ' + hx(query(1)), 'running 1', 'net ' + hx(query(1)), 'running 1',
           'recv ' + hx(hdr(1, 0x0180, 1, 1) + qn + u16(1) + u16(1) + a_rec), 'running 1', 'recv ' + hx(good_reply(1)), 'running 1'] + ['tick'] * 5
    # QR = 0 with rcode 3 / 2: still ignored (rcode is looked at only in responses); times out
    yield ['lookup', 'recv ' + hx(hdr(1, 0x0103, 1, 0) + qn + u16(1) + u16(1)), 'recv ' + hx(hdr(1, 0x0002, 0, 0)), 'running 1'] + ['tick'] * 5
    # TC bit, opcode != 0, Z bits, AA, RA clear: accepted as long as QR = 1 and rcode = 0 (what the code accepts)
    for fl in (0x8380, 0x8200, 0xF980, 0x8070, 0x8400, 0x8000, 0xFFF0):
        yield ['lookup', 'recv ' + hx(hdr(1, fl, 1, 1) + qn + u16(1) + u16(1) + a_rec), 'running 1', 'tick']
    # the question section is not compared with the name asked: a reply about another name (or with no question at all) completes the lookup
    yield ['lookup', 'recv ' + hx(hdr(1, 0x8180, 1, 1) + b'\x04evil\x03com\x00' + u16(1) + u16(1) + a_rec), 'running 1'] + ['tick'] * 5
    yield ['lookup', 'recv ' + hx(hdr(1, 0x8180, 0, 1) + b'\x04evil\x00' + u16(1) + u16(1) + u32(1) + u16(4) + b'\x01\x02\x03\x04'), 'running 1'] + ['tick'] * 5
    # counts at 0xFFFF in a 12-byte datagram and in a datagram with one record: rejected at the first missing byte
    for qd, an in ((0xFFFF, 0xFFFF), (0, 0xFFFF), (0xFFFF, 0), (0, 0), (1, 0xFFFF)):
        yield ['lookup', 'recv ' + hx(hdr(1, 0x8180, qd, an)), 'running 1', 'recv ' + hx(hdr(1, 0x8180, qd, an) + qn + u16(1) + u16(1) + a_rec), 'running 1', 'cancel 1']
    # TTL / RDLENGTH / type at 0xFFFF(FFFF)
    yield ['lookup', 'lookup', 'recv ' + hx(hdr(1, 0x8180, 1, 1) + qn + u16(1) + u16(1) + ptr(12) + u16(1) + u16(0xFFFF) + u32(0xFFFFFFFF) + u16(0xFFFF) + b'\x01\x02\x03\x04'),
           'recv ' + hx(hdr(2, 0x8180, 1, 1) + qn + u16(1) + u16(1) + ptr(12) + u16(0xFFFF) + u16(1) + u32(0xFFFFFFFF) + u16(0xFFFF) + b'x' * 0xFFFF),
           'running 1', 'running 2', 'cancel 2']
    # the id counter driven across 65535 with lookups outstanding at both ends: 65534, 65535 outstanding, 1 and 2 outstanding
    yield ['lookup', 'lookup', 'churn 65531', 'lookup', 'lookup', 'lookup', 'lookup', 'running 65534', 'running 65535', 'running 0', 'running 1', 'running 2',
           'running 3', 'running 4', 'recv ' + hx(good_reply(65535)), 'recv ' + hx(good_reply(3)), 'recv ' + hx(good_reply(0)), 'recv ' + hx(good_reply(1)),
           'running 65535', 'running 3', 'running 1'] + ['tick'] * 6
    # every send fails (ENETUNREACH, EPERM, EAGAIN): the lookup is registered all the same and completes once, by timeout ...
    yield ['servers 3', 'lookupn ' + hx(b'www.example.com') + ' - 101,1,11', 'running 1'] + ['tick'] * 4 + ['running 1', 'tick', 'running 1', 'tick']
    # ... or by a reply that arrives nevertheless; a retry from the timeout callback also fails to send and times out in turn
    yield ['defscript L0', 'lookupn ' + hx(b'a.b') + ' 0 101'] + ['tick'] * 5 + ['running 2'] + ['tick'] * 5 + ['running 3', 'cancel 3', 'tick']
    yield ['servers 2', 'lookupn ' + hx(b'a.b') + ' - 101,101', 'recv ' + hx(good_reply(1)), 'running 1'] + ['tick'] * 5
    # the server list changes while lookups wait for the other servers' failures: shrinks (one more failure ends it), grows, empties
    sf = lambda i, rc: hdr(i, 0x8180 | rc, 1, 0) + qn + u16(1) + u16(1)
    yield ['servers 3', 'lookup', 'lookup', 'lookup', 'recv ' + hx(sf(1, 2)), 'servers 1', 'recv ' + hx(sf(2, 2)), 'running 1', 'running 2', 'servers 3',
           'recv ' + hx(sf(1, 2)), 'running 1', 'servers 0', 'recv ' + hx(sf(3, 2)), 'running 3', 'lookup', 'recv ' + hx(sf(1, 5)), 'running 1'] + ['tick'] * 5
    # recvfrom fault schedules: failures before the datagram, between two datagrams, an empty datagram; ICMP-style ECONNREFUSED
    yield ['lookup', 'lookup', 'sock E4,E11,E111,' + hx(good_reply(1)), 'running 1', 'sock ' + hx(sf(2, 2))[:0] + 'Z,E104,' + hx(good_reply(2)) + ',E5', 'running 2', 'sock E111', 'tick']
    yield ['defscript L1', 'defscript -', 'lookup 0', 'sock ' + hx(sf(1, 3)) + ',E4,' + hx(good_reply(2)) + ',' + hx(good_reply(2)), 'running 2', 'running 3'] + ['tick'] * 5
    # malformed op lines of the new ops
    yield ['lookup', 'lookupn', 'lookupn 61 - -,', 'lookupn 6g - -', 'lookupn 61 64 -', 'lookupn 61 - 4096', 'lookupn 61 - 1,', 'sock', 'sock ,', 'sock E', 'sock Ex', 'sock -',
           'sock 0g', 'sock 00,', 'recva 8 00', 'recva x 00', 'recva 1', 'recva 1 0g', 'lookupn - - -', 'sock Z', 'recva 0 -', 'cancel 1', 'cancel 2']


# ----------------------------------------------------------------------------- round 4: clock, lifetime, state-derived inputs

SUBSEC = [1, 250, 400, 500, 999, 1000, 1001, 1500, 1999, 2000, 2500, 3999, 4000, 4001, 4999, 5000, 5001, 6000, 9999]
JUMPS = [60000, 600000, 3600000, 7200000]
BIGJUMPS = [2**31 - 1, 2**31, 2**31 + 1, 2**32 - 1, 2**32, 2**32 + 5000, 2**33 + 1]     # int / uint32_t boundaries of a millisecond difference


def nx(i): return hdr(i, 0x8183, 1, 0) + b'\x05verif\x07example\x03com\x00' + u16(1) + u16(1)


def gen_clock(rng, big=False):
    """the steady clock moves by arbitrary amounts between passes: sub-second steps (the timer's phase: a lookup issued
    400 ms after the previous one drained gets a NEW timer), passes that come late (1.5 s, 4.999 s, 5.001 s), jumps of
    minutes/hours (the persistent timer catches up inside one pass; with a retrying timeout script it never drains) and -
    with finite retry chains only - jumps across 2^31 and 2^32 ms"""
    ops = []
    ns = rng.choice([1, 1, 2])
    if ns != 1: ops.append('servers %d' % ns)
    ops += ['defscript L1', 'defscript -', 'defscript S,L1']
    scripts = ['', ' 0', ' 1', ' 2']
    if not big:
        ops.append('defscript L3')          # retries for ever
        scripts += [' 3', ' 3']
    n = 0
    for _ in range(rng.choice([4, 8, 14])):
        r = rng.random()
        if r < 0.32 or n == 0:
            ops.append('lookup' + rng.choice(scripts)); n += 1
        elif r < 0.40: ops.append('cancel %d' % rng.randrange(1, n + 3))
        elif r < 0.50: ops.append(rng.choice(['recv ', 'net ']) + hx(rng.choice([good_reply, nx])(rng.randrange(1, n + 3))))
        elif r < 0.55: ops.append('running %d' % rng.randrange(1, n + 3))
        elif r < 0.88: ops.append('adv %d' % rng.choice(SUBSEC))
        else: ops.append('adv %d' % rng.choice(BIGJUMPS if big else JUMPS))
    for i in range(1, n + 3): ops.append('running %d' % i)
    ops += rng.choice([['adv 5000'], ['adv 4999', 'adv 1'], ['tick'] * 5, ['adv 2500', 'adv 2500'], ['adv %d' % rng.choice(BIGJUMPS if big else JUMPS)]])
    for i in range(1, n + 3): ops.append('running %d' % i)
    ops += ['adv 1000', 'adv 5000']
    return ops


def gen_destroy(rng):
    """~DnsRequest() with lookups outstanding (scripted ones too), the ring populated, the timer armed, a datagram for one
    of them on its way; then the loop goes on: time passes (sub-second, 5 s, hours), a fresh object hands the same ids out
    again from 1 and replies for them arrive - only lookups of the living object are ever called back"""
    ops = ['defscript L1', 'defscript -', 'defscript C1,L0']
    n = 0
    for rnd in range(rng.choice([1, 2, 3])):
        k = rng.choice([0, 1, 2, 4])
        for _ in range(k):
            ops.append('lookup' + rng.choice(['', '', ' 0', ' 2'])); n += 1
            if rng.random() < 0.3: ops.append('adv %d' % rng.choice([300, 1000, 1700]))
        if k and rng.random() < 0.3: ops.append('recv ' + hx(nx(rng.randrange(1, k + 1))))
        if k and rng.random() < 0.2: ops.append('cancel %d' % rng.randrange(1, k + 1))
        if k and rng.random() < 0.3: ops.append('net ' + hx(good_reply(rng.randrange(1, k + 1))))      # picked up in the pass before the destructor
        nsrv = rng.choice([1, 1, 2, 0])
        ops.append('destroy %d' % nsrv)
        for i in range(1, k + 2): ops.append('running %d' % i)
        ops.append('adv %d' % rng.choice([999, 1000, 5000, 3600000]))
        ops.append('recv ' + hx(good_reply(1)))               # the dead object's id 1: nothing is outstanding in the new one
        ops.append('lookup' + rng.choice(['', ' 0']))          # refused when the new object has no server
        if nsrv == 0: ops += ['servers 1', 'lookup']
        ops.append('running 1')
        if rng.random() < 0.6: ops.append(rng.choice(['recv ', 'net ']) + hx(rng.choice([good_reply, nx])(1)))   # ... now it is
        ops.append('adv %d' % rng.choice([400, 1000, 4000, 5000, 6000]))
    ops += ['running 1', 'running 2', 'adv 5000', 'adv 5000', 'running 1', 'running 2']
    return ops


def gen_state(rng):
    """inputs derived from the client's cached state (lesson g): a reply carrying the id that the NEXT request() will be
    handed; the id of a lookup that was cancelled / completed / timed out, handed out again after the 16-bit counter
    wrapped (ABA), with the old ring entry still in the wheel; the same reply twice in one pass; a retry with the same
    name issued from the callback that the first of two identical replies triggers"""
    ops = ['defscript L0', 'defscript -', 'defscript L1']
    how = rng.choice(['next-id', 'next-id', 'next-id', 'aba', 'aba2', 'twice', 'twice', 'twice-retry', 'twice-retry'])
    if how == 'next-id':
        k = rng.choice([1, 2, 3])
        ops += ['lookup'] * k
        d = rng.choice([good_reply, nx])(k + 1)
        ops += [rng.choice(['recv ', 'net ']) + hx(d), 'running %d' % (k + 1), 'lookup' + rng.choice(['', ' 1', ' 2']), 'running %d' % (k + 1)]
        if rng.random() < 0.7: ops += [rng.choice(['recv ', 'net ']) + hx(d), 'running %d' % (k + 1), 'running %d' % (k + 2)]
        # ... and across the wrap: counter at 65535, the next id is 1
        if rng.random() < 0.2:
            ops += ['churn %d' % (65535 - (k + 1) - rng.choice([0, 1])), 'recv ' + hx(good_reply(k + 2 if rng.random() < 0.5 else 65535)), 'lookup', 'lookup',
                    'running 65535', 'running %d' % (k + 2), 'recv ' + hx(good_reply(65535)), 'recv ' + hx(good_reply(k + 2))]
    elif how in ('aba', 'aba2'):
        two = how == 'aba2'
        ops += ['lookup' + rng.choice(['', ' 2'])] + (['lookup'] if two else [])
        ops += ['adv %d' % rng.choice([0, 1000, 2000, 3500])]
        end = rng.choice(['cancel', 'reply', 'timeout'])
        if end == 'cancel': ops.append('cancel 1')
        elif end == 'reply': ops.append('recv ' + hx(nx(1)))
        else: ops += ['adv 5000'] if not two else ['cancel 1']
        ops.append('running 1')
        # the counter goes round: every id from here to 65535 is used and released, 0 is skipped, 1 is free again
        ops.append('churn 65533' if two else 'churn 65534')
        ops += ['lookup' + rng.choice(['', ' 1']), 'running 1', 'running 2', 'running 3']
        if two: ops += ['lookup', 'running 3']                                # skips the outstanding 2
        ops += rng.choice([['adv 1000'] * rng.choice([1, 2, 4]), ['adv 1500', 'adv 2500'], []])       # the old entry (1, old serial) leaves the wheel
        ops.append('running 1')
        if rng.random() < 0.6: ops += ['recv ' + hx(rng.choice([good_reply, nx])(1)), 'running 1']
    else:
        retry = how == 'twice-retry'
        ops += ['lookup' + (' 0' if retry else rng.choice(['', ' 1'])), 'lookup']
        d = rng.choice([good_reply, nx])(1)
        second = rng.choice([d, d, good_reply(3) if retry else d])                # id 3 = the retry issued by the first one's callback
        ops.append('sock ' + ','.join([hx(d), hx(second)] + ([hx(d)] if rng.random() < 0.4 else [])))
        ops += ['running 1', 'running 2', 'running 3', 'recv ' + hx(d), 'recva %d %s' % (rng.randrange(8), hx(d))]
    ops += ['running 1', 'running 2'] + rng.choice([['tick'] * 6, ['adv 5000', 'adv 5000'], ['adv 20000']]) + ['running 1', 'running 2', 'running 3']
    return ops


def directed4():
    """round 4 directed cases"""
    # the timer's phase: the ring drains at 5000, a lookup at 5300 arms a NEW timer (6300, ...): times out in the pass at 10300, not at 10000
    yield ['lookup', 'adv 5000', 'adv 300', 'lookup', 'adv 700', 'running 2', 'adv 3999', 'running 2', 'adv 1', 'running 2', 'adv 299', 'running 2', 'adv 1', 'running 2']
    # a late pass: 4999 ms fire four times, one more millisecond the fifth
    yield ['lookup', 'adv 4999', 'running 1', 'adv 1', 'running 1']
    # one pass after 5001 ms / after two hours: five firings, then the timer is off; nothing fires afterwards
    yield ['lookup', 'lookup', 'adv 5001', 'running 1', 'running 2', 'adv 7200000', 'lookup', 'adv 999', 'adv 1', 'adv 7200000', 'running 3']
    # catch-up with a retrying timeout script: the hour is one pass, every retry is called once
    yield ['defscript L0', 'lookup 0', 'adv 2000', 'lookup 0', 'adv 3600000', 'running 1', 'cancel 1', 'adv 5000']
    # jumps across 2^31 / 2^32 ms with a finite retry chain
    for j in BIGJUMPS:
        yield ['defscript L1', 'defscript -', 'lookup 0', 'adv 1500', 'lookup', 'adv %d' % j, 'running 1', 'running 2', 'running 3', 'adv %d' % j, 'running 3', 'lookup', 'adv 5000']
    # the last outstanding lookup is cancelled from inside another lookup's callback: the socket is released inside its own
    # read callback, the timer keeps running until the wheel is empty, the next lookup keeps the old phase
    yield ['defscript C2', 'lookup 0', 'lookup', 'net ' + hx(good_reply(1)), 'running 2', 'adv 1400', 'lookup', 'adv 3600', 'running 3', 'adv 1000', 'running 3', 'adv 400', 'running 3']
    yield ['defscript C2,C3', 'lookup 0', 'lookup', 'lookup'] + ['tick'] * 5 + ['running 2', 'running 3', 'lookup', 'adv 999', 'adv 4001', 'running 4']
    # destructor: outstanding plain and scripted lookups, armed timer, populated wheel; the new object reuses id 1
    yield ['defscript L0', 'lookup 0', 'lookup', 'tick', 'lookup', 'destroy 1', 'running 1', 'adv 10000', 'recv ' + hx(good_reply(1)), 'lookup', 'running 1',
           'recv ' + hx(good_reply(2)), 'recv ' + hx(good_reply(1)), 'adv 5000', 'destroy 2', 'destroy 0', 'lookup', 'servers 1', 'lookup', 'destroy 3', 'adv 5000']
    yield ['lookup', 'net ' + hx(good_reply(1)), 'destroy 1', 'lookup', 'sock ' + hx(good_reply(1)) + ',' + hx(good_reply(1)), 'destroy 1', 'adv 3600000']
    # malformed lines of the new ops
    yield ['lookup', 'adv', 'adv x', 'adv 17179869184', 'adv -1', 'adv 1 2', 'destroy', 'destroy 4', 'destroy x', 'adv 0', 'destroy 1', 'cancel 1']

def gen(rng, tier):
    for c in directed():
        yield c
    for c in directed3():
        yield c
    for c in directed4():
        yield c
    n = 500 if tier == 'quick' else 6000
    for i in range(n):
        yield gen_case(rng, hostile=(i % 4 != 0))
    for i in range(n):
        yield gen_case(rng, hostile=(i % 3 == 0), scripted=True)
    for i in range(6 if tier == 'quick' else 40):
        yield gen_wrap(rng)
    for i in range(4 if tier == 'quick' else 30):
        yield gen_idedge(rng)
    for i in range(120 if tier == 'quick' else 1500):
        yield gen_boundary(rng)
    for i in range(40 if tier == 'quick' else 400):
        yield gen_ring(rng)
    for i in range(12 if tier == 'quick' else 60):
        yield gen_netbig(rng)
    # every boundary family at least once per run, to the same lookup shape
    for fam in BOUNDARY_FAMILIES:
        for _ in range(2 if tier == 'quick' else 12):
            yield ['lookup', 'recv ' + hx(boundary_reply(rng, 1, fam)), 'running 1', 'tick', 'tick', 'tick', 'tick', 'tick']
    for fam in NAME_FAMILIES:
        for _ in range(2 if tier == 'quick' else 10):
            yield gen_names(rng, fam)
    for i in range(60 if tier == 'quick' else 600):
        yield gen_names(rng)
    for i in range(80 if tier == 'quick' else 800):
        yield gen_sock(rng)
    for i in range(30 if tier == 'quick' else 300):
        yield gen_align(rng)
    for i in range(90 if tier == 'quick' else 900):
        yield gen_clock(rng)
    for i in range(20 if tier == 'quick' else 200):
        yield gen_clock(rng, big=True)
    for i in range(60 if tier == 'quick' else 600):
        yield gen_destroy(rng)
    for i in range(45 if tier == 'quick' else 400):
        yield gen_state(rng)
    # a name whose query exceeds the largest UDP payload: every sendto fails with EMSGSIZE on its own
    yield ['lookupn ' + hx(b'.'.join([b'x' * 60] * 1100)) + ' - -', 'running 1'] + ['tick'] * 5 + ['running 1']
    if tier == 'thorough':
        # all 65 535 ids outstanding: the next request() is refused; after one cancel exactly that id is handed out
        yield ['burst 65535', 'lookup', 'running 65535', 'running 0', 'cancel 7', 'running 7', 'lookup', 'running 7', 'lookup',
               'recv ' + hx(hdr(7, 0x8183, 1, 0) + b'\x01a\x00' + u16(1) + u16(1)), 'running 7']
    if tier == 'thorough':
        # every truncation offset and every single-byte overwrite (a few values) of two structured replies
        for _ in range(2):
            r = rand_reply(rng, 1)
            while len(r.records) < 2: r = rand_reply(rng, 1)
            good = r.build()
            ops = ['lookup'] + ['recv ' + hx(good[:i]) for i in range(len(good))] + ['running 1', 'recv ' + hx(good), 'running 1']
            yield ops
            for o in range(len(good)):
                for v in (0x00, 0x3F, 0xC0, 0xFF, o & 255):
                    d = bytearray(good); d[o] = v
                    yield ['lookup', 'recv ' + hx(bytes(d)), 'running 1', 'cancel 1']


def nontrivial(ops, model_lines):
    tags = ' '.join(l for l in model_lines if l.startswith('B '))
    reached = any(t in tags for t in ('answer', 'malformed', 'rcode', 'srvfail', 'short', 'not-response'))
    return 1 if (reached and any(l.startswith('P cb ') for l in model_lines)) else None


def fingerprint(ops, d):
    import hashlib
    what = ''
    if d:
        impl = d[1]
        if impl.startswith('CRASH'): what = impl.split(':')[0] + ':' + impl.split(':')[-1][:24]
        elif impl.startswith('P cb'): what = 'cb-' + impl.split()[3]
        else: what = impl.split(' ')[0]
    kinds = ' '.join(o.split()[0] for o in ops)
    recvs = [o.split()[1] for o in ops if o.startswith('recv ') and len(o.split()) == 2]
    size = ('short' if recvs and len(recvs[-1]) < 24 else 'full') if recvs else 'none'
    return hashlib.sha1((kinds + '|' + what + '|' + size).encode()).hexdigest()[:12]


LEVEL_TEXT = ('Round 4: clock/lifetime layer - C15_callback_once for every history with arbitrary clock advances (a pass = k catch-up firings of the persistent timer, none skipped or doubled) and object destructions (a lookup outstanding at destruction is never called, the dead object is quiet), the timer is armed strictly ahead of the clock by at most one interval whenever anything is in the ring, a pass 5 s or more after the previous operation completes everything that was outstanding; a timeout is five FIRINGS, not five seconds (example theorem: retries inside a catch-up pass time out with zero delay). Lean 4 theorems over a hand-written model of the DNS client (request encoder, UDP socket layer with the kernel\'s answers as oracle inputs, reply parser, pending map + timeout ring): well-formed names round-trip through encoder and decoder (partial: request() checks nothing, 4 counterexample theorems), failed/empty recvfrom answers are no-ops, a datagram cut by the 4096-byte buffer reports only what the full datagram encodes, a QR=0 echo completes nothing, the record loops run at most |d|/5+1 and |d|/11+1 iterations whatever the counts claim; name decoding needs fuel <= 17*(len+2) (hop limit), '
              'no parse outcome reads an unset destination and every dereferenced byte range lies inside the datagram, every reported '
              'address/name is decoded from in-bounds bytes of completely present records, each lookup\'s callback runs at most once, '
              'C15_callback_once at full strength: each lookup\'s callback runs exactly once — a reply/error before, or a timeout exactly at, its fifth tick — unless cancelled (then never) or refused, for every history incl. id wrap and callbacks that issue and cancel lookups (the id allocation provably finds a free id: pigeonhole); '
              'counterexample theorems for the unpatched parser; the model is tied to the code on every run by differential execution '
              '(ASan+UBSan build of the working tree, virtual clock)')
LEVEL_NOTE = ('trusted: Lean kernel, hand-written model + differential tie (coverage bounded by the generator, measured in evidence); '
              'counterexample theorems for the as-found parser, callback order and id allocation')
TECHNIQUE = 'Lean 4 invariant proofs (parser Hoare logic with explicit fuel, pending-map/timeout-ring invariant) + model/implementation correspondence check'
DESIGN_REF = 'DESIGN.md §6 C15, §7 row 12'
