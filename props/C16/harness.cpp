// C16 harness: builds real tbox::flow::StateMachine hierarchies from the definition lines of an
// op file, runs the call sequence on the root and prints the global trace of every callback
// (guards, handlers, exit/transition/enter actions, state-changed notifications, what scripted
// callback bodies observed / which re-entrant calls they made) plus the return value and the
// five observers of every machine after each call.  Same format as lean/Driver/C16.lean.
#include "vh.h"
#include <functional>
#include <map>
#include <memory>
#include <set>
#include <tbox/flow/state_machine.h>

using tbox::flow::Event;
using tbox::flow::StateMachine;

static const size_t kMaxDepth = 3;

// ---- strict parsers (must accept exactly what the Lean driver accepts) ----
static bool p_int(const std::string &s, int &v) {
    size_t i = 0; bool neg = false;
    if (!s.empty() && s[0] == '-') { neg = true; i = 1; }
    size_t nd = s.size() - i;
    if (nd == 0 || nd > 9) return false;
    long x = 0;
    for (; i < s.size(); ++i) { if (s[i] < '0' || s[i] > '9') return false; x = x * 10 + (s[i] - '0'); }
    v = (int)(neg ? -x : x);
    return true;
}
static bool p_nat(const std::string &s, size_t &v) {
    int i; if (s.empty() || s[0] == '-' || !p_int(s, i)) return false; v = (size_t)i; return true;
}
static std::vector<std::string> split(const std::string &s, char sep) {   // like String.splitOn
    std::vector<std::string> r; std::string cur;
    for (char c : s) { if (c == sep) { r.push_back(cur); cur.clear(); } else cur.push_back(c); }
    r.push_back(cur);
    return r;
}

struct SOp { char kind; int ev; };   // 'o' obs, 's' start, 'x' stop, 'r' restart, 'e' run(ev)
typedef std::vector<SOp> Script;

static bool p_script(const std::string &s, Script &out) {
    out.clear();
    if (s == ".") return true;
    for (auto &t : split(s, ',')) {
        if (t == "o" || t == "s" || t == "x" || t == "r") out.push_back({t[0], 0});
        else if (!t.empty() && t[0] == 'e') { int e; if (!p_int(t.substr(1), e)) return false; out.push_back({'e', e}); }
        else return false;
    }
    return true;
}
// "-" = nullptr
static bool p_probe(const std::string &s, bool &has, Script &sc) {
    if (s == "-") { has = false; sc.clear(); return true; }
    has = true; return p_script(s, sc);
}
static bool p_intlist(const std::string &s, std::vector<int> &out) {
    out.clear();
    if (s.empty()) return true;
    for (auto &t : split(s, '|')) { int v; if (!p_int(t, v)) return false; out.push_back(v); }
    return true;
}
static bool p_guard(const std::string &s, bool &has, std::vector<int> &evs, Script &sc) {
    if (s == "-") { has = false; return true; }
    if (s.empty() || s[0] != 'G') return false;
    auto parts = split(s.substr(1), '/');
    if (parts.size() != 2) return false;
    has = true;
    return p_intlist(parts[0], evs) && p_script(parts[1], sc);
}
static bool p_table(const std::string &s, std::vector<std::pair<int,int>> &tbl, int &dflt) {
    tbl.clear();
    auto ps = split(s, '|');
    for (size_t i = 0; i < ps.size(); ++i) {
        auto ab = split(ps[i], '>');
        if (ab.size() != 2) return false;
        int b; if (!p_int(ab[1], b)) return false;
        if (i + 1 == ps.size()) { if (ab[0] != "*") return false; dflt = b; }
        else { int a; if (!p_int(ab[0], a)) return false; tbl.push_back({a, b}); }
    }
    return !ps.empty();
}

// ---- machines ----
struct Mach {
    StateMachine sm;
    std::vector<int> order;            // state ids in definition order (successful newState only)
    std::map<int, size_t> sub;         // state id -> machine index
    std::map<int, size_t> nroutes;     // state id -> number of routes added so far
    std::string path = "?";
};
static std::vector<std::unique_ptr<Mach>> g_m;
static std::set<size_t> g_consumed;
static long g_cur = -1;
static long g_root = -1;

static std::string view(StateMachine &sm) {
    std::ostringstream o;
    o << sm.currentState() << "," << sm.lastState() << "," << sm.nextState() << ","
      << (sm.isRunning() ? 1 : 0) << "," << (sm.isTerminated() ? 1 : 0);
    return o.str();
}
static void T(Mach *m, const std::string &s) { std::cout << "P T " << m->path << " " << s << "\n"; }

static void run_script(Mach *m, const Script &sc) {
    for (auto &op : sc) {
        if (op.kind == 'o') { T(m, "obs " + view(m->sm)); continue; }
        std::string before = view(m->sm), name; bool res = false;
        switch (op.kind) {
            case 's': name = "start"; res = m->sm.start(); break;
            case 'x': name = "stop"; m->sm.stop(); break;
            case 'r': name = "restart"; res = m->sm.restart(); break;
            default:  name = "run:" + std::to_string(op.ev); res = m->sm.run(Event(op.ev)); break;
        }
        T(m, "call " + name + " " + (res ? "1" : "0") + " " + before + " " + view(m->sm));
    }
}
static std::string S(int v) { return std::to_string(v); }

static void assign_paths(size_t k, const std::string &path) {
    Mach *m = g_m[k].get();
    m->path = path.empty() ? "/" : path;
    for (int sid : m->order) { auto it = m->sub.find(sid); if (it != m->sub.end()) assign_paths(it->second, path + "/" + S(sid)); }
}
static size_t depth(size_t k) {
    size_t d = 0; Mach *m = g_m[k].get();
    for (auto &p : m->sub) d = std::max(d, 1 + depth(p.second));
    return d;
}
static void snap(size_t k, std::string &out) {
    Mach *m = g_m[k].get();
    if (!out.empty()) out += " ";
    out += m->path + ":" + view(m->sm);
    for (int sid : m->order) { auto it = m->sub.find(sid); if (it != m->sub.end()) snap(it->second, out); }
}
static void print_snap() { std::string s; snap((size_t)g_root, s); std::cout << "P S " << s << "\n"; }

static void reset_all() { g_m.clear(); g_consumed.clear(); g_cur = -1; g_root = -1; }

static bool def_line(const std::vector<std::string> &w) {
    Mach *m = g_m[(size_t)g_cur].get();
    const std::string &op = w[0];
    if (op == "st" && w.size() == 4) {
        int sid; bool he, hx; Script se, sx;
        if (!p_int(w[1], sid) || !p_probe(w[2], he, se) || !p_probe(w[3], hx, sx) || sid < 0) return false;
        StateMachine::ActionFunc en, ex;
        if (he) en = [m, sid, se](Event e) { T(m, "enter " + S(sid) + " " + S(e.id)); run_script(m, se); };
        if (hx) ex = [m, sid, sx](Event e) { T(m, "exit " + S(sid) + " " + S(e.id)); run_script(m, sx); };
        bool ok = m->sm.newState(sid, en, ex);
        if (ok) m->order.push_back(sid);
        std::cout << "P st " << (ok ? 1 : 0) << "\n";
        return true;
    }
    if (op == "rt" && w.size() == 6) {
        int src, ev, dst; bool hg = false, ha; std::vector<int> gevs; Script gs, as;
        if (!p_int(w[1], src) || !p_int(w[2], ev) || !p_int(w[3], dst) || !p_guard(w[4], hg, gevs, gs) || !p_probe(w[5], ha, as)) return false;
        size_t idx = m->nroutes[src];
        StateMachine::GuardFunc g; StateMachine::ActionFunc a;
        if (hg) g = [m, src, idx, gevs, gs](Event e) {
            bool r = false; for (int x : gevs) if (x == e.id) r = true;
            T(m, "guard " + S(src) + " " + std::to_string(idx) + " " + S(e.id) + " " + (r ? "1" : "0"));
            run_script(m, gs);
            return r;
        };
        if (ha) a = [m, src, idx, as](Event e) { T(m, "act " + S(src) + " " + std::to_string(idx) + " " + S(e.id)); run_script(m, as); };
        bool ok = m->sm.addRoute(src, ev, dst, g, a);
        if (ok) m->nroutes[src] = idx + 1;
        std::cout << "P rt " << (ok ? 1 : 0) << "\n";
        return true;
    }
    if (op == "ev" && w.size() == 5) {
        int sid, ev, dflt = -1; std::vector<std::pair<int,int>> tbl; Script sc;
        if (!p_int(w[1], sid) || !p_int(w[2], ev) || !p_table(w[3], tbl, dflt) || !p_script(w[4], sc)) return false;
        std::string key = ev == 0 ? "*" : S(ev);
        StateMachine::EventFunc f = [m, sid, key, tbl, dflt, sc](Event e) {
            int r = dflt; for (auto &p : tbl) if (p.first == e.id) { r = p.second; break; }
            T(m, "hdl " + S(sid) + " " + key + " " + S(e.id) + " " + S(r));
            run_script(m, sc);
            return r;
        };
        bool ok = m->sm.addEvent(sid, ev, f);
        std::cout << "P ev " << (ok ? 1 : 0) << "\n";
        return true;
    }
    if (op == "init" && w.size() == 2) {
        int sid; if (!p_int(w[1], sid)) return false;
        m->sm.setInitState(sid);
        std::cout << "P init\n";
        return true;
    }
    if (op == "cb" && w.size() == 2) {
        Script sc; if (!p_script(w[1], sc)) return false;
        m->sm.setStateChangedCallback([m, sc](int from, int to, Event e) {
            T(m, "chg " + S(from) + " " + S(to) + " " + S(e.id)); run_script(m, sc);
        });
        std::cout << "P cb\n";
        return true;
    }
    if (op == "sub" && w.size() == 3) {
        int sid; size_t j;
        if (!p_int(w[1], sid) || !p_nat(w[2], j)) return false;
        if (j >= g_m.size() || (long)j == g_cur || g_consumed.count(j)) return false;
        bool ok = m->sm.setSubStateMachine(sid, &g_m[j]->sm);
        if (ok) { m->sub[sid] = j; g_consumed.insert(j); }
        std::cout << "P sub " << (ok ? 1 : 0) << "\n";
        return true;
    }
    if (op == "end" && w.size() == 1) {
        std::cout << "P end " << g_cur << "\n";
        g_cur = -1;
        return true;
    }
    return false;
}

static bool call_line(const std::vector<std::string> &w) {
    StateMachine &sm = g_m[(size_t)g_root]->sm;
    std::string res;
    if (w.size() == 1 && w[0] == "start") res = sm.start() ? "1" : "0";
    else if (w.size() == 1 && w[0] == "stop") { sm.stop(); res = "-"; }
    else if (w.size() == 1 && w[0] == "restart") res = sm.restart() ? "1" : "0";
    else if (w.size() == 2 && w[0] == "run") { int e; if (!p_int(w[1], e)) return false; res = sm.run(Event(e)) ? "1" : "0"; }
    else return false;
    std::cout << "P R " << res << "\n";
    print_snap();
    return true;
}

int main() {
    std::string line;
    while (std::getline(std::cin, line)) {
        auto w = vh::words(line);
        if (w.empty()) continue;
        if (w[0] == "case") { reset_all(); std::cout << line << "\n"; continue; }
        bool ok = false;
        if (g_root >= 0) ok = call_line(w);
        else if (g_cur >= 0) ok = def_line(w);
        else if (w.size() == 1 && w[0] == "mach") {
            g_m.emplace_back(new Mach());
            g_cur = (long)g_m.size() - 1;
            std::cout << "P mach " << g_cur << "\n";
            ok = true;
        } else if (w.size() == 2 && w[0] == "go") {
            size_t k;
            if (p_nat(w[1], k) && k < g_m.size() && !g_consumed.count(k) && depth(k) <= kMaxDepth) {
                g_root = (long)k;
                assign_paths(k, "");
                std::cout << "P go\n";
                print_snap();
                ok = true;
            }
        }
        if (!ok) std::cout << "bad-op\n";
        std::cout.flush();
    }
    reset_all();
    return 0;
}
