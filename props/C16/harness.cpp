// C16 harness: builds real tbox::flow::StateMachine objects from the definition lines of an op
// file, wires them into a hierarchy (a machine may be attached to several states), runs the call
// sequence and prints the global trace of every callback (guards, handlers, exit/transition/
// enter actions, state-changed notifications, what scripted callback bodies observed and which
// calls they made on ANY machine of the case) plus the return value and the five observers of
// every machine after each call.  Same format as lean/Driver/C16.lean.
// Machine k is named "m<k>", state <sid> gets the label "L<sid>", the i-th route of a state "R<i>";
// `json [@k]` prints what toJson() of machine k (default: the root) put into the Json object.
#include "vh.h"
#include <deque>
#include <functional>
#include <map>
#include <memory>
#include <set>
#include <tbox/flow/state_machine.h>
#include <tbox/base/json.hpp>

using tbox::flow::Event;
using tbox::flow::StateMachine;
using tbox::Json;

// ---- strict parsers (must accept exactly what the Lean driver accepts) ----
// optional '-', 1..10 digits, value in [INT_MIN, INT_MAX]
static bool p_int(const std::string &s, int &v) {
    size_t i = 0; bool neg = false;
    if (!s.empty() && s[0] == '-') { neg = true; i = 1; }
    size_t nd = s.size() - i;
    if (nd == 0 || nd > 10) return false;
    long long x = 0;                       // at most 10 digits: no overflow in 64 bits
    for (; i < s.size(); ++i) { if (s[i] < '0' || s[i] > '9') return false; x = x * 10 + (s[i] - '0'); }
    if (neg) x = -x;
    if (x < -2147483648LL || x > 2147483647LL) return false;    // the full range of `int`, nothing beyond
    v = (int)x;
    return true;
}
static bool p_nat(const std::string &s, size_t &v) {
    int i; if (s.empty() || s[0] == '-' || !p_int(s, i)) return false; v = (size_t)i; return true;
}
static std::vector<std::string> split(const std::string &s, char sep) {   // like String.splitOn
    std::vector<std::string> r; std::string cur;
    for (char c : s) { if (c == sep) { r.push_back(cur); cur.clear(); } else cur.push_back(c); }
    r.push_back(cur);
    return r;
}

struct Ev { int id; size_t tag; };            // tag 0 = extra is nullptr
// "<id>" | "<id>:<tag>"
static bool p_event(const std::string &s, Ev &e) {
    auto ps = split(s, ':');
    if (ps.size() == 1) { e.tag = 0; return p_int(ps[0], e.id); }
    if (ps.size() == 2) return p_int(ps[0], e.id) && p_nat(ps[1], e.tag);
    return false;
}
static std::deque<int> g_tags;               // storage the `extra` pointers point into
static std::map<size_t, const int *> g_tagptr;
static Event mk_event(const Ev &e) {
    if (e.tag == 0) return Event(e.id);
    auto it = g_tagptr.find(e.tag);
    if (it == g_tagptr.end()) { g_tags.push_back((int)e.tag); it = g_tagptr.emplace(e.tag, &g_tags.back()).first; }
    return Event(e.id, it->second);
}
static std::string ES(const Event &e) {
    std::string s = std::to_string(e.id);
    if (e.extra != nullptr) s += ":" + std::to_string(*static_cast<const int *>(e.extra));
    return s;
}

struct SOp { char kind; Ev ev; long target; size_t di; };   // 'o' obs, 's' start, 'x' stop, 'r' restart, 'e' run(ev), 'd' table entry di; target -1 = own machine
typedef std::vector<SOp> Script;
static size_t g_max_target = 0; static bool g_has_target = false;

static bool p_sop(const std::string &t0, SOp &op) {
    auto at = split(t0, '@');
    if (at.size() > 2) return false;
    op.target = -1; op.di = 0;
    if (at.size() == 2) { size_t k; if (!p_nat(at[1], k)) return false; op.target = (long)k; }
    const std::string &t = at[0];
    if (t == "o" || t == "s" || t == "x" || t == "r") { op.kind = t[0]; op.ev = {0, 0}; return true; }
    if (!t.empty() && t[0] == 'e') { op.kind = 'e'; return p_event(t.substr(1), op.ev); }
    if (!t.empty() && t[0] == 'd') { op.kind = 'd'; op.ev = {0, 0}; return p_nat(t.substr(1), op.di); }
    return false;
}
static bool p_script(const std::string &s, Script &out) {
    out.clear();
    if (s == ".") return true;
    for (auto &t : split(s, ',')) { SOp op; if (!p_sop(t, op)) return false; out.push_back(op); }
    return true;
}
static size_t script_max(const Script &sc, bool &has) {
    size_t m = 0; for (auto &op : sc) if (op.target >= 0) { has = true; m = std::max(m, (size_t)op.target); } return m;
}
// "-" = nullptr
static bool p_probe(const std::string &s, bool &has, Script &sc) {
    if (s == "-") { has = false; sc.clear(); return true; }
    has = true; return p_script(s, sc);
}
static bool p_intlist(const std::string &s, std::vector<int> &out) {
    out.clear();
    if (s.empty()) return true;
    for (auto &t : split(s, '|')) { int v; if (!p_int(t, v)) return false; out.push_back(v); }
    return true;
}
static bool p_guard(const std::string &s, bool &has, std::vector<int> &evs, Script &sc) {
    if (s == "-") { has = false; return true; }
    if (s.empty() || s[0] != 'G') return false;
    auto parts = split(s.substr(1), '/');
    if (parts.size() != 2) return false;
    has = true;
    return p_intlist(parts[0], evs) && p_script(parts[1], sc);
}
static bool p_table(const std::string &s, std::vector<std::pair<int,int>> &tbl, int &dflt) {
    tbl.clear();
    auto ps = split(s, '|');
    for (size_t i = 0; i < ps.size(); ++i) {
        auto ab = split(ps[i], '>');
        if (ab.size() != 2) return false;
        int b; if (!p_int(ab[1], b)) return false;
        if (i + 1 == ps.size()) { if (ab[0] != "*") return false; dflt = b; }
        else { int a; if (!p_int(ab[0], a)) return false; tbl.push_back({a, b}); }
    }
    return !ps.empty();
}

// ---- machines ----
struct Mach {
    StateMachine sm;
    size_t idx = 0;
    std::map<int, size_t> sub;         // state id -> machine index (successful setSubStateMachine only)
    std::map<int, size_t> nroutes;     // state id -> number of routes added so far
};
static std::vector<std::unique_ptr<Mach>> g_m;
static long g_cur = -1;
static long g_root = -1;

static std::string view(StateMachine &sm) {
    std::ostringstream o;
    o << sm.currentState() << "," << sm.lastState() << "," << sm.nextState() << ","
      << (sm.isRunning() ? 1 : 0) << "," << (sm.isTerminated() ? 1 : 0);
    return o.str();
}
static void T(Mach *m, const std::string &s) { std::cout << "P T " << m->idx << " " << s << "\n"; }
static std::string S(int v) { return std::to_string(v); }

struct DefArgs;
static bool exec_tpl(Mach *t, size_t i);
static void run_script(Mach *m, const Script &sc) {
    for (auto &op : sc) {
        Mach *t = op.target < 0 ? m : g_m[(size_t)op.target].get();
        std::string tg = op.target < 0 ? "" : "@" + std::to_string(op.target);
        if (op.kind == 'o') { T(m, "obs" + tg + " " + view(t->sm)); continue; }
        std::string before = view(t->sm), name; bool res = false;
        switch (op.kind) {
            case 'd': name = "def" + std::to_string(op.di); res = exec_tpl(t, op.di); break;
            case 's': name = "start"; res = t->sm.start(); break;
            case 'x': name = "stop"; t->sm.stop(); break;
            case 'r': name = "restart"; res = t->sm.restart(); break;
            default:  { Event e = mk_event(op.ev); name = "run:" + ES(e); res = t->sm.run(e); break; }
        }
        T(m, "call" + tg + " " + name + " " + (res ? "1" : "0") + " " + before + " " + view(t->sm));
    }
}

// machine `to` reachable from `from` through sub-machine attachments (or equal)
static bool reaches(size_t from, size_t to) {
    if (from == to) return true;
    for (auto &p : g_m[from]->sub) if (reaches(p.second, to)) return true;
    return false;
}
// an attachment cycle is reachable from machine k (a `sub` entry of the table may have closed one)
static bool cyclic_from(size_t k, std::vector<size_t> &path) {
    for (size_t p : path) if (p == k) return true;
    path.push_back(k);
    bool r = false;
    for (auto &p : g_m[k]->sub) if (cyclic_from(p.second, path)) { r = true; break; }
    path.pop_back();
    return r;
}
static void print_snap() {
    std::string s;
    for (size_t k = 0; k < g_m.size(); ++k) { if (k) s += " "; s += std::to_string(k) + ":" + view(g_m[k]->sm); }
    std::cout << "P S " << s << "\n";
}
static void reset_tpl();
static void reset_all() { g_m.clear(); g_cur = -1; g_root = -1; g_tags.clear(); g_tagptr.clear(); g_max_target = 0; g_has_target = false; reset_tpl(); }
static void note(const Script &sc) { bool h = false; size_t m = script_max(sc, h); if (h) { g_has_target = true; g_max_target = std::max(g_max_target, m); } }
static bool targets_ok(const Script &sc) { bool h = false; size_t m = script_max(sc, h); return !h || m < g_m.size(); }

// one definition call, parsed (what the C++ call is given); `tpl` lines keep these for the script op d<i>
struct DefArgs {
    std::string op;                       // st rt ev init cb sub
    int sid = 0, ev = 0, dst = 0, dflt = -1;
    bool h1 = false, h2 = false;          // st: enter/exit present; rt: guard/action present
    Script s1, s2;
    std::vector<int> gevs;
    std::vector<std::pair<int,int>> tbl;
    size_t j = 0;
};
static std::vector<DefArgs> g_tpl;
static size_t g_max_d = 0; static bool g_has_d = false;      // largest table entry a script refers to
static size_t g_max_j = 0; static bool g_has_j = false;      // largest machine a `sub` entry attaches
static void reset_tpl() { g_tpl.clear(); g_max_d = 0; g_has_d = false; g_max_j = 0; g_has_j = false; }
static void note_d(const Script &sc) { for (auto &op : sc) if (op.kind == 'd') { g_has_d = true; g_max_d = std::max(g_max_d, op.di); } }
static bool d_ok(const Script &sc) { for (auto &op : sc) if (op.kind == 'd' && op.di >= g_tpl.size()) return false; return true; }

static bool parse_def(const std::vector<std::string> &w, size_t o, DefArgs &a) {
    if (o >= w.size()) return false;
    a.op = w[o];
    size_t n = w.size() - o;
    if (a.op == "st" && n == 4) return p_int(w[o+1], a.sid) && p_probe(w[o+2], a.h1, a.s1) && p_probe(w[o+3], a.h2, a.s2);
    if (a.op == "rt" && n == 6) return p_int(w[o+1], a.sid) && p_int(w[o+2], a.ev) && p_int(w[o+3], a.dst) && p_guard(w[o+4], a.h1, a.gevs, a.s1) && p_probe(w[o+5], a.h2, a.s2);
    if (a.op == "ev" && n == 5) return p_int(w[o+1], a.sid) && p_int(w[o+2], a.ev) && p_table(w[o+3], a.tbl, a.dflt) && p_script(w[o+4], a.s1);
    if (a.op == "init" && n == 2) return p_int(w[o+1], a.sid);
    if (a.op == "cb" && n == 2) return p_script(w[o+1], a.s1);
    if (a.op == "sub" && n == 3) return p_int(w[o+1], a.sid) && p_nat(w[o+2], a.j);
    return false;
}
static bool exec_def(Mach *m, const DefArgs &a);
static bool exec_tpl(Mach *t, size_t i) { DefArgs a = g_tpl[i]; return exec_def(t, a); }   // a copy: the table may not grow, but keep the call self-contained
static bool def_is_void(const DefArgs &a) { return a.op == "init" || a.op == "cb"; }

// performs the call on machine m; the return value of the API (false for the two void ones)
static bool exec_def(Mach *m, const DefArgs &a) {
    if (a.op == "st") {
        int sid = a.sid; Script se = a.s1, sx = a.s2;
        StateMachine::ActionFunc en, ex;
        if (a.h1) en = [m, sid, se](Event e) { T(m, "enter " + S(sid) + " " + ES(e)); run_script(m, se); };
        if (a.h2) ex = [m, sid, sx](Event e) { T(m, "exit " + S(sid) + " " + ES(e)); run_script(m, sx); };
        return m->sm.newState(sid, en, ex, "L" + S(sid));
    }
    if (a.op == "rt") {
        int src = a.sid; std::vector<int> gevs = a.gevs; Script gs = a.s1, as = a.s2;
        size_t idx = m->nroutes[src];
        StateMachine::GuardFunc g; StateMachine::ActionFunc act;
        if (a.h1) g = [m, src, idx, gevs, gs](Event e) {
            bool r = false; for (int x : gevs) if (x == e.id) r = true;
            T(m, "guard " + S(src) + " " + std::to_string(idx) + " " + ES(e) + " " + (r ? "1" : "0"));
            run_script(m, gs);
            return r;
        };
        if (a.h2) act = [m, src, idx, as](Event e) { T(m, "act " + S(src) + " " + std::to_string(idx) + " " + ES(e)); run_script(m, as); };
        bool ok = m->sm.addRoute(src, a.ev, a.dst, g, act, "R" + std::to_string(idx));
        if (ok) m->nroutes[src] = idx + 1;
        return ok;
    }
    if (a.op == "ev") {
        int sid = a.sid, dflt = a.dflt; std::vector<std::pair<int,int>> tbl = a.tbl; Script sc = a.s1;
        std::string key = a.ev == 0 ? "*" : S(a.ev);
        StateMachine::EventFunc f = [m, sid, key, tbl, dflt, sc](Event e) {
            int r = dflt; for (auto &p : tbl) if (p.first == e.id) { r = p.second; break; }
            T(m, "hdl " + S(sid) + " " + key + " " + ES(e) + " " + S(r));
            run_script(m, sc);
            return r;
        };
        return m->sm.addEvent(sid, a.ev, f);
    }
    if (a.op == "init") { m->sm.setInitState(a.sid); return false; }
    if (a.op == "cb") {
        // the callback may be REPLACED while it runs (a `cb` entry of the table performed from inside the notification:
        // `state_changed_cb_ = std::move(cb)` destroys the executing closure); the body therefore works on copies
        auto sp = std::make_shared<const Script>(a.s1);
        m->sm.setStateChangedCallback([m, sp](int from, int to, Event e) {
            Mach *mm = m; std::shared_ptr<const Script> keep = sp;
            T(mm, "chg " + S(from) + " " + S(to) + " " + ES(e)); run_script(mm, *keep);
        });
        return false;
    }
    // sub
    bool ok = m->sm.setSubStateMachine(a.sid, &g_m[a.j]->sm);
    if (ok) m->sub[a.sid] = a.j;
    return ok;
}

// one definition line on machine m; `late` = after `go` (targets are checked at once, the answer is "P def …")
static bool def_line(Mach *m, const std::vector<std::string> &w, size_t o, bool late) {
    if (!late && w[o] == "end" && w.size() - o == 1) {
        std::cout << "P end " << g_cur << "\n";
        g_cur = -1;
        return true;
    }
    DefArgs a;
    if (!parse_def(w, o, a)) return false;
    if (late && (!targets_ok(a.s1) || !targets_ok(a.s2) || !d_ok(a.s1) || !d_ok(a.s2))) return false;
    if (a.op == "sub" && (a.j >= g_m.size() || (long)a.j == g_cur || reaches(a.j, m->idx))) return false;   // no cycles
    note(a.s1); note(a.s2); note_d(a.s1); note_d(a.s2);
    bool ok = exec_def(m, a);
    const char *pre = late ? "P def " : "P ";
    if (def_is_void(a)) std::cout << pre << a.op << "\n";
    else std::cout << pre << a.op << " " << (ok ? 1 : 0) << "\n";
    return true;
}

// ---- canonical text of what toJson() emitted (same text: lean/TboxModel/C16/Json.lean `aJson`) ----
//   machine := {name=<s> run=<b> init=<i> term=<i> curr=<i or -> states=[<state>,…]}
//   state   := {id=<i> label=<s> sub=<machine or -> routes=[(<event_id>><next_state_id>:<s>),…] events=[<i>,…]}
// <s> = the string in double quotes, <b> = true/false, <i> = decimal; a missing member prints `~`
// (`-` for curr_state / sub_sm, which the code leaves out), a member of another JSON type `?<type>`;
// a null or missing array member is the empty list.  Members are looked up by key, arrays are
// printed in the order the code pushed the elements.
static std::string j_scalar(const Json &o, const char *key, char want, const char *absent = "~") {
    auto it = o.find(key);
    if (it == o.end()) return absent;
    const Json &v = *it;
    if (want == 's' && v.is_string()) return "\"" + v.get<std::string>() + "\"";
    if (want == 'b' && v.is_boolean()) return v.get<bool>() ? "true" : "false";
    if (want == 'i' && v.is_number_integer()) return std::to_string(v.get<long long>());
    return std::string("?") + v.type_name();
}
template <class F> static std::string j_list(const Json &o, const char *key, F elem) {
    auto it = o.find(key);
    if (it == o.end() || it->is_null()) return "[]";
    if (!it->is_array()) return std::string("?") + it->type_name();
    std::string s = "["; bool first = true;
    for (const Json &e : *it) { if (!first) s += ","; first = false; s += elem(e); }
    return s + "]";
}
static std::string j_machine(const Json &js) {
    if (!js.is_object()) return std::string("?") + js.type_name();
    std::string s = "{name=" + j_scalar(js, "name", 's') + " run=" + j_scalar(js, "is_running", 'b') +
        " init=" + j_scalar(js, "init_state", 'i') + " term=" + j_scalar(js, "term_state", 'i') +
        " curr=" + j_scalar(js, "curr_state", 'i', "-") + " states=";
    s += j_list(js, "states", [](const Json &st) -> std::string {
        if (!st.is_object()) return std::string("?") + st.type_name();
        auto sub = st.find("sub_sm");
        std::string t = "{id=" + j_scalar(st, "id", 'i') + " label=" + j_scalar(st, "label", 's') +
            " sub=" + (sub == st.end() ? std::string("-") : j_machine(*sub)) + " routes=";
        t += j_list(st, "routes", [](const Json &r) -> std::string {
            if (!r.is_object()) return std::string("?") + r.type_name();
            return "(" + j_scalar(r, "event_id", 'i') + ">" + j_scalar(r, "next_state_id", 'i') + ":" + j_scalar(r, "label", 's') + ")";
        });
        t += " events=" + j_list(st, "events", [](const Json &e) -> std::string {
            return e.is_number_integer() ? std::to_string(e.get<long long>()) : std::string("?") + e.type_name();
        });
        return t + "}";
    });
    return s + "}";
}

static bool call_line(std::vector<std::string> w) {
    size_t k = (size_t)g_root;
    if (w.size() >= 2 && w.back().size() >= 2 && w.back()[0] == '@') {
        if (!p_nat(w.back().substr(1), k) || k >= g_m.size()) return false;
        w.pop_back();
    }
    StateMachine &sm = g_m[k]->sm;
    if (w.size() == 1 && w[0] == "json") {          // toJson() is const: the snapshot after it shows that nothing moved
        std::vector<size_t> path;
        if (cyclic_from(k, path)) return false;      // toJson() recurses without bound on an attachment cycle
        Json js; sm.toJson(js);
        std::cout << "P J " << j_machine(js) << "\n";
        print_snap();
        return true;
    }
    std::string res;
    if (w.size() == 1 && w[0] == "start") res = sm.start() ? "1" : "0";
    else if (w.size() == 1 && w[0] == "stop") { sm.stop(); res = "-"; }
    else if (w.size() == 1 && w[0] == "restart") res = sm.restart() ? "1" : "0";
    else if (w.size() == 2 && w[0] == "run") { Ev e; if (!p_event(w[1], e)) return false; res = sm.run(mk_event(e)) ? "1" : "0"; }
    else return false;
    std::cout << "P R " << res << "\n";
    print_snap();
    return true;
}

int main() {
    std::string line;
    while (std::getline(std::cin, line)) {
        auto w = vh::words(line);
        if (w.empty()) continue;
        if (w[0] == "case") { reset_all(); std::cout << line << "\n"; continue; }
        bool ok = false;
        if (g_root >= 0) {
            if (w[0] == "def" && w.size() >= 3) {
                size_t k;
                if (p_nat(w[1], k) && k < g_m.size()) { ok = def_line(g_m[k].get(), w, 2, true); if (ok) print_snap(); }
            } else ok = call_line(w);
        }
        else if (g_cur >= 0) ok = def_line(g_m[(size_t)g_cur].get(), w, 0, false);
        else if (w[0] == "tpl") {
            DefArgs a;
            if (parse_def(w, 1, a)) {
                note(a.s1); note(a.s2); note_d(a.s1); note_d(a.s2);
                if (a.op == "sub") { g_has_j = true; g_max_j = std::max(g_max_j, a.j); }
                std::cout << "P tpl " << g_tpl.size() << "\n";
                g_tpl.push_back(a);
                ok = true;
            }
        }
        else if (w.size() == 1 && w[0] == "mach") {
            g_m.emplace_back(new Mach());
            g_cur = (long)g_m.size() - 1;
            g_m.back()->idx = (size_t)g_cur;
            g_m.back()->sm.setName("m" + std::to_string(g_cur));
            std::cout << "P mach " << g_cur << "\n";
            ok = true;
        } else if (w.size() == 2 && w[0] == "go") {
            size_t k;
            if (p_nat(w[1], k) && k < g_m.size() && (!g_has_target || g_max_target < g_m.size()) &&
                (!g_has_j || g_max_j < g_m.size()) && (!g_has_d || g_max_d < g_tpl.size())) {
                g_root = (long)k;
                std::cout << "P go\n";
                print_snap();
                ok = true;
            }
        }
        if (!ok) std::cout << "bad-op\n";
        std::cout.flush();
    }
    reset_all();
    return 0;
}
