"""C16 — hierarchical state machine conforms to its reference semantics (tbox::flow::StateMachine)."""
ID = 'C16'
LEAN_MODULES = ['TboxModel.C16.Props']
EXE = 'c16'
THEOREMS = ['Tbox.C16.C16_conforms', 'Tbox.C16.C16_conforms_fresh', 'Tbox.C16.C16_first_match',
            'Tbox.C16.C16_order_once', 'Tbox.C16.C16_balanced', 'Tbox.C16.C16_balanced_after_stop',
            'Tbox.C16.C16_reentrancy_rejected', 'Tbox.C16.C16_balanced_counterexample_unpatched',
            'Tbox.C16.C16_balanced_after_stop_false_unpatched']
import vlib
SOURCES = ['modules/flow/state_machine.cpp'] + vlib.BASE_SOURCES
FLAVOUR = 'asan'
BATCH = 300
MAX_REPORT = 3
SHRINK_TESTS = 80
TRUSTED = ['model lean/TboxModel/C16/Model.lean is hand-written from modules/flow/state_machine.cpp (with patches/C16-01 applied); '
           'tied by differential runs of generated machine hierarchies',
           'callbacks are data (scripts): a callback body only logs, observes its own machine or calls start/stop/restart/run on its OWN machine; '
           'calls from a callback on another machine of the hierarchy, a sub-machine object shared by two states, definition calls after '
           'the first start and calls addressed directly to a sub-machine are outside the model',
           'Event.extra is always nullptr; toJson/setName are not modelled']
ASSUMPTIONS = ['std::function callbacks do not throw', 'state/event ids fit in int (the protocol limits them to 9 digits)',
               'each sub-machine object is attached to at most one state and the hierarchy is acyclic']
RULE = ('cases = a generated hierarchy of 1..9 machines (depth <= 3, 1..5 states each incl. user state 0, wildcard/specific routes with '
        'truth-table guards, specific/default event handlers, terminal routes, scripted callbacks with re-entrant calls) + a call sequence of '
        'start/run/stop/restart on the root; non-trivial = the model run takes a transition inside a sub-machine (depth >= 1) and the root '
        'run() returned true at least once; distinct = distinct op text')

EVS = [0, 1, 1, 2, 2, 3, 4, 5]


def g_script(rng, p_call=0.12):
    r = rng.random()
    if r < 0.55: return '.'
    ops = []
    for _ in range(rng.choice([1, 1, 2, 3])):
        if rng.random() < p_call * 2.5:
            ops.append(rng.choice(['s', 'x', 'r', 'e%d' % rng.choice(EVS), 'e%d' % rng.choice(EVS)]))
        else:
            ops.append('o')
    return ','.join(ops)


def g_probe(rng, p_none=0.3):
    return '-' if rng.random() < p_none else g_script(rng)


def g_guard(rng):
    r = rng.random()
    if r < 0.45: return '-'
    evs = [e for e in [0, 1, 2, 3, 4, 5] if rng.random() < 0.5]
    return 'G' + '|'.join(str(e) for e in evs) + '/' + g_script(rng)


def gen_machine(rng, lines, counter, depth_left, is_sub):
    """emit the definition of one machine (children first); returns its index"""
    n = rng.choice([1, 2, 2, 3, 3, 4, 5])
    pool_ids = [1, 2, 3, 4, 5, 6, 7]
    rng.shuffle(pool_ids)
    ids = pool_ids[:n]
    if rng.random() < 0.25:
        ids[rng.randrange(n)] = 0           # user-defined state 0
        if rng.random() < 0.5 and n > 1 and ids[0] == 0:
            ids[0], ids[1] = ids[1], ids[0]
    subs = {}
    for s in ids:
        if depth_left > 0 and rng.random() < (0.45 if not is_sub else 0.3):
            subs[s] = gen_machine(rng, lines, counter, depth_left - 1, True)
    k = counter[0]; counter[0] += 1
    lines.append('mach')
    for s in ids:
        lines.append('st %d %s %s' % (s, g_probe(rng), g_probe(rng)))
    if rng.random() < 0.05:
        lines.append('st %d . .' % ids[0])   # duplicate: newState fails
    # routes
    for s in ids:
        nr = rng.choice([0, 1, 2, 2, 3, 4])
        for _ in range(nr):
            ev = rng.choice([0, 1, 1, 2, 2, 3, 4])
            r = rng.random()
            if r < (0.3 if is_sub else 0.12): to = 0
            elif r < 0.95: to = rng.choice(ids)
            else: to = rng.choice([9, -1, 8])   # missing target: addRoute fails (unless 0)
            lines.append('rt %d %d %d %s %s' % (s, ev, to, g_guard(rng), g_probe(rng, 0.5)))
    if rng.random() < 0.04:
        lines.append('rt 9 1 %d - -' % ids[0])   # missing source
    # handlers
    for s in ids:
        if rng.random() < 0.3:
            for _ in range(rng.choice([1, 1, 2])):
                ev = rng.choice([0, 1, 2, 3])
                ents = []
                for e in rng.sample([1, 2, 3, 4], rng.choice([0, 1, 2])):
                    ents.append('%d>%d' % (e, rng.choice(ids + [-1, -1, 0, 9, -2])))
                ents.append('*>%d' % rng.choice([-1, -1, -1, rng.choice(ids), 0, -2]))
                lines.append('ev %d %d %s %s' % (s, ev, '|'.join(ents), g_script(rng)))
    if rng.random() < 0.03:
        lines.append('ev 9 1 *>-1 .')
    r = rng.random()
    if r < 0.25: lines.append('init %d' % rng.choice(ids))
    elif r < 0.28: lines.append('init 9')       # missing init state: start() fails
    elif r < 0.30: lines.append('init -1')
    if rng.random() < 0.6: lines.append('cb %s' % g_script(rng))
    for s, j in subs.items():
        lines.append('sub %d %d' % (s, j))
    lines.append('end')
    return k


def gen_calls(rng, n):
    ops = []
    if rng.random() < 0.9: ops.append('start')
    for _ in range(n):
        r = rng.random()
        if r < 0.80: ops.append('run %d' % rng.choice(EVS))
        elif r < 0.87: ops.append('stop')
        elif r < 0.93: ops.append('start')
        else: ops.append('restart')
    if rng.random() < 0.7: ops.append('stop')
    return ops


def gen_case(rng, depth):
    lines, counter = [], [0]
    root = gen_machine(rng, lines, counter, depth, False)
    lines.append('go %d' % root)
    return lines + gen_calls(rng, rng.choice([6, 12, 20, 30]))


DIRECTED = [
    # DESIGN §7 row 9: stop() with a running sub-machine
    ['mach', 'st 1 . .', 'st 2 . .', 'rt 1 1 2 - .', 'end',
     'mach', 'st 1 . .', 'st 2 . .', 'rt 1 2 2 - -', 'sub 1 0', 'end', 'go 1',
     'start', 'stop', 'start', 'run 1', 'stop'],
    # depth 2: stop while the innermost machine is active; exits must be inner-to-outer
    ['mach', 'st 1 o o', 'st 2 o o', 'rt 1 1 2 - .', 'rt 2 1 0 - .', 'end',
     'mach', 'st 3 o o', 'st 4 o o', 'rt 3 2 4 - .', 'rt 4 2 0 - .', 'sub 3 0', 'cb o', 'end',
     'mach', 'st 5 o o', 'st 6 o o', 'rt 5 3 6 - .', 'rt 6 3 5 - .', 'sub 5 1', 'cb o', 'end', 'go 2',
     'start', 'run 1', 'run 3', 'stop', 'start', 'run 1', 'run 1', 'run 2', 'run 2', 'run 3', 'run 3', 'restart', 'stop'],
    # route priority: specific after wildcard, guards, handler precedence, handler with bad target
    ['mach', 'st 1 . .', 'st 2 . .', 'st 3 . .',
     'rt 1 2 2 G1/o .', 'rt 1 0 3 G2|3/o .', 'rt 1 2 2 - .', 'rt 2 0 1 - -', 'rt 3 0 0 - o',
     'ev 1 3 *>-1 o', 'ev 1 0 4>2|5>77|*>-1 o', 'cb o,e1,s,x,r', 'end', 'go 0',
     'run 1', 'start', 'start', 'run 1', 'run 2', 'run 9', 'run 3', 'run 4', 'run 1', 'run 5', 'run 0', 'run 0', 'run 1', 'stop', 'stop'],
    # re-entrant calls from every kind of callback
    ['mach', 'st 1 o,s,x,r,e1 o,s,x,r,e1', 'st 0 o,e2 o,x', 'rt 1 1 0 G1/o,e1,x o,r,e1', 'rt 0 2 1 - o', 'ev 1 2 *>-1 o,s,x,r,e2', 'cb o,s,x,e1', 'end', 'go 0',
     'start', 'run 2', 'run 1', 'run 2', 'restart', 'stop'],
    # sub-machine that cannot start (missing init state): the parent never handles events itself
    ['mach', 'st 1 . .', 'init 9', 'end', 'mach', 'st 1 . .', 'st 2 . .', 'rt 1 1 2 - .', 'sub 1 0', 'end', 'go 1',
     'start', 'run 1', 'stop'],
]

MALFORMED = [
    ['start', 'go 0', 'mach', 'mach', 'st -1 . .', 'st 1 . . .', 'st 1 q -', 'st 1 o, -', 'st 1234567890 . .', 'st 1 . .', 'rt 1 1 1 G1 .',
     'rt 1 1 1 G1|/. .', 'rt 1 x 1 - -', 'ev 1 1 1>2 .', 'ev 1 1 *>1|2>3 .', 'ev 1 1 *>-1 -', 'sub 1 0', 'sub 1 5', 'cb -', 'init', 'go 0', 'end',
     'end', 'sub 1 0', 'go 1', 'go -0', 'go 0', 'mach', 'st 1 . .', 'run', 'run 1 2', 'run 1x', 'stop now', 'frob', 'run -0', 'run 007'],
    # nesting deeper than the protocol allows
    ['mach', 'st 1 . .', 'end', 'mach', 'st 1 . .', 'sub 1 0', 'end', 'mach', 'st 1 . .', 'sub 1 1', 'end', 'mach', 'st 1 . .', 'sub 1 2', 'end',
     'mach', 'st 1 . .', 'sub 1 3', 'sub 1 3', 'sub 1 0', 'end', 'go 3', 'go 4', 'start'],
]


def gen(rng, tier):
    n = 2000 if tier == 'quick' else 20000
    for c in MALFORMED: yield c
    for c in DIRECTED: yield c
    # exhaustive small scope: every call sequence up to a length over a fixed depth-2 hierarchy
    import itertools
    defn = DIRECTED[1][:DIRECTED[1].index('go 2') + 1]
    alpha = ['start', 'stop', 'restart', 'run 1', 'run 2', 'run 3']
    for L in range(1, 4 if tier == 'quick' else 6):
        for seq in itertools.product(alpha, repeat=L):
            yield defn + list(seq)
    for i in range(n):
        yield gen_case(rng, rng.choice([0, 1, 2, 2, 3, 3]))
    # hostile stream: valid cases with random lines damaged
    for i in range(n // 10):
        c = gen_case(rng, rng.choice([1, 2]))
        for _ in range(rng.choice([1, 2, 4])):
            j = rng.randrange(len(c))
            r = rng.random()
            if r < 0.3: c[j] = c[j] + ' x'
            elif r < 0.6: c[j] = c[j].replace(' ', '  -', 1) if ' ' in c[j] else 'zz'
            elif r < 0.8: del c[j]
            else: c.insert(j, rng.choice(['end', 'mach', 'go 0', 'sub 1 0', 'run 1', 'start']))
        yield c


def nontrivial(ops, model_lines):
    tags = set()
    for l in model_lines:
        if l.startswith('B '): tags.update(l[2:].split())
    deep = any(t in tags for t in ('depth1', 'depth2', 'depth3'))
    return 1 if (deep and 'run-true' in tags) else None


def _shape(line):
    w = line.split()
    if len(w) >= 4 and w[0] == 'P' and w[1] == 'T':
        return 'T d%d %s' % (0 if w[2] == '/' else w[2].count('/'), w[3])
    if len(w) >= 2 and w[0] == 'P':
        return w[1] if w[1] in ('S', 'R', 'st', 'rt', 'ev', 'sub', 'go', 'end', 'mach', 'init', 'cb') else 'P?'
    return w[0] if w else '-'


def fingerprint(ops, d):
    """class of the first divergence: shapes (kind of line, nesting depth, event kind) of the
    implementation's and the model's line, and which call was being executed"""
    import hashlib
    calls = [o.split()[0] for o in ops if o.split() and o.split()[0] in ('start', 'stop', 'restart', 'run')]
    last = 'stop' if (calls and calls[-1] in ('stop', 'restart')) else (calls[-1] if calls else '-')
    key = '%s | %s | %s' % (_shape(d[1]) if d else '-', _shape(d[2]) if d else '-', last)
    return hashlib.sha1(key.encode()).hexdigest()[:12]


LEVEL_TEXT = ('Lean 4 theorems over a hand-written model of StateMachine::Impl (start/stop/restart/run with cb_level_, nested machines of any '
              'depth): refinement to an independently written reference semantics for every definition and call sequence, first-match route '
              'selection, exit/action/enter/notify exactly once and in order per transition, enter/exit balance at every nesting level, '
              're-entrant calls rejected without state change; the model is tied to state_machine.cpp on every run by differential execution '
              'of generated hierarchies (ASan+UBSan build of the working tree)')
LEVEL_NOTE = ('trusted: Lean kernel, hand-written model + differential tie (coverage bounded by the generator, measured in evidence); callbacks '
              'only act on their own machine; shared sub-machine objects and cross-machine calls from callbacks are outside the model')
TECHNIQUE = 'Lean 4 refinement proof (transcribed model -> reference semantics) + model/implementation correspondence check'
DESIGN_REF = 'DESIGN.md §6 C16, §7 row 9'
