"""C16 — hierarchical state machine conforms to its reference semantics (tbox::flow::StateMachine)."""
ID = 'C16'
LEAN_MODULES = ['TboxModel.C16.Props']
EXE = 'c16'
THEOREMS = ['Tbox.C16.C16_conforms', 'Tbox.C16.C16_conforms_fresh', 'Tbox.C16.C16_first_match',
            'Tbox.C16.C16_order_once', 'Tbox.C16.C16_balanced', 'Tbox.C16.C16_balanced_after_stop',
            'Tbox.C16.C16_reentrancy_rejected', 'Tbox.C16.C16_balanced_counterexample_unpatched',
            'Tbox.C16.C16_reentrancy_counterexample_unpatched']
import vlib
SOURCES = ['modules/flow/state_machine.cpp'] + vlib.BASE_SOURCES
FLAVOUR = 'asan'
BATCH = 300
MAX_REPORT = 3
SHRINK_TESTS = 80
TRUSTED = ['two hand-written models of modules/flow/state_machine.cpp (with patches/C16-01 and C16-02), both tied to the C++ by differential runs: '
           'the TREE model lean/TboxModel/C16/Model.lean (what the theorems are about: callbacks observe/call their own machine and any ancestor) and '
           'the ARENA model lean/TboxModel/C16/Arena.lean (everything else the API allows: callbacks calling any machine, calls addressed to a '
           'sub-machine, a machine object attached to several states, definition calls after start, any depth); on every case inside the tree '
           'fragment the driver runs both and flags a disagreement (M MODEL-MISMATCH)',
           'outside the tree fragment there is no theorem, only the arena model as coded + the tie',
           'attachment cycles (a machine reachable from itself) are refused by the protocol; toJson/setName are not modelled']
ASSUMPTIONS = ['std::function callbacks do not throw', 'state/event ids fit in int (the protocol limits them to 9 digits)',
               'the sub-machine attachments are acyclic', 'Event.extra is an opaque pointer: the machine hands it to callbacks unchanged (observed: tag printed by every callback)']
RULE = ('cases = a generated hierarchy of 1..40 machines (depth <= 10, 1..5 states each incl. user state 0, wildcard/specific routes with '
        'truth-table guards, specific/default event handlers, terminal routes, scripted callbacks observing/calling their own machine, ancestors, '
        'or any machine; shared sub-machine objects; events with extra tags) + a call sequence of start/run/stop/restart on the root or addressed '
        'to a sub-machine, with definition calls in between; non-trivial = the model run takes a transition inside a sub-machine (depth >= 1) '
        'and a run() returned true at least once; distinct = distinct op text')

EVS = [0, 1, 1, 2, 2, 3, 4, 5]


def g_event(rng):
    e = str(rng.choice(EVS))
    if rng.random() < 0.15: e += ':%d' % rng.choice([1, 2, 7, 42])
    return e


class Node:
    def __init__(self): self.idx = None; self.ids = []; self.subs = {}; self.anc = []; self.extra_subs = {}


def g_target(rng, node, mode, nmach):
    """'' = own machine; '@k' = ancestor (tree fragment) or any machine (mode 'any')"""
    r = rng.random()
    if mode == 'self' or r < 0.45: return ''
    if mode == 'any' and node.subs and r < 0.65: return '@%d' % rng.choice(list(node.subs.values())).idx
    if node.anc and r < 0.80: return '@%d' % rng.choice(node.anc)
    if r < 0.85: return '@%d' % node.idx
    if mode == 'any': return '@%d' % rng.randrange(nmach)
    return ''


def g_script(rng, node, mode, nmach, p_call=0.3):
    if rng.random() < 0.5: return '.'
    ops = []
    for _ in range(rng.choice([1, 1, 2, 3])):
        t = g_target(rng, node, mode, nmach)
        if rng.random() < p_call:
            ops.append(rng.choice(['s', 'x', 'r', 'e' + g_event(rng), 'e' + g_event(rng)]) + t)
        else:
            ops.append('o' + t)
    return ','.join(ops)


def g_probe(rng, node, mode, nmach, p_none=0.3):
    return '-' if rng.random() < p_none else g_script(rng, node, mode, nmach)


def g_guard(rng, node, mode, nmach):
    if rng.random() < 0.45: return '-'
    evs = [e for e in [0, 1, 2, 3, 4, 5] if rng.random() < 0.5]
    return 'G' + '|'.join(str(e) for e in evs) + '/' + g_script(rng, node, mode, nmach)


def build_tree(rng, depth_left, is_sub, counter, anc_holder, p_sub=None):
    """shape first (post-order indices), so that scripts can name ancestors"""
    n = Node()
    k = rng.choice([1, 2, 2, 3, 3, 4, 5])
    pool_ids = [1, 2, 3, 4, 5, 6, 7]; rng.shuffle(pool_ids)
    n.ids = pool_ids[:k]
    if rng.random() < 0.25:
        n.ids[rng.randrange(k)] = 0
        if rng.random() < 0.5 and k > 1 and n.ids[0] == 0: n.ids[0], n.ids[1] = n.ids[1], n.ids[0]
    ps = p_sub if p_sub is not None else (0.3 if is_sub else 0.45)
    kids = []
    for sid in n.ids:
        if depth_left > 0 and rng.random() < ps:
            c = build_tree(rng, depth_left - 1, True, counter, anc_holder, p_sub)
            n.subs[sid] = c; kids.append(c)
    n.idx = counter[0]; counter[0] += 1
    def add_anc(c, a):
        c.anc.append(a)
        for cc in c.subs.values(): add_anc(cc, a)
    for c in kids: add_anc(c, n.idx)
    anc_holder.append(n)
    return n


def emit_machine(rng, n, mode, nmach, lines, is_sub):
    ids = n.ids
    lines.append('mach')
    for sid in ids:
        lines.append('st %d %s %s' % (sid, g_probe(rng, n, mode, nmach), g_probe(rng, n, mode, nmach)))
    if rng.random() < 0.05: lines.append('st %d . .' % ids[0])
    for sid in ids:
        for _ in range(rng.choice([0, 1, 2, 2, 3, 4])):
            ev = rng.choice([0, 1, 1, 2, 2, 3, 4])
            r = rng.random()
            if r < (0.3 if is_sub else 0.12): to = 0
            elif r < 0.95: to = rng.choice(ids)
            else: to = rng.choice([9, -1, 8])
            lines.append('rt %d %d %d %s %s' % (sid, ev, to, g_guard(rng, n, mode, nmach), g_probe(rng, n, mode, nmach, 0.5)))
    if rng.random() < 0.04: lines.append('rt 9 1 %d - -' % ids[0])
    for sid in ids:
        if rng.random() < 0.3:
            for _ in range(rng.choice([1, 1, 2])):
                ev = rng.choice([0, 1, 2, 3])
                ents = ['%d>%d' % (e, rng.choice(ids + [-1, -1, 0, 9, -2])) for e in rng.sample([1, 2, 3, 4], rng.choice([0, 1, 2]))]
                ents.append('*>%d' % rng.choice([-1, -1, -1, rng.choice(ids), 0, -2]))
                lines.append('ev %d %d %s %s' % (sid, ev, '|'.join(ents), g_script(rng, n, mode, nmach)))
    if rng.random() < 0.03: lines.append('ev 9 1 *>-1 .')
    r = rng.random()
    if r < 0.25: lines.append('init %d' % rng.choice(ids))
    elif r < 0.28: lines.append('init 9')
    elif r < 0.30: lines.append('init -1')
    if rng.random() < 0.6: lines.append('cb %s' % g_script(rng, n, mode, nmach))
    for sid, c in n.subs.items(): lines.append('sub %d %d' % (sid, c.idx))
    if mode == 'any' and n.idx > 0 and rng.random() < 0.25:
        # a machine object attached a second time (shared), or to a second state of this machine
        lines.append('sub %d %d' % (rng.choice(ids), rng.randrange(n.idx)))
    lines.append('end')


def gen_calls(rng, n, mode, nmach):
    ops = []
    if rng.random() < 0.9: ops.append('start')
    for _ in range(n):
        r = rng.random()
        if r < 0.78: op = 'run ' + g_event(rng)
        elif r < 0.85: op = 'stop'
        elif r < 0.91: op = 'start'
        elif r < 0.96: op = 'restart'
        elif mode == 'any':
            k = rng.randrange(nmach)
            op = 'def %d %s' % (k, rng.choice(['st 8 o o', 'rt 1 1 8 - .', 'rt 2 0 0 G1/o .', 'init 2', 'cb o', 'sub 1 0', 'ev 1 1 *>2 o', 'st 1 . .']))
        else: op = 'run ' + g_event(rng)
        if mode == 'any' and not op.startswith('def') and rng.random() < 0.15: op += ' @%d' % rng.randrange(nmach)
        ops.append(op)
    if rng.random() < 0.7: ops.append('stop')
    return ops


def gen_case(rng, depth, mode, p_sub=None):
    counter, nodes = [0], []
    root = build_tree(rng, depth, False, counter, nodes, p_sub)
    nmach = counter[0]
    lines = []
    for n in nodes:     # post-order = index order
        emit_machine(rng, n, mode, nmach, lines, n is not root)
    lines.append('go %d' % root.idx)
    return lines + gen_calls(rng, rng.choice([6, 12, 20, 30]), mode, nmach)


DIRECTED = [
    # DESIGN §7 row 9 (patches/C16-01): stop() with a running sub-machine
    ['mach', 'st 1 . .', 'st 2 . .', 'rt 1 1 2 - .', 'end',
     'mach', 'st 1 . .', 'st 2 . .', 'rt 1 2 2 - -', 'sub 1 0', 'end', 'go 1',
     'start', 'stop', 'start', 'run 1', 'stop'],
    # depth 2: stop while the innermost machine is active; exits must be inner-to-outer
    ['mach', 'st 1 o o', 'st 2 o o', 'rt 1 1 2 - .', 'rt 2 1 0 - .', 'end',
     'mach', 'st 3 o o', 'st 4 o o', 'rt 3 2 4 - .', 'rt 4 2 0 - .', 'sub 3 0', 'cb o', 'end',
     'mach', 'st 5 o o', 'st 6 o o', 'rt 5 3 6 - .', 'rt 6 3 5 - .', 'sub 5 1', 'cb o', 'end', 'go 2',
     'start', 'run 1', 'run 3', 'stop', 'start', 'run 1', 'run 1', 'run 2', 'run 2', 'run 3', 'run 3', 'restart', 'stop'],
    # route priority: specific after wildcard, guards, handler precedence, handler with bad target
    ['mach', 'st 1 . .', 'st 2 . .', 'st 3 . .',
     'rt 1 2 2 G1/o .', 'rt 1 0 3 G2|3/o .', 'rt 1 2 2 - .', 'rt 2 0 1 - -', 'rt 3 0 0 - o',
     'ev 1 3 *>-1 o', 'ev 1 0 4>2|5>77|*>-1 o', 'cb o,e1,s,x,r', 'end', 'go 0',
     'run 1', 'start', 'start', 'run 1', 'run 2', 'run 9', 'run 3', 'run 4:7', 'run 1', 'run 5', 'run 0', 'run 0', 'run 1', 'stop', 'stop'],
    # re-entrant calls from every kind of callback
    ['mach', 'st 1 o,s,x,r,e1 o,s,x,r,e1', 'st 0 o,e2 o,x', 'rt 1 1 0 G1/o,e1,x o,r,e1', 'rt 0 2 1 - o', 'ev 1 2 *>-1 o,s,x,r,e2', 'cb o,s,x,e1', 'end', 'go 0',
     'start', 'run 2', 'run 1:3', 'run 2', 'restart', 'stop'],
    # sub-machine that cannot start (missing init state): the parent never handles events itself
    ['mach', 'st 1 . .', 'init 9', 'end', 'mach', 'st 1 . .', 'st 2 . .', 'rt 1 1 2 - .', 'sub 1 0', 'end', 'go 1',
     'start', 'run 1', 'stop'],
    # patches/C16-02: the sub-machine's state-changed callback, on reaching its terminal state, calls parent.run()
    ['mach', 'st 1 . .', 'rt 1 1 0 - .', 'cb o@1,e2@1,o@1', 'end',
     'mach', 'st 1 . .', 'st 2 . .', 'rt 1 2 2 - .', 'sub 1 0', 'cb o', 'end', 'go 1', 'start', 'run 1', 'run 3', 'stop'],
    # patches/C16-02: a sub-machine's route action calls parent.stop() / parent.restart() while the parent delegates
    ['mach', 'st 1 . .', 'st 2 . .', 'rt 1 1 2 - x@1,o@1,r@1', 'end', 'mach', 'st 1 . .', 'sub 1 0', 'end', 'go 1', 'start', 'run 1', 'run 1', 'stop'],
    # upward calls from start()/stop() paths: the sub's enter/exit actions call the parent and the grand-parent
    ['mach', 'st 1 s@2,x@2,e1@1,o@2 x@1,s@1,r@2,o@1', 'end', 'mach', 'st 1 . .', 'sub 1 0', 'end',
     'mach', 'st 1 . .', 'st 2 . .', 'rt 1 1 2 - .', 'rt 2 1 1 - .', 'sub 1 1', 'end', 'go 2', 'start', 'run 1', 'run 1', 'stop', 'restart', 'stop'],
    # a parent action drives its sub-machines directly; direct calls from outside; late definition calls
    ['mach', 'st 1 o o', 'st 2 o o', 'rt 1 1 2 - .', 'rt 2 1 0 - o@1,e1@1', 'end',
     'mach', 'st 1 e1@0,o@0 x@0', 'st 2 s@0 .', 'rt 1 2 2 - x@0,s@0,e1@0', 'rt 2 2 1 - .', 'sub 1 0', 'sub 2 0', 'end', 'go 1',
     'start', 'run 1', 'run 2', 'run 1 @0', 'stop @0', 'run 2', 'start @0', 'stop', 'def 1 st 3 . .', 'def 0 rt 1 2 1 - .', 'def 1 rt 1 3 3 - .',
     'start', 'def 1 st 4 . .', 'def 1 sub 3 0', 'run 3', 'stop @0', 'def 0 cb o@1', 'def 0 init 2', 'run 3', 'stop', 'def 1 init 3', 'start', 'stop'],
]

MALFORMED = [
    ['start', 'go 0', 'mach', 'mach', 'st -1 . .', 'st 1 . . .', 'st 1 q -', 'st 1 o, -', 'st 1234567890 . .', 'st 1 . .', 'rt 1 1 1 G1 .',
     'rt 1 1 1 G1|/. .', 'rt 1 x 1 - -', 'ev 1 1 1>2 .', 'ev 1 1 *>1|2>3 .', 'ev 1 1 *>-1 -', 'sub 1 0', 'sub 1 5', 'cb -', 'init', 'go 0', 'end',
     'end', 'sub 1 0', 'go 1', 'go -0', 'go 0', 'mach', 'st 1 . .', 'run', 'run 1 2', 'run 1x', 'stop now', 'frob', 'run -0', 'run 007',
     'run 1:', 'run 1:2:3', 'run 1:-2', 'run 1 @', 'run 1 @9', 'run 1 @x', '@0', 'stop @0', 'def', 'def 0', 'def 9 st 1 . .', 'def 0 end', 'def 0 st 2 o@5 .',
     'def 0 sub 1 0', 'def 0 st 2 o@0,e1:2@0 .', 'run 2:5'],
    # script targets beyond the machines of the case: `go` is refused
    ['mach', 'st 1 o@3 .', 'end', 'go 0', 'mach', 'st 1 . e1@@2', 'st 1 . e@1', 'end', 'go 0', 'mach', 'end', 'mach', 'end', 'go 0', 'start'],
    # a cycle of attachments is refused
    ['mach', 'st 1 . .', 'sub 1 0', 'end', 'mach', 'st 1 . .', 'sub 1 0', 'end', 'go 1', 'def 0 sub 1 1', 'def 0 sub 1 0', 'def 1 sub 1 1', 'start', 'stop'],
]


def gen(rng, tier):
    n = 2000 if tier == 'quick' else 20000
    for c in MALFORMED: yield c
    for c in DIRECTED: yield c
    # exhaustive small scope: every call sequence up to a length over a fixed depth-2 hierarchy
    import itertools
    defn = DIRECTED[1][:DIRECTED[1].index('go 2') + 1]
    alpha = ['start', 'stop', 'restart', 'run 1', 'run 2', 'run 3']
    for L in range(1, 4 if tier == 'quick' else 6):
        for seq in itertools.product(alpha, repeat=L):
            yield defn + list(seq)
    for i in range(n):
        r = rng.random()
        if r < 0.15: yield gen_case(rng, rng.choice([0, 1, 2, 3]), 'self')
        elif r < 0.60: yield gen_case(rng, rng.choice([1, 2, 2, 3, 3]), 'tree')
        else: yield gen_case(rng, rng.choice([1, 2, 2, 3]), 'any')
    # deep nesting (the tree model is instantiated at depth 8; the arena model has no limit)
    for i in range(n // 20 if tier == 'quick' else n // 8):
        yield gen_case(rng, rng.choice([4, 5, 6, 8, 10]), rng.choice(['tree', 'tree', 'any']), p_sub=0.6)
    # hostile stream: valid cases with random lines damaged
    for i in range(n // 10):
        c = gen_case(rng, rng.choice([1, 2]), rng.choice(['tree', 'any']))
        for _ in range(rng.choice([1, 2, 4])):
            j = rng.randrange(len(c))
            r = rng.random()
            if r < 0.3: c[j] = c[j] + ' x'
            elif r < 0.6: c[j] = c[j].replace(' ', '  -', 1) if ' ' in c[j] else 'zz'
            elif r < 0.8: del c[j]
            else: c.insert(j, rng.choice(['end', 'mach', 'go 0', 'sub 1 0', 'run 1', 'start', 'def 0 st 3 . .']))
        yield c


def nontrivial(ops, model_lines):
    tags = set()
    for l in model_lines:
        if l.startswith('B '): tags.update(l[2:].split())
    deep = any(t.startswith('depth') and t != 'depth0' for t in tags)
    return 1 if (deep and 'run-true' in tags) else None


def _shape(line):
    w = line.split()
    if len(w) >= 4 and w[0] == 'P' and w[1] == 'T':
        return 'T %s' % w[3].split('@')[0]
    if w and w[0] == 'CRASH': return ' '.join(w[:2])[:40]
    if len(w) >= 2 and w[0] == 'P':
        return w[1] if w[1] in ('S', 'R', 'st', 'rt', 'ev', 'sub', 'go', 'end', 'mach', 'init', 'cb', 'def') else 'P?'
    return w[0] if w else '-'


def fingerprint(ops, d):
    """class of the first divergence: shapes (kind of line, nesting depth, event kind) of the
    implementation's and the model's line, and which call was being executed"""
    import hashlib
    calls = [o.split()[0] for o in ops if o.split() and o.split()[0] in ('start', 'stop', 'restart', 'run')]
    last = 'stop' if (calls and calls[-1] in ('stop', 'restart')) else (calls[-1] if calls else '-')
    key = '%s | %s | %s' % (_shape(d[1]) if d else '-', _shape(d[2]) if d else '-', last)
    return hashlib.sha1(key.encode()).hexdigest()[:12]


LEVEL_TEXT = ('Lean 4 theorems over a hand-written model of StateMachine::Impl (start/stop/restart/run with cb_level_, nested machines of any '
              'depth): refinement to an independently written reference semantics for every definition and call sequence, first-match route '
              'selection, exit/action/enter/notify exactly once and in order per transition, enter/exit balance at every nesting level, '
              're-entrant calls on the own machine and on every ancestor rejected without state change; the model is tied to state_machine.cpp on every run by differential execution '
              'of generated hierarchies (ASan+UBSan build of the working tree)')
LEVEL_NOTE = ('trusted: Lean kernel, hand-written model + differential tie (coverage bounded by the generator, measured in evidence); callbacks '
              'calling machines other than their own or an ancestor, shared sub-machine objects, direct calls to sub-machines and late definition calls '
              'are covered by the arena model + tie only, not by the theorems')
TECHNIQUE = 'Lean 4 refinement proof (transcribed model -> reference semantics) + model/implementation correspondence check'
DESIGN_REF = 'DESIGN.md §6 C16, §7 row 9'
