"""C16 — hierarchical state machine conforms to its reference semantics (tbox::flow::StateMachine)."""
ID = 'C16'
LEAN_MODULES = ['TboxModel.C16.Props', 'TboxModel.C16.PropsDef', 'TboxModel.C16.PropsArena']
EXE = 'c16'
THEOREMS = ['Tbox.C16.C16_conforms', 'Tbox.C16.C16_conforms_fresh', 'Tbox.C16.C16_first_match',
            'Tbox.C16.C16_order_once', 'Tbox.C16.C16_balanced', 'Tbox.C16.C16_balanced_after_stop',
            'Tbox.C16.C16_reentrancy_rejected', 'Tbox.C16.C16_balanced_counterexample_unpatched',
            'Tbox.C16.C16_reentrancy_counterexample_unpatched', 'Tbox.C16.C16_guard_eval_order',
            'Tbox.C16.C16_arena_balanced', 'Tbox.C16.C16_arena_balanced_after_stop', 'Tbox.C16.C16_arena_reentrancy_rejected',
            'Tbox.C16.C16_arena_frame', 'Tbox.C16.C16_arena_shared_sub_stranded', 'Tbox.C16.C16_arena_first_match', 'Tbox.C16.C16_arena_guard_eval_order',
            'Tbox.C16.C16_arena_fuel_suffices', 'Tbox.C16.C16_arena_prog_fuel_suffices', 'Tbox.C16.C16_arena_order_once', 'Tbox.C16.C16_arena_order_once_prog', 'Tbox.C16.C16_arena_no_null_deref',
            # round 3: handler-return convention (patches/C16-03)
            'Tbox.C16.C16_handler_negative_falls_through', 'Tbox.C16.C16_handler_negative_counterexample_unpatched',
            # round 3: definition calls issued from callbacks (dCall / dProg, every table of definition calls)
            'Tbox.C16.C16_def_refused_while_running', 'Tbox.C16.C16_def_keeps_runtime', 'Tbox.C16.C16_def_init_and_cb_not_refused',
            'Tbox.C16.C16_def_arena_balanced', 'Tbox.C16.C16_def_arena_balanced_after_stop', 'Tbox.C16.C16_def_arena_reentrancy_rejected',
            'Tbox.C16.C16_def_scan_table_stable', 'Tbox.C16.C16_def_scan_table_stable_script', 'Tbox.C16.C16_def_scan_table_stable_scan',
            'Tbox.C16.C16_def_arena_frame', 'Tbox.C16.C16_def_arena_fuel_suffices', 'Tbox.C16.C16_def_arena_prog_fuel_suffices',
            'Tbox.C16.C16_def_arena_no_null_deref', 'Tbox.C16.C16_def_arena_order_once', 'Tbox.C16.C16_def_arena_order_once_prog',
            'Tbox.C16.C16_def_arena_guard_eval_order',
            # round 3: the arena model refines the tree model and the reference semantics on hierarchical stores (closes the OPEN)
            'Tbox.C16.C16_arena_refines_tree', 'Tbox.C16.C16_arena_refines_tree_fresh', 'Tbox.C16.C16_arena_conforms',
            'Tbox.C16.C16_arena_conforms_fresh', 'Tbox.C16.C16_arena_conforms_counterexample_shared']
import vlib
SOURCES = ['modules/flow/state_machine.cpp'] + vlib.BASE_SOURCES
FLAVOUR = 'asan'
BATCH = 300
MAX_REPORT = 3
SHRINK_TESTS = 80
TRUSTED = ['two hand-written models of modules/flow/state_machine.cpp (with patches/C16-01, C16-02 and C16-03), both tied to the C++ by differential runs: '
           'the TREE model lean/TboxModel/C16/Model.lean (what the theorems are about: callbacks observe/call their own machine and any ancestor) and '
           'the ARENA model lean/TboxModel/C16/Arena.lean (everything else the API allows: callbacks calling any machine, calls addressed to a '
           'sub-machine, a machine object attached to several states, definition calls after start, any depth); on every case inside the tree '
           'fragment the driver runs both and flags a disagreement (M MODEL-MISMATCH)',
           'outside the tree fragment the ARENA theorems apply (per machine object, every program of calls on any machine + definition calls: '
           'balance, idle between calls, re-entrancy rejected, frame, first-match, guard evaluation order, order-once, fuel suffices); '
           'refinement to the reference semantics (trace equality) is a theorem of the tree model and, for hierarchical stores (every machine attached at most once, '
           'scripts addressing the own machine or an ancestor, calls addressed to the root), of the arena model (C16_arena_conforms); outside that predicate it rests on the tie',
           'definition calls issued from callback bodies (script op d<i> = entry i of the case\'s table of definition calls, on any machine) are executed by the arena model '
           '(dCall, ArenaDef.lean) and by the real API inside the real callbacks; the harness\'s state-changed closure works on copies of its captures because '
           'setStateChangedCallback from inside the notification destroys the executing closure (the library itself touches nothing of it afterwards)',
           'attachment cycles (a machine reachable from itself) are refused by the protocol (start/stop/run terminate on them — C16_arena_fuel_suffices needs no acyclicity — but toJson recurses without bound); toJson is '
           'transcribed (lean/TboxModel/C16/Json.lean) and compared as a canonical P J line; it is a pure function of the store by construction (no theorem beyond that)']
ASSUMPTIONS = ['std::function callbacks do not throw', 'state/event ids are C++ int: the protocol accepts exactly [-2147483648, 2147483647] (10 digits at most)',
               'toJson(): labels/names are those the harness passes (state L<id>, route R<index>, machine m<k>); the nlohmann object is read back member by member',
               'the sub-machine attachments are acyclic', 'Event.extra is an opaque pointer: the machine hands it to callbacks unchanged (observed: tag printed by every callback)']
RULE = ('cases = a generated hierarchy of 1..40 machines (depth <= 10, 1..5 states each incl. user state 0, wildcard/specific routes with '
        'truth-table guards, specific/default event handlers, terminal routes, scripted callbacks observing/calling their own machine, ancestors, '
        'or any machine; shared sub-machine objects; events with extra tags) + a call sequence of start/run/stop/restart on the root or addressed '
        'to a sub-machine, with definition calls and toJson() dumps (json [@k]: canonical text of the emitted object vs. the model, then '
        'the snapshot) in between; boundary families: ids/events/targets/handler keys and returns/init ids at the ends of int and around '
        '-1/0 (state -1, user state 0, run 0, handler key 0), duplicate states, routes from/to undefined states, undefined init, machines '
        'with zero states as root and as sub-machine, a chain of 2000 (thorough: 10000) states walked by run, one state with 2000 (10000) '
        'routes of which the last is eligible; definition calls from callbacks: a table of newState/addRoute/addEvent/setInitState/setSubStateMachine/'
        'setStateChangedCallback calls performed by script ops on the own machine, ancestors, sub-machines, anybody; a systematic family of 896 cases = '
        '{sub-machine, parent} x {enter/exit of both states, route action, guard, handler, notification} x {start, stop, restart, run(event in flight), 9 definition calls} x '
        '{own machine, sub-machine, parent, unrelated machine}; one-event call-heavy hierarchies with init = terminal id; handler answers -2, -3, INT_MIN; non-trivial = the model run takes a transition inside a sub-machine (depth >= 1) '
        'and a run() returned true at least once; distinct = distinct op text')

EVS = [0, 1, 1, 2, 2, 3, 4, 5]
# family switches read by the generators below (set and reset by gen_family):
#   evs: event ids used everywhere (one id = every run(e) made by a callback carries the event of the transition in flight),
#   pcall: share of calls among script ops, ntpl: size of the table of definition calls (script op d<i>), init0: init = terminal id
FAM = {'evs': None, 'pcall': 0.3, 'ntpl': 0, 'init0': 0.0}


def g_event(rng):
    e = str(rng.choice(FAM['evs'] or EVS))
    if rng.random() < 0.15: e += ':%d' % rng.choice([1, 2, 7, 42])
    return e


class Node:
    def __init__(self): self.idx = None; self.ids = []; self.subs = {}; self.anc = []; self.extra_subs = {}


def g_target(rng, node, mode, nmach):
    """'' = own machine; '@k' = ancestor (tree fragment) or any machine (mode 'any')"""
    r = rng.random()
    if mode == 'self' or r < 0.45: return ''
    if mode == 'any' and node.subs and r < 0.65: return '@%d' % rng.choice(list(node.subs.values())).idx
    if node.anc and r < 0.80: return '@%d' % rng.choice(node.anc)
    if r < 0.85: return '@%d' % node.idx
    if mode == 'any': return '@%d' % rng.randrange(nmach)
    return ''


def g_script(rng, node, mode, nmach, p_call=None):
    if p_call is None: p_call = FAM['pcall']
    if rng.random() < (0.5 if FAM['pcall'] <= 0.3 else 0.25): return '.'
    ops = []
    for _ in range(rng.choice([1, 1, 2, 3])):
        t = g_target(rng, node, mode, nmach)
        if FAM['ntpl'] and rng.random() < 0.3:
            ops.append('d%d' % rng.randrange(FAM['ntpl']) + t)
        elif rng.random() < p_call:
            ops.append(rng.choice(['s', 'x', 'r', 'e' + g_event(rng), 'e' + g_event(rng)]) + t)
        else:
            ops.append('o' + t)
    return ','.join(ops)


def g_probe(rng, node, mode, nmach, p_none=0.3):
    return '-' if rng.random() < p_none else g_script(rng, node, mode, nmach)


def g_guard(rng, node, mode, nmach):
    if rng.random() < 0.45: return '-'
    evs = [e for e in [0, 1, 2, 3, 4, 5] if rng.random() < 0.5]
    return 'G' + '|'.join(str(e) for e in evs) + '/' + g_script(rng, node, mode, nmach)


def build_tree(rng, depth_left, is_sub, counter, anc_holder, p_sub=None):
    """shape first (post-order indices), so that scripts can name ancestors"""
    n = Node()
    k = rng.choice([1, 2, 2, 3, 3, 4, 5])
    pool_ids = [1, 2, 3, 4, 5, 6, 7]; rng.shuffle(pool_ids)
    n.ids = pool_ids[:k]
    if rng.random() < 0.25:
        n.ids[rng.randrange(k)] = 0
        if rng.random() < 0.5 and k > 1 and n.ids[0] == 0: n.ids[0], n.ids[1] = n.ids[1], n.ids[0]
    ps = p_sub if p_sub is not None else (0.3 if is_sub else 0.45)
    kids = []
    for sid in n.ids:
        if depth_left > 0 and rng.random() < ps:
            c = build_tree(rng, depth_left - 1, True, counter, anc_holder, p_sub)
            n.subs[sid] = c; kids.append(c)
    n.idx = counter[0]; counter[0] += 1
    def add_anc(c, a):
        c.anc.append(a)
        for cc in c.subs.values(): add_anc(cc, a)
    for c in kids: add_anc(c, n.idx)
    anc_holder.append(n)
    return n


def emit_machine(rng, n, mode, nmach, lines, is_sub):
    ids = n.ids
    lines.append('mach')
    for sid in ids:
        lines.append('st %d %s %s' % (sid, g_probe(rng, n, mode, nmach), g_probe(rng, n, mode, nmach)))
    if rng.random() < 0.05: lines.append('st %d . .' % ids[0])
    for sid in ids:
        for _ in range(rng.choice([0, 1, 2, 2, 3, 4])):
            ev = rng.choice(FAM['evs'] + [0] if FAM['evs'] else [0, 1, 1, 2, 2, 3, 4])
            r = rng.random()
            if r < (0.3 if is_sub else 0.12): to = 0
            elif r < 0.95: to = rng.choice(ids)
            else: to = rng.choice([9, -1, 8])
            lines.append('rt %d %d %d %s %s' % (sid, ev, to, g_guard(rng, n, mode, nmach), g_probe(rng, n, mode, nmach, 0.5)))
    if rng.random() < 0.04: lines.append('rt 9 1 %d - -' % ids[0])
    for sid in ids:
        if rng.random() < 0.3:
            for _ in range(rng.choice([1, 1, 2])):
                ev = rng.choice([0, 1, 2, 3])
                ents = ['%d>%d' % (e, rng.choice(ids + [-1, -1, 0, 9, -2, -3])) for e in rng.sample([1, 2, 3, 4], rng.choice([0, 1, 2]))]
                ents.append('*>%d' % rng.choice([-1, -1, -1, rng.choice(ids), 0, -2, -2147483648]))
                lines.append('ev %d %d %s %s' % (sid, ev, '|'.join(ents), g_script(rng, n, mode, nmach)))
    if rng.random() < 0.03: lines.append('ev 9 1 *>-1 .')
    r = rng.random()
    if rng.random() < FAM['init0']: lines.append('init 0')
    elif r < 0.25: lines.append('init %d' % rng.choice(ids))
    elif r < 0.28: lines.append('init 9')
    elif r < 0.30: lines.append('init -1')
    if rng.random() < 0.6: lines.append('cb %s' % g_script(rng, n, mode, nmach))
    for sid, c in n.subs.items(): lines.append('sub %d %d' % (sid, c.idx))
    if mode == 'any' and n.idx > 0 and rng.random() < 0.25:
        # a machine object attached a second time (shared), or to a second state of this machine
        lines.append('sub %d %d' % (rng.choice(ids), rng.randrange(n.idx)))
    lines.append('end')


def gen_calls(rng, n, mode, nmach):
    ops = []
    if rng.random() < 0.9: ops.append('start')
    for _ in range(n):
        r = rng.random()
        if r < 0.78: op = 'run ' + g_event(rng)
        elif r < 0.85: op = 'stop'
        elif r < 0.91: op = 'start'
        elif r < 0.96: op = 'restart'
        elif mode == 'any':
            k = rng.randrange(nmach)
            op = 'def %d %s' % (k, rng.choice(['st 8 o o', 'rt 1 1 8 - .', 'rt 2 0 0 G1/o .', 'init 2', 'cb o', 'sub 1 0', 'ev 1 1 *>2 o', 'st 1 . .']))
        else: op = 'run ' + g_event(rng)
        if mode == 'any' and not op.startswith('def') and rng.random() < 0.15: op += ' @%d' % rng.randrange(nmach)
        ops.append(op)
        # toJson() of the root or of any machine of the case (it is const: legal in every mode); rarely on big hierarchies:
        # a machine object attached to several states is dumped once per attachment, the text grows exponentially with depth
        if rng.random() < (0.04 if nmach <= 8 else 0.006): ops.append('json' if rng.random() < 0.5 else 'json @%d' % rng.randrange(nmach))
    if rng.random() < 0.7: ops.append('stop')
    if rng.random() < (0.05 if nmach <= 8 else 0.01): ops.append('json')
    return ops


# ---- boundary families --------------------------------------------------------------------------
INT_MIN, INT_MAX = -2147483648, 2147483647
BIDS = [INT_MIN, INT_MIN + 1, -2, -1, 0, 1, INT_MAX - 1, INT_MAX]


def b_script(rng, evs, nmach):
    r = rng.random()
    if r < 0.35: return '.'
    if r < 0.80: return 'o'
    t = '' if rng.random() < 0.6 else '@%d' % rng.randrange(nmach)
    return rng.choice(['o,e%d%s' % (rng.choice(evs), t), 'x%s,o' % t, 's%s' % t, 'r%s,o' % t, 'o%s' % t])


def b_probe(rng, evs, nmach):
    return '-' if rng.random() < 0.3 else b_script(rng, evs, nmach)


def gen_boundary(rng):
    """state ids, event ids, route targets, handler keys/return values and init ids at the ends of `int`
    and around NULL_STATE_ID (-1) / TERM_STATE_ID = ANY_EVENT_ID (0)"""
    nmach = rng.choice([1, 1, 2, 2, 3])
    pool = BIDS + [2, 3]
    evs = rng.sample(pool, rng.choice([3, 4, 5]))
    if rng.random() < 0.5 and 0 not in evs: evs[0] = 0
    lines, allids = [], []
    for k in range(nmach):
        ids = rng.sample(pool, rng.choice([1, 2, 3, 4, 5, 6]))
        if rng.random() < 0.35 and 0 not in ids: ids[rng.randrange(len(ids))] = 0         # user-defined state 0 ...
        if rng.random() < 0.25 and -1 not in ids: ids.insert(rng.randrange(len(ids) + 1), -1)   # ... and state -1
        allids.append(ids)
        lines.append('mach')
        for sid in ids:
            lines.append('st %d %s %s' % (sid, b_probe(rng, evs, nmach), b_probe(rng, evs, nmach)))
            if rng.random() < 0.08: lines.append('st %d o o' % sid)                     # duplicate id
        for sid in ids:
            if sid == 0 and rng.random() < 0.4: continue                               # state 0 without routes out of it
            for _ in range(rng.choice([0, 1, 1, 2, 3])):
                ev = rng.choice(evs + [0, 0])
                r = rng.random()
                to = rng.choice(ids) if r < 0.75 else (0 if r < 0.87 else rng.choice(pool))
                g = '-' if rng.random() < 0.6 else 'G%s/%s' % ('|'.join(str(e) for e in evs if rng.random() < 0.6), b_script(rng, evs, nmach))
                lines.append('rt %d %d %d %s %s' % (sid, ev, to, g, b_probe(rng, evs, nmach)))
        if rng.random() < 0.15: lines.append('rt %d %d %d - .' % (rng.choice(pool), rng.choice(evs), rng.choice(ids)))   # source maybe undefined
        for sid in ids:
            if rng.random() < 0.35:
                for _ in range(rng.choice([1, 1, 2])):
                    key = rng.choice(evs + [0])                                          # key 0 = the default handler
                    ents = ['%d>%d' % (e, rng.choice(ids + ids + pool)) for e in evs if rng.random() < 0.4]
                    ents.append('*>%d' % rng.choice([-1, -1, -1, rng.choice(ids), rng.choice(pool)]))
                    lines.append('ev %d %d %s %s' % (sid, key, '|'.join(ents), b_script(rng, evs, nmach)))
        r = rng.random()
        if r < 0.35: lines.append('init %d' % rng.choice(ids))
        elif r < 0.50: lines.append('init %d' % rng.choice(pool))
        if rng.random() < 0.5: lines.append('cb %s' % b_script(rng, evs, nmach))
        if k > 0 and rng.random() < 0.7:
            lines.append('sub %d %d' % (rng.choice(ids + [rng.choice(pool)]), rng.randrange(k)))
            if rng.random() < 0.2: lines.append('sub %d %d' % (rng.choice(ids), rng.randrange(k)))
        lines.append('end')
    root = nmach - 1 if rng.random() < 0.85 else rng.randrange(nmach)
    lines.append('go %d' % root)
    if rng.random() < 0.2: lines.append('json')
    if rng.random() < 0.9: lines.append('start')
    for _ in range(rng.choice([5, 10, 16, 24])):
        r = rng.random()
        if r < 0.70:
            op = 'run %d' % rng.choice(evs + evs + [0] + pool)
            if rng.random() < 0.1: op += ':%d' % rng.choice([1, INT_MAX])
        elif r < 0.73: op = 'stop'
        elif r < 0.81: op = 'start'
        elif r < 0.86: op = 'restart'
        elif r < 0.94: op = 'json'
        else:
            k = rng.randrange(nmach); ids = allids[k]
            op = 'def %d %s' % (k, rng.choice(['st %d o o' % rng.choice(pool), 'init %d' % rng.choice(pool + ids),
                                               'rt %d %d %d - .' % (rng.choice(ids), rng.choice(evs), rng.choice(pool + ids)),
                                               'ev %d %d *>%d o' % (rng.choice(ids), rng.choice(evs + [0]), rng.choice(pool))]))
        if not op.startswith('def') and rng.random() < 0.12: op += ' @%d' % rng.randrange(nmach)
        lines.append(op)
    if rng.random() < 0.3: lines.append('json')
    return lines


def gen_degenerate(rng):
    """machines with zero/one/two states (as root and as sub-machine), duplicate `st`, routes from/to undefined
    states, `init` to an undefined state, then start/run/stop/restart/json on them"""
    nmach = rng.choice([1, 2, 2, 3])
    lines = []
    for k in range(nmach):
        ids = rng.sample([-1, 0, 1, 2, 7], rng.choice([0, 0, 1, 1, 2]))
        lines.append('mach')
        for sid in ids:
            lines.append('st %d %s %s' % (sid, rng.choice(['-', '.', 'o']), rng.choice(['-', '.', 'o'])))
            if rng.random() < 0.3: lines.append('st %d . .' % sid)
        for _ in range(rng.choice([0, 1, 2, 3])):
            lines.append('rt %d %d %d - %s' % (rng.choice(ids + [1, 9, 0, -1]), rng.choice([0, 1, 2]), rng.choice(ids + [0, 2, 9, -1]), rng.choice(['-', '.', 'o'])))
        if rng.random() < 0.3: lines.append('ev %d %d *>%d o' % (rng.choice(ids + [1, 9]), rng.choice([0, 1]), rng.choice(ids + [-1, 0, 9])))
        if rng.random() < 0.5: lines.append('init %d' % rng.choice(ids + [9, 0, -1, 1]))
        if rng.random() < 0.3: lines.append('cb o')
        if k > 0 and rng.random() < 0.8: lines.append('sub %d %d' % (rng.choice(ids + [1]), rng.randrange(k)))
        lines.append('end')
    lines.append('go %d' % (nmach - 1 if rng.random() < 0.7 else rng.randrange(nmach)))
    for _ in range(rng.choice([4, 8, 12])):
        op = rng.choice(['start', 'start', 'stop', 'restart', 'run 0', 'run 1', 'run 1', 'run 2', 'json',
                         'def %d st %d o o' % (rng.randrange(nmach), rng.choice([0, 1, 9])), 'def %d init %d' % (rng.randrange(nmach), rng.choice([0, 1, 9, -1]))])
        if not op.startswith('def') and rng.random() < 0.2: op += ' @%d' % rng.randrange(nmach)
        lines.append(op)
    return lines


def gen_chain(n, descending=False, sub=False):
    """one machine with n states in a chain, state i --ev 1--> i+1, driven through all of them by `run 1`
    (definition order ascending or descending: std::map order vs. registration order); optionally attached as the
    sub-machine of a one-state parent"""
    order = list(range(n, 0, -1)) if descending else list(range(1, n + 1))
    lines = ['mach'] + ['st %d - -' % i for i in order]
    lines += ['rt %d 1 %d - -' % (i, i + 1) for i in order if i < n] + ['rt %d 2 0 - -' % n, 'init 1', 'end']
    if sub:
        lines += ['mach', 'st 1 . .', 'rt 1 1 0 - .', 'sub 1 0', 'end', 'go 1']
    else:
        lines += ['go 0']
    return lines + ['start'] + ['run 1'] * (n + 1) + ['json', 'run 2', 'run 1', 'stop', 'json']


def gen_fan(n, guards):
    """one state with n routes of which only the last one is eligible: n-1 routes for other events, or n-1 routes
    whose guard is false (every guard evaluation prints a line)"""
    lines = ['mach', 'st 1 . .', 'st 2 . .']
    if guards:
        lines += ['rt 1 %d 2 G2/. .' % (0 if i % 2 else 1) for i in range(n - 1)] + ['rt 1 0 2 G1|3/. o']
    else:
        lines += ['rt 1 %d 2 - .' % (i + 2) for i in range(n - 1)] + ['rt 1 1 2 - o']
    lines += ['rt 2 0 1 - .', 'end', 'go 0', 'start']
    return lines + ['run 1', 'run 1', 'run %d' % (n + 5), 'run 3', 'run 1', 'run 1', 'json', 'run 1', 'stop']


def gen_case(rng, depth, mode, p_sub=None):
    counter, nodes = [0], []
    root = build_tree(rng, depth, False, counter, nodes, p_sub)
    nmach = counter[0]
    lines = []
    for n in nodes:     # post-order = index order
        emit_machine(rng, n, mode, nmach, lines, n is not root)
    lines.append('go %d' % root.idx)
    return lines + gen_calls(rng, rng.choice([6, 12, 20, 30]), mode, nmach)


def g_tpl(rng, nmach, ntpl):
    """the table of definition calls for a generated case: every kind, ids inside and outside the machines' ranges"""
    node = Node(); node.idx = 0
    out = []
    for i in range(ntpl):
        k = rng.choice(['st', 'rt', 'rt', 'ev', 'init', 'init', 'cb', 'cb', 'sub'])
        sc = lambda: g_script(rng, node, 'any', nmach)
        if k == 'st': out.append('tpl st %d %s %s' % (rng.choice([1, 2, 3, 8, 9, 0]), g_probe(rng, node, 'any', nmach), g_probe(rng, node, 'any', nmach)))
        elif k == 'rt': out.append('tpl rt %d %d %d %s %s' % (rng.choice([1, 2, 3, 4, 8]), rng.choice((FAM['evs'] or [1, 2, 3]) + [0]), rng.choice([0, 1, 2, 3, 8, 9]),
                                                              g_guard(rng, node, 'any', nmach), g_probe(rng, node, 'any', nmach, 0.5)))
        elif k == 'ev': out.append('tpl ev %d %d %s %s' % (rng.choice([1, 2, 3, 8]), rng.choice([0, 1, 2]), '*>%d' % rng.choice([-1, -2, 1, 2, 3, 0]), sc()))
        elif k == 'init': out.append('tpl init %d' % rng.choice([1, 2, 3, 4, 0, 8, 9, -1]))
        elif k == 'cb': out.append('tpl cb %s' % sc())
        else: out.append('tpl sub %d %d' % (rng.choice([1, 2, 3, 8]), rng.randrange(nmach)))
    return out


def gen_family(rng, fam, depth, mode):
    """gen_case under a family switch: 'defcb' = callbacks issue definition calls (table + d<i> ops, on their own machine, ancestors,
    sub-machines, anybody); 'inflight' = ONE event id everywhere, call-heavy scripts (run(e) with the event of the transition in
    flight, restart()/stop()/start() at every point of a transition, from every kind of callback, on every relative), init = 0"""
    old = dict(FAM)
    try:
        if fam == 'defcb': FAM.update(ntpl=rng.choice([3, 5, 8]), pcall=0.35)
        else: FAM.update(evs=[rng.choice([1, 1, 2])], pcall=0.75, init0=0.25, ntpl=rng.choice([0, 0, 3]))
        ntpl = FAM['ntpl']
        counter, nodes = [0], []
        root = build_tree(rng, depth, False, counter, nodes, 0.55 if fam == 'inflight' else None)
        nmach = counter[0]
        lines = []
        for n in nodes:
            emit_machine(rng, n, mode, nmach, lines, n is not root)
        lines.append('go %d' % root.idx)
        lines += gen_calls(rng, rng.choice([6, 12, 20]), mode, nmach)
        return g_tpl(rng, nmach, ntpl) + lines
    finally:
        FAM.clear(); FAM.update(old)


# every point of a transition x every call / definition call x every relative: parent P (machine 1: state 1 carries the sub-machine S =
# machine 0; 1 -1-> 2 -1-> 1), S (1 -1-> 2 -1-> terminal), an unrelated machine U (machine 2); one event id (1) everywhere, so a run(1)
# issued by a callback carries the event of the transition in flight
POINT_TPL = ['tpl st 9 o o', 'tpl rt 1 1 2 - o', 'tpl init 2', 'tpl cb o', 'tpl sub 2 2', 'tpl ev 1 1 *>2 o', 'tpl cb o,d6,o', 'tpl rt 2 1 1 G1/o o', 'tpl init 0']
POINT_OPS = ['s', 'x', 'r', 'e1', 'e1:7'] + ['d%d' % i for i in range(len(POINT_TPL))]
POINTS = ['enter1', 'exit1', 'enter2', 'exit2', 'action', 'guard', 'handler', 'cb']


def gen_point(who, point, op, tgt):
    sc = 'o,%s%s,o%s' % (op, tgt, tgt)
    def mach(k, extra):
        P = {pt: '.' for pt in POINTS}
        if k == who: P[point] = sc
        l = ['mach', 'st 1 %s %s' % (P['enter1'], P['exit1']), 'st 2 %s %s' % (P['enter2'], P['exit2']),
             'rt 1 1 2 %s %s' % ('G1/' + P['guard'] if (k == who and point == 'guard') else '-', P['action']),
             'rt 2 1 %d - .' % (0 if k == 0 else 1)]
        if k == who and point == 'handler': l.append('ev 1 1 *>-1 %s' % sc)
        l.append('cb %s' % P['cb'])
        return l + extra + ['end']
    lines = list(POINT_TPL) + mach(0, []) + mach(1, ['sub 1 0']) + mach(2, []) + ['go 1']
    return lines + ['start @2', 'start', 'run 1', 'run 1', 'run 1', 'run 1', 'restart', 'run 1', 'run 1', 'run 1', 'stop', 'json', 'start', 'run 1', 'run 1 @2', 'stop', 'stop @2', 'stop @0']


def gen_points():
    for who in (0, 1):
        for point in POINTS:
            for op in POINT_OPS:
                for tgt in ('', '@0', '@1', '@2'):
                    yield gen_point(who, point, op, tgt)


DIRECTED = [
    # DESIGN §7 row 9 (patches/C16-01): stop() with a running sub-machine
    ['mach', 'st 1 . .', 'st 2 . .', 'rt 1 1 2 - .', 'end',
     'mach', 'st 1 . .', 'st 2 . .', 'rt 1 2 2 - -', 'sub 1 0', 'end', 'go 1',
     'start', 'stop', 'start', 'run 1', 'stop'],
    # depth 2: stop while the innermost machine is active; exits must be inner-to-outer
    ['mach', 'st 1 o o', 'st 2 o o', 'rt 1 1 2 - .', 'rt 2 1 0 - .', 'end',
     'mach', 'st 3 o o', 'st 4 o o', 'rt 3 2 4 - .', 'rt 4 2 0 - .', 'sub 3 0', 'cb o', 'end',
     'mach', 'st 5 o o', 'st 6 o o', 'rt 5 3 6 - .', 'rt 6 3 5 - .', 'sub 5 1', 'cb o', 'end', 'go 2',
     'start', 'run 1', 'run 3', 'stop', 'start', 'run 1', 'run 1', 'run 2', 'run 2', 'run 3', 'run 3', 'restart', 'stop'],
    # route priority: specific after wildcard, guards, handler precedence, handler with bad target
    ['mach', 'st 1 . .', 'st 2 . .', 'st 3 . .',
     'rt 1 2 2 G1/o .', 'rt 1 0 3 G2|3/o .', 'rt 1 2 2 - .', 'rt 2 0 1 - -', 'rt 3 0 0 - o',
     'ev 1 3 *>-1 o', 'ev 1 0 4>2|5>77|*>-1 o', 'cb o,e1,s,x,r', 'end', 'go 0',
     'run 1', 'start', 'start', 'run 1', 'run 2', 'run 9', 'run 3', 'run 4:7', 'run 1', 'run 5', 'run 0', 'run 0', 'run 1', 'stop', 'stop'],
    # re-entrant calls from every kind of callback
    ['mach', 'st 1 o,s,x,r,e1 o,s,x,r,e1', 'st 0 o,e2 o,x', 'rt 1 1 0 G1/o,e1,x o,r,e1', 'rt 0 2 1 - o', 'ev 1 2 *>-1 o,s,x,r,e2', 'cb o,s,x,e1', 'end', 'go 0',
     'start', 'run 2', 'run 1:3', 'run 2', 'restart', 'stop'],
    # sub-machine that cannot start (missing init state): the parent never handles events itself
    ['mach', 'st 1 . .', 'init 9', 'end', 'mach', 'st 1 . .', 'st 2 . .', 'rt 1 1 2 - .', 'sub 1 0', 'end', 'go 1',
     'start', 'run 1', 'stop'],
    # patches/C16-02: the sub-machine's state-changed callback, on reaching its terminal state, calls parent.run()
    ['mach', 'st 1 . .', 'rt 1 1 0 - .', 'cb o@1,e2@1,o@1', 'end',
     'mach', 'st 1 . .', 'st 2 . .', 'rt 1 2 2 - .', 'sub 1 0', 'cb o', 'end', 'go 1', 'start', 'run 1', 'run 3', 'stop'],
    # patches/C16-02: a sub-machine's route action calls parent.stop() / parent.restart() while the parent delegates
    ['mach', 'st 1 . .', 'st 2 . .', 'rt 1 1 2 - x@1,o@1,r@1', 'end', 'mach', 'st 1 . .', 'sub 1 0', 'end', 'go 1', 'start', 'run 1', 'run 1', 'stop'],
    # upward calls from start()/stop() paths: the sub's enter/exit actions call the parent and the grand-parent
    ['mach', 'st 1 s@2,x@2,e1@1,o@2 x@1,s@1,r@2,o@1', 'end', 'mach', 'st 1 . .', 'sub 1 0', 'end',
     'mach', 'st 1 . .', 'st 2 . .', 'rt 1 1 2 - .', 'rt 2 1 1 - .', 'sub 1 1', 'end', 'go 2', 'start', 'run 1', 'run 1', 'stop', 'restart', 'stop'],
    # a parent action drives its sub-machines directly; direct calls from outside; late definition calls
    ['mach', 'st 1 o o', 'st 2 o o', 'rt 1 1 2 - .', 'rt 2 1 0 - o@1,e1@1', 'end',
     'mach', 'st 1 e1@0,o@0 x@0', 'st 2 s@0 .', 'rt 1 2 2 - x@0,s@0,e1@0', 'rt 2 2 1 - .', 'sub 1 0', 'sub 2 0', 'end', 'go 1',
     'start', 'run 1', 'run 2', 'run 1 @0', 'stop @0', 'run 2', 'start @0', 'stop', 'def 1 st 3 . .', 'def 0 rt 1 2 1 - .', 'def 1 rt 1 3 3 - .',
     'start', 'def 1 st 4 . .', 'def 1 sub 3 0', 'run 3', 'stop @0', 'def 0 cb o@1', 'def 0 init 2', 'run 3', 'stop', 'def 1 init 3', 'start', 'stop'],
    # toJson(): machine 0 is shared by two states of machine 2 (dumped twice), machine 1 is never started, state ids in
    # std::map order (negative first, -1 included), event keys ascending without the default handler, routes in
    # registration order with wildcard/terminal/extreme ids; dumps before start, while running, in the built-in
    # terminal state (curr=0 with no state 0), after stop
    ['mach', 'st 2 o o', 'st 1 . .', 'rt 1 1 2 - .', 'rt 2 0 0 - .', 'ev 2 5 *>-1 .', 'ev 2 -3 *>-1 .', 'ev 2 0 *>-1 .', 'ev 2 4 *>-1 .', 'ev 2 5 *>-1 o', 'init 1', 'end',
     'mach', 'st 7 . .', 'end',
     'mach', 'st 3 . .', 'st -1 . .', 'st -2147483648 . .', 'st 2147483647 . .', 'st -4 . .', 'st 3 o o',
     'rt 3 2 -4 - .', 'rt 3 2147483647 2147483647 G1/. .', 'rt 3 0 0 - -', 'rt 3 9 -1 - .', 'rt -1 1 3 - .', 'rt -4 -2147483648 -2147483648 - .', 'rt -4 2 3 - .',
     'rt -2147483648 2 0 - .', 'sub 3 0', 'sub -4 0', 'sub 2147483647 1', 'sub -1 1', 'init 3', 'end', 'go 2',
     'json', 'json @0', 'json @1', 'start', 'json', 'run 1', 'json', 'run 2', 'json', 'run 1', 'run 2', 'json @0', 'run -2147483648', 'run 2', 'json', 'run 1', 'stop', 'json',
     'start @0', 'run 1 @0', 'run 1 @0', 'json @0', 'json'],
    # NULL_STATE_ID / TERM_STATE_ID / ANY_EVENT_ID used as ordinary ids: state -1 is stored but never found (init stays
    # unset, no route from/to it, no handler on it), user state 0 with a route out of it, `run 0`, handler key 0, handler
    # returning -2 with and without a state -2, init -2 / init -1
    ['mach', 'st -1 o o', 'st -1 . .', 'rt -1 1 -1 - .', 'ev -1 1 *>-1 .', 'sub -1 0', 'json', 'end',
     'mach', 'st -1 o o', 'st 1 o o', 'st 0 o o', 'rt 1 0 -1 - .', 'rt 1 1 -2 - .', 'rt 0 0 1 G0/o o', 'rt 1 7 0 - o', 'ev 1 0 2>-2|3>-1|*>-1 o', 'ev 1 4 *>0 o', 'ev 0 0 0>-2|*>-1 o', 'init -2', 'end',
     'go 1', 'json', 'start', 'def 1 init -1', 'start', 'def 1 init 1', 'start', 'run 0', 'run 2', 'run 3', 'def 1 st -2 o o', 'run 2', 'stop', 'def 1 st -2 o o',
     'def 1 rt -2 0 0 - o', 'def 1 rt 1 1 -2 - o', 'start', 'run 2', 'run 0', 'run 0', 'run 0', 'run 1', 'run 1', 'run 4', 'run 1', 'json', 'def 1 init -2', 'restart', 'json',
     'start @0', 'json @0', 'stop'],
    # machines with no state at all: as the root, as a sub-machine, addressed directly
    ['mach', 'end', 'mach', 'st 1 o o', 'rt 1 1 0 - o', 'sub 1 0', 'end', 'mach', 'end', 'go 1', 'json', 'start', 'run 1', 'run 1', 'start @0', 'run 0 @0', 'restart @0', 'stop @2', 'json @2',
     'stop', 'restart', 'def 0 st 0 o o', 'stop', 'def 0 st 0 o o', 'def 0 st 0 o o', 'start', 'json', 'run 1', 'stop', 'json'],
    ['mach', 'end', 'go 0', 'json', 'start', 'run 0', 'run 1', 'stop', 'restart', 'json', 'def 0 init 0', 'start', 'def 0 st 0 . .', 'start', 'run 0', 'json'],
    # Props.lean `sharedArena` (C16_arena_shared_sub_stranded): one machine object as sub-machine of two PARENTS; the first parent's
    # stop() stops it, the second parent keeps delegating to it and never handles the event itself; later the second parent restarts
    ['mach', 'st 1 . .', 'end',
     'mach', 'st 1 . .', 'sub 1 0', 'end',
     'mach', 'st 1 . .', 'st 2 . .', 'rt 1 1 2 - .', 'sub 1 0', 'end', 'go 2',
     'start @1', 'start', 'stop @1', 'run 1', 'run 1', 'restart', 'run 1', 'start @1', 'stop', 'run 1 @1', 'stop @1', 'stop @0'],
    # Props.lean `pingPong`: two unrelated machines whose transition actions call each other (accepted downwards, rejected back)
    ['mach', 'st 1 - -', 'st 2 - -', 'rt 1 1 2 - e1@1,o@1', 'rt 2 1 1 - x@1,s@1,o@1', 'end',
     'mach', 'st 1 - -', 'st 2 - -', 'rt 1 1 2 - e2@0,x,o@0', 'rt 2 0 1 G1|2/e1@0,r@0 s@0', 'end', 'go 0',
     'start', 'start @1', 'run 1', 'run 1', 'run 1', 'run 2 @1', 'run 1 @1', 'stop @1', 'run 1', 'stop'],
    # re-entrancy through GUARDS: guard bodies call run() on their own machine, on the parent and on an unrelated machine whose own
    # guards call back; every candidate guard is evaluated once, in order, up to the first match (C16_arena_guard_eval_order)
    ['mach', 'st 1 . .', 'st 2 . .', 'rt 1 0 2 G9/e1,e1@1,e3@2,o .', 'rt 1 1 2 G/o,x .', 'rt 1 0 2 G1|2/r@1,e1 o', 'rt 1 0 1 G1/o .', 'rt 2 0 1 G2/e2 .', 'end',
     'mach', 'st 1 . .', 'st 2 . .', 'rt 1 7 2 G7/e1@0 .', 'sub 1 0', 'end',
     'mach', 'st 5 . .', 'st 6 . .', 'rt 5 3 6 G/e1@1,e1@0 .', 'rt 5 0 6 G3/e7@1,o@1 e1@0', 'rt 6 0 5 - .', 'end', 'go 1',
     'start', 'start @2', 'run 1', 'run 2', 'run 1', 'run 7', 'run 3 @2', 'run 1', 'stop', 'stop @2'],
]

MALFORMED = [
    ['start', 'go 0', 'mach', 'mach', 'st -1 . .', 'st 1 . . .', 'st 1 q -', 'st 1 o, -', 'st 1234567890 . .', 'st 1 . .', 'rt 1 1 1 G1 .',
     'rt 1 1 1 G1|/. .', 'rt 1 x 1 - -', 'ev 1 1 1>2 .', 'ev 1 1 *>1|2>3 .', 'ev 1 1 *>-1 -', 'sub 1 0', 'sub 1 5', 'cb -', 'init', 'go 0', 'end',
     'end', 'sub 1 0', 'go 1', 'go -0', 'go 0', 'mach', 'st 1 . .', 'run', 'run 1 2', 'run 1x', 'stop now', 'frob', 'run -0', 'run 007',
     'run 1:', 'run 1:2:3', 'run 1:-2', 'run 1 @', 'run 1 @9', 'run 1 @x', '@0', 'stop @0', 'def', 'def 0', 'def 9 st 1 . .', 'def 0 end', 'def 0 st 2 o@5 .',
     'def 0 sub 1 0', 'def 0 st 2 o@0,e1:2@0 .', 'run 2:5',
     'json x', 'json @', 'json @99', 'json @0 @0', 'json', 'json @0', 'json @-0', 'json@0', 'Json', 'def 0 json', 'json 0',
     # the range of int, nothing beyond: 10 digits at most
     'run 2147483647', 'run 2147483648', 'run -2147483648', 'run -2147483649', 'run 9999999999', 'run 00000000001', 'run 0000000001', 'run 1:2147483647', 'run 1:2147483648',
     'run 1 @2147483648', 'run 1 @4294967296', 'run 1 @2147483647', 'def 0 st 2147483648 . .', 'def 0 st -2147483649 . .', 'def 0 init 4294967295', 'def 0 init -4294967296',
     'def 0 rt 1 4294967297 1 - .', 'def 0 ev 1 1 4294967297>1|*>-1 .', 'def 0 ev 1 1 *>4294967295 .', 'def 0 rt 1 1 1 G4294967297/. .', 'def 4294967296 init 1', 'run --1', 'run -', 'run +1'],
    # script targets beyond the machines of the case: `go` is refused
    ['mach', 'st 1 o@3 .', 'end', 'go 0', 'mach', 'st 1 . e1@@2', 'st 1 . e@1', 'end', 'go 0', 'mach', 'end', 'mach', 'end', 'go 0', 'start'],
    # `json` exists only after `go`
    ['json', 'mach', 'json', 'st 1 . .', 'json @0', 'end', 'json', 'json @0', 'go 0', 'json', 'json @1', 'json @0'],
    # a cycle of attachments is refused
    ['mach', 'st 1 . .', 'sub 1 0', 'end', 'mach', 'st 1 . .', 'sub 1 0', 'end', 'go 1', 'def 0 sub 1 1', 'def 0 sub 1 0', 'def 1 sub 1 1', 'start', 'stop'],
]


def gen(rng, tier):
    n = 2000 if tier == 'quick' else 20000
    for c in MALFORMED: yield c
    for c in DIRECTED: yield c
    # exhaustive small scope: every call sequence up to a length over a fixed depth-2 hierarchy
    import itertools
    defn = DIRECTED[1][:DIRECTED[1].index('go 2') + 1]
    alpha = ['start', 'stop', 'restart', 'run 1', 'run 2', 'run 3']
    for L in range(1, 4 if tier == 'quick' else 6):
        for seq in itertools.product(alpha, repeat=L):
            yield defn + list(seq)
    # boundary families: ids at the ends of int and around -1/0; degenerate machines; big machines
    for i in range(n // 5): yield gen_boundary(rng)
    for i in range(n // 20): yield gen_degenerate(rng)
    big = 2000 if tier == 'quick' else 10000
    yield gen_chain(big, descending=False, sub=True)
    yield gen_fan(big, guards=True)
    if tier != 'quick':
        yield gen_chain(big, descending=True)
        yield gen_fan(big, guards=False)
    for i in range(n):
        r = rng.random()
        if r < 0.15: yield gen_case(rng, rng.choice([0, 1, 2, 3]), 'self')
        elif r < 0.60: yield gen_case(rng, rng.choice([1, 2, 2, 3, 3]), 'tree')
        else: yield gen_case(rng, rng.choice([1, 2, 2, 3]), 'any')
    # definition calls from callbacks; one-event / call-heavy histories (lesson g); every point x every call x every relative
    for c in gen_points(): yield c
    for i in range(n // 4):
        yield gen_family(rng, rng.choice(['defcb', 'defcb', 'inflight']), rng.choice([1, 2, 2, 3]), rng.choice(['tree', 'any', 'any']))
    # deep nesting (the tree model is instantiated at depth 8; the arena model has no limit)
    for i in range(n // 20 if tier == 'quick' else n // 8):
        yield gen_case(rng, rng.choice([4, 5, 6, 8, 10]), rng.choice(['tree', 'tree', 'any']), p_sub=0.6)
    # hostile stream: valid cases with random lines damaged
    for i in range(n // 10):
        c = gen_case(rng, rng.choice([1, 2]), rng.choice(['tree', 'any']))
        for _ in range(rng.choice([1, 2, 4])):
            j = rng.randrange(len(c))
            r = rng.random()
            if r < 0.3: c[j] = c[j] + ' x'
            elif r < 0.6: c[j] = c[j].replace(' ', '  -', 1) if ' ' in c[j] else 'zz'
            elif r < 0.8: del c[j]
            else: c.insert(j, rng.choice(['end', 'mach', 'go 0', 'sub 1 0', 'run 1', 'start', 'def 0 st 3 . .']))
        yield c


DRIVER_CHUNK = 4000


def check(tier, seed, replay=None):
    """the standard check with the Lean driver run over chunks of cases: one driver process for all cases of the thorough tier
    writes more than vlib's output cap of 256 MB (snapshot lines of 40-machine hierarchies, toJson dumps) and may pass the
    600 s limit on a loaded machine"""
    import types
    orig = vlib.run_driver_cases

    def chunked(exe_name, cases, argv=(), timeout=600, extra_input=None):
        out, idxs = {}, sorted(cases)
        for pos in range(0, len(idxs), DRIVER_CHUNK):
            out.update(orig(exe_name, {i: cases[i] for i in idxs[pos:pos + DRIVER_CHUNK]}, argv, timeout))
        return out
    vlib.run_driver_cases = chunked
    P = types.SimpleNamespace(**{k: v for k, v in globals().items() if not k.startswith('__') and k != 'check'})
    try:
        return vlib.standard_check(P, tier, seed, replay)
    finally:
        vlib.run_driver_cases = orig


def nontrivial(ops, model_lines):
    tags = set()
    for l in model_lines:
        if l.startswith('B '): tags.update(l[2:].split())
    deep = any(t.startswith('depth') and t != 'depth0' for t in tags)
    return 1 if (deep and 'run-true' in tags) else None


def _shape(line):
    w = line.split()
    if len(w) >= 4 and w[0] == 'P' and w[1] == 'T':
        return 'T %s' % w[3].split('@')[0]
    if w and w[0] == 'CRASH': return ' '.join(w[:2])[:40]
    if len(w) >= 2 and w[0] == 'P':
        return w[1] if w[1] in ('S', 'R', 'J', 'st', 'rt', 'ev', 'sub', 'go', 'end', 'mach', 'init', 'cb', 'def') else 'P?'
    return w[0] if w else '-'


def fingerprint(ops, d):
    """class of the first divergence: shapes (kind of line, nesting depth, event kind) of the
    implementation's and the model's line, and which call was being executed"""
    import hashlib
    calls = [o.split()[0] for o in ops if o.split() and o.split()[0] in ('start', 'stop', 'restart', 'run')]
    last = 'stop' if (calls and calls[-1] in ('stop', 'restart')) else (calls[-1] if calls else '-')
    key = '%s | %s | %s' % (_shape(d[1]) if d else '-', _shape(d[2]) if d else '-', last)
    return hashlib.sha1(key.encode()).hexdigest()[:12]


LEVEL_TEXT = ('Lean 4 theorems over a hand-written model of StateMachine::Impl (start/stop/restart/run with cb_level_, nested machines of any '
              'depth): refinement to an independently written reference semantics for every definition and call sequence, first-match route '
              'selection, exit/action/enter/notify exactly once and in order per transition, enter/exit balance at every nesting level, '
              're-entrant calls on the own machine and on every ancestor rejected without state change; guard evaluations once each, in order, up to the first match; '
              'for the ARENA model (all machine objects in one store: callbacks calling any machine, shared sub-machines, direct calls, late definitions) per machine object and for '
              'every program: balance, idle between calls, re-entrancy rejected, frame, first-match, guard order, order-once, fuel suffices, and the same with definition calls '
              'issued from callbacks (refused on running machines, so the routes vector of a find_if in flight is never modified; setInitState/setStateChangedCallback never refused: witnesses); '
              'arena = reference semantics on hierarchical stores; every negative handler answer falls through to the route scan; the models are tied to state_machine.cpp on every run by differential execution '
              'of generated hierarchies (ASan+UBSan build of the working tree)')
LEVEL_NOTE = ('trusted: Lean kernel, hand-written model + differential tie (coverage bounded by the generator, measured in evidence); callbacks '
              'calling machines other than their own or an ancestor, shared sub-machine objects, direct calls to sub-machines and late definition calls '
              'are covered by the arena theorems (balance / re-entrancy / frame per machine object, every program) and, for conformance to the '
              'reference semantics, by C16_arena_conforms on hierarchical stores and by the arena model + tie beyond; a machine object shared by two parents is outside the statement (witness theorems)')
TECHNIQUE = 'Lean 4 refinement proof (transcribed model -> reference semantics) + model/implementation correspondence check'
DESIGN_REF = 'DESIGN.md §6 C16, §7 row 9'
