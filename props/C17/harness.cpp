// C17 harness: builds real action trees (modules/flow) from the op file and drives them on the real
// epoll loop under a virtual monotonic clock.  One op line per loop pass: the script step runs in
// the fd-event phase of the pass (an always-readable eventfd), i.e. after the expired timers and
// before the deferred tasks (finish/block notifications) of that pass, so control calls land
// between a notification being queued and being delivered.  Output format: lean/Driver/C17.lean.
#include "vh.h"
#include "vtime.h"
#include <sys/eventfd.h>
#include <unistd.h>
#include <memory>
#include <map>
#include <deque>
#include <tbox/base/log_output.h>
#include <tbox/event/loop.h>
#include <tbox/event/fd_event.h>
#include <tbox/flow/action.h>
#include <tbox/flow/actions/function_action.h>
#include <tbox/flow/actions/sleep_action.h>
#include <tbox/flow/actions/dummy_action.h>
#include <tbox/flow/actions/sequence_action.h>
#include <tbox/flow/actions/parallel_action.h>
#include <tbox/flow/actions/if_else_action.h>
#include <tbox/flow/actions/if_then_action.h>
#include <tbox/flow/actions/switch_action.h>
#include <tbox/flow/actions/loop_action.h>
#include <tbox/flow/actions/loop_if_action.h>
#include <tbox/flow/actions/repeat_action.h>
#include <tbox/flow/actions/wrapper_action.h>
#include <tbox/flow/actions/composite_action.h>
#include <tbox/flow/action_executor.h>

using namespace tbox;
using namespace tbox::flow;

static event::Loop *loop = nullptr;
static Action *root = nullptr;
static std::vector<Action*> nodes;          // by preorder id
static std::vector<DummyAction*> dummies;   // by id (nullptr if not a dummy)
static std::map<int, std::vector<int>> kid_ids;   // composite id -> child ids
static std::vector<bool> is_func, is_asm;         // by id
static int root_fins = 0;                         // finish callbacks of the root since its last reset (free mode)
static int last_root_ctl = -1;                    // last control call made on the root in the current op (free mode), -1 none
// "a reset tree behaves like a freshly built one", evaluated on the real code (round 10): `mark` records the end state of a
// control-free run of the freshly built tree (state/result of every node, calls of every function leaf, finish notifications
// of the root); `cmpfresh` compares the end state of the current run with it when that run began with reset() + start() on
// the root (from outside or from inside any call-out) and nothing but loop passes and clock steps happened since
static std::vector<int> fn_calls;                 // by id: body invocations since the last reset of the root
static std::vector<std::pair<int,int>> root_fin_log;   // (succ, reason code) of the root's finish notifications since its last reset
static std::vector<int64_t> root_fin_at;          // ms between the start() that began the run and each of those notifications
static std::vector<int> root_blk_log;             // reason codes of the root's block notifications since its last reset
static int restart_state = 0;                     // 0 none, 1 root just reset, 2 the current run began with reset() + start() on the root
static int fresh_state = 0;                       // 0 freshly built, untouched; 1 the current run is the first run of the freshly built tree; 2 anything else
static std::string mark_str, mark_timed; static bool has_mark = false;
// round 11: the comparison also covers runs with control calls / emits / timeout changes AFTER the start, when the restarted run is
// driven by exactly the op script of the marked fresh run (`run_log`: every op line, control call and emit since the start() that
// began the run) from the same configuration (timeout of every node at that start(); no one-shot callback script pending)
static std::vector<std::string> run_log, mark_log;
static std::vector<int64_t> cur_tmo, run_tmo, mark_tmo;      // by id: configured timeout in ms, -1 none
static int64_t run_t0 = 0; static bool run_scripts = false, mark_scripts = false;
static int callout_depth = 0;                     // > 0 while a callback script (cb / icb) makes its calls
static size_t pending_scripts();
static bool time_only(const std::vector<std::string> &l) {
    for (auto &x : l) if (x.compare(0, 4, "pass") != 0 && x.compare(0, 4, "adv ") != 0 && x.compare(0, 5, "advr ") != 0) return false;
    return true;
}
static void begin_run() { run_log.clear(); run_tmo = cur_tmo; run_t0 = vt::mono_ms(); run_scripts = pending_scripts() != 0 || callout_depth > 0; }
static void note_root_ctl(int kind) {
    if (kind == 4) {
        std::fill(fn_calls.begin(), fn_calls.end(), 0); root_fin_log.clear(); root_fin_at.clear(); root_blk_log.clear();
        restart_state = 1; fresh_state = 2; run_log.push_back("c4"); return;
    }
    if (kind == 0 && fresh_state == 0) { fresh_state = 1; begin_run(); return; }
    if (kind == 0 && restart_state == 1) { restart_state = 2; begin_run(); return; }
    if (restart_state == 1) restart_state = 0;       // reset, then something else than start: not a restarted run
    run_log.push_back("c" + std::to_string(kind));
}
static void count_fn(int id) { if (id >= 0 && (size_t)id < fn_calls.size()) ++fn_calls[(size_t)id]; }

// free mode (after an `icb` op): call-outs of inner nodes make control calls; the model does not predict such
// runs, the harness checks the clauses that need no prediction and prints `P VIOLATION …`; events go to `B` lines
static bool free_mode = false;
static void ev(const std::string &s) { std::cout << (free_mode ? "B e " : "P e ") << s << "\n"; }
static void violation(const std::string &s) { std::cout << "P VIOLATION " << s << "\n"; }
struct ICall { int kind; };                                    // 0 start 1 pause 2 resume 3 stop 4 reset
typedef std::deque<std::pair<int, std::vector<ICall>>> IScripts;   // (target node, calls), one-shot, in order
static std::map<int, IScripts> scr_body, scr_ifinal;           // by node id
static void run_iscript(std::map<int, IScripts> &m, int id);
static void check_final(int id);

// decimal to uint64_t without wrap-around (vh::to_u64 wraps): 2^64 and above are rejected
static bool to_u64s(const std::string &s, uint64_t &v) {
    if (s.empty() || s.size() > 20) return false;
    unsigned __int128 a = 0;
    for (char c : s) { if (c < '0' || c > '9') return false; a = a * 10 + (unsigned)(c - '0'); }
    if (a > (unsigned __int128)UINT64_MAX) return false;
    v = (uint64_t)a; return true;
}
static const uint64_t RAW_MAX = 1ULL << 43;      // raw durations / clock steps in ms (steady_clock counts int64 nanoseconds)

struct Parser {
    std::vector<std::string> toks; size_t pos = 0; int next_id = 0; bool bad = false;
    std::vector<Action*> made;      // every node built so far, by id (for cleanup on error)
    std::vector<DummyAction*> dums;
    std::vector<int64_t> tmos;      // by id: configured timeout in ms, -1 none
    void note_tmo(int id, int64_t ms) { if (tmos.size() <= (size_t)id) tmos.resize((size_t)id + 1, -1); tmos[(size_t)id] = ms; }
    std::vector<Action*> orphans;   // built but not (yet) owned by a parent
    std::map<int, std::vector<Action*>> kids;   // children of composite `id`

    // tmo: -1 none; @<k> (k <= 50): 100k + 2·id + 2 ms; @r<ms> (ms <= 2^43): exactly ms (width boundary families)
    static bool split_tmo(const std::string &tok, std::string &base, int64_t &tmo, bool &raw) {
        tmo = -1; raw = false;
        size_t p = tok.find('@');
        if (p == std::string::npos) { base = tok; return true; }
        if (tok.find('@', p + 1) != std::string::npos) return false;
        std::string num = tok.substr(p + 1);
        uint64_t k;
        if (!num.empty() && num[0] == 'r') {
            if (!to_u64s(num.substr(1), k) || k > RAW_MAX) return false;
            raw = true;
        } else if (!vh::to_u64(num, k) || k > 50) return false;
        base = tok.substr(0, p); tmo = (int64_t)k; return true;
    }
    static int64_t tmo_ms(int id, int64_t tmo, bool raw) { return raw ? tmo : 100 * tmo + 2 * id + 2; }
    static std::vector<std::string> colon(const std::string &s) {
        std::vector<std::string> r; size_t b = 0;
        for (;;) { size_t p = s.find(':', b); if (p == std::string::npos) { r.push_back(s.substr(b)); break; } r.push_back(s.substr(b, p - b)); b = p + 1; }
        return r;
    }
    void reg(Action *a, int id, int64_t tmo, bool raw, DummyAction *d = nullptr) {
        made.push_back(a); dums.push_back(d);
        if (tmo >= 0) { a->setTimeout(std::chrono::milliseconds(tmo_ms(id, tmo, raw))); note_tmo(id, tmo_ms(id, tmo, raw)); }
    }

    Action *leaf(const std::string &base, int id, int64_t tmo, bool raw) {
        auto c = colon(base);
        if ((c[0] == "Fs" || c[0] == "Ff") && c.size() <= 2) {
            bool succ = c[0] == "Fs";
            Action *a;
            if (c.size() == 2) {
                uint64_t t; if (!vh::to_u64(c[1], t) || t > 20) return nullptr;
                FunctionAction::FuncWithReason f = [id, succ, t](Action::Reason &r) {
                    ev("fn " + std::to_string(id)); count_fn(id);
                    run_iscript(scr_body, id);
                    r = Action::Reason(100 + (int)t, "case:" + std::to_string(t));
                    return succ;
                };
                a = new FunctionAction(*loop, std::move(f));
            } else {
                FunctionAction::Func f = [id, succ] { ev("fn " + std::to_string(id)); count_fn(id); run_iscript(scr_body, id); return succ; };
                a = new FunctionAction(*loop, std::move(f));
            }
            reg(a, id, tmo, raw); return a;
        }
        if (base == "D") {
            auto d = new DummyAction(*loop);
            d->setStartCallback([id] { ev("dstart " + std::to_string(id)); });
            d->setStopCallback([id] { ev("dstop " + std::to_string(id)); });
            d->setPauseCallback([id] { ev("dpause " + std::to_string(id)); });
            d->setResumeCallback([id] { ev("dresume " + std::to_string(id)); });
            d->setResetCallback([id] { ev("dreset " + std::to_string(id)); });
            reg(d, id, tmo, raw, d); return d;
        }
        if (c.size() == 1 && base.size() >= 3 && base[0] == 'Z' && base[1] == 'r') {
            // Zr<ms>: SleepAction of exactly <ms> milliseconds (0 and the 2^31 / 2^32 boundaries)
            uint64_t ms; if (!to_u64s(base.substr(2), ms) || ms > RAW_MAX) return nullptr;
            auto a = new SleepAction(*loop, std::chrono::milliseconds((int64_t)ms));
            reg(a, id, tmo, raw); return a;
        }
        if (c.size() == 1 && base.size() >= 2 && base[0] == 'Z') {
            uint64_t k; if (!vh::to_u64(base.substr(1), k) || k > 50) return nullptr;
            auto a = new SleepAction(*loop, std::chrono::milliseconds(100 * k + 2 * id + 1));
            reg(a, id, tmo, raw); return a;
        }
        return nullptr;
    }

    static bool mode3(const std::string &m, int &out) {
        if (m == "all") out = 0; else if (m == "anyf") out = 1; else if (m == "anys") out = 2; else return false;
        return true;
    }

    // returns nullptr on error (everything built is in `orphans`/owned by orphans)
    Action *node(int depth) {
        if (depth > 6 || pos >= toks.size()) return nullptr;
        std::string tok = toks[pos++];
        if (tok == ")") return nullptr;
        std::string base; int64_t tmo; bool raw;
        if (tok != "(") {
            if (!split_tmo(tok, base, tmo, raw)) return nullptr;
            int id = next_id++;
            Action *a = leaf(base, id, tmo, raw);
            if (a) orphans.push_back(a); else --next_id;
            return a;
        }
        if (pos >= toks.size()) return nullptr;
        std::string hd = toks[pos++];
        if (!split_tmo(hd, base, tmo, raw)) return nullptr;
        auto c = colon(base);
        int id = next_id++;
        // validate the head first (no object yet), then parse the children, then check the arity
        int kind = -1, m = 0; uint64_t n = 0; bool a1 = false, a2 = false;
        if (c[0] == "seq" && c.size() == 2 && mode3(c[1], m)) kind = 0;
        else if (c[0] == "par" && c.size() == 2 && mode3(c[1], m)) kind = 1;
        else if (c[0] == "ife" && c.size() == 2 && (c[1] == "tt" || c[1] == "tf" || c[1] == "ft")) { kind = 2; a1 = c[1][0] == 't'; a2 = c[1][1] == 't'; }
        else if (base == "ift") kind = 3;
        else if (c[0] == "sw" && c.size() == 2 && (c[1] == "d" || c[1] == "n")) { kind = 4; a1 = c[1] == "d"; }
        else if (c[0] == "loop" && c.size() == 2 && (c[1] == "fe" || c[1] == "uf" || c[1] == "us")) { kind = 5; m = c[1] == "fe" ? 0 : c[1] == "uf" ? 1 : 2; }
        else if (c[0] == "lif" && c.size() == 2 && (c[1] == "t" || c[1] == "f")) { kind = 6; a1 = c[1] == "t"; }
        else if (c[0] == "rep" && c.size() == 3 && to_u64s(c[1], n) && (c[2] == "nb" || c[2] == "bf" || c[2] == "bs")) { kind = 7; m = c[2] == "nb" ? 0 : c[2] == "bf" ? 1 : 2; }
        else if (c[0] == "wr" && c.size() == 2 && (c[1] == "n" || c[1] == "i" || c[1] == "s" || c[1] == "f")) { kind = 8; m = c[1] == "n" ? 0 : c[1] == "i" ? 1 : c[1] == "s" ? 2 : 3; }
        else if (base == "cmp") kind = 9;
        if (kind < 0) return nullptr;
        size_t slot = made.size();
        made.push_back(nullptr); dums.push_back(nullptr);       // reserve the id's slot (preorder)
        std::vector<Action*> ch;
        for (;;) {
            if (pos >= toks.size()) return nullptr;
            if (toks[pos] == ")") { ++pos; break; }
            Action *x = node(depth + 1);
            if (!x) return nullptr;
            ch.push_back(x);
        }
        size_t k = ch.size();
        bool ok;
        switch (kind) {
            case 0: case 1: ok = true; break;
            case 2: ok = k == 1u + (a1 ? 1 : 0) + (a2 ? 1 : 0); break;
            case 3: ok = k >= 2 && k % 2 == 0; break;
            case 4: ok = k >= 2; break;
            case 6: ok = k == 2; break;
            default: ok = k == 1; break;
        }
        if (!ok) return nullptr;
        AssembleAction *a = nullptr;
        bool adopted = true;
        auto own = [&](bool r) { if (!r) adopted = false; };
        switch (kind) {
            case 0: { auto s = new SequenceAction(*loop, (SequenceAction::Mode)m); a = s; for (auto x : ch) own(s->addChild(x) >= 0); break; }
            case 1: { auto s = new ParallelAction(*loop, (ParallelAction::Mode)m); a = s; for (auto x : ch) own(s->addChild(x) >= 0); break; }
            case 2: { auto s = new IfElseAction(*loop); a = s; own(s->setChildAs(ch[0], "if"));
                      if (a1) own(s->setChildAs(ch[1], "then")); if (a2) own(s->setChildAs(ch[a1 ? 2 : 1], "else")); break; }
            case 3: { auto s = new IfThenAction(*loop); a = s; for (size_t i = 0; i < k; ++i) own(s->addChildAs(ch[i], i % 2 ? "then" : "if") >= 0); break; }
            case 4: { auto s = new SwitchAction(*loop); a = s; own(s->setChildAs(ch[0], "switch"));
                      size_t ncase = k - 1 - (a1 ? 1 : 0);
                      for (size_t i = 0; i < ncase; ++i) own(s->setChildAs(ch[1 + i], "case:" + std::to_string(i)));
                      if (a1) own(s->setChildAs(ch[k - 1], "default")); break; }
            case 5: { auto s = new LoopAction(*loop, (LoopAction::Mode)m); a = s; own(s->setChild(ch[0])); break; }
            case 6: { auto s = new LoopIfAction(*loop); a = s; s->setFinishResult(a1); own(s->setChildAs(ch[0], "if")); own(s->setChildAs(ch[1], "exec")); break; }
            case 7: { auto s = new RepeatAction(*loop, (size_t)n, (RepeatAction::Mode)m); a = s; own(s->setChild(ch[0])); break; }
            case 8: { auto s = new WrapperAction(*loop, (WrapperAction::Mode)m); a = s; own(s->setChild(ch[0])); break; }
            case 9: { auto s = new CompositeAction(*loop, "Composite"); a = s; own(s->setChild(ch[0])); break; }
        }
        if (!adopted) { std::cout << "harness: child not adopted\n"; }
        // the children are owned by `a` now
        for (auto x : ch) for (auto it = orphans.begin(); it != orphans.end(); ++it) if (*it == x) { orphans.erase(it); break; }
        orphans.push_back(a);
        a->setFinalCallback([id] { ev("final " + std::to_string(id)); check_final(id); run_iscript(scr_ifinal, id); });
        made[slot] = a;
        kids[id] = ch;
        if (tmo >= 0) { a->setTimeout(std::chrono::milliseconds(tmo_ms(id, tmo, raw))); note_tmo(id, tmo_ms(id, tmo, raw)); }
        return a;
    }
};

static void drop_tree() {
    if (root) { delete root; root = nullptr; }
    nodes.clear(); dummies.clear();
}

static const char *stch(Action::State s) {
    switch (s) { case Action::State::kIdle: return "I"; case Action::State::kRunning: return "R"; case Action::State::kPause: return "P";
                 case Action::State::kFinished: return "F"; default: return "S"; }
}
static const char *rsch(Action::Result r) {
    switch (r) { case Action::Result::kUnsure: return "?"; case Action::Result::kSuccess: return "+"; default: return "-"; }
}
static std::string snapshot() {
    std::string s;
    for (auto a : nodes) { s += stch(a->state()); s += rsch(a->result()); }
    return s;
}
static std::string summary() {
    std::string s = "s=" + snapshot() + " calls=";
    for (size_t i = 0; i < fn_calls.size(); ++i) if (i < is_func.size() && is_func[i]) s += std::to_string(i) + ":" + std::to_string(fn_calls[i]) + ",";
    s += " fin=";
    for (auto &f : root_fin_log) s += std::to_string(f.first) + "/" + std::to_string(f.second) + ",";
    s += " blk=";
    for (auto b : root_blk_log) s += std::to_string(b) + ",";
    return s;
}
static std::string timed_summary() {      // when the finish notifications of the root were delivered, relative to the start of the run
    std::string s = "at=";
    for (auto t : root_fin_at) s += std::to_string(t) + ",";
    return s;
}

static const char *stch(Action::State s);
// ---- ActionExecutor part: the executor owns (and deletes) the actions; liveness is tracked by the destructors
static ActionExecutor *xexec = nullptr;
static std::map<int, Action*> xlive;           // executor action id -> live object
static int xcount = 0;                          // actions appended so far (ids are 1..xcount)
static int xpending_id = 0;                     // id the object under construction will get
struct XDummy : DummyAction { int xid; explicit XDummy(event::Loop &l, int i) : DummyAction(l), xid(i) {} ~XDummy() override { xlive.erase(xid); } };
struct XFunc : FunctionAction { int xid; XFunc(event::Loop &l, int i, Func &&f) : FunctionAction(l, std::move(f)), xid(i) {} ~XFunc() override { xlive.erase(xid); } };
static void drop_exec() { delete xexec; xexec = nullptr; xlive.clear(); xcount = 0; }
static void ensure_exec() {
    if (xexec) return;
    xexec = new ActionExecutor;
    xexec->setActionStartedCallback([](ActionExecutor::ActionId id) { ev("xstarted " + std::to_string(id)); });
    xexec->setActionFinishedCallback([](ActionExecutor::ActionId id) { ev("xfinished " + std::to_string(id)); });
    xexec->setAllFinishedCallback([] { ev("xall"); });
}
static std::string xsnapshot() {
    std::string s;
    for (int i = 1; i <= xcount; ++i) {
        auto it = xlive.find(i);
        s += it == xlive.end() ? "x" : stch(it->second->state());
    }
    return s.empty() ? "-" : s;
}

struct Call { int kind; size_t n; char x; };   // 0 start 1 pause 2 resume 3 stop 4 reset 5 emit

static bool parse_call(const std::string &w, Call &c) {
    if (w == "start") { c.kind = 0; return true; }
    if (w == "pause") { c.kind = 1; return true; }
    if (w == "resume") { c.kind = 2; return true; }
    if (w == "stop") { c.kind = 3; return true; }
    if (w == "reset") { c.kind = 4; return true; }
    auto p = Parser::colon(w);
    if (p.size() == 3 && p[0] == "emit") {
        uint64_t n; if (!vh::to_u64(p[1], n) || n >= nodes.size()) return false;
        if (p[2] != "s" && p[2] != "f" && p[2] != "b") return false;
        c.kind = 5; c.n = n; c.x = p[2][0]; return true;
    }
    return false;
}

static bool do_call(const Call &c) {
    if (c.kind <= 4) { last_root_ctl = c.kind; note_root_ctl(c.kind); }
    switch (c.kind) {
        case 0: return root->start();
        case 1: return root->pause();
        case 2: return root->resume();
        case 3: return root->stop();
        case 4: root->reset(); root_fins = 0; return true;
        default: {
            DummyAction *d = dummies[c.n];
            if (!d || d->state() != Action::State::kRunning) return false;     // a leaf completes / blocks only while it runs
            run_log.push_back("e" + std::to_string(c.n) + c.x);
            if (c.x == 'b') d->emitBlock(Action::Reason()); else d->emitFinish(c.x == 's');
            return true;
        }
    }
}

// ---- free mode: control calls from the call-outs of inner nodes
static bool do_icall(int target, const ICall &c) {
    Action *a = nodes[target];
    if (target == 0) { last_root_ctl = c.kind; note_root_ctl(c.kind); } else { restart_state = 0; fresh_state = 2; }
    switch (c.kind) {
        case 0: return a->start();
        case 1: return a->pause();
        case 2: return a->resume();
        case 3: return a->stop();
        default: a->reset(); if (target == 0) root_fins = 0; return true;
    }
}
static void run_iscript(std::map<int, IScripts> &m, int id) {
    auto it = m.find(id);
    if (it == m.end() || it->second.empty()) return;
    auto sc = std::move(it->second.front()); it->second.pop_front();
    ++callout_depth;
    for (auto &c : sc.second) ev(std::string("iret ") + (do_icall(sc.first, c) ? "1" : "0"));
    --callout_depth;
}
static bool ended(Action *a) { auto s = a->state(); return s == Action::State::kFinished || s == Action::State::kStoped; }
static bool underway(Action *a) { auto s = a->state(); return s == Action::State::kRunning || s == Action::State::kPause; }
// the final callback belongs to an action that has just ended
static void check_final(int id) {
    if (!free_mode || id >= (int)nodes.size() || !nodes[id]) return;
    if (!ended(nodes[id])) violation("final callback of node " + std::to_string(id) + " in state " + stch(nodes[id]->state()));
}
static bool any_underway_below(int id) {
    auto it = kid_ids.find(id);
    if (it == kid_ids.end()) return false;
    for (int k : it->second) if (underway(nodes[k]) || any_underway_below(k)) return true;
    return false;
}
// after every loop pass: below an action that is not under way nothing is Running / Pause
static void check_quiescent() {
    for (size_t i = 0; i < nodes.size(); ++i)
        if (!underway(nodes[i]) && any_underway_below((int)i)) {
            violation("descendant under way below node " + std::to_string(i) + " in state " + stch(nodes[i]->state())); return; }
}
// the last control call made on the root in this op (from outside or from a call-out) was stop() / reset():
// at the end of the op the root is not under way / is Idle
static void check_last_call() {
    if (last_root_ctl == 3 && underway(root)) violation(std::string("root is ") + stch(root->state()) + " after stop()");
    if (last_root_ctl == 4 && root->state() != Action::State::kIdle) violation(std::string("root is ") + stch(root->state()) + " after reset()");
}
// `settle` (after the queue has drained and every timer expired): a Running composite waits for a child under way
static void check_settled() {
    for (size_t i = 0; i < nodes.size(); ++i)
        if (is_asm[i] && nodes[i]->state() == Action::State::kRunning && !any_underway_below((int)i)) {
            violation("running composite " + std::to_string(i) + " waits for nothing"); return; }
}

// one-shot callback scripts of the root: every invocation of the callback takes the next script and makes its
// control calls on the root from inside the callback
static std::deque<std::vector<Call>> scr_final, scr_fin, scr_blk;
static void run_script(std::deque<std::vector<Call>> &q) {
    if (q.empty()) return;
    std::vector<Call> cs = std::move(q.front()); q.pop_front();
    ++callout_depth;
    for (auto &c : cs) ev(std::string("ret ") + (do_call(c) ? "1" : "0"));
    --callout_depth;
}

// `cmpfresh`: the current run began with reset() + start() on the root; it is compared with the marked run of the freshly built tree
// (a) when nothing but loop passes and clock steps followed either start (round 10: end state only, the schedules may differ), or
// (b) when both runs were driven by the same op script from the same timeout configuration with no callback script pending
//     (round 11: end state AND the instants of the root's finish notifications relative to the start)
static void do_cmpfresh() {
    bool a = time_only(run_log) && time_only(mark_log) && run_tmo == mark_tmo;
    bool b = run_log == mark_log && run_tmo == mark_tmo && !run_scripts && !mark_scripts;
    if (has_mark && restart_state == 2 && (a || b)) {
        std::string got = summary(), want = mark_str;
        if (b) { got += " " + timed_summary(); want += " " + mark_timed; }
        std::cout << "B cmpfresh compared" << (b ? " same-script" : "") << "\n";
        if (got != want) violation("the run restarted by reset() + start() differs from the run of the freshly built tree: got " + got + " want " + want);
    } else std::cout << "B cmpfresh skipped\n";
}
static size_t pending_scripts() {
    size_t n = scr_final.size() + scr_fin.size() + scr_blk.size();
    for (auto &kv : scr_body) n += kv.second.size();
    for (auto &kv : scr_ifinal) n += kv.second.size();
    return n;
}

int main() {
    LogOutput_Disable();
    vt::enable(1000, 1700000000000LL);
    loop = event::Loop::New("epoll");
    int efd = eventfd(1, EFD_NONBLOCK);             // counter > 0 and never read: readable in every pass
    auto fdev = loop->newFdEvent("verif-driver");
    fdev->initialize(efd, event::FdEvent::kReadEvent, event::Event::Mode::kPersist);
    bool pending = false, settle_pending = false, mark_pending = false, cmp_pending = false; std::string pending_rets;
    int settle_wait = 0;        // `settle`: loop passes still to run (without reading an op) before the check
    bool settle_adv = false;    // `mark` / `cmpfresh`: each of those passes moves the clock by 6 s first (= op `adv 60`)
    fdev->setCallback([&](short) {
        if (settle_wait > 0) { if (settle_adv) vt::advance_ms(6000); --settle_wait; return; }
        settle_adv = false;
        if (pending) {
            if (xexec) std::cout << "P x r=" << pending_rets << " cur=" << xexec->current() << " st=" << xsnapshot() << "\n";
            else if (free_mode) {
                std::cout << "B r=" << pending_rets << " s=" << snapshot() << "\n"; check_quiescent(); check_last_call(); if (settle_pending) check_settled();
                if (cmp_pending) do_cmpfresh();
                std::cout << "P free\n"; }
            else {
                std::cout << "P r=" << pending_rets << " s=" << snapshot() << "\n";
                if (mark_pending) {
                    has_mark = fresh_state == 1; mark_str = has_mark ? summary() : ""; mark_timed = timed_summary();
                    mark_log = run_log; mark_tmo = run_tmo; mark_scripts = run_scripts;
                }
                if (cmp_pending) do_cmpfresh();
            }
            pending = false; settle_pending = false; mark_pending = false; cmp_pending = false; last_root_ctl = -1;
        }
        // a malformed op line is answered with `bad-op` and does not take a loop pass (the model does not step either):
        // the next line is read at once
        auto handle = [&](const std::string &line) -> bool {
        auto w = vh::words(line);
        if (w.empty()) return true;
        if (w[0] == "case") {
            drop_exec(); drop_tree(); free_mode = false;
            // every case starts at the same instant (nothing is armed now): the raw clock steps of the width families
            // must not add up over a batch (time points are int64 nanoseconds)
            vt::enable(1000, 1700000000000LL);
            std::cout << line << "\n"; return true; }
        // ---- executor ops (only in a case without a tree)
        if (w[0][0] == 'x') {
            uint64_t n, pr;
            if (root) { std::cout << "bad-op\n"; return false; }
            if (w[0] == "xapp" && w.size() == 3 && (w[1] == "D" || w[1] == "Fs" || w[1] == "Ff" || w[1] == "X") &&
                vh::to_u64(w[2], pr) && pr <= 2 && xcount < 30) {
                ensure_exec();
                int id = ++xcount;
                Action *a;
                if (w[1] == "D" || w[1] == "X") {
                    auto d = new XDummy(*loop, id);
                    if (w[1] == "X") { d->start(); d->stop(); }      // appended already stopped
                    a = d;
                } else {
                    bool succ = w[1] == "Fs";
                    a = new XFunc(*loop, id, [succ] { return succ; });
                }
                xlive[id] = a;
                int got = xexec->append(a, (int)pr);
                pending_rets = std::to_string(got); pending = true;
            } else if (w[0] == "xcancel" && w.size() == 2 && vh::to_u64(w[1], n) && n >= 1 && n <= 1000 && xexec) {
                pending_rets = xexec->cancel((int)n) ? "1" : "0"; pending = true;
            } else if (w[0] == "xcancelcur" && w.size() == 1 && xexec) {
                pending_rets = xexec->cancelCurrent() ? "1" : "0"; pending = true;
            } else if (w[0] == "xcancelall" && w.size() == 1 && xexec) {
                xexec->cancelAll(); pending_rets = "1"; pending = true;
            } else if (w[0] == "xemit" && w.size() == 3 && vh::to_u64(w[1], n) && n >= 1 && n <= 1000 && (w[2] == "s" || w[2] == "f") && xexec) {
                auto it = xlive.find((int)n);
                XDummy *d = it == xlive.end() ? nullptr : dynamic_cast<XDummy*>(it->second);
                if (d && d->state() == Action::State::kRunning) { d->emitFinish(w[2] == "s"); pending_rets = "1"; }
                else pending_rets = "0";
                pending = true;
            } else if (w[0] == "xpass" && w.size() == 1 && xexec) {
                pending_rets = "1"; pending = true;
            } else { std::cout << "bad-op\n"; return false; }
            return true;
        }
        if (xexec) { std::cout << "bad-op\n"; return false; }
        if (w[0] == "cfg" && w.size() == 2 && w[1].size() == 4 && root == nullptr &&
            w[1].find_first_not_of("01") == std::string::npos) { std::cout << "P cfg\n"; return true; }
        if (w[0] == "tree") {
            Parser ps; ps.toks.assign(w.begin() + 1, w.end());
            Action *t = ps.node(0);
            if (!t || ps.pos != ps.toks.size() || ps.next_id > 40) {
                for (auto x : ps.orphans) delete x;
                std::cout << "bad-op\n"; return false;
            }
            drop_tree();
            root = t; nodes = ps.made; dummies = ps.dums;
            scr_final.clear(); scr_fin.clear(); scr_blk.clear();
            free_mode = false; scr_body.clear(); scr_ifinal.clear(); root_fins = 0;
            fn_calls.assign(nodes.size(), 0); root_fin_log.clear(); root_fin_at.clear(); root_blk_log.clear(); restart_state = 0; fresh_state = 0; has_mark = false; mark_str.clear();
            run_log.clear(); mark_log.clear(); cur_tmo = ps.tmos; cur_tmo.resize(nodes.size(), -1);
            kid_ids.clear(); is_func.assign(nodes.size(), false); is_asm.assign(nodes.size(), false);
            {
                std::map<Action*, int> idx;
                for (size_t i = 0; i < nodes.size(); ++i) idx[nodes[i]] = (int)i;
                for (auto &kv : ps.kids) { for (auto x : kv.second) kid_ids[kv.first].push_back(idx[x]); is_asm[kv.first] = true; }
                for (size_t i = 0; i < nodes.size(); ++i) is_func[i] = dynamic_cast<FunctionAction*>(nodes[i]) != nullptr;
            }
            root->setFinishCallback([](bool s, const Action::Reason &why, const Action::Trace &) {
                ev("fin " + std::to_string(s ? 1 : 0) + " " + std::to_string(why.code));
                root_fin_log.push_back(std::make_pair(s ? 1 : 0, why.code)); root_fin_at.push_back(vt::mono_ms() - run_t0);
                if (free_mode) {
                    if (root->state() != Action::State::kFinished) violation(std::string("finish notification while the root is ") + stch(root->state()));
                    if (++root_fins > 1) violation("finish notification delivered twice in one run");
                }
                run_script(scr_fin); });
            root->setBlockCallback([](const Action::Reason &why, const Action::Trace &) {
                ev("blk " + std::to_string(why.code)); root_blk_log.push_back(why.code);
                if (free_mode && (root->state() == Action::State::kIdle || root->state() == Action::State::kStoped))
                    violation(std::string("block notification while the root is ") + stch(root->state()));
                run_script(scr_blk); });
            if (auto as = dynamic_cast<AssembleAction*>(root))
                as->setFinalCallback([] { ev("final 0"); check_final(0); run_script(scr_final); run_iscript(scr_ifinal, 0); });
            std::cout << "P tree n=" << nodes.size() << " s=" << snapshot() << "\n";
            return true;
        }
        if (w[0] == "share" && w.size() == 2 && !root) {
            // round 11: ONE leaf object attached to TWO parents of the same kind: the second attach must be refused (setParent), the
            // second parent must not use or own the leaf (its destructor would delete it a second time: ASan)
            static const char *kinds[] = { "seq", "par", "ift", "ife", "sw", "loop", "lif", "rep", "wr", "cmp" };
            int kd = -1; for (int i = 0; i < 10; ++i) if (w[1] == kinds[i]) kd = i;
            if (kd < 0) { std::cout << "bad-op\n"; return false; }
            int calls = 0;
            auto leaf = new FunctionAction(*loop, [&calls] { ++calls; return true; });
            auto mk = [&](Action *&out, int &ret) {
                switch (kd) {
                    case 0: { auto a = new SequenceAction(*loop); ret = a->addChild(leaf); out = a; break; }
                    case 1: { auto a = new ParallelAction(*loop); ret = a->addChild(leaf); out = a; break; }
                    case 2: { auto a = new IfThenAction(*loop); ret = a->addChildAs(leaf, "if"); out = a; break; }
                    case 3: { auto a = new IfElseAction(*loop); ret = a->setChildAs(leaf, "if") ? 1 : 0; out = a; break; }
                    case 4: { auto a = new SwitchAction(*loop); ret = a->setChildAs(leaf, "switch") ? 1 : 0; out = a; break; }
                    case 5: { auto a = new LoopAction(*loop); ret = a->setChild(leaf) ? 1 : 0; out = a; break; }
                    case 6: { auto a = new LoopIfAction(*loop); ret = a->setChildAs(leaf, "if") ? 1 : 0; out = a; break; }
                    case 7: { auto a = new RepeatAction(*loop, 2); ret = a->setChild(leaf) ? 1 : 0; out = a; break; }
                    case 8: { auto a = new WrapperAction(*loop); ret = a->setChild(leaf) ? 1 : 0; out = a; break; }
                    default: { auto a = new CompositeAction(*loop, "Composite"); ret = a->setChild(leaf) ? 1 : 0; out = a; break; }
                }
            };
            Action *p1 = nullptr, *p2 = nullptr; int r1 = 0, r2 = 0;
            mk(p1, r1); mk(p2, r2);
            std::cout << "M share ret1=" << r1 << " ret2=" << r2 << "\n";
            std::string out = "P share " + w[1];
            if (kd <= 2) {      // the kinds that may run without children: the second parent runs without the leaf
                p2->start(); out += std::string(" st2=") + stch(p2->state()) + rsch(p2->result()) + " calls2=" + std::to_string(calls);
                if (kd <= 1) { p1->start(); out += std::string(" st1=") + stch(p1->state()) + " calls1=" + std::to_string(calls); }
            } else out += std::string(" ready2=") + (p2->isReady() ? "1" : "0");
            std::cout << out << "\n";
            delete p2; delete p1;
            return true;
        }
        if (!root) { std::cout << "bad-op\n"; return false; }
        uint64_t k;
        if ((w[0] == "do" || w[0] == "defer") && w.size() >= 2) {
            std::vector<Call> cs;
            for (size_t i = 1; i < w.size(); ++i) { Call c; if (!parse_call(w[i], c)) { std::cout << "bad-op\n"; return false; } cs.push_back(c); }
            if (w[0] == "do") {
                pending_rets.clear();
                for (auto &c : cs) pending_rets += do_call(c) ? "1" : "0";
            } else {
                pending_rets = "-"; run_log.push_back(line);
                loop->runNext([cs] { for (auto &c : cs) ev(std::string("ret ") + (do_call(c) ? "1" : "0")); }, "verif-defer");
            }
            pending = true;
        } else if (w[0] == "icb" && w.size() >= 5 && w.size() <= 10 && (w[1] == "body" || w[1] == "final")) {
            uint64_t n, tg;
            if (!vh::to_u64(w[2], n) || n >= nodes.size() || !vh::to_u64(w[3], tg) || tg >= nodes.size() ||
                (w[1] == "body" ? !is_func[n] : !is_asm[n])) { std::cout << "bad-op\n"; return false; }
            std::vector<ICall> cs;
            for (size_t i = 4; i < w.size(); ++i) { Call c; if (!parse_call(w[i], c) || c.kind == 5) { std::cout << "bad-op\n"; return false; } cs.push_back(ICall{c.kind}); }
            (w[1] == "body" ? scr_body : scr_ifinal)[(int)n].push_back(std::make_pair((int)tg, cs));
            free_mode = true; run_log.push_back(line);
            pending_rets = "-"; pending = true;
        } else if ((w[0] == "settmo" && w.size() == 3) || (w[0] == "clrtmo" && w.size() == 2)) {
            // Action::setTimeout(ms) / resetTimeout() on any node at any pass (round 11); <spec> as after `@`: <k> or r<ms>
            uint64_t n; std::string base; int64_t tmo = -1; bool raw = false;
            if (!vh::to_u64(w[1], n) || n >= nodes.size() || (w[0] == "settmo" && (!Parser::split_tmo("x@" + w[2], base, tmo, raw) || tmo < 0))) {
                std::cout << "bad-op\n"; return false; }
            run_log.push_back(line);
            if (w[0] == "settmo") { cur_tmo[n] = Parser::tmo_ms((int)n, tmo, raw); nodes[n]->setTimeout(std::chrono::milliseconds(cur_tmo[n])); }
            else { cur_tmo[n] = -1; nodes[n]->resetTimeout(); }
            pending_rets = "-"; pending = true;
        } else if (w[0] == "mark" && w.size() == 1 && !free_mode) {
            // = `pass` followed by 8n+40 times `adv 60` (everything that can end has ended); then the end state of the run is
            // recorded if it is the control-free run of the freshly built tree (one start(), nothing else)
            pending_rets = "-"; pending = true; mark_pending = true; settle_wait = 8 * (int)nodes.size() + 40; settle_adv = true;
        } else if (w[0] == "cmpfresh" && w.size() == 1) {
            pending_rets = "-"; pending = true; settle_pending = free_mode; cmp_pending = true; settle_wait = 8 * (int)nodes.size() + 40; settle_adv = true;
        } else if (w[0] == "settle" && w.size() == 1 && free_mode) {
            // every level of the tree needs one pass to hand its notification up: let the queue drain first
            pending_rets = "-"; pending = true; settle_pending = true; settle_wait = 2 * (int)nodes.size() + 4; run_log.push_back("passes settle");
        } else if (w[0] == "cb" && w.size() >= 3 && w.size() <= 8 && (w[1] == "final" || w[1] == "fin" || w[1] == "blk")) {
            std::vector<Call> cs;
            for (size_t i = 2; i < w.size(); ++i) { Call c; if (!parse_call(w[i], c) || c.kind == 5) { std::cout << "bad-op\n"; return false; } cs.push_back(c); }
            (w[1] == "final" ? scr_final : w[1] == "fin" ? scr_fin : scr_blk).push_back(cs); run_log.push_back(line);
            pending_rets = "-"; pending = true;
        } else if (w[0] == "adv" && w.size() == 2 && vh::to_u64(w[1], k) && k <= 100) {
            vt::advance_ms((int64_t)(100 * k)); pending_rets = "-"; pending = true; run_log.push_back(line);
        } else if (w[0] == "advr" && w.size() == 2 && to_u64s(w[1], k) && k <= RAW_MAX) {
            vt::advance_mono_ms((int64_t)k); pending_rets = "-"; pending = true; run_log.push_back(line);
        } else if (w[0] == "advdo" && w.size() >= 3 && to_u64s(w[1], k) && k <= RAW_MAX) {
            // the clock moves and the control calls are made in the SAME fd callback: timers that are due by now have not
            // fired yet (a late loop pass) - pause() then sees finish_time_ < now
            std::vector<Call> cs;
            for (size_t i = 2; i < w.size(); ++i) { Call c; if (!parse_call(w[i], c)) { std::cout << "bad-op\n"; return false; } cs.push_back(c); }
            vt::advance_mono_ms((int64_t)k); run_log.push_back("advdo " + w[1]);
            pending_rets.clear();
            for (auto &c : cs) pending_rets += do_call(c) ? "1" : "0";
            pending = true;
        } else if (w[0] == "passes" && w.size() == 2 && vh::to_u64(w[1], k) && k >= 1 && k <= 200000) {
            // k loop passes (one snapshot at the end): long synchronous loops
            pending_rets = "-"; pending = true; settle_wait = (int)k - 1; run_log.push_back(line);
        } else if (w[0] == "pass" && w.size() == 1) {
            pending_rets = "-"; pending = true; run_log.push_back("pass");
        } else { std::cout << "bad-op\n"; return false; }
            return true;
        };
        for (;;) {
            std::string line;
            if (!std::getline(std::cin, line)) { drop_exec(); drop_tree(); loop->exitLoop(); return; }
            if (handle(line)) break;
        }
    });
    fdev->enable();
    loop->runLoop(event::Loop::Mode::kForever);
    delete fdev;
    close(efd);
    delete loop;
    return 0;
}
