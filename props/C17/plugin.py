"""C17 — action trees finish once with the documented result; nothing left running (modules/flow)."""
import hashlib, itertools, re
import vlib

ID = 'C17'
LEAN_MODULES = ['TboxModel.C17.Props']
EXE = 'c17'
THEOREMS = [
    # layer 1: one action, every call sequence (log level)
    'Tbox.C17.C17_base_finish_once', 'Tbox.C17.C17_base_no_stale_after_reset', 'Tbox.C17.C17_base_stopped_delivers_none',
    # layer 2: every tree, every op sequence
    'Tbox.C17.C17_tree_inv', 'Tbox.C17.C17_quiescent_after_end', 'Tbox.C17.C17_quiescent_after_stop',
    'Tbox.C17.C17_no_stale_anywhere', 'Tbox.C17.C17_serial_invariants', 'Tbox.C17.C17_final_once_per_run', 'Tbox.C17.C17_final_hook',
    'Tbox.C17.C17_reset_fresh', 'Tbox.C17.C17_no_restart_underway',
    'Tbox.C17.C17_result_matches_doc_sequence', 'Tbox.C17.C17_result_matches_doc_sequence_eval',
    # defects: unrepaired configuration vs repaired
    'Tbox.C17.C17_parallel_lost_result_counterexample', 'Tbox.C17.C17_parallel_repaired',
    'Tbox.C17.C17_replay_after_reset_counterexample', 'Tbox.C17.C17_replay_repaired',
    'Tbox.C17.C17_replay_advances_next_run_counterexample', 'Tbox.C17.C17_replay_next_run_repaired',
    'Tbox.C17.C17_timeout_leaves_child_running_counterexample', 'Tbox.C17.C17_timeout_repaired',
    'Tbox.C17.C17_stale_block_counterexample', 'Tbox.C17.C17_stale_block_repaired',
    'Tbox.C17.C17_repeat_zero_means_forever', 'Tbox.C17.C17_sequence_header_literal_differs',
    # whole-tree theorem by simulation through the queue (serial composites, sync + delayed leaves)
    'Tbox.C17.C17_result_matches_doc_serial', 'Tbox.C17.gen', 'Tbox.C17.good_all', 'Tbox.C17.runU_embed', 'Tbox.C17.step_embed',
    # liveness of that class: progress measure `cost`
    'Tbox.C17.C17_finishes_exactly_once', 'Tbox.C17.gen_live', 'Tbox.C17.live_all',
    # M4: composites that reset and re-run children (Loop, LoopIf, Repeat); skeleton preservation
    'Tbox.C17.C17_loop_never_finishes', 'Tbox.C17.C17_skeleton_preserved', 'Tbox.C17.genR', 'Tbox.C17.step_sk', 'Tbox.C17.both_size',
    # re-entrant control: callback scripts on the root
    'Tbox.C17.C17_tree_inv_reentrant', 'Tbox.C17.C17_quiescent_after_end_reentrant', 'Tbox.C17.C17_quiescent_after_stop_reentrant',
    'Tbox.C17.C17_no_stale_anywhere_reentrant', 'Tbox.C17.C17_final_once_per_run_reentrant', 'Tbox.C17.C17_reset_fresh_reentrant',
    'Tbox.C17.C17_start_tail_after_reset_counterexample', 'Tbox.C17.C17_start_tail_repaired',
    'Tbox.C17.C17_parallel_replay_into_next_run_counterexample', 'Tbox.C17.C17_parallel_replay_repaired',
    'Tbox.C17.C17_parallel_restart_from_final_callback', 'Tbox.C17.stepR_wf', 'Tbox.C17.hookF_ok', 'Tbox.C17.startR_wf', 'Tbox.C17.runTaskR_wf',
    # ActionExecutor
    'Tbox.C17.C17_exec_one_at_a_time', 'Tbox.C17.C17_exec_heads_only', 'Tbox.C17.C17_exec_highest_priority_first', 'Tbox.C17.Exec.sched_hp', 'Tbox.C17.C17_exec_callbacks_once', 'Tbox.C17.Exec.sched_li',
    'Tbox.C17.C17_run_ids_distinct', 'Tbox.C17.step_idsOk', 'Tbox.C17.C17_run_task_local',
    'Tbox.C17.C17_rerun_after_reset', 'Tbox.C17.C17_rerun_finishes_exactly_once', 'Tbox.C17.result_matches_from', 'Tbox.C17.finishes_once_from', 'Tbox.C17.Exec.sched_inv', 'Tbox.C17.Exec.xstep_inv',
    # round 8: Parallel (all modes) over leaves in the whole-tree theorem; the batch invariant and its steps
    'Tbox.C17.C17_result_matches_doc_par_leaves', 'Tbox.C17.C17_par_leaves_finishes_exactly_once', 'Tbox.C17.par_leaves_run',
    'Tbox.C17.runTask_PI', 'Tbox.C17.fireOne_PI', 'Tbox.C17.step_PI', 'Tbox.C17.start_PI', 'Tbox.C17.run_PI',
    'Tbox.C17.C17_timeout_result_depends_on_pass_granularity',
    # round 9: never stuck (serial class, Parallel over leaves), late passes, widths, firing timeouts, fine schedules
    'Tbox.C17.C17_never_stuck_partial', 'Tbox.C17.C17_never_stuck_par_leaves', 'Tbox.C17.never_stuck_run', 'Tbox.C17.par_leaves_never_stuck',
    'Tbox.C17.C17_tree_inv_late', 'Tbox.C17.stepL_wf', 'Tbox.C17.stepLateR_wf',
    'Tbox.C17.C17_repeat_count_width', 'Tbox.C17.C17_repeat_count_narrowing_counterexample', 'Tbox.C17.C17_sleep_deadline_width',
    'Tbox.C17.C17_sleep_deadline_wrap_counterexample', 'Tbox.C17.C17_finish_time_fits',
    'Tbox.C17.C17_timeout_fires', 'Tbox.C17.C17_fine_schedule_timer_phase', 'Tbox.C17.C17_fine_schedule_on_race_tree',
    # round 10: documented order of a parallel node = its children's, batch form of the embedding lemma (several notifications in one batch)
    'Tbox.C17.C17_result_matches_doc_par_leaves_visit', 'Tbox.C17.visitAll_leaves', 'Tbox.C17.C17_batch_embed', 'Tbox.C17.C17_batch_embed_generalises',
    'Tbox.C17.runItems_embed', 'Tbox.C17.runQueue_embed_batch',
    # round 11: the timeout timer in every lifecycle state (reset of a blocked action), timeout changes at any pass, Parallel over leaves as a CHILD
    'Tbox.C17.C17_block_keeps_timeout', 'Tbox.C17.C17_pause_stop_reset_disarm', 'Tbox.C17.C17_reset_disarms_every_timer', 'Tbox.C17.C17_restart_deadline',
    'Tbox.C17.C17_stale_timer_survives_start_counterexample', 'Tbox.C17.C17_reset_of_blocked_action_restart',
    'Tbox.C17.C17_set_timeout_same_value_moves_deadline', 'Tbox.C17.C17_set_timeout_not_running', 'Tbox.C17.C17_set_timeout_keeps_inv_partial',
    'Tbox.C17.stepT_wf_partial', 'Tbox.C17.setTimeout_wf',
    'Tbox.C17.C17_result_matches_doc_seq_over_par_leaves', 'Tbox.C17.C17_result_matches_doc_wrapper_over_par_leaves',
    'Tbox.C17.C17_result_matches_doc_composite_over_par_leaves', 'Tbox.C17.C17_par_leaves_batch_ok', 'Tbox.C17.C17_par_leaves_done_as',
    'Tbox.C17.goodB_par_leaves', 'Tbox.C17.goodB_of_good', 'Tbox.C17.runU_embedB', 'Tbox.C17.genB', 'Tbox.C17.result_matches_doc_runB', 'Tbox.C17.exSeqPar_run',
    # round 12: stage (i) for EVERY serial parent kind (Parallel over leaves reset and run again below Loop / LoopIf / Repeat), one theorem over the decidable class
    'Tbox.C17.C17_result_matches_doc_serial_with_par_leaves', 'Tbox.C17.C17_ser_par_class_extends', 'Tbox.C17.C17_ser_par_class_examples',
    'Tbox.C17.C17_result_matches_doc_ifelse_over_par_leaves', 'Tbox.C17.C17_result_matches_doc_ifthen_over_par_leaves',
    'Tbox.C17.C17_result_matches_doc_switch_over_par_leaves', 'Tbox.C17.C17_result_matches_doc_loop_over_par_leaves',
    'Tbox.C17.C17_result_matches_doc_loopif_over_par_leaves', 'Tbox.C17.C17_result_matches_doc_repeat_over_par_leaves',
    'Tbox.C17.genRB', 'Tbox.C17.goodB_all', 'Tbox.C17.good_twophaseB', 'Tbox.C17.good_ifThenB',
    # the inductive steps themselves
    'Tbox.C17.bstep_inv', 'Tbox.C17.step_wf', 'Tbox.C17.reachable_wf', 'Tbox.C17.seq_drive_aux',
]
FLOW = ['modules/flow/action.cpp', 'modules/flow/action_executor.cpp'] + ['modules/flow/actions/%s_action.cpp' % n for n in (
    'assemble', 'composite', 'dummy', 'function', 'if_else', 'if_then', 'loop', 'loop_if', 'parallel', 'repeat',
    'sequence', 'sleep', 'switch', 'wrapper')]
SOURCES = FLOW + ['modules/util/variables.cpp', 'modules/util/string.cpp', 'modules/util/json.cpp'] + vlib.EVENT_SOURCES + vlib.BASE_SOURCES
FLAVOUR = 'asan'
LIBS = ['-ldl']
BATCH = 150
BATCH_TIMEOUT = 600     # no wall-clock assumption: a batch holds up to 3 cases of 10^5 loop passes; under full load they take seconds, not minutes
MAX_REPORT = 6
SHRINK_TESTS = 120
TRUSTED = [
    'model lean/TboxModel/C17/Model.lean hand-written from modules/flow/action.cpp and actions/*.cpp; tied by differential runs on the real '
    'epoll loop (one scripted step per loop pass, virtual clock), every callback, call result and the state()/result() of every node compared',
    'the loop is modelled as: FIFO next-queue (run ids increase), batch semantics of handleNextFunc, cancel by id, one-shot timers fired in '
    'deadline order; the timer core itself is C02; equal deadlines are excluded by construction of the durations',
    'virtual monotonic clock by clock_gettime interposition in the harness (harness/vtime.h)',
    'the Trace vectors, labels, vars() and toJson of actions are not modelled; reasons are modelled by their code',
]
ASSUMPTIONS = [
    'control calls (start/pause/resume/stop/reset) are made on the root only, from the loop thread: from outside (do / defer) or from inside the callbacks of the ROOT (final: synchronous inside finish()/stop(); finish, block: from the loop) — these are modelled; control calls on the root from call-outs of INNER nodes (FunctionAction bodies, final callbacks of inner composites; op `icb`) are run in free mode: not predicted by the model, the harness evaluates the prediction-free clauses (nothing under way below an ended action, finish notification once per run and only while Finished, block notification not while Idle/Stoped, final callback only on an ended action, root not under way / Idle at the end of an op whose last call was stop() / reset(), no Running composite without a child under way once settled; and - ops mark / cmpfresh - a run that began with reset() + start() on the root, from outside or from inside any call-out, followed by loop passes and clock steps only, ends in the end state of the control-free run of the freshly built tree: same state()/result() of every node, same number of calls of every function leaf, same finish notifications; compared only for trees without Sleep-versus-timeout races); control calls on inner nodes (misuse: the parent keeps its own bookkeeping) are not generated',
    'a DummyAction leaf is completed / blocked by its owner only while it is running',
    'no two armed timers share a deadline (durations are 100k + a residue unique per node, clock steps are multiples of 100 ms; the raw-millisecond families Zr<ms> / @r<ms> / advr / advdo are written so that deadlines stay distinct)',
    'durations and clock values stay below 2^43 + 4*10^11 ms (steady_clock time points are int64 nanoseconds: C17_finish_time_fits); every case starts at the same virtual instant',
    'RepeatAction counts are size_t (< 2^64): C17_repeat_count_width; larger numerals are rejected by both sides',
    'ActionExecutor: its actions are leaves (dummy / function / pre-stopped); callbacks do not call back into the executor; destruction is exercised only between cases',
    'run ids do not wrap (2^63 deferred tasks)',
    'setTimeout / resetTimeout (ops settmo / clrtmo) are called from the loop thread between two callbacks (the fd callback of a pass), not from inside a callback of the tree',
]
RULE = ('(round 12: the class of C17_result_matches_doc_serial_with_par_leaves on the real code - 27 serial parents (all nine kinds, nested) x 6 Parallel-over-leaves shapes at the leaf positions x 3 fixed + 1 random control-free schedules; below Loop / LoopIf / Repeat the ParallelAction is reset and run again; the driver compares the finish notification with the evaluator) (round 11: timeout x block x reset x restart - 16 small trees with a timeout on the root / an inner composite / the blocking leaf itself, 4 scripts S; the leaf blocks after 0 / 100 ms, the block notification is queued / delivered / 100 ms old, the blocked tree gets nothing / pause() / resume() / pause resume pause, then reset()+start() in one call / across a pass / deferred / reset() twice / after stop() / in a late pass, then S again: op `cmpfresh` (now also outside free mode) compares the restarted run with the run of the freshly built tree under the same op script - end state of every node, calls of every function leaf, finish and block notifications of the root AND the instant of each finish notification relative to start(); lesson (g): ops settmo / clrtmo = Action::setTimeout / resetTimeout on any node at any pass - the SAME value while Running (the deadline must move), smaller / larger / raw values, while blocked / paused / Idle / ended, six times in a row, followed by reset()+start(); start() / reset() / reset() reset() / start() start() in the same fd callback as the end of a run (finish or block notification still queued), 1 and 2 passes later, deferred; op `share <kind>`: one leaf object offered to two parents of each of the 10 composite kinds) (round 10: re-entrant restart family - for every composite kind (Sequence Parallel IfElse IfThen Switch Loop LoopIf Repeat Wrapper Composite, as root, below a Sequence, below a Parallel) over composite children: the root is reset() and start()ed again from the final callback of every inner composite and from the body of every function leaf (first and second invocation), triggered by the natural end of the child, by a sibling ending its Parallel parent, by the timeout of the parent, by stop() from outside; op `mark` records the end state of the control-free run of the freshly built tree, op `cmpfresh` compares the end state of the restarted run with it: state and result of every node, number of calls of every function leaf, finish notifications of the root; plus 300 (thorough 3000) random trees x scripts x emits) (round 9: width families - sleeps / timeouts of B-1, B, B+1 ms for B = 2^15 2^16 2^31 2^32 2^42 and 0 driven to 1 ms before and across the deadline, with pause/resume on both sides; RepeatAction counts 0 1 2 3 2^16+1 2^31+1 2^32-1 2^32 2^32+1 2^63+1 2^64-1; 3*10^4 (thorough: 10^5) synchronous loop iterations with the exact call count; late passes `advdo` (clock moves between timer phase and control calls: negative remaining span); call-outs from function bodies on ancestors other than the root, free mode) (re-entrant control: one-shot scripts start/pause/resume/stop/reset attached to the final / finish / block callback of the root, exhaustively over small trees x scripts x one control call, and in random scripts) random action trees (depth <= 4, <= 40 nodes, all 10 composites and all their modes, leaves Function succ/fail(+case tag), Sleep, Dummy, '
        'timeouts on any node) driven by op scripts: start, then passes / clock steps / control calls (single, paired, deferred with runNext) and '
        'emits on dummy leaves; plus exhaustive placement of one (thorough: two) control calls over all passes of small trees; plus Parallel trees with pause at pass i and resume / resume+pause / stop / reset start at every pass j >= i (tags par+pause par+resume par+stop par+reset par-paused), timeouts expiring in the same pass as a child finishes next to the schedules where they do not (tag tmo-race), control-free Parallel-over-leaves runs of 0-8 children; non-trivial = the root '
        'delivered a finish or block notification on a tree of >= 3 nodes, or a result was held back / replayed, or a timeout fired; distinct = distinct op text')

HEADS = ['seq:all', 'seq:anyf', 'seq:anys', 'par:all', 'par:anyf', 'par:anys', 'ife:tt', 'ife:tf', 'ife:ft', 'ift', 'sw:d', 'sw:n',
         'loop:fe', 'loop:uf', 'loop:us', 'lif:t', 'lif:f', 'rep', 'wr:n', 'wr:i', 'wr:s', 'wr:f', 'cmp']


class TreeGen:
    def __init__(self, rng, max_depth=4, max_nodes=24, p_tmo=0.08, leaves='FFFFZZD'):
        self.rng, self.max_depth, self.max_nodes, self.p_tmo, self.leaves = rng, max_depth, max_nodes, p_tmo, leaves
        self.n = 0
        self.dummies = []

    def tmo(self):
        return '@%d' % self.rng.choice([0, 1, 1, 2, 3]) if self.rng.random() < self.p_tmo else ''

    def leaf(self, tag_range=None):
        r = self.rng
        idx = self.n; self.n += 1
        k = r.choice(self.leaves)
        if tag_range is not None and r.random() < 0.8:
            k = 'F'
        if k == 'F':
            s = 'Fs' if r.random() < (0.8 if tag_range is not None else 0.6) else 'Ff'
            if tag_range is not None and r.random() < 0.8:
                s += ':%d' % r.randrange(tag_range + 1)
            elif r.random() < 0.05:
                s += ':%d' % r.randrange(4)
            return [s + self.tmo()]
        if k == 'Z':
            return ['Z%d' % r.choice([0, 0, 1, 1, 2, 3]) + self.tmo()]
        self.dummies.append(idx)
        return ['D' + self.tmo()]

    def node(self, depth, tag_range=None):
        r = self.rng
        if depth >= self.max_depth or self.n >= self.max_nodes - 3 or (depth > 0 and r.random() < 0.35):
            return self.leaf(tag_range)
        self.n += 1
        h = r.choice(HEADS)
        kids = []
        if h.startswith('seq') or h.startswith('par'):
            nk = r.choice([0, 1, 2, 2, 3, 3, 4])
        elif h == 'ife:tt': nk = 3
        elif h in ('ife:tf', 'ife:ft'): nk = 2
        elif h == 'ift': nk = 2 * r.choice([1, 1, 2, 3])
        elif h.startswith('sw'): nk = 1 + r.choice([1, 2, 3])
        elif h.startswith('lif'): nk = 2
        else: nk = 1
        if h == 'rep':
            h = 'rep:%d:%s' % (r.choice([1, 1, 2, 2, 3, 5, 0]) if r.random() < 0.95 else 1000, r.choice(['nb', 'bf', 'bs']))
        out = ['(', h + self.tmo()]
        for i in range(nk):
            tr = None
            if h.startswith('sw') and i == 0:
                tr = nk - 1      # tags 0..nk-1: one past the last case now and then
            out += self.node(depth + 1, tr)
        out.append(')')
        return out


def gen_tree(rng, **kw):
    g = TreeGen(rng, **kw)
    toks = g.node(0)
    return 'tree ' + ' '.join(toks), g.n, g.dummies


CALLS = ['start', 'pause', 'resume', 'stop', 'reset']


def rand_call(rng, dummies):
    r = rng.random()
    if dummies and r < 0.35:
        return 'emit:%d:%s' % (rng.choice(dummies), rng.choice('ssfb'))
    return rng.choice(['pause', 'pause', 'resume', 'resume', 'stop', 'reset', 'start', 'start'])


def gen_random(rng, nops):
    tree, n, dummies = gen_tree(rng, max_depth=rng.choice([2, 3, 4]), max_nodes=rng.choice([6, 12, 24, 38]),
                                p_tmo=rng.choice([0, 0.05, 0.2]), leaves=rng.choice(['FFFFZZD', 'FFFD', 'FZZ', 'FFDD', 'F']))
    ops = [tree, 'do start' if rng.random() < 0.9 else 'defer start']
    for _ in range(nops):
        r = rng.random()
        if r < 0.40: ops.append('pass')
        elif r < 0.55: ops.append('adv %d' % rng.choice([1, 1, 1, 2, 3, 5]))
        elif r < 0.85: ops.append('do ' + ' '.join(rand_call(rng, dummies) for _ in range(rng.choice([1, 1, 1, 2, 2, 3]))))
        else: ops.append('defer ' + ' '.join(rand_call(rng, dummies) for _ in range(rng.choice([1, 1, 2]))))
    ops += ['do resume', 'pass', 'adv 5', 'pass', 'pass']
    return ops


def gen_plain(rng):
    """no control calls: the documented meaning applies (driver compares with the evaluator)"""
    tree, n, dummies = gen_tree(rng, max_depth=rng.choice([2, 3, 4]), max_nodes=rng.choice([8, 16, 30]), p_tmo=0,
                                leaves=rng.choice(['FFFFZ', 'F', 'FFZZ']))
    ops = [tree, 'do start']
    for _ in range(rng.choice([10, 20, 40])):
        ops.append('pass' if rng.random() < 0.7 else 'adv %d' % rng.choice([1, 2, 4]))
    return ops


SMALL = [
    '( seq:all Fs Fs )', '( seq:anyf Fs Ff Fs )', '( par:all Fs Fs )', '( par:anys Ff Z0 Fs )', '( par:anyf Z0 Ff )', '( par:all Z0 Z1 )',
    '( ife:tt Fs Fs Ff )', '( ife:tt Z0 Fs Ff )', '( ife:ft Ff Z0 )', '( ift Ff Fs Fs Fs )', '( ift Fs Z0 )',
    '( sw:d Fs:0 Fs Ff )', '( sw:n Fs:1 Fs Z0 )', '( cmp Fs )', '( cmp ( seq:all Fs Z0 ) )', '( loop:uf ( seq:all Fs Ff ) )',
    '( loop:us ( wr:i Fs ) )', '( lif:t Ff Fs )', '( lif:f ( seq:all Fs Ff ) Fs )', '( rep:2:nb Fs )', '( rep:3:bf ( seq:all Z0 Fs ) )',
    '( wr:i ( ife:tf Fs Z0 ) )', '( seq:all ( par:all Fs Fs ) ( cmp Fs ) )', '( par:all ( ife:tt Fs Fs Fs ) ( sw:d Fs:0 Fs Fs ) )',
    '( seq:all@1 Z0 Z0 Z0 )', '( par:all@0 Z1 D )', '( cmp@0 ( seq:all Z1 Fs ) )', '( ife:tt@1 Fs Z2 Fs )', '( seq:all D Fs )', '( par:anys D D )',
    '( seq:all ( ife:tt Fs ( cmp Fs ) Ff ) Fs )', '( ift Fs ( ift Fs ( cmp Fs ) ) )', '( sw:d Fs:0 ( ife:tt Fs Fs Fs ) Fs )',
]


def gen_placement(tree, calls_at, length=8, advs=(3, 6)):
    """start at op 0, then `length` passes with the given control calls placed before pass i"""
    ops = ['tree ' + tree, 'do start']
    for i in range(length):
        if i in calls_at:
            ops.append(calls_at[i])
        elif i in advs:
            ops.append('adv 1')
        else:
            ops.append('pass')
    ops += ['do resume', 'pass', 'adv 2', 'pass', 'pass']
    return ops


SCRIPTS = ['reset', 'reset start', 'stop', 'start', 'pause', 'reset start pause', 'stop reset start', 'reset reset start', 'resume', 'pause resume']
# trees whose root ends inside its own start() (empty composites), ends from a handler, from its timeout, from a replay
REENT_TREES = SMALL + ['( seq:all )', '( par:all )', '( par:anyf )', '( seq:all ( seq:all ) Fs )', '( par:anys Fs D )', '( par:anyf Ff D Z1 )',
                       '( par:anys D Fs Z0 )', '( par:all D D )', '( seq:all D D )', '( cmp D )', '( wr:i D )', '( ife:tf D Fs )',
                       '( loop:us D )', '( rep:2:bs D )', '( par:anys@0 D Z1 )', '( seq:anys ( par:anys Fs D ) Fs )', '( sw:n Fs:3 Fs )']


def gen_scripted(tree, which, script, at, length=7, pre=None, second=None):
    """a one-shot callback script on the root; optionally a control call at pass `at`"""
    ops = ['tree ' + tree, 'cb %s %s' % (which, script)]
    if second:
        ops.append('cb %s %s' % second)
    ops.append('do start')
    for i in range(length):
        if pre is not None and i == at:
            ops.append(pre)
        elif i in (3, 5):
            ops.append('adv 1')
        else:
            ops.append('pass')
    ops += ['do resume', 'pass', 'adv 2', 'pass', 'do start', 'pass', 'pass']
    return ops


def gen_scripted_random(rng, nops):
    tree, n, dummies = gen_tree(rng, max_depth=rng.choice([1, 2, 3]), max_nodes=rng.choice([4, 8, 16]),
                                p_tmo=rng.choice([0, 0.1, 0.3]), leaves=rng.choice(['FFFFZZD', 'FFFD', 'FZZ', 'FFDD', 'F', 'DDZ']))
    ops = [tree]
    for _ in range(rng.choice([1, 1, 2, 3])):
        ops.append('cb %s %s' % (rng.choice(['final', 'final', 'final', 'fin', 'fin', 'blk']), rng.choice(SCRIPTS)))
    ops.append('do start')
    for _ in range(nops):
        r = rng.random()
        if r < 0.40: ops.append('pass')
        elif r < 0.52: ops.append('adv %d' % rng.choice([1, 1, 2, 3]))
        elif r < 0.80: ops.append('do ' + ' '.join(rand_call(rng, dummies) for _ in range(rng.choice([1, 1, 2]))))
        elif r < 0.88: ops.append('defer ' + ' '.join(rand_call(rng, dummies) for _ in range(rng.choice([1, 2]))))
        else: ops.append('cb %s %s' % (rng.choice(['final', 'final', 'fin', 'blk']), rng.choice(SCRIPTS)))
    ops += ['do resume', 'pass', 'adv 5', 'pass', 'pass']
    return ops


ISCRIPTS = ['stop', 'reset', 'pause', 'reset start', 'stop reset start', 'pause resume', 'start', 'stop reset']
# (tree, function leaves, composites) for call-outs of inner nodes
FREE_TREES = [
    ('( seq:all Fs Fs Fs )', [1, 2, 3], [0]), ('( seq:all Fs ( par:anyf Ff D ) Fs )', [1, 3, 5], [0, 2]), ('( par:all Fs Fs D )', [1, 2], [0]),
    ('( par:anys Fs D Z0 )', [1], [0]), ('( par:anyf ( seq:all Fs Ff ) D )', [2, 3], [0, 1]), ('( seq:all ( seq:all ) Fs )', [2], [0, 1]),
    ('( seq:all ( par:all ) Fs D )', [2], [0, 1]), ('( ife:tt Fs ( seq:all Fs Z0 ) Ff )', [1, 3, 5], [0, 2]), ('( loop:us ( seq:all Fs Ff ) )', [2, 3], [0, 1]),
    ('( rep:2:nb ( seq:all Fs Z0 ) )', [2], [0, 1]), ('( cmp ( seq:all Fs D ) )', [2], [0, 1]), ('( wr:i ( par:anys Fs D ) )', [2], [0, 1]),
    ('( seq:all Z0 ( par:anyf ( seq:all ) D Fs ) Fs )', [5, 6], [0, 2, 3]), ('( par:anyf D ( seq:all Fs Fs ) )', [3, 4], [0, 2]),
    ('( sw:d Fs:0 ( seq:all Fs Fs ) Fs )', [1, 3, 4, 5], [0, 2]), ('( ift Fs ( seq:all Fs ) Ff Fs )', [1, 3, 4, 5], [0, 2]),
    ('( lif:t Fs ( seq:all Fs Z0 ) )', [1, 3], [0, 2]), ('( seq:all@1 Fs Z1 Fs )', [1, 3], [0]), ('( cmp@1 ( seq:all Z1 Fs ) )', [3], [0, 1]),
    ('( seq:all ( cmp@1 ( seq:all Z1 Fs ) ) Fs )', [4, 5], [0, 1, 2]), ('( par:all@0 ( seq:all Fs Z1 ) D )', [2], [0, 1]),
]


def gen_free(tree, kind, node, target, script, extra=None, at=2):
    ops = ['tree ' + tree, 'icb %s %d %d %s' % (kind, node, target, script), 'do start']
    for i in range(6):
        if extra is not None and i == at:
            ops.append(extra)
        elif i == 3:
            ops.append('adv 2')
        else:
            ops.append('pass')
    ops += ['pass', 'adv 5', 'pass', 'pass', 'pass']
    if not any(h in tree for h in ('loop', 'lif', 'rep')):      # a loop that runs for ever never settles
        ops.append('settle')
    return ops


def gen_free_random(rng):
    tree, n, dummies = gen_tree(rng, max_depth=rng.choice([2, 3]), max_nodes=rng.choice([6, 10, 16]), p_tmo=rng.choice([0, 0.15]),
                                leaves=rng.choice(['FFFFZD', 'FFFD', 'FFZ', 'F']))
    toks = tree.split()[1:]
    ids, fn, asm = 0, [], []
    for i, tk in enumerate(toks):
        if tk in ('(', ')'): continue
        if i > 0 and toks[i - 1] == '(':
            asm.append(ids)
        elif tk.startswith('F'):
            fn.append(ids)
        ids += 1
    ops = [tree]
    k = 0
    for _ in range(rng.choice([1, 1, 2, 3])):
        if fn and rng.random() < 0.6:
            ops.append('icb body %d 0 %s' % (rng.choice(fn), rng.choice(ISCRIPTS))); k += 1
        elif asm:
            ops.append('icb final %d 0 %s' % (rng.choice(asm), rng.choice(ISCRIPTS))); k += 1
    if k == 0:
        return None
    ops.append('do start')
    for _ in range(rng.choice([6, 10, 16])):
        r = rng.random()
        if r < 0.45: ops.append('pass')
        elif r < 0.6: ops.append('adv %d' % rng.choice([1, 1, 2, 3]))
        elif r < 0.9: ops.append('do ' + ' '.join(rand_call(rng, dummies) for _ in range(rng.choice([1, 1, 2]))))
        else: ops.append('defer ' + rand_call(rng, dummies))
    ops += ['pass', 'adv 6', 'pass', 'pass', 'pass']
    if not any(h in tree for h in ('loop', 'lif', 'rep')):      # a loop that runs for ever never settles
        ops.append('settle')
    return ops


PAR_TREES = ['( par:all Fs Fs )', '( par:all Fs Z0 Ff )', '( par:anys Ff Z0 Fs )', '( par:anys Ff Z0 Z1 )', '( par:anyf Z0 Ff )', '( par:anyf Fs Z0 Z1 )',
             '( par:all Z0 Z1 )', '( par:all ( seq:all Fs Z0 ) ( seq:all Z0 Fs ) )', '( seq:all ( par:anys Z0 Z1 ) Fs )', '( par:all D Z0 )',
             '( par:anyf D Z0 Fs )', '( par:all ( par:anys Z0 Z1 ) Z0 )']
RACE_TREES = ['( seq:all@2 Z1 Fs )', '( par:all@2 Z1 Z0 )', '( par:anys@1 Z0 D )', '( cmp@2 ( seq:all Z0 Z1 ) )', '( ife:tt@1 Z0 Fs Ff )',
              '( wr:i@2 Z1 )', '( seq:all ( par:all@2 Z1 Z1 ) Fs )', '( loop:uf@3 Z0 )', '( rep:3:nb@2 Z0 )', '( par:anyf@3 Z1@0 Z2 )',
              '( seq:all@1 ( par:all Z0 Z0 ) Fs )', '( sw:d@1 Fs:0 Z0 Fs )', '( seq:anyf@3 Z1 ( cmp@0 Z2 ) Fs )']
RACE_SCHEDULES = [['adv 3'], ['adv 2'], ['adv 1', 'adv 1', 'adv 1'], ['adv 1', 'pass', 'adv 1', 'pass', 'pass', 'adv 1'], ['adv 2', 'adv 1'],
                  ['adv 1', 'adv 2'], ['adv 1', 'do pause', 'adv 2', 'do resume'], ['do pause', 'adv 3', 'do resume', 'adv 3'],
                  ['adv 1', 'do pause resume', 'adv 2'], ['adv 2', 'do stop'], ['adv 2', 'do reset start', 'adv 3'], ['adv 4']]


def gen_par_ctl(quick):
    """Parallel + pause / resume / stop / reset at every pass (resume at every later pass; resume+pause within one pass)"""
    L = 6
    for tree in PAR_TREES:
        for i in range(L):
            for j in range(i, L):
                for second in ('do resume', 'do resume pause', 'do stop', 'do reset start'):
                    if quick and second != 'do resume' and (i + j) % 2:
                        continue
                    ops = ['tree ' + tree, 'do start']
                    for k in range(L):
                        if k == i: ops.append('do pause')
                        if k == j: ops.append(second)
                        ops.append('adv 1' if k in (2, 4) else 'pass')
                    ops += ['do resume', 'pass', 'adv 3', 'pass', 'pass', 'pass']
                    yield ops


def gen_tmo_race():
    """timeouts expiring in the same pass as a child's finish notification, next to the schedules where they do not"""
    for tree in RACE_TREES:
        for sch in RACE_SCHEDULES:
            yield ['tree ' + tree, 'do start'] + sch + ['pass', 'pass', 'adv 2', 'pass', 'pass', 'pass']
            yield ['tree ' + tree, 'do start', 'pass'] + sch + ['pass', 'adv 1', 'pass', 'adv 3', 'pass', 'pass']


def gen_plain_par(rng):
    """control-free runs of Parallel over leaves (the class of C17_result_matches_doc_par_leaves), any schedule"""
    n = rng.choice([0, 1, 2, 3, 5, 8])
    kids = [rng.choice(['Fs', 'Ff', 'Fs:1', 'Z0', 'Z1', 'Z2', 'Z3']) for _ in range(n)]
    ops = ['tree ( par:%s %s )' % (rng.choice(['all', 'anyf', 'anys']), ' '.join(kids)), 'do start']
    for _ in range(rng.choice([4, 8, 14])):
        ops.append('pass' if rng.random() < 0.6 else 'adv %d' % rng.choice([1, 1, 2, 4]))
    ops += ['adv 4', 'adv 4', 'adv 4']
    return ops



# ---- round 9: width / sign boundary families (lesson a), late passes, long synchronous loops ---------------------------
BOUNDS = [1 << 15, 1 << 16, 1 << 31, 1 << 32, 1 << 42]


def gen_width_sleep():
    """SleepAction durations and Action timeouts of exactly B-1, B, B+1 ms for B = 2^15, 2^16, 2^31, 2^32, 2^42, and 0:
    the real code is driven (virtual clock) to 1 ms before the deadline and then across it; pause / resume with the
    remaining span on both sides of B"""
    for B in BOUNDS:
        for d in (-1, 0, 1):
            D = B + d
            # finishes exactly at D, not 1 ms earlier
            yield ['tree ( seq:all Zr%d Fs )' % D, 'do start', 'pass', 'advr %d' % (D - 1), 'pass', 'advr 1', 'pass', 'pass', 'pass']
            # one late pass far beyond
            yield ['tree ( seq:all Fs Zr%d )' % D, 'do start', 'pass', 'advr %d' % (D + min(B, 1 << 32)), 'pass', 'pass', 'pass']
            # pause after 3 ms: the remaining span D-3 is re-armed on resume, 7 ms of pause do not count
            yield ['tree ( seq:all Zr%d Fs )' % D, 'do start', 'advr 3', 'do pause', 'advr 7', 'do resume', 'advr %d' % (D - 4), 'pass',
                   'advr 1', 'pass', 'pass', 'pass']
            # pause when only 5 ms remain (the elapsed part is the large one)
            yield ['tree ( par:all Zr%d Fs )' % D, 'do start', 'advr %d' % (D - 5), 'do pause', 'advr %d' % B, 'do resume', 'advr 4', 'pass',
                   'advr 1', 'pass', 'pass', 'pass']
            # timeout D against a sleep 3 ms longer / shorter, passes as fine as the deadlines
            yield ['tree ( seq:all@r%d Zr%d Fs )' % (D, D + 3), 'do start', 'advr %d' % (D - 1), 'pass', 'advr 1', 'pass', 'advr 2', 'pass', 'pass', 'pass']
            yield ['tree ( seq:all@r%d Zr%d Fs )' % (D, D - 3), 'do start', 'advr %d' % (D - 4), 'pass', 'advr 1', 'pass', 'advr 3', 'pass', 'pass', 'pass']
            # the timeout is re-armed with the FULL interval on resume
            yield ['tree ( wr:i@r%d D )' % D, 'do start', 'advr %d' % (D - 1), 'do pause', 'advr 5', 'do resume', 'advr %d' % (D - 1), 'pass',
                   'advr 1', 'pass', 'pass', 'pass']
            # a leaf with its own timeout on either side of its delay
            yield ['tree ( seq:all Zr%d@r%d Fs )' % (D, D + 1), 'do start', 'advr %d' % D, 'pass', 'pass', 'advr 1', 'pass', 'pass']
            yield ['tree ( seq:all Zr%d@r%d Fs )' % (D + 1, D), 'do start', 'advr %d' % D, 'pass', 'pass', 'advr 1', 'pass', 'pass']
    # zero durations
    yield ['tree ( seq:all Zr0 Fs Zr0 Fs )', 'do start', 'pass', 'pass', 'pass', 'pass', 'pass', 'pass']
    yield ['tree ( seq:all@r0 Fs Fs )', 'do start', 'pass', 'pass', 'pass']
    yield ['tree ( seq:all@r0 Zr1 Fs )', 'do start', 'pass', 'advr 1', 'pass', 'pass']
    yield ['tree ( loop:fe@r7 Zr0 )', 'do start', 'pass', 'pass', 'pass', 'advr 6', 'pass', 'advr 2', 'pass', 'pass', 'pass']
    yield ['tree ( rep:3:nb Zr0 )', 'do start', 'do pause', 'pass', 'do resume', 'pass', 'pass', 'pass', 'pass', 'pass', 'pass']
    yield ['tree ( par:anys Zr0@r2 Zr3@r1 D )', 'do start', 'pass', 'advr 1', 'pass', 'advr 1', 'pass', 'advr 1', 'pass', 'pass']


REP_COUNTS = [0, 1, 2, 3, (1 << 16) + 1, (1 << 16) + 2, (1 << 31) + 1, (1 << 32) - 1, 1 << 32, (1 << 32) + 1, (1 << 32) + 2, (1 << 63) + 1, (1 << 64) - 1]


def gen_width_repeat():
    """RepeatAction(times) is a size_t: counts on both sides of 2^16 / 2^31 / 2^32 / 2^63 and SIZE_MAX (a count narrowed to
    16 / 32 bits would end the run after 1 or 2 iterations, or never); 0 wraps to SIZE_MAX ("for ever")"""
    for n in REP_COUNTS:
        for m, kid in (('nb', 'Fs'), ('bf', 'Fs'), ('bs', 'Ff'), ('nb', '( seq:all Fs Ff )')):
            yield ['tree ( rep:%d:%s %s )' % (n, m, kid), 'do start', 'passes 9', 'do pause', 'pass', 'do resume', 'passes 5', 'do stop', 'pass',
                   'do reset start', 'passes 4', 'do stop', 'pass']
    yield ['tree ( rep:18446744073709551616:nb Fs )', 'tree ( rep:99999999999999999999999:nb Fs )', 'tree Zr8796093022209', 'tree Fs@r8796093022209',
           'tree Zr8796093022208', 'advr 8796093022209', 'advdo 1', 'advdo x pause', 'passes 0', 'passes 200001', 'passes', 'tree Zr', 'tree Fs@r', 'tree Zrx']


def gen_long_loops(quick=False):
    """10^5 iterations of a loop whose body finishes synchronously: every iteration is one loop pass (the child's result travels
    through runNext), so the stack depth does not grow; the exact number of calls is compared"""
    n = 30000 if quick else 100000
    yield ['tree ( rep:%d:nb Fs )' % n, 'do start', 'passes %d' % (n - 2), 'pass', 'pass', 'pass', 'pass']
    yield ['tree ( loop:us ( seq:all Fs Ff ) )', 'do start', 'passes %d' % n, 'do pause', 'pass', 'do resume', 'passes 10', 'do stop', 'pass']
    yield ['tree ( lif:t Fs ( rep:2:nb Fs ) )', 'do start', 'passes 30000', 'do reset start', 'passes 100', 'do stop', 'pass']


LATE_TREES = ['( seq:all Z1 Fs )', '( par:all Z1 Z2 )', '( seq:all@1 Z2 Fs )', '( par:anys@2 Z1 D )', '( wr:i Z1@2 )', '( loop:uf@3 Z0 )',
              '( seq:all ( par:all Z1 Z1 ) Z0 )', '( rep:2:nb ( seq:all Z0 Z1 ) )', '( ife:tt Z1 Z1 Fs )', '( cmp@2 ( seq:all Z1 Z1 ) )']
LATE_CALLS = ['pause', 'pause resume', 'stop', 'reset start', 'pause resume pause', 'pause stop', 'resume']


def gen_late(quick):
    """late passes (`advdo`): the clock moves past one or several deadlines BETWEEN the timer phase and the control calls of the
    same pass: pause() with finish_time_ < now (negative remaining span), stop / reset of actions whose timers are due"""
    for tree in LATE_TREES:
        for ms in (100, 300, 700):
            for c in (LATE_CALLS if not quick else LATE_CALLS[:4]):
                yield ['tree ' + tree, 'do start', 'pass', 'advdo %d %s' % (ms, c), 'pass', 'do resume', 'pass', 'adv 2', 'pass', 'pass', 'adv 4', 'pass', 'pass']
                if not quick or ms == 300:
                    yield ['tree ' + tree, 'do start', 'adv 1', 'advdo %d %s' % (ms, c), 'advdo %d resume' % ms, 'pass', 'advdo 100 pause', 'pass', 'do resume',
                           'adv 5', 'pass', 'pass', 'pass']


def gen_late_random(rng):
    tree, n, dummies = gen_tree(rng, max_depth=rng.choice([2, 3]), max_nodes=rng.choice([6, 12, 20]), p_tmo=rng.choice([0.1, 0.3]),
                                leaves=rng.choice(['FZZ', 'FZZD', 'ZZ']))
    ops = [tree, 'do start']
    for _ in range(rng.choice([6, 12, 20])):
        r = rng.random()
        if r < 0.35: ops.append('pass')
        elif r < 0.5: ops.append('adv %d' % rng.choice([1, 1, 2, 3]))
        elif r < 0.85: ops.append('advdo %d %s' % (rng.choice([100, 100, 200, 300, 400, 600]), ' '.join(rand_call(rng, dummies) for _ in range(rng.choice([1, 1, 2])))))
        else: ops.append('do ' + rand_call(rng, dummies))
    ops += ['do resume', 'pass', 'adv 8', 'pass', 'pass']
    return ops


# (tree, [(function leaf, its parent, further ancestors below the root …)]) for call-outs on ancestors OTHER than the root
ANC_TREES = [
    ('( seq:all Fs ( seq:all Fs Fs ) Fs )', [(3, [2]), (4, [2])]),
    ('( seq:all ( par:all Fs Fs D ) Fs )', [(2, [1]), (3, [1])]),
    ('( par:all ( seq:all Fs Z0 Fs ) D )', [(2, [1]), (4, [1])]),
    ('( seq:all ( wr:i ( seq:all Fs Fs ) ) Fs )', [(3, [2, 1]), (4, [2, 1])]),
    ('( seq:all ( loop:us ( seq:all Fs Ff ) ) Fs )', [(3, [2, 1]), (4, [2, 1])]),
    ('( seq:all ( rep:2:nb ( seq:all Fs Z0 ) ) Fs )', [(3, [2, 1])]),
    ('( seq:all ( ife:tt Fs ( seq:all Fs Z0 ) Ff ) Fs )', [(2, [1]), (4, [3, 1])]),
    ('( par:anys ( par:anyf Fs Ff D ) D )', [(2, [1]), (3, [1])]),
    ('( cmp ( sw:d Fs:0 ( seq:all Fs Fs ) Fs ) )', [(2, [1]), (4, [3, 1])]),
    ('( seq:all ( ift Fs ( seq:all Fs ) Ff Fs ) Fs )', [(2, [1]), (4, [3, 1])]),
    ('( seq:all ( lif:t Fs ( seq:all Fs Z0 ) ) Fs )', [(2, [1]), (4, [3, 1])]),
    ('( seq:all@1 ( seq:all@0 Fs Z1 ) Fs )', [(2, [1])]),
]
ANC_SCRIPTS = ['stop', 'pause', 'reset', 'pause resume', 'stop reset', 'reset start', 'stop reset start', 'start']


def gen_anc(quick):
    """re-entrant control from the body of a FunctionAction leaf on an ancestor that is NOT the root (its parent, its
    grandparent): free mode; the harness evaluates the prediction-free clauses on every node (no `settle`: an inner action
    stopped or reset behind the back of its parent legitimately leaves that parent waiting)"""
    for (tree, fns) in ANC_TREES:
        for (f, ancs) in fns:
            for a in ancs:
                for sc in (ANC_SCRIPTS if not quick else ANC_SCRIPTS[:6]):
                    ops = ['tree ' + tree, 'icb body %d %d %s' % (f, a, sc), 'do start', 'pass', 'pass', 'adv 2', 'pass', 'pass', 'do pause', 'pass',
                           'do resume', 'pass', 'adv 5', 'pass', 'do stop', 'pass', 'do reset start', 'pass', 'pass', 'adv 5', 'pass', 'pass']
                    yield ops

# ---- round 10: re-entrant restart (reset + start of the root) from inner final callbacks / function bodies, for EVERY composite kind,
# compared with the run of the freshly built tree ("a reset tree behaves like a freshly built one" on the real code: ops mark / cmpfresh)
def tree_ids(tree):
    """(function leaf ids, composite ids, dummy ids) of a tree text, preorder ids as in harness and driver"""
    toks = tree.split()
    ids, fn, asm, dum = 0, [], [], []
    for i, tk in enumerate(toks):
        if tk in ('(', ')'): continue
        if i > 0 and toks[i - 1] == '(':
            asm.append(ids)
        elif tk.startswith('F'):
            fn.append(ids)
        elif tk.startswith('D'):
            dum.append(ids)
        ids += 1
    return fn, asm, dum


RESTART_KINDS = [
    # every composite kind over composite children (whose final callbacks make the call-outs), F and D leaves only: the end state of an
    # emit-free run does not depend on the schedule
    '( seq:all ( seq:all Fs ) ( seq:all Fs D ) Fs )', '( seq:anyf ( cmp Fs ) ( wr:i ( seq:all D ) ) )',
    '( par:anys ( seq:all D ) D ( seq:all Fs D ) )', '( par:anyf ( seq:all D ) ( seq:all Fs D ) D )', '( par:all ( seq:all D ) ( cmp Fs ) D )',
    '( par:anyf Fs Fs D )', '( par:anys Ff ( seq:all Ff ) D )', '( par:all ( par:anys ( seq:all D ) D ) D )',
    '( ife:tt ( seq:all Fs ) ( seq:all D ) Ff )', '( ife:ft ( seq:all Ff ) ( seq:all Fs D ) )', '( ift ( seq:all Fs ) ( seq:all Fs D ) )',
    '( ift ( seq:all Ff ) Fs ( seq:all Fs ) ( cmp D ) )', '( sw:d ( seq:all Fs:0 ) ( seq:all Fs D ) Fs )', '( sw:n ( seq:all Fs:1 ) Fs ( seq:all D ) )',
    '( loop:uf ( seq:all Fs Ff ) )', '( loop:us ( seq:all Fs D ) )', '( lif:t ( seq:all Ff ) Fs )', '( lif:f ( seq:all Fs ) ( seq:all D ) )',
    '( rep:3:nb ( seq:all Fs ) )', '( rep:3:nb Fs )', '( rep:4:bf Fs )', '( rep:2:bf ( seq:all Fs D ) )', '( rep:2:nb ( par:all Fs Fs ) )',
    '( wr:i ( seq:all Fs D ) )', '( wr:n ( par:anys ( seq:all D ) D ) )', '( cmp ( seq:all Fs D ) )', '( cmp ( par:anyf ( seq:all D ) D ) )',
    # ended by their own timeout while a composite child is under way
    '( seq:all@0 ( seq:all D ) Fs )', '( par:all@0 ( seq:all D ) D )', '( par:anys@1 ( seq:all D ) ( seq:all D ) )', '( ife:tt@0 ( seq:all D ) Fs Fs )',
    '( ift@0 ( seq:all D ) Fs )', '( sw:d@0 ( seq:all D ) Fs Fs )', '( loop:us@0 ( seq:all D ) )', '( lif:t@0 ( seq:all D ) Fs )',
    '( rep:2:nb@0 ( seq:all D ) )', '( wr:n@0 ( seq:all D ) )', '( cmp@0 ( seq:all D ) )',
]
RESTART_SCRIPTS = ['reset start', 'stop reset start']
SETTLE_OPS = ['pass', 'adv 60', 'pass', 'pass', 'adv 60', 'pass', 'pass', 'adv 60', 'pass', 'pass']


def restart_case(tree, icbs, trigger):
    ops = ['tree ' + tree, 'do start'] + SETTLE_OPS + ['mark', 'do reset'] + icbs + ['do start', 'pass']
    ops += [trigger] if trigger else []
    return ops + SETTLE_OPS + ['cmpfresh']


def gen_restart(quick):
    """the root is reset and started again from inside a call-out of an inner node (final callback of every inner composite, body of
    every function leaf - also at its second invocation), triggered by the natural end of the child, by a sibling ending its Parallel
    parent, by the parent's timeout, by stop() from outside; `cmpfresh` compares the restarted run with the fresh run"""
    for base in RESTART_KINDS:
        for tree in (base, '( seq:all %s Fs )' % base, '( par:all %s D )' % base):
            if quick and tree.startswith('( par:all (') and 'par' in base:
                continue
            fn, asm, dum = tree_ids(tree)
            triggers = [None, 'do stop'] + ['do emit:%d:%s' % (d, x) for d in dum[:3] for x in 'sf']
            for sc in RESTART_SCRIPTS:
                icbs = [['icb final %d 0 %s' % (a, sc)] for a in asm if a != 0]
                icbs += [['icb body %d 0 %s' % (f, sc)] for f in fn]
                if sc == 'reset start':
                    icbs += [['icb body %d 0 start' % f, 'icb body %d 0 %s' % (f, sc)] for f in fn]
                    icbs += [['icb final %d 0 %s' % (a, sc), 'icb final %d 0 %s' % (b, sc)] for a in asm[1:2] for b in asm[2:3]]
                for ic in icbs:
                    for tg in triggers:
                        yield restart_case(tree, ic, tg)


def gen_restart_random(rng):
    tree, n, dummies = gen_tree(rng, max_depth=rng.choice([2, 3, 4]), max_nodes=rng.choice([6, 10, 16]), p_tmo=0, leaves=rng.choice(['FFFD', 'FFD', 'FD']))
    if any(h in tree for h in ('loop', 'lif', 'rep:0:', 'rep:1000')) or tree.count('rep:') > 1:      # no end state / nested counts: too long to settle
        return None
    fn, asm, dum = tree_ids(tree[5:])
    icbs = []
    for _ in range(rng.choice([1, 1, 2, 3])):
        if fn and rng.random() < 0.5:
            icbs.append('icb body %d 0 %s' % (rng.choice(fn), rng.choice(RESTART_SCRIPTS + ['start', 'reset start'])))
        elif asm:
            icbs.append('icb final %d 0 %s' % (rng.choice(asm), rng.choice(RESTART_SCRIPTS + ['reset start'])))
    if not icbs:
        return None
    ops = [tree, 'do start'] + SETTLE_OPS + ['mark', 'do reset'] + icbs + ['do start']
    for _ in range(rng.choice([1, 2, 4])):
        r = rng.random()
        if r < 0.4: ops.append('pass')
        elif r < 0.8 and dum: ops.append('do emit:%d:%s' % (rng.choice(dum), rng.choice('sf')))
        elif r < 0.9: ops.append('do stop')
        else: ops.append('do pause resume')
    return ops + SETTLE_OPS + ['passes 40', 'cmpfresh']       # a Repeat(5) over a few levels of synchronous children needs its passes


# ---- round 11: timeout x block x reset x restart (missed seed C17-6: reset() of a BLOCKED action must disarm its timeout timer; a blocked
# action is in kPause with the timer still armed, pause() alone disarms it), every product at every pass of small trees; each case first
# records the run of the freshly built tree under the script S (`mark`), then blocks / resets / restarts and drives the restarted run
# with the same S (`cmpfresh`, same-script rule: end state and the instant of the finish notification must be those of the fresh run)
TBR_TREES = ['( ift@2 D Fs )', '( seq:all@2 D Fs )', '( par:all@2 D Z1 )', '( par:anys@2 D D )', '( cmp@2 ( seq:all D Fs ) )', '( wr:i@2 D )',
             '( loop:us@2 D )', '( rep:2:nb@2 D )', '( lif:t@2 D Fs )', '( sw:d@2 D Fs Fs )', '( ife:tt@2 D Fs Ff )',
             '( seq:all ( ift@2 D Fs ) Fs )', '( par:all ( seq:all@2 D Fs ) D )', '( seq:all D@2 Fs )', '( seq:all@3 ( cmp@2 D ) Fs )', 'D@2']


def tbr_scripts(d):
    """scripts S for the run under comparison (d = id of the blocking dummy); timeouts @2 are 202..210 ms, `adv 1` is 100 ms"""
    return [
        ['adv 1', 'pass', 'adv 1', 'do emit:%d:s' % d, 'pass', 'pass', 'pass'],                      # ends at 200 ms, before its own deadline
        ['adv 1', 'adv 1', 'pass', 'adv 1', 'pass', 'pass'],                                           # times out at its own deadline
        ['do emit:%d:b' % d, 'pass', 'adv 1', 'do resume', 'adv 1', 'do emit:%d:s' % d, 'pass', 'pass', 'pass'],   # blocks again, resumed, ends in time
        ['adv 1', 'do pause', 'adv 3', 'do resume', 'adv 1', 'pass', 'do emit:%d:s' % d, 'pass', 'pass', 'pass'],  # pause: full interval again
    ]


TBR_WAITS = [[], ['pass'], ['pass', 'adv 1'], ['pass', 'pass', 'adv 1'], ['adv 1']]
TBR_EXTRA = [[], ['do pause'], ['do resume'], ['do pause resume pause']]
TBR_RESETS = [['do reset start'], ['do reset', 'pass', 'do start'], ['defer reset start'], ['do reset reset start'], ['do stop reset start'],
              ['advdo 100 reset start']]


def gen_tmo_block_restart(quick):
    for ti, tree in enumerate(TBR_TREES):
        fn, asm, dum = tree_ids(tree)
        d = dum[0]
        k = 0
        for si, S in enumerate(tbr_scripts(d)):
            for pre in ([], ['adv 1']):
                for wi, wait in enumerate(TBR_WAITS):
                    for ei, extra in enumerate(TBR_EXTRA):
                        for ri, rst in enumerate(TBR_RESETS):
                            k += 1
                            if quick and (k + ti) % 7 and not (si == 0 and ei == 0 and ri == 0):
                                continue
                            yield (['tree ' + tree, 'do start'] + S + ['mark', 'do reset start'] + pre + ['do emit:%d:b' % d] + wait + extra
                                   + rst + S + ['cmpfresh'])


# ---- round 11, lesson (g): inputs equal to / derived from cached state: setTimeout with the SAME value while running (the deadline must
# move), in every lifecycle state, on every node; start() while the previous run's finish notification is still queued; reset() twice;
# one leaf object offered to two parents
SETTMO_TREES = ['( seq:all@2 D Fs )', '( par:all@2 D Z1 )', '( cmp@2 ( seq:all@2 D Fs ) )', '( seq:all D@2 Fs )', '( wr:i@2 Z3 )', 'D@2', '( ift D Fs )']


def gen_settmo(quick):
    for tree in SETTMO_TREES:
        fn, asm, dum = tree_ids(tree)
        toks = [t for t in tree.split() if t not in '()']
        tmo_nodes = [i for i, t in enumerate(toks) if '@' in t] or [0]
        d = dum[0] if dum else None
        S = ['adv 1', 'pass', 'adv 1'] + (['do emit:%d:s' % d] if d is not None else []) + ['pass', 'pass', 'pass']
        for n in tmo_nodes:
            for spec in ('2', '1', '3', 'r250'):
                for state in ('run', 'blocked', 'paused', 'idle', 'ended'):
                    if state == 'blocked' and d is None: continue
                    if quick and spec in ('3', 'r250') and state in ('idle', 'ended'): continue
                    ops = ['tree ' + tree]
                    if state == 'idle': ops += ['settmo %d %s' % (n, spec)]
                    ops += ['do start', 'adv 1']
                    if state == 'run': ops += ['settmo %d %s' % (n, spec)]
                    if state == 'blocked': ops += ['do emit:%d:b' % d, 'pass', 'settmo %d %s' % (n, spec), 'adv 1', 'pass', 'adv 1', 'do resume']
                    if state == 'paused': ops += ['do pause', 'settmo %d %s' % (n, spec), 'adv 1', 'pass', 'adv 1', 'do resume']
                    if state == 'ended': ops += ['do stop', 'settmo %d %s' % (n, spec), 'pass', 'do reset start']
                    # past the OLD deadline, short of the new one; then past the new one
                    ops += ['adv 1', 'pass', 'adv 1', 'pass', 'pass', 'adv 1', 'pass', 'adv 1', 'pass', 'pass']
                    yield ops
            # the same value again and again: every call moves the deadline, the action never times out while it is being re-armed
            yield ['tree ' + tree, 'do start'] + ['adv 1', 'settmo %d 2' % n] * 6 + ['adv 1', 'pass', 'adv 1', 'pass', 'adv 1', 'pass', 'pass']
            # resetTimeout() mid-run: no timeout any more; setTimeout() again later
            yield ['tree ' + tree, 'do start', 'adv 1', 'clrtmo %d' % n, 'adv 3', 'pass', 'pass', 'settmo %d 1' % n, 'pass', 'adv 1', 'pass', 'adv 1', 'pass', 'pass']
            yield ['tree ' + tree, 'do start', 'adv 1', 'clrtmo %d' % n, 'clrtmo %d' % n, 'settmo %d 2' % n, 'settmo %d 2' % n, 'adv 2', 'pass', 'adv 1', 'pass', 'pass']
            # the same value, then reset + start: the restarted run is the fresh run (same-script comparison)
            yield (['tree ' + tree, 'do start'] + S + ['mark', 'do reset start', 'adv 1', 'settmo %d 2' % n, 'adv 1', 'pass']
                   + (['do emit:%d:b' % d, 'pass', 'settmo %d 2' % n] if d is not None else []) + ['do reset start'] + S + ['cmpfresh'])
    yield ['tree ( seq:all Fs )', 'settmo', 'settmo 0', 'settmo 1 2', 'settmo 0 x', 'settmo 0 51', 'settmo 0 r8796093022209', 'settmo 0 2@1', 'clrtmo', 'clrtmo 1',
           'clrtmo x', 'settmo 0 r8796093022208', 'do start', 'pass', 'cmpfresh x', 'cmpfresh', 'share seq']
    yield ['settmo 0 2', 'clrtmo 0', 'cmpfresh', 'share', 'share nope', 'share seq x']
    for kd in ('seq', 'par', 'ift', 'ife', 'sw', 'loop', 'lif', 'rep', 'wr', 'cmp'):
        yield ['share ' + kd, 'share ' + kd, 'tree ( seq:all Fs )', 'do start', 'pass', 'pass']


def gen_queued_fin_and_double_reset(quick):
    """start() / reset() / reset() reset() while the finish (or block) notification of the previous run is still queued, at every pass"""
    trees = ['( seq:all Fs )', '( seq:all D Fs )', 'D', 'D@1', '( par:all D Fs )', '( cmp ( seq:all D ) )', '( seq:all )', '( wr:i@1 D )', '( ift@1 D Fs )']
    calls = ['start', 'reset start', 'reset reset', 'reset reset start', 'reset start reset start', 'start start', 'stop start', 'stop reset reset start',
             'pause start', 'reset start start']
    for tree in trees:
        fn, asm, dum = tree_ids(tree)
        d = dum[0] if dum else None
        for c in calls:
            for x in 'sfb':
                if d is None and x != 's': continue
                em = 'emit:%d:%s ' % (d, x) if d is not None else ''
                for gap in ([], ['pass'], ['pass', 'pass']):
                    # the call lands in the SAME fd callback as the end of the run (notification queued, not delivered), or 1 / 2 passes later
                    yield ['tree ' + tree, 'do start'] + (['do ' + em + c] if not gap else ['do ' + em.strip()] * (1 if em else 0) + gap + ['do ' + c]) + \
                          ['pass', 'pass'] + (['do emit:%d:s' % d] if d is not None else []) + ['pass', 'adv 2', 'pass', 'pass']
                    if d is not None:
                        yield ['tree ' + tree, 'do start', 'defer ' + em + c, 'pass', 'do emit:%d:s' % d, 'pass', 'adv 2', 'pass', 'pass']


# ---- round 12: the class of C17_result_matches_doc_serial_with_par_leaves on the real code ------------------------------------
SERPAR_PARS = ['( par:all Ff Z3 Fs:1 )', '( par:anys Ff Z2 Fs )', '( par:anyf Z1 Ff Z3 )', '( par:all )', '( par:all Z1 Z2 )', '( par:anys Fs Fs )']
SERPAR_PARENTS = [
    '( wr:i P )', '( wr:f P )', '( cmp P )', '( ife:tt P Q Fs )', '( ife:tt Ff Fs P )', '( ife:ft Ff P )', '( ife:tf P Q )', '( ift P Q Ff P )',
    '( ift Ff P P Q )', '( sw:d P Fs Q )', '( sw:d Fs:0 P Q )', '( sw:n Fs:1 Fs P )', '( loop:us P )', '( loop:uf P )', '( loop:fe P )',
    '( loop:uf ( seq:all P Ff ) )', '( lif:t Ff P )', '( lif:f P Q )', '( lif:t ( seq:all P Ff ) Q )', '( rep:2:nb P )', '( rep:3:bs P )',
    '( rep:3:bf P )', '( rep:2:nb ( seq:all Fs P ) )', '( seq:all P ( rep:2:nb Q ) Fs )', '( loop:us ( ife:tt P ( rep:2:nb Q ) Ff ) )',
    '( rep:2:nb ( ift P ( rep:2:bf Q ) ) )', '( seq:anyf ( wr:i P ) Q )',
]
SERPAR_SCHEDULES = [
    ['pass'] * 3 + ['adv 1', 'pass'] * 8 + ['pass'] * 4,
    ['adv 4'] * 9,
    ['pass', 'adv 3', 'pass', 'pass', 'adv 3', 'adv 3', 'pass', 'pass', 'pass', 'adv 2', 'adv 1', 'pass', 'pass', 'adv 3', 'pass', 'pass'],
]


def gen_serpar_class(rng, quick):
    """Parallel over Function / Sleep leaves at leaf positions below every serial parent kind, control-free, three schedules + a random
    one: under Loop / LoopIf / Repeat the ParallelAction is reset and run again (the driver compares the result with the evaluator)"""
    for i, parent in enumerate(SERPAR_PARENTS):
        for j, par in enumerate(SERPAR_PARS):
            tree = parent.replace('P', par).replace('Q', SERPAR_PARS[(i + j + 1) % len(SERPAR_PARS)])
            for sch in SERPAR_SCHEDULES:
                yield ['tree ' + tree, 'do start'] + sch
            yield ['tree ' + tree, 'do start'] + [('pass' if rng.random() < 0.6 else 'adv %d' % rng.choice([1, 1, 2, 3, 4])) for _ in range(rng.choice([8, 16, 24]))]


def gen(rng, tier):
    quick = tier == 'quick'
    yield from gen_serpar_class(rng, quick)
    yield from gen_tmo_block_restart(quick)
    yield from gen_settmo(quick)
    yield from gen_queued_fin_and_double_reset(quick)
    yield from gen_restart(quick)
    for _ in range(300 if quick else 3000):
        c = gen_restart_random(rng)
        if c: yield c
    yield from gen_width_sleep()
    yield from gen_width_repeat()
    yield from gen_long_loops(quick)
    yield from gen_late(quick)
    yield from gen_anc(quick)
    for _ in range(150 if quick else 1500):
        yield gen_late_random(rng)
    yield from gen_par_ctl(quick)
    yield from gen_tmo_race()
    for _ in range(60 if quick else 600):
        yield gen_plain_par(rng)
    # malformed stream: both sides must answer bad-op
    yield ['do start', 'tree', 'tree (', 'tree ( seq:all Fs', 'tree ( seq:bad Fs )', 'tree Fs Fs', 'tree ( ife:tt Fs Fs )', 'tree ( ift Fs )',
           'tree ( loop:fe )', 'tree Z51', 'tree Fs@51', 'tree ( rep:1001:nb Fs )', 'tree ( ife:ff Fs )', 'tree ( sw:n Fs )', 'tree )',
           'tree ( cmp Fs Fs )', 'tree Fs:21', 'tree ( lif:t Fs )', 'cfg 111', 'tree Fs', 'do', 'do frob', 'do emit:1:s', 'do emit:0:q', 'adv 101',
           'adv x', 'pass 1', 'frob', 'do start', 'do emit:0:s', 'pass', 'cfg 1111']
    # a malformed line in the middle of a run takes no loop pass on either side
    yield ['tree ( seq:all Fs ( seq:all Fs Z0 ) Fs )', 'do start', 'frob', 'pass', 'settle', 'adv x', 'do', 'pass', 'tree (', 'adv 1', 'icb body 9 0 stop', 'pass', 'pass', 'pass']
    # directed: the three repaired defects and the stale-block pattern
    yield ['tree ( par:all Fs Fs )', 'do start pause', 'pass', 'do resume', 'pass', 'pass', 'pass']
    yield ['tree ( ife:tt Fs Fs Ff )', 'do start', 'do pause', 'pass', 'do resume reset', 'pass', 'pass', 'do start', 'pass', 'pass', 'pass']
    yield ['tree ( seq:all Fs Z0 Fs )', 'do start pause', 'pass', 'do resume reset start', 'pass', 'pass', 'adv 2', 'pass', 'pass', 'pass']
    yield ['tree ( seq:all@0 Z2 Fs )', 'do start', 'adv 1', 'pass', 'adv 3', 'pass', 'pass']
    yield ['tree ( par:all@0 Z2 D )', 'do start', 'adv 1', 'pass', 'adv 3', 'pass', 'pass']
    yield ['tree ( seq:all D Fs )', 'do start', 'do emit:1:b pause resume emit:1:b', 'do reset', 'pass', 'pass', 'do start', 'pass']
    yield ['tree ( seq:all D Fs )', 'do start', 'do emit:1:b', 'do stop', 'pass', 'pass']
    yield ['tree ( rep:0:nb Fs )', 'do start', 'pass', 'pass', 'pass', 'do stop', 'pass']
    # exhaustive placement of one control call (thorough: two) over all passes of small trees
    singles = ['do pause', 'do stop', 'do reset', 'do pause resume', 'do reset start', 'do stop reset start', 'do start',
               'defer pause', 'defer reset start', 'do pause reset', 'do resume']
    L = 7
    for tree in SMALL:
        for i in range(L):
            for c in (singles if not quick else singles[:6]):
                yield gen_placement(tree, {i: c}, L)
    if not quick:
        pair = ['do pause', 'do resume', 'do stop', 'do reset', 'do start', 'do reset start', 'do pause resume']
        for tree in SMALL:
            for i, j in itertools.combinations(range(L), 2):
                for a in pair:
                    for b in pair:
                        yield gen_placement(tree, {i: a, j: b}, L)
    # re-entrant control: one-shot scripts in the root's final / finish / block callback
    yield ['tree ( seq:all Fs )', 'cb', 'cb final', 'cb nope start', 'cb final emit:0:s', 'cb final start start start start start start start', 'cb final reset start', 'do start', 'pass', 'pass']
    for tree in REENT_TREES:
        for which in ('final', 'fin'):
            for sc in (SCRIPTS if not quick else SCRIPTS[:5]):
                yield gen_scripted(tree, which, sc, None)
        for pre in ('do stop', 'do pause', 'do emit:1:s', 'do emit:1:b', 'defer stop'):
            for sc in SCRIPTS[:4]:
                yield gen_scripted(tree, 'final', sc, 1, pre=pre)
        yield gen_scripted(tree, 'blk', 'stop', 1, pre='do emit:1:b')
        yield gen_scripted(tree, 'blk', 'reset start', 1, pre='do emit:1:b')
        yield gen_scripted(tree, 'final', 'reset start', None, second=('final', 'reset start'))
        yield gen_scripted(tree, 'final', 'reset start', None, second=('fin', 'reset start'))
    # held-back results of a parallel replayed after resume, the final callback restarting it in the middle of the replay
    for tree in ('( par:anys Fs Fs D )', '( par:anyf Ff Ff D )', '( par:anys D D D )', '( par:anys Fs Ff Fs Z1 )', '( par:all Fs Fs )', '( seq:all ( par:anys Fs Fs D ) Fs )'):
        for sc in ('reset start', 'reset', 'stop', 'reset start pause', 'stop reset start'):
            yield ['tree ' + tree, 'cb final ' + sc, 'do start pause', 'do emit:1:s emit:2:s', 'pass', 'do resume', 'pass', 'pass', 'do emit:3:s', 'pass', 'pass']
            yield ['tree ' + tree, 'cb final ' + sc, 'do start', 'do pause', 'do emit:1:s emit:2:f emit:3:s', 'pass', 'do resume', 'pass', 'pass', 'pass']
    # call-outs of inner nodes (function bodies, final callbacks of inner composites) making control calls: free mode
    yield ['tree ( seq:all Fs ( seq:all Fs ) )', 'settle', 'icb', 'icb body 0 0 stop', 'icb body 9 0 stop', 'icb final 1 0 stop', 'icb body 1 7 stop',
           'icb body 1 0 emit:1:s', 'icb nope 1 0 stop', 'icb body 1 0 stop', 'do start', 'pass', 'settle', 'settle x', 'pass']
    for (tree, fns, asms) in FREE_TREES:
        for sc in (ISCRIPTS if not quick else ISCRIPTS[:5]):
            for f in fns:
                yield gen_free(tree, 'body', f, 0, sc)
            for a in asms:
                yield gen_free(tree, 'final', a, 0, sc)
        for f in fns[:2]:
            yield gen_free(tree, 'body', f, 0, 'stop', extra='do pause')
            yield gen_free(tree, 'body', f, 0, 'reset start', extra='do stop reset start')
    n = 1500 if quick else 12000
    for _ in range(n // 5):
        c = gen_free_random(rng)
        if c: yield c
    for _ in range(n // 4):
        yield gen_scripted_random(rng, rng.choice([6, 12, 20]))
    yield ['xcancelcur', 'xapp D 3', 'xapp Q 1', 'xapp D 1', 'tree Fs', 'do start', 'xemit 0 s', 'xcancel 0', 'xpass', 'xapp D 1']
    yield ['xapp D 2', 'xcancelcur', 'xapp D 0', 'xemit 2 s', 'xpass']
    yield ['xapp D 1', 'xcancel 1', 'xcancelcur', 'xapp D 1', 'xemit 2 f']
    yield ['xapp D 2', 'xapp D 2', 'xapp D 0', 'xapp Fs 1', 'xemit 3 s', 'xemit 1 s', 'xemit 2 s', 'xpass']
    yield ['xapp D 1', 'xapp D 1', 'xcancelall', 'xpass', 'xapp D 1', 'xpass']
    for _ in range(n // 5):
        yield gen_exec(rng, rng.choice([4, 8, 16, 30]))
    for _ in range(n // 3):
        yield gen_plain(rng)
    for _ in range(n):
        yield gen_random(rng, rng.choice([6, 12, 25]))


def gen_exec(rng, nops):
    """ActionExecutor: appends with priorities, completion of the running action, cancels"""
    ops = []
    n = 0
    for _ in range(nops):
        r = rng.random()
        if r < 0.40 or n == 0:
            ops.append('xapp %s %d' % (rng.choice(['D', 'D', 'D', 'Fs', 'Ff', 'X']), rng.choice([0, 1, 1, 2])))
            n += 1
        elif r < 0.65: ops.append('xemit %d %s' % (rng.randrange(1, n + 2), rng.choice('sf')))
        elif r < 0.78: ops.append('xcancel %d' % rng.randrange(1, n + 2))
        elif r < 0.88: ops.append('xcancelcur')
        elif r < 0.92: ops.append('xcancelall')
        else: ops.append('xpass')
    ops += ['xpass', 'xpass']
    return ops


def nontrivial(ops, model_lines):
    tags = set()
    for l in model_lines:
        if l.startswith('B '):
            tags.update(l[2:].split())
    if tags & {'held-back', 'held-back-par', 'replay-queued', 'tmo-node-failed', 'root-blk', 'tmo-race', 'par-paused', 'tmo-blocked', 'tmo-blocked-reset', 'settmo'}:
        return 1
    if 'x-xapp' in tags and sum(1 for l in model_lines if l.startswith('P e xfinished')) >= 2:
        return 1
    m = re.search(r'P tree n=(\d+)', '\n'.join(model_lines))
    if m and int(m.group(1)) >= 3 and 'root-fin' in tags:
        return 1
    return None


def fingerprint(ops, d):
    heads = set()
    seq = []
    for o in ops:
        w = o.split()
        if not w: continue
        if w[0] == 'tree':
            for t in w[1:]:
                t = t.split('@')[0].split(':')[0]
                if t not in '()': heads.add(re.sub(r'\d+', '', t))
        elif w[0] in ('do', 'defer'):
            seq.append(w[0] + ':' + ','.join(c.split(':')[0] for c in w[1:]))
        else:
            seq.append(w[0])
    return 'C17-' + hashlib.sha1((' '.join(sorted(heads)) + '|' + ' '.join(seq)).encode()).hexdigest()[:10]


LEVEL_TEXT = ('Lean 4 theorems over an executable model of the action framework. (1) One action, ALL call sequences (start/pause/resume/stop/'
              'reset, finish()/block() in any state, timeout, the loop running queued tasks in any order): at most one finish notification '
              'between two resets, every delivered notification belongs to the current run. (2) EVERY tree, EVERY op sequence: the tree '
              'invariant WF (Inv.lean) is proved inductive over `step` (control calls at any pass, alone / back to back / deferred with runNext, '
              'emits on leaves, clock steps, queued tasks and timers of a loop pass) from every freshly built tree; corollaries: below an '
              'action that is not under way nothing is running or paused (after finish, timeout, stop), stop() leaves the tree quiet, no '
              'finish/block/replay notification is queued at a reset or stopped action anywhere in the tree, curr_action_ is the only '
              'under-way child of a serial composite and a held-back result exists only without a current child, the final hook ran exactly '
              'once iff the action ended, reset() returns every action to its freshly built fields. (3) SequenceAction control flow = documented '
              'loop for any number of children. (4) Counterexample theorems (kernel evaluation in the unrepaired configuration) for the '
              'defects repaired by patches/C17-01..04 and C17-07..08 (C17-05 is a hardening of C17-01 found by the invariant proof), each with its repaired counterpart. (5) Re-entrant control: WF and its corollaries are proved inductive for histories with callback scripts on the root (Reent.lean, stepR_wf). The model is tied to the real code on every run by '
              'differential execution of generated trees and control scripts on the real epoll loop under a virtual clock; the driver also '
              'evaluates WF and the documented result (reference evaluator, all composites) on every visited state')
LEVEL_NOTE = ('whole-tree "root result = documented meaning, exactly one finish notification, leaves called in the documented order" is PROVED through '
              'the deferred queue for trees of Sequence/IfElse/IfThen/Switch/Wrapper/Composite/Loop/LoopIf/Repeat(n>=1) over Function and Sleep leaves (C17_result_matches_doc_serial, '
              'safety for every pass/clock sequence; C17_finishes_exactly_once, liveness: after cost(t)+1 big clock steps / passes in any fair schedule the trace IS the complete visit order + one finish, when the evaluator terminates; C17_loop_never_finishes: otherwise no finish notification ever; C17_skeleton_preserved for every op sequence), and for ParallelAction (all three modes, any number of children) over Function and Sleep leaves as the root (C17_result_matches_doc_par_leaves: all children called in child order inside start(), then none or exactly one finish (true,0) for every pass/clock sequence; C17_par_leaves_finishes_exactly_once: three big ops suffice, root Finished, nothing left Running/Pause; batch invariant PI kept by every runTask/fireOne in any order); round 9: C17_never_stuck_partial / C17_never_stuck_par_leaves (a Running root of the covered classes always waits for a queued task, an armed timer or a child under way, in every control-free run), C17_tree_inv_late (WF and its corollaries with late passes), C17_timeout_fires (any tree, any state: a firing timeout leaves the action Finished/fail with reason 1 queued and no descendant under way), C17_repeat_count_width / C17_sleep_deadline_width / C17_finish_time_fits (the ranges in which the Nat/Int values of the model are the C++ size_t / uint64 / int64-ns values, with counterexamples outside); round 10: visit(Parallel) = the children in child order (C17_result_matches_doc_par_leaves_visit), C17_batch_embed (one op of a parent is the op of its active child embedded, for ANY number of notifications in the batch, under BatchOk; AP is an instance); round 11: the timeout timer in every lifecycle state - C17_block_keeps_timeout (a blocked action is Pause with its timer still armed), C17_pause_stop_reset_disarm, C17_reset_disarms_every_timer (every reachable state of every tree: after reset() no timer of the tree is armed), C17_restart_deadline (a reset action started at `now` has the deadline now + timeout) with C17_stale_timer_survives_start_counterexample (enable() is a no-op on an armed timer) and the kernel-evaluated history C17_reset_of_blocked_action_restart; setTimeout / resetTimeout at any pass (TmoCtl.lean): C17_set_timeout_same_value_moves_deadline, C17_set_timeout_not_running, C17_set_timeout_keeps_inv_partial (guard: the target is the root or not Idle); ParallelAction over Function / Sleep leaves as a CHILD of Sequence / Wrapper / Composite at any positions, nestable (C17_result_matches_doc_seq_over_par_leaves, ..._wrapper_..., ..._composite_...; C17_par_leaves_batch_ok, C17_par_leaves_done_as); round 12: the same below EVERY serial parent kind (..._ifelse_/_ifthen_/_switch_/_loop_/_loopif_/_repeat_over_par_leaves; below Loop / LoopIf / Repeat the ParallelAction is reset and run again) and ONE theorem over the decidable class SerParOk = the serial class with a Parallel-over-leaves node admitted at any leaf position, any depth (C17_result_matches_doc_serial_with_par_leaves: trace is a prefix of the documented visit order, or the complete order + exactly one finish with the documented result, for every pass/clock schedule; C17_ser_par_class_extends, kernel-evaluated C17_ser_par_class_examples); OPEN: order of the calls of a non-terminating loop, Parallel over composite children, liveness of parents over a Parallel child, TimersFrom (every armed deadline of a restarted tree = start + interval) at tree level, timeouts (C17_timeout_result_depends_on_pass_granularity: the result of a tree with a timeout depends on whether a loop pass runs between two deadlines, so the statement needs a schedule hypothesis) (all compared with the evaluator on '
              'every control-free generated run for all composites); trace equivalence '
              'of a reset tree with a fresh one in general (proved: Clean + WF after reset, and C17_rerun_after_reset: covered class, second run without control calls, after any history); ActionExecutor: one-at-a-time, heads-only, highest-priority-first and callbacks-once proved; trusted: Lean kernel, '
              'hand-written model, harness, generator coverage (measured)')
TECHNIQUE = 'Lean 4 invariant/structural-induction proofs over an action-tree model + model/implementation correspondence on the real loop'
DESIGN_REF = 'DESIGN.md §6 C17, §7 row 15'
