// C18 harness: real tbox::coroutine::Scheduler on the real epoll loop; routine scripts are
// interpreted INSIDE real ucontext routines on the real Channel / Mutex / Semaphore / Broadcast /
// Condition.  One op line per loop iteration: an always-readable pipe makes the loop call the
// driver callback once per iteration, *before* handleNextFunc() runs the queued
// Scheduler::schedule tasks of that iteration — exactly the "main-context op, then one loop
// pass" step of the model (lean/TboxModel/C18/Model.lean, `step`).
// Output format matches lean/Driver/C18.lean.
// Round 4: every case runs in a child process of its own (the parent only dispatches), so that the calls that end the
// process - a member reserved for routines called from the main context (`main <op>`), Scheduler::cleanup() inside a
// routine (`K`), an exception that leaves a routine body (`t`) - are observed for real: the SIGABRT handler answers the
// current and every remaining line of the case with `P aborted`, as the model does.  `main <op>` calls a primitive from the
// main context (the wake-up paths an event callback uses), `semw` drives one private Semaphore at the int boundaries,
// `stack <KiB>` varies the routine stack size, and every script step re-checks getToken()/getName()/getLoop().
#include "vh.h"
#include <unistd.h>
#include <signal.h>
#include <sys/resource.h>
#include <sys/wait.h>
#include <sys/time.h>
#include <stdexcept>
#include <cstring>
#include <memory>
#include <tbox/event/loop.h>
#include <tbox/event/fd_event.h>
#include <tbox/base/log_output.h>
#include <tbox/coroutine/scheduler.h>
#include <tbox/coroutine/channel.hpp>
#include <tbox/coroutine/mutex.hpp>
#include <tbox/coroutine/semaphore.hpp>
#include <tbox/coroutine/broadcast.hpp>
#include <tbox/coroutine/condition.hpp>

using namespace tbox::coroutine;
using namespace tbox::event;

static const size_t kPrims = 4;
static const size_t kStack = 256 * 1024;

struct SOp { std::string text; char kind; char sub; uint64_t a, b; };
struct Script { bool xfail; bool raii = false; std::vector<SOp> ops; };

struct RInfo { bool begun = false, finished = false; unsigned done = 0; };

struct World {
    Scheduler sch;
    std::vector<std::unique_ptr<Channel<int>>> ch;
    std::vector<std::unique_ptr<Mutex>> mx;
    std::vector<std::unique_ptr<Semaphore>> sm;
    std::vector<std::unique_ptr<Broadcast>> bc;
    std::vector<std::unique_ptr<Condition<int>>> cd;
    std::vector<std::shared_ptr<Script>> defs;
    std::vector<RoutineToken> toks;
    std::vector<RInfo> info;
    bool in_cleanup = false;
    size_t stack = kStack;
    Loop *loop;
    explicit World(Loop *l) : sch(l), loop(l) {
        for (size_t i = 0; i < kPrims; ++i) {
            ch.emplace_back(new Channel<int>(sch));
            mx.emplace_back(new Mutex(sch));
            sm.emplace_back(new Semaphore(sch, (int)i));
            bc.emplace_back(new Broadcast(sch));
            cd.emplace_back(new Condition<int>(sch, i % 2 == 0 ? Condition<int>::Logic::kAll : Condition<int>::Logic::kAny));
        }
    }
};

static World *W = nullptr;
static bool mute = false;

// ---- one case = one child process.  abort() (a failed TBOX_ASSERT of the debug build the harness compiles, or
// std::terminate for an exception that leaves a routine body) ends the case: the handler answers the line being
// processed and every remaining line of the case with `P aborted`, exactly as the model does, and exits 0.
static std::vector<std::string> g_lines;
static size_t g_pos = 0;            // next line to read
static bool g_pending = false;      // a line has been executed and its summary is still owed
static void on_abort(int) {
    if (!mute && g_pending) {
        std::cout << "P aborted\n";
        for (size_t i = g_pos; i < g_lines.size(); ++i)
            if (!vh::words(g_lines[i]).empty()) std::cout << "P aborted\n";
    }
    std::cout.flush();
    _exit(0);
}

static RoutineToken tok_of(uint64_t r) { return r < W->toks.size() ? W->toks[r] : RoutineToken(); }

static bool create_routine(World *w, size_t d, bool now);

// runs inside the routine
// Scheduler::getToken / getName / getLoop inside a routine: the token create() returned for this routine, the name it was
// created with, the loop the scheduler was built on (checked before and after every script operation; silent when right)
static void identity(World *w, size_t self, const std::string &name, Scheduler &sch) {
    if (!sch.getToken().equal(w->toks[self]) || sch.getName() != name || sch.getLoop() != w->loop)
        std::cout << "P identity-mismatch r=" << self << "\n";
}

static void interpret(World *w, size_t self, std::shared_ptr<Script> sc, const std::string &name, Scheduler &sch) {
    w->info[self].begun = true;
    identity(w, self, name, sch);
    // RAII scripts (`defr`): `l<m>` constructs a Mutex::Locker (its constructor has no result), `u<m>` ends the innermost
    // scope when that scope is the one of m (else it is a plain unlock()); when the routine returns the scopes are left
    // innermost first.  Every ~Locker() is logged as the `u<m>` it is.
    std::vector<std::pair<uint64_t, std::unique_ptr<Mutex::Locker>>> scopes;
    auto leave_one = [&]() {
        uint64_t m = scopes.back().first;
        scopes.pop_back();                      // ~Locker(): m_.unlock()
        identity(w, self, name, sch);
        w->info[self].done++;
        if (!mute)
            std::cout << "P e r=" << self << " u" << m << " ok c=" << (sch.isCanceled() ? 1 : 0) << "\n";
    };
    auto leave_all = [&]() { while (!scopes.empty()) leave_one(); };
    for (const SOp &o : sc->ops) {
        std::string res = "ok";
        bool failed = false;
        auto fail_if = [&](bool ok) { if (!ok) { res = "fail"; failed = true; } };
        switch (o.kind) {
            case 'y': sch.yield(); break;
            case 'w': sch.wait(); break;
            case 's': *w->ch[o.a] << (int)o.b; break;
            case 'r': { int v = -1; bool ok = (*w->ch[o.a] >> v); if (ok) res = "v" + std::to_string(v); else fail_if(false); } break;
            case 'l':
                if (sc->raii) scopes.emplace_back(o.a, std::unique_ptr<Mutex::Locker>(new Mutex::Locker(*w->mx[o.a])));
                else fail_if(w->mx[o.a]->lock());
                break;
            case 'u':
                if (sc->raii && !scopes.empty() && scopes.back().first == o.a) { leave_one(); continue; }
                w->mx[o.a]->unlock();
                break;
            case 'a': fail_if(w->sm[o.a]->acquire()); break;
            case 'v': w->sm[o.a]->release(); break;
            case 'p': w->bc[o.a]->post(); break;
            case 'b': fail_if(w->bc[o.a]->wait()); break;
            case 'c':
                if (o.sub == 'a') w->cd[o.a]->add((int)o.b);
                else if (o.sub == 'w') fail_if(w->cd[o.a]->wait());
                else w->cd[o.a]->post((int)o.b);
                break;
            case 'j': fail_if(sch.join(o.a < w->toks.size() ? w->toks[o.a] : RoutineToken())); break;
            case 'n': case 'N':
                // Scheduler::create() refuses (null token) while cleanup() is running (patches/C18-04)
                fail_if(create_routine(w, o.a, o.kind == 'n'));
                break;
            case 'x': fail_if(sch.cancel(o.a < w->toks.size() ? w->toks[o.a] : RoutineToken())); break;
            case 'R': fail_if(sch.resume(o.a < w->toks.size() ? w->toks[o.a] : RoutineToken())); break;
            case 'e': leave_all(); w->info[self].finished = true; return;
            case 't': throw std::runtime_error("C18 script: exception leaves the routine body");
            case 'K': w->sch.cleanup(); break;      // only the main context may: TBOX_ASSERT(isInMainRoutine())
        }
        identity(w, self, name, sch);
        w->info[self].done++;
        if (!mute)
            std::cout << "P e r=" << self << " " << o.text << " " << res << " c=" << (sch.isCanceled() ? 1 : 0) << "\n";
        if (failed && sc->xfail) break;
    }
    leave_all();
    w->info[self].finished = true;
}

static bool create_routine(World *w, size_t d, bool now) {
    size_t idx = w->toks.size();
    std::shared_ptr<Script> sc = w->defs[d];
    w->info.emplace_back();
    w->toks.push_back(RoutineToken());
    std::string name = "d" + std::to_string(d);
    RoutineToken t = w->sch.create([w, idx, sc, name](Scheduler &s) { interpret(w, idx, sc, name, s); }, now, name, w->stack);
    if (t.isNull()) {   // refused: no routine exists, the index is not used
        w->info.pop_back(); w->toks.pop_back();
        return false;
    }
    w->toks[idx] = t;
    return true;
}

static bool num(const std::string &s, uint64_t &v, uint64_t lim) { return vh::to_u64(s, v) && s.size() <= 6 && v < lim; }

static bool parse_sop1(const std::string &t, SOp &o, size_t ndefs);
static bool parse_sop(const std::string &t, SOp &o, size_t ndefs) {
    if (!parse_sop1(t, o, ndefs)) return false;
    // canonical text (numbers without leading zeros), as the model prints it
    std::string k(1, o.kind);
    switch (o.kind) {
        case 'y': case 'w': case 'e': case 't': case 'K': o.text = k; break;
        case 's': o.text = k + std::to_string(o.a) + ":" + std::to_string(o.b); break;
        case 'c': o.text = k + std::string(1, o.sub) + std::to_string(o.a) + (o.sub == 'w' ? "" : ":" + std::to_string(o.b)); break;
        default: o.text = k + std::to_string(o.a);
    }
    return true;
}
static bool parse_sop1(const std::string &t, SOp &o, size_t ndefs) {
    o.text = t; o.a = o.b = 0; o.sub = 0;
    if (t.empty()) return false;
    o.kind = t[0];
    std::string rest = t.substr(1);
    auto two = [&](const std::string &r) {
        size_t p = r.find(':');
        return p != std::string::npos && num(r.substr(0, p), o.a, kPrims) && num(r.substr(p + 1), o.b, 1000);
    };
    switch (o.kind) {
        case 'y': case 'w': case 'e': case 't': case 'K': return rest.empty();
        case 's': return two(rest);
        case 'r': case 'l': case 'u': case 'a': case 'v': case 'p': case 'b': return num(rest, o.a, kPrims);
        case 'c':
            if (rest.empty()) return false;
            o.sub = rest[0];
            if (o.sub == 'w') return num(rest.substr(1), o.a, kPrims);
            if (o.sub == 'a' || o.sub == 'p') return two(rest.substr(1));
            return false;
        case 'j': case 'x': case 'R': return num(rest, o.a, 64);
        case 'n': case 'N': return num(rest, o.a, ndefs);
    }
    return false;
}

static bool parse_script(const std::string &w, Script &sc, size_t ndefs) {
    sc.ops.clear();
    if (w == "-") return true;
    if (!w.empty() && w.back() == ',') return false;
    std::stringstream ss(w); std::string item;
    while (std::getline(ss, item, ',')) {
        SOp o; if (!parse_sop(item, o, ndefs)) return false;
        sc.ops.push_back(o);
    }
    return true;
}

static std::string summary() {
    std::string s = "P st=";
    if (W->info.empty()) s += "-";
    for (size_t i = 0; i < W->info.size(); ++i) {
        if (i) s += ",";
        const RInfo &r = W->info[i];
        s += !r.begun ? "u" : (r.finished ? "d" : std::to_string(r.done));
    }
    s += " ch=";
    for (size_t i = 0; i < kPrims; ++i) s += W->ch[i]->empty() ? "1" : "0";
    s += " cz=";
    for (size_t i = 0; i < kPrims; ++i) s += W->ch[i]->size() ? "1" : "0";
    s += " sm=";
    for (size_t i = 0; i < kPrims; ++i) s += W->sm[i]->count() ? "1" : "0";
    return s;
}

static void do_cleanup() {
    W->in_cleanup = true;
    W->sch.cleanup();
    W->in_cleanup = false;
}

// a primitive / scheduler member called from the MAIN context (outside every routine)
static void main_call(const SOp &o) {
    std::string res = "ok";
    auto b = [&](bool ok) { if (!ok) res = "fail"; };
    switch (o.kind) {
        case 'y': W->sch.yield(); break;
        case 'w': W->sch.wait(); break;
        case 's': *W->ch[o.a] << (int)o.b; break;
        case 'r': { int v = -1; bool ok = (*W->ch[o.a] >> v); if (ok) res = "v" + std::to_string(v); else res = "fail"; } break;
        case 'l': b(W->mx[o.a]->lock()); break;
        case 'u': W->mx[o.a]->unlock(); break;
        case 'a': b(W->sm[o.a]->acquire()); break;
        case 'v': W->sm[o.a]->release(); break;
        case 'p': W->bc[o.a]->post(); break;
        case 'b': b(W->bc[o.a]->wait()); break;
        case 'c':
            if (o.sub == 'a') W->cd[o.a]->add((int)o.b);
            else if (o.sub == 'w') b(W->cd[o.a]->wait());
            else W->cd[o.a]->post((int)o.b);
            break;
        case 'j': b(W->sch.join(tok_of(o.a))); break;
    }
    std::cout << "P e r=main " << o.text << " " << res << " c=0\n";
}

// `semw <init> <a|v...>`: one private Semaphore(sch, init) on a private loop, used by one routine (width / sign of count_)
static void semw(long long init, const std::string &ops) {
    Loop *l2 = Loop::New("epoll");
    std::string res;
    Scheduler *sch2 = new Scheduler(l2);
    Semaphore *sem = new Semaphore(*sch2, (int)init);
    sch2->create([&res, sem, ops](Scheduler &) {
        for (char c : ops) {
            if (c == 'a') { res += 'B'; if (!sem->acquire()) return; res.back() = 'g'; }     // 'B' stays when acquire() blocks
            else { sem->release(); res += 'r'; }
        }
    }, true, "semw", kStack);
    l2->runLoop(Loop::Mode::kOnce);
    bool nz = sem->count();
    sch2->cleanup();        // a blocked acquire() returns false
    std::cout << "P semw " << res << " nz=" << (nz ? 1 : 0) << "\n";
}

// watchdog: a lost "cancel makes every blocking call return" turns cleanup() into an endless loop that
// also grows the waiter queues; the case is then reported as CRASH exit:96 instead of eating the machine
// The limit is CPU time of the case's process (ITIMER_PROF): an endless cleanup() spins, and a loaded machine must not
// turn a healthy case into a timeout; a generous wall-clock alarm stays as a backstop for a sleeping hang.
static unsigned kCaseSeconds = 4;   // C18_WATCHDOG overrides (the valgrind run uses a longer one)
static void on_alarm(int) { static const char m[] = "C18 harness watchdog: case did not finish\n"; (void)!write(2, m, sizeof(m) - 1); _exit(96); }

static void run_case(const std::string &header) {
    signal(SIGALRM, on_alarm);
    signal(SIGPROF, on_alarm);
    signal(SIGABRT, on_abort);
    struct itimerval itv; memset(&itv, 0, sizeof(itv)); itv.it_value.tv_sec = kCaseSeconds;
    setitimer(ITIMER_PROF, &itv, nullptr);
    alarm(kCaseSeconds * 60);
    std::cout << header << "\n";
    std::cout.flush();      // a crash of this child must be attributed to this case
    Loop *loop = Loop::New("epoll");
    int pfd[2];
    if (pipe(pfd) != 0) _exit(2);
    if (write(pfd[1], "x", 1) != 1) _exit(2);      // never read: the fd stays readable, one callback per loop iteration
    FdEvent *ev = loop->newFdEvent("verif-driver");
    ev->initialize(pfd[0], FdEvent::kReadEvent, Event::Mode::kPersist);
    W = new World(loop);
    ev->setCallback([&](short) {
        if (g_pending) { std::cout << summary() << "\n"; g_pending = false; }
        for (;;) {
            if (g_pos >= g_lines.size()) {
                // end of the case: cleanup() must terminate from every final state (watchdog); nothing is printed
                mute = true; do_cleanup();
                ev->disable();
                loop->exitLoop();
                return;
            }
            const std::string &line = g_lines[g_pos++];
            auto w = vh::words(line);
            if (w.empty()) continue;
            uint64_t a, b;
            g_pending = true;       // from here on an abort() belongs to this line
            if (w[0] == "def" && w.size() == 3 && num(w[1], a, 2)) {
                auto sc = std::make_shared<Script>();
                sc->xfail = a == 1;
                if (W->defs.size() >= 32 || !parse_script(w[2], *sc, W->defs.size())) { std::cout << "bad-op\n"; g_pending = false; continue; }
                W->defs.push_back(sc);
            } else if (w[0] == "defr" && w.size() == 2) {
                auto sc = std::make_shared<Script>();
                sc->xfail = false; sc->raii = true;
                if (W->defs.size() >= 32 || !parse_script(w[1], *sc, W->defs.size())) { std::cout << "bad-op\n"; g_pending = false; continue; }
                W->defs.push_back(sc);
            } else if (w[0] == "new" && w.size() == 3 && num(w[1], a, W->defs.size()) && num(w[2], b, 2)) {
                create_routine(W, a, b == 1);
            } else if (w[0] == "resume" && w.size() == 2 && num(w[1], a, W->toks.size())) {
                W->sch.resume(tok_of(a));
            } else if (w[0] == "cancel" && w.size() == 2 && num(w[1], a, W->toks.size())) {
                W->sch.cancel(tok_of(a));
            } else if (w[0] == "cleanup" && w.size() == 1) {
                do_cleanup();
            } else if (w[0] == "pass" && w.size() == 1) {
            } else if (w[0] == "stack" && w.size() == 2 && num(w[1], a, 1025) && (a == 64 || a == 128 || a == 256 || a == 1024)) {
                W->stack = (size_t)a * 1024;
            } else if (w[0] == "stackb" && w.size() == 2 && num(w[1], a, 1000000)) {
                W->stack = (size_t)a;       // from 0: Routine::Routine clamps to ROUTINE_STACK_MIN_SIZE (patches/C18-08)
            } else if (w[0] == "semw" && w.size() == 3) {
                const std::string &t = w[1];
                std::string ds = t.size() && t[0] == '-' ? t.substr(1) : t;
                bool ok = !ds.empty() && ds.size() <= 10 && ds.find_first_not_of("0123456789") == std::string::npos &&
                          !(ds.size() > 1 && ds[0] == '0') && !(t[0] == '-' && ds == "0") &&
                          !w[2].empty() && w[2].size() <= 64 && w[2].find_first_not_of("av") == std::string::npos;
                long long v = ok ? atoll(t.c_str()) : 0;
                if (!ok || v < -2147483648LL || v > 2147483647LL) { std::cout << "bad-op\n"; g_pending = false; continue; }
                semw(v, w[2]);
            } else if (w[0] == "main" && w.size() == 2) {
                SOp o;
                if (!parse_sop(w[1], o, W->defs.size()) || !strchr("ywsrluavpbcj", o.kind)) { std::cout << "bad-op\n"; g_pending = false; continue; }
                main_call(o);
            } else { std::cout << "bad-op\n"; g_pending = false; continue; }
            return;     // the loop now runs the queued schedule() tasks; the summary follows
        }
    });
    ev->enable();
    loop->runLoop(Loop::Mode::kForever);
    std::cout.flush();
    _exit(0);       // the world is leaked on purpose: the loop still holds schedule() tasks bound to the scheduler
}

int main() {
    struct rlimit rl = { 3ull << 30, 3ull << 30 };
    setrlimit(RLIMIT_AS, &rl);
    if (const char *e = getenv("C18_WATCHDOG")) { int v = atoi(e); if (v > 0) kCaseSeconds = (unsigned)v; }
    LogOutput_Disable();
    std::ios::sync_with_stdio(false);
    // the parent only dispatches: it reads the whole op file and runs every case in a child of its own
    std::vector<std::pair<std::string, std::vector<std::string>>> cases;
    std::string line;
    while (std::getline(std::cin, line)) {
        auto w = vh::words(line);
        if (!w.empty() && w[0] == "case") cases.emplace_back(line, std::vector<std::string>());
        else if (!cases.empty()) cases.back().second.push_back(line);
    }
    for (auto &c : cases) {
        pid_t pid = fork();
        if (pid < 0) return 3;
        if (pid == 0) { g_lines = c.second; g_pos = 0; run_case(c.first); }
        int st = 0;
        if (waitpid(pid, &st, 0) != pid) return 3;
        if (WIFSIGNALED(st)) { signal(WTERMSIG(st), SIG_DFL); raise(WTERMSIG(st)); return 4; }
        if (!WIFEXITED(st) || WEXITSTATUS(st) != 0) return WIFEXITED(st) ? WEXITSTATUS(st) : 4;
    }
    return 0;
}
