// C18 harness: real tbox::coroutine::Scheduler on the real epoll loop; routine scripts are
// interpreted INSIDE real ucontext routines on the real Channel / Mutex / Semaphore / Broadcast /
// Condition.  One op line per loop iteration: an always-readable pipe makes the loop call the
// driver callback once per iteration, *before* handleNextFunc() runs the queued
// Scheduler::schedule tasks of that iteration — exactly the "main-context op, then one loop
// pass" step of the model (lean/TboxModel/C18/Model.lean, `step`).
// Output format matches lean/Driver/C18.lean.
#include "vh.h"
#include <unistd.h>
#include <signal.h>
#include <sys/resource.h>
#include <memory>
#include <tbox/event/loop.h>
#include <tbox/event/fd_event.h>
#include <tbox/base/log_output.h>
#include <tbox/coroutine/scheduler.h>
#include <tbox/coroutine/channel.hpp>
#include <tbox/coroutine/mutex.hpp>
#include <tbox/coroutine/semaphore.hpp>
#include <tbox/coroutine/broadcast.hpp>
#include <tbox/coroutine/condition.hpp>

using namespace tbox::coroutine;
using namespace tbox::event;

static const size_t kPrims = 4;
static const size_t kStack = 256 * 1024;

struct SOp { std::string text; char kind; char sub; uint64_t a, b; };
struct Script { bool xfail; std::vector<SOp> ops; };

struct RInfo { bool begun = false, finished = false; unsigned done = 0; };

struct World {
    Scheduler sch;
    std::vector<std::unique_ptr<Channel<int>>> ch;
    std::vector<std::unique_ptr<Mutex>> mx;
    std::vector<std::unique_ptr<Semaphore>> sm;
    std::vector<std::unique_ptr<Broadcast>> bc;
    std::vector<std::unique_ptr<Condition<int>>> cd;
    std::vector<std::shared_ptr<Script>> defs;
    std::vector<RoutineToken> toks;
    std::vector<RInfo> info;
    bool in_cleanup = false;
    explicit World(Loop *l) : sch(l) {
        for (size_t i = 0; i < kPrims; ++i) {
            ch.emplace_back(new Channel<int>(sch));
            mx.emplace_back(new Mutex(sch));
            sm.emplace_back(new Semaphore(sch, (int)i));
            bc.emplace_back(new Broadcast(sch));
            cd.emplace_back(new Condition<int>(sch, i % 2 == 0 ? Condition<int>::Logic::kAll : Condition<int>::Logic::kAny));
        }
    }
};

static World *W = nullptr;
static std::vector<World*> graveyard;   // schedulers stay alive: the loop still holds schedule() tasks bound to them
static bool mute = false;

static RoutineToken tok_of(uint64_t r) { return r < W->toks.size() ? W->toks[r] : RoutineToken(); }

static bool create_routine(World *w, size_t d, bool now);

// runs inside the routine
static void interpret(World *w, size_t self, std::shared_ptr<Script> sc, Scheduler &sch) {
    w->info[self].begun = true;
    for (const SOp &o : sc->ops) {
        std::string res = "ok";
        bool failed = false;
        auto fail_if = [&](bool ok) { if (!ok) { res = "fail"; failed = true; } };
        switch (o.kind) {
            case 'y': sch.yield(); break;
            case 'w': sch.wait(); break;
            case 's': *w->ch[o.a] << (int)o.b; break;
            case 'r': { int v = -1; bool ok = (*w->ch[o.a] >> v); if (ok) res = "v" + std::to_string(v); else fail_if(false); } break;
            case 'l': fail_if(w->mx[o.a]->lock()); break;
            case 'u': w->mx[o.a]->unlock(); break;
            case 'a': fail_if(w->sm[o.a]->acquire()); break;
            case 'v': w->sm[o.a]->release(); break;
            case 'p': w->bc[o.a]->post(); break;
            case 'b': fail_if(w->bc[o.a]->wait()); break;
            case 'c':
                if (o.sub == 'a') w->cd[o.a]->add((int)o.b);
                else if (o.sub == 'w') fail_if(w->cd[o.a]->wait());
                else w->cd[o.a]->post((int)o.b);
                break;
            case 'j': fail_if(sch.join(o.a < w->toks.size() ? w->toks[o.a] : RoutineToken())); break;
            case 'n': case 'N':
                // Scheduler::create() refuses (null token) while cleanup() is running (patches/C18-04)
                fail_if(create_routine(w, o.a, o.kind == 'n'));
                break;
            case 'x': fail_if(sch.cancel(o.a < w->toks.size() ? w->toks[o.a] : RoutineToken())); break;
            case 'e': w->info[self].finished = true; return;
        }
        w->info[self].done++;
        if (!mute)
            std::cout << "P e r=" << self << " " << o.text << " " << res << " c=" << (sch.isCanceled() ? 1 : 0) << "\n";
        if (failed && sc->xfail) break;
    }
    w->info[self].finished = true;
}

static bool create_routine(World *w, size_t d, bool now) {
    size_t idx = w->toks.size();
    std::shared_ptr<Script> sc = w->defs[d];
    w->info.emplace_back();
    w->toks.push_back(RoutineToken());
    RoutineToken t = w->sch.create([w, idx, sc](Scheduler &s) { interpret(w, idx, sc, s); }, now, "r", kStack);
    if (t.isNull()) {   // refused: no routine exists, the index is not used
        w->info.pop_back(); w->toks.pop_back();
        return false;
    }
    w->toks[idx] = t;
    return true;
}

static bool num(const std::string &s, uint64_t &v, uint64_t lim) { return vh::to_u64(s, v) && s.size() <= 6 && v < lim; }

static bool parse_sop1(const std::string &t, SOp &o, size_t ndefs);
static bool parse_sop(const std::string &t, SOp &o, size_t ndefs) {
    if (!parse_sop1(t, o, ndefs)) return false;
    // canonical text (numbers without leading zeros), as the model prints it
    std::string k(1, o.kind);
    switch (o.kind) {
        case 'y': case 'w': case 'e': o.text = k; break;
        case 's': o.text = k + std::to_string(o.a) + ":" + std::to_string(o.b); break;
        case 'c': o.text = k + std::string(1, o.sub) + std::to_string(o.a) + (o.sub == 'w' ? "" : ":" + std::to_string(o.b)); break;
        default: o.text = k + std::to_string(o.a);
    }
    return true;
}
static bool parse_sop1(const std::string &t, SOp &o, size_t ndefs) {
    o.text = t; o.a = o.b = 0; o.sub = 0;
    if (t.empty()) return false;
    o.kind = t[0];
    std::string rest = t.substr(1);
    auto two = [&](const std::string &r) {
        size_t p = r.find(':');
        return p != std::string::npos && num(r.substr(0, p), o.a, kPrims) && num(r.substr(p + 1), o.b, 1000);
    };
    switch (o.kind) {
        case 'y': case 'w': case 'e': return rest.empty();
        case 's': return two(rest);
        case 'r': case 'l': case 'u': case 'a': case 'v': case 'p': case 'b': return num(rest, o.a, kPrims);
        case 'c':
            if (rest.empty()) return false;
            o.sub = rest[0];
            if (o.sub == 'w') return num(rest.substr(1), o.a, kPrims);
            if (o.sub == 'a' || o.sub == 'p') return two(rest.substr(1));
            return false;
        case 'j': case 'x': return num(rest, o.a, 64);
        case 'n': case 'N': return num(rest, o.a, ndefs);
    }
    return false;
}

static bool parse_script(const std::string &w, Script &sc, size_t ndefs) {
    sc.ops.clear();
    if (w == "-") return true;
    if (!w.empty() && w.back() == ',') return false;
    std::stringstream ss(w); std::string item;
    while (std::getline(ss, item, ',')) {
        SOp o; if (!parse_sop(item, o, ndefs)) return false;
        sc.ops.push_back(o);
    }
    return true;
}

static std::string summary() {
    std::string s = "P st=";
    if (W->info.empty()) s += "-";
    for (size_t i = 0; i < W->info.size(); ++i) {
        if (i) s += ",";
        const RInfo &r = W->info[i];
        s += !r.begun ? "u" : (r.finished ? "d" : std::to_string(r.done));
    }
    s += " ch=";
    for (size_t i = 0; i < kPrims; ++i) s += W->ch[i]->empty() ? "1" : "0";
    s += " sm=";
    for (size_t i = 0; i < kPrims; ++i) s += W->sm[i]->count() ? "1" : "0";
    return s;
}

static void do_cleanup() {
    W->in_cleanup = true;
    W->sch.cleanup();
    W->in_cleanup = false;
}

static void new_world(Loop *loop) {
    if (W) {
        mute = true; do_cleanup(); mute = false;
        graveyard.push_back(W);
    }
    W = new World(loop);
}

// watchdog: a lost "cancel makes every blocking call return" turns cleanup() into an endless loop that
// also grows the waiter queues; the case is then reported as CRASH exit:96 instead of eating the machine
static unsigned kCaseSeconds = 2;   // C18_WATCHDOG overrides (the valgrind run uses a longer one)
static void on_alarm(int) { static const char m[] = "C18 harness watchdog: case did not finish\n"; (void)!write(2, m, sizeof(m) - 1); _exit(96); }

int main() {
    struct rlimit rl = { 3ull << 30, 3ull << 30 };
    setrlimit(RLIMIT_AS, &rl);
    if (const char *e = getenv("C18_WATCHDOG")) { int v = atoi(e); if (v > 0) kCaseSeconds = (unsigned)v; }
    signal(SIGALRM, on_alarm);
    alarm(kCaseSeconds);
    LogOutput_Disable();
    std::ios::sync_with_stdio(false);
    Loop *loop = Loop::New("epoll");
    int pfd[2];
    if (pipe(pfd) != 0) return 2;
    if (write(pfd[1], "x", 1) != 1) return 2;      // never read: the fd stays readable, one callback per loop iteration
    FdEvent *ev = loop->newFdEvent("verif-driver");
    ev->initialize(pfd[0], FdEvent::kReadEvent, Event::Mode::kPersist);
    new_world(loop);
    bool pending = false;
    ev->setCallback([&](short) {
        if (pending) { std::cout << summary() << "\n"; pending = false; }
        std::string line;
        for (;;) {
            if (!std::getline(std::cin, line)) {
                mute = true; do_cleanup(); mute = false;
                ev->disable();
                loop->exitLoop();
                return;
            }
            auto w = vh::words(line);
            if (w.empty()) continue;
            if (w[0] == "case") { std::cout.flush(); alarm(kCaseSeconds); new_world(loop); std::cout << line << "\n"; std::cout.flush(); continue; }
            uint64_t a, b;
            if (w[0] == "def" && w.size() == 3 && num(w[1], a, 2)) {
                auto sc = std::make_shared<Script>();
                sc->xfail = a == 1;
                if (W->defs.size() >= 32 || !parse_script(w[2], *sc, W->defs.size())) { std::cout << "bad-op\n"; continue; }
                W->defs.push_back(sc);
            } else if (w[0] == "new" && w.size() == 3 && num(w[1], a, W->defs.size()) && num(w[2], b, 2)) {
                create_routine(W, a, b == 1);
            } else if (w[0] == "resume" && w.size() == 2 && num(w[1], a, W->toks.size())) {
                W->sch.resume(tok_of(a));
            } else if (w[0] == "cancel" && w.size() == 2 && num(w[1], a, W->toks.size())) {
                W->sch.cancel(tok_of(a));
            } else if (w[0] == "cleanup" && w.size() == 1) {
                do_cleanup();
            } else if (w[0] == "pass" && w.size() == 1) {
            } else { std::cout << "bad-op\n"; continue; }
            pending = true;     // the loop now runs the queued schedule() tasks; the summary follows
            return;
        }
    });
    ev->enable();
    loop->runLoop(Loop::Mode::kForever);
    std::cout.flush();
    _exit(0);       // worlds are leaked on purpose (see graveyard)
}
